// arith subject: calls the compiled arithmetic helpers of the library on boundary inputs and prints
// `arith <fn> <args> => <result>` lines; the Lean driver evaluates the *translated* definitions on the same lines.
// build: -fno-access-control (private statics)
#include <cstdio>
#include <cstdint>
#include <cstdlib>
#include <string>
#include <utility>
#include <vector>
#include <new>
#include "detail/align.hpp"
#include "detail/ilog2.hpp"
#include "detail/free_list.hpp"
#include "detail/small_free_list.hpp"
#include "detail/free_list_array.hpp"
#include "memory_arena.hpp"

using namespace foonathan::memory;
using namespace foonathan::memory::detail;
typedef unsigned long long ull;

static std::vector<ull> boundary()
{
    std::vector<ull> v;
    for (int k = 0; k < 64; ++k)
        for (int d = -2; d <= 2; ++d)
            v.push_back((1ull << k) + (ull)(long long)d);
    for (ull x = 0; x < 40; ++x)
        v.push_back(x), v.push_back(~0ull - x);
    v.push_back(255), v.push_back(510), v.push_back(765), v.push_back(1000), v.push_back(4096 - 16);
    return v;
}

static ull rng_state = 88172645463325252ull;
static ull rnd()
{
    rng_state ^= rng_state << 13;
    rng_state ^= rng_state >> 7;
    rng_state ^= rng_state << 17;
    return rng_state;
}

template <class List, class Policy>
static void buckets(int pol, ull min_elem, ull max_node, bool thorough)
{
    alignas(16) static char buffer[1 << 20];
    fixed_memory_stack stack(buffer);
    free_list_array<List, Policy> arr(stack, buffer + sizeof(buffer), max_node);
    for (ull s = 1; s <= max_node; s += (thorough || s < 70 ? 1 : 7))
    {
        auto& l = arr.get(s);
        std::printf("arith bucket_node_size %d %llu %llu => %llu\n", pol, min_elem, s, (ull)l.node_size());
        std::printf("arith bucket_rel_index %d %llu %llu => %llu\n", pol, min_elem, s, (ull)(&l - arr.array_));
    }
}

// The functions defined in the library's .cpp files, called BEFORE main from the constructor of a namespace-scope object of this
// translation unit (it is linked in front of the library archive, so its initialiser runs before the library's): a pure function
// answers the same at any time. The answers are printed as ordinary `arith` lines, i.e. compared with the translated definitions.
struct EarlyCalls
{
    std::vector<std::pair<std::string, ull>> lines;
    EarlyCalls()
    {
        static const ull xs[] = {1, 2, 3, 4, 6, 8, 12, 16, 24, 32, 40, 48, 64, 96, 100, 255, 256, 4096, 1ull << 40};
        for (ull x : xs)
        {
            lines.push_back({"arith alignment_for " + std::to_string(x), (ull)alignment_for(x)});
            lines.push_back({"arith log2_index_from_size " + std::to_string(x), (ull)log2_access_policy::index_from_size(x)});
            if (x < 64)
                lines.push_back({"arith log2_size_from_index " + std::to_string(x), (ull)log2_access_policy::size_from_index(x)});
            lines.push_back({"arith identity_index_from_size " + std::to_string(x), (ull)identity_access_policy::index_from_size(x)});
            lines.push_back({"arith small_chunk_count " + std::to_string(x), (ull)small_free_memory_list::chunk_count(x)});
            if (x <= 256)
            {
                lines.push_back({"arith free_min_block_size " + std::to_string(x) + " 7", (ull)free_memory_list::min_block_size(x, 7)});
                lines.push_back({"arith ordered_min_block_size " + std::to_string(x) + " 7", (ull)ordered_free_memory_list::min_block_size(x, 7)});
                lines.push_back({"arith small_min_block_size " + std::to_string(x) + " 300", (ull)small_free_memory_list::min_block_size(x, 300)});
            }
        }
    }
};
static EarlyCalls early_calls;

int main(int argc, char** argv)
{
    for (auto& l : early_calls.lines)
        std::printf("%s => %llu\n", l.first.c_str(), l.second);
    bool thorough = argc > 1 && std::atoi(argv[1]) > 0;
    if (argc > 2)
        rng_state ^= std::strtoull(argv[2], nullptr, 10) * 0x9E3779B97F4A7C15ull;
    auto B = boundary();
    int  nrand = thorough ? 4000 : 300;
    for (int i = 0; i < nrand; ++i)
        B.push_back(rnd() >> (rnd() % 64));
    std::vector<ull> aligns;
    for (int k = 0; k < 64; ++k)
        aligns.push_back(1ull << k);

    for (ull x : B)
    {
        std::printf("arith is_valid_alignment %llu => %d\n", x, (int)is_valid_alignment(x));
        std::printf("arith alignment_for %llu => %llu\n", x, (ull)alignment_for(x));
        std::printf("arith is_power_of_two %llu => %d\n", x, (int)is_power_of_two(x));
        if (x != 0)
        {
            std::printf("arith ilog2_base %llu => %llu\n", x, (ull)ilog2_base(x));
            std::printf("arith ilog2 %llu => %llu\n", x, (ull)ilog2(x));
            std::printf("arith ilog2_ceil %llu => %llu\n", x, (ull)ilog2_ceil(x));
            std::printf("arith log2_index_from_size %llu => %llu\n", x, (ull)log2_access_policy::index_from_size(x));
        }
        if (x < 64)
            std::printf("arith log2_size_from_index %llu => %llu\n", x, (ull)log2_access_policy::size_from_index(x));
        std::printf("arith identity_index_from_size %llu => %llu\n", x, (ull)identity_access_policy::index_from_size(x));
        std::printf("arith identity_size_from_index %llu => %llu\n", x, (ull)identity_access_policy::size_from_index(x));
        std::printf("arith small_chunk_count %llu => %llu\n", x, (ull)small_free_memory_list::chunk_count(x));
    }
    std::printf("arith implementation_offset => %llu\n", (ull)memory_block_stack::implementation_offset());
    size_t step = thorough ? 1 : 5;
    for (size_t i = 0; i < B.size(); i += step)
        for (ull a : aligns)
        {
            ull x = B[i];
            std::printf("arith round_up %llu %llu => %llu\n", x, a, (ull)round_up_to_multiple_of_alignment(x, a));
            std::printf("arith align_offset %llu %llu => %llu\n", x, a, (ull)align_offset((std::uintptr_t)x, a));
            std::printf("arith is_aligned %llu %llu => %d\n", x, a, (int)is_aligned((void*)x, a));
        }
    // complete small domain
    ull dom = thorough ? 4096 : 300;
    for (ull x = 0; x < dom; ++x)
        for (ull a = 1; a <= 4096; a <<= 1)
        {
            std::printf("arith round_up %llu %llu => %llu\n", x, a, (ull)round_up_to_multiple_of_alignment(x, a));
            std::printf("arith align_offset %llu %llu => %llu\n", x, a, (ull)align_offset((std::uintptr_t)x, a));
        }
    // two-argument size formulas
    ull nsmax = thorough ? 512 : 40, nmax = thorough ? 2000 : 600;
    for (ull ns = 1; ns <= nsmax; ns += (thorough ? 1 : 3))
        for (ull n = 1; n <= nmax; n += (thorough ? 7 : 37))
        {
            std::printf("arith free_min_block_size %llu %llu => %llu\n", ns, n, (ull)free_memory_list::min_block_size(ns, n));
            std::printf("arith ordered_min_block_size %llu %llu => %llu\n", ns, n, (ull)ordered_free_memory_list::min_block_size(ns, n));
            std::printf("arith small_min_block_size %llu %llu => %llu\n", ns, n, (ull)small_free_memory_list::min_block_size(ns, n));
        }
    for (ull ns : {1ull, 2ull, 3ull, 7ull, 8ull, 9ull, 16ull, 29ull, 64ull, 100ull, 255ull, 256ull, 1000ull})
    {
        free_memory_list         fl(ns);
        ordered_free_memory_list ol(ns);
        small_free_memory_list   sl(ns);
        for (size_t i = 0; i < B.size(); i += 3)
        {
            ull sz = B[i];
            std::printf("arith free_usable_size %llu %llu => %llu\n", (ull)fl.node_size(), sz, (ull)fl.usable_size(sz));
            std::printf("arith ordered_usable_size %llu %llu => %llu\n", (ull)ol.node_size(), sz, (ull)ol.usable_size(sz));
            std::printf("arith small_usable_size %llu %llu => %llu\n", (ull)sl.node_size(), sz, (ull)sl.usable_size(sz));
        }
    }
    for (size_t i = 0; i < B.size(); i += 2)
    {
        std::printf("arith grow_block_size 2 1 %llu => %llu\n", B[i], (ull)growing_block_allocator<>::grow_block_size(B[i]));
        std::printf("arith grow_block_size 3 2 %llu => %llu\n", B[i],
                    (ull)growing_block_allocator<default_allocator, 3, 2>::grow_block_size(B[i]));
    }
    // bucket selection on real free_list_arrays
    for (ull mx : {8ull, 9ull, 16ull, 100ull, 255ull, 256ull, 257ull, 1000ull, 4096ull})
    {
        buckets<free_memory_list, identity_access_policy>(0, 8, mx, thorough);
        buckets<ordered_free_memory_list, identity_access_policy>(0, 8, mx, thorough);
        buckets<free_memory_list, log2_access_policy>(1, 8, mx, thorough);
        buckets<ordered_free_memory_list, log2_access_policy>(1, 8, mx, thorough);
    }
    for (ull mx : {1ull, 2ull, 3ull, 8ull, 100ull, 255ull, 256ull, 1000ull})
    {
        buckets<small_free_memory_list, identity_access_policy>(0, 1, mx, thorough);
        buckets<small_free_memory_list, log2_access_policy>(1, 1, mx, thorough);
    }
    return 0;
}
