// C08 / C09: request routing through the composition classes, observed at instrumented leaf allocators
// usage: subj_compose <thorough 0|1> <seed>
// lines:
//   cmpexpr <prefix form of the composition>                         (echoed by the driver)
//   cmp <alloc|try_alloc|dealloc|try_dealloc> <arr 0|1> <count> <size> <align> [owner=<leaf>] | <answers> | <ok|null|throw|true|false> | <leaf calls> | <tracker events>
//   cmp std_alloc|std_dealloc <n> <sizeof T> <alignof T> ... , cmp mra_alloc|mra_dealloc <bytes> <align> <max_node_size> ...
// leaf call:  L<i>:<kind>:<node:size:align | arr:count:size:align>:<1|0>
#include <cstdio>
#include <cstring>
#include <memory>
#include <string>
#include <map>
#include <vector>
#include "proto.hpp"
#include "aligned_allocator.hpp"
#include "allocator_storage.hpp"
#include "fallback_allocator.hpp"
#include "heap_allocator.hpp"
#include "memory_pool.hpp"
#include "memory_stack.hpp"
#include "memory_resource_adapter.hpp"
#include "segregator.hpp"
#include "smart_ptr.hpp"
#include "static_allocator.hpp"
#include "std_allocator.hpp"
#include "threading.hpp"
#include "tracking.hpp"
#include <mutex>

using namespace foonathan::memory;
using namespace verif;

static std::vector<std::string> LEAFLOG, TRACKLOG, ANSWERS;
static std::vector<std::string> failures;
static long                     n_ops = 0, n_ok = 0, n_null = 0, n_throw = 0, n_dealloc = 0;
static void                     fail(const std::string& s)
{
    if (failures.size() < 20)
        failures.push_back(s);
}
static std::string join(const std::vector<std::string>& v)
{
    std::string s;
    for (auto& e : v)
        s += (s.empty() ? "" : " ") + e;
    return s;
}

//=== leaves: bump allocators over adjacent slices of one buffer ===//
constexpr std::size_t SLICE = 512 * 1024;
alignas(4096) static char BUFFER[3 * SLICE];
struct LeafState
{
    std::size_t limit = SLICE, top = 0;
    long        live = 0;
};
static LeafState LS[3];

struct Shape
{
    bool        arr;
    std::size_t count, size, align;
    std::string str() const
    {
        return arr ? fmt("arr:%zu:%zu:%zu", count, size, align) : fmt("node:%zu:%zu", size, align);
    }
    std::size_t bytes() const
    {
        return arr ? count * size : size;
    }
};
struct Served
{
    void* p;
    int   leaf;
    Shape shape;
};
static std::vector<Served> SERVED; // what each live pointer was served with (independent oracle)

static int leaf_of(const void* p)
{
    auto c = static_cast<const char*>(p);
    if (c < BUFFER || c >= BUFFER + 3 * SLICE)
        return -1;
    return int((c - BUFFER) / SLICE);
}

static void* leaf_alloc(int id, const char* kind, Shape sh)
{
    auto&       s = LS[id];
    std::size_t al = sh.align ? sh.align : 1;
    std::size_t start = (s.top + al - 1) / al * al;
    void*       p = nullptr;
    if (start + sh.bytes() <= s.limit)
    {
        p = BUFFER + id * SLICE + start;
        s.top = start + sh.bytes() + (sh.bytes() == 0);
        ++s.live;
        SERVED.push_back({p, id, sh});
    }
    LEAFLOG.push_back(fmt("L%d:%s:%s:%d", id, kind, sh.str().c_str(), p ? 1 : 0));
    ANSWERS.push_back(p ? "1" : "0");
    return p;
}
static bool leaf_dealloc(int id, const char* kind, void* p, Shape sh, bool composable)
{
    bool own = leaf_of(p) == id;
    LEAFLOG.push_back(fmt("L%d:%s:%s:%d", id, kind, sh.str().c_str(), (own || !composable) ? 1 : 0));
    if (!own)
    {
        if (!composable)
            fail(fmt("leaf %d received a plain deallocate for memory of leaf %d", id, leaf_of(p)));
        return false;
    }
    for (std::size_t i = 0; i < SERVED.size(); ++i)
        if (SERVED[i].p == p)
        {
            auto& a = SERVED[i].shape;
            if (a.arr != sh.arr || a.count != sh.count || a.size != sh.size || a.align != sh.align)
                fail(fmt("leaf %d served %s but is asked to release it as %s", id, a.str().c_str(), sh.str().c_str()));
            SERVED.erase(SERVED.begin() + long(i));
            auto& s = LS[id];
            if (--s.live == 0)
                s.top = 0; // empty again
            return true;
        }
    fail(fmt("leaf %d asked to release a pointer that is not live (double release?)", id));
    return false;
}

template <int ID, bool HasArray>
struct Leaf;
template <int ID>
struct LeafBase
{
    using is_stateful = std::true_type;
    int tag = ID; // (stateful: the object identity does not matter, the state is LS[ID])
    void* allocate_node(std::size_t size, std::size_t align)
    {
        void* p = leaf_alloc(ID, "alloc", {false, 1, size, align});
        if (!p)
            throw out_of_fixed_memory(allocator_info("verif::Leaf", this), size);
        return p;
    }
    void deallocate_node(void* p, std::size_t size, std::size_t align) noexcept
    {
        leaf_dealloc(ID, "dealloc", p, {false, 1, size, align}, false);
    }
    void* try_allocate_node(std::size_t size, std::size_t align) noexcept
    {
        return leaf_alloc(ID, "try_alloc", {false, 1, size, align});
    }
    bool try_deallocate_node(void* p, std::size_t size, std::size_t align) noexcept
    {
        return leaf_dealloc(ID, "try_dealloc", p, {false, 1, size, align}, true);
    }
    // small on purpose: user requests lie on both sides of it (the leaves themselves do not enforce it); different per leaf so
    // that the figures a composition reports (C18, `cmp maxima`) say which part they come from (Lean: `harnessLeafMaxima`)
    std::size_t max_node_size() const noexcept
    {
        return 48 + 16 * ID;
    }
    std::size_t max_alignment() const noexcept
    {
        return std::size_t(4096) >> ID;
    }
};
template <int ID>
struct Leaf<ID, false> : LeafBase<ID>
{
};
template <int ID>
struct Leaf<ID, true> : LeafBase<ID>
{
    void* allocate_array(std::size_t count, std::size_t size, std::size_t align)
    {
        void* p = leaf_alloc(ID, "alloc", {true, count, size, align});
        if (!p)
            throw out_of_fixed_memory(allocator_info("verif::Leaf", this), count * size);
        return p;
    }
    void deallocate_array(void* p, std::size_t count, std::size_t size, std::size_t align) noexcept
    {
        leaf_dealloc(ID, "dealloc", p, {true, count, size, align}, false);
    }
    void* try_allocate_array(std::size_t count, std::size_t size, std::size_t align) noexcept
    {
        return leaf_alloc(ID, "try_alloc", {true, count, size, align});
    }
    bool try_deallocate_array(void* p, std::size_t count, std::size_t size, std::size_t align) noexcept
    {
        return leaf_dealloc(ID, "try_dealloc", p, {true, count, size, align}, true);
    }
    std::size_t max_array_size() const noexcept
    {
        return 200000 + 1000 * ID;
    }
};

//=== tracker ===//
// the trackers' own ledger (C09 "trackers see every successful operation exactly once"): how many allocation notifications
// for a pointer have not been matched by a deallocation notification yet, with the shape they carried; a deallocation
// notification for memory the trackers never saw allocated means a tracker was told about an operation that did not happen
// on its allocator (nested trackers over the same allocator both see every pointer: hence counts)
static std::map<void*, std::vector<std::string>> TRACKLIVE;
static bool                                      TRACK_ORACLE = true; // off inside the reproducer of the recorded finding D24
static void track_alloc(void* p, const std::string& shape)
{
    if (TRACK_ORACLE)
        TRACKLIVE[p].push_back(shape);
}
static void track_dealloc(void* p, const std::string& shape)
{
    if (!TRACK_ORACLE)
        return;
    auto it = TRACKLIVE.find(p);
    if (it == TRACKLIVE.end() || it->second.empty())
    {
        if (failures.size() < 20)
            failures.push_back("tracker notified of a deallocation (" + shape + ") of memory no tracker saw allocated: the operation did not happen on its allocator");
        return;
    }
    if (it->second.back() != shape && failures.size() < 20)
        failures.push_back("tracker saw the allocation as " + it->second.back() + " and the deallocation as " + shape);
    it->second.pop_back();
    if (it->second.empty())
        TRACKLIVE.erase(it);
}
struct Tracker
{
    void on_node_allocation(void* p, std::size_t size, std::size_t align) noexcept
    {
        TRACKLOG.push_back(fmt("on_alloc:node:%zu:%zu", size, align));
        track_alloc(p, fmt("node:%zu:%zu", size, align));
    }
    void on_array_allocation(void* p, std::size_t count, std::size_t size, std::size_t align) noexcept
    {
        TRACKLOG.push_back(fmt("on_alloc:arr:%zu:%zu:%zu", count, size, align));
        track_alloc(p, fmt("arr:%zu:%zu:%zu", count, size, align));
    }
    void on_node_deallocation(void* p, std::size_t size, std::size_t align) noexcept
    {
        TRACKLOG.push_back(fmt("on_dealloc:node:%zu:%zu", size, align));
        track_dealloc(p, fmt("node:%zu:%zu", size, align));
    }
    void on_array_deallocation(void* p, std::size_t count, std::size_t size, std::size_t align) noexcept
    {
        TRACKLOG.push_back(fmt("on_dealloc:arr:%zu:%zu:%zu", count, size, align));
        track_dealloc(p, fmt("arr:%zu:%zu:%zu", count, size, align));
    }
};

//=== driving one composition ===//
struct LiveUser
{
    void* p;
    Shape user; // user-level parameters
    int   owner;
    Shape leaf; // what the leaf was asked for (oracle)
};

static void begin_op()
{
    LEAFLOG.clear();
    TRACKLOG.clear();
    ANSWERS.clear();
}
static void emit(const std::string& op, const std::string& res)
{
    std::printf("%s | %s | %s | %s | %s\n", op.c_str(), join(ANSWERS).c_str(), res.c_str(), join(LEAFLOG).c_str(), join(TRACKLOG).c_str());
    ++n_ops;
}

// independent oracle after an allocation through a composition
static void check_alloc(void* p, const Shape& user, const std::string& what)
{
    if (!p)
        return;
    int served = 0;
    for (auto& c : LEAFLOG)
        if (c.back() == '1' && c.find("alloc") != std::string::npos)
            ++served;
    if (served != 1)
        fail(what + fmt(": %d leaf requests were served for one allocation", served));
    for (auto& s : SERVED)
        if (s.p == p)
        {
            if (s.shape.bytes() < user.bytes())
                fail(what + fmt(": leaf asked for %zu bytes, user requested %zu", s.shape.bytes(), user.bytes()));
            if (s.shape.align < user.align)
                fail(what + fmt(": leaf asked for alignment %zu, user requested %zu", s.shape.align, user.align));
            return;
        }
    fail(what + ": returned pointer is not the one a leaf served");
}

template <bool composable, class C>
static void drive(C& c, const char* expr, Rng& g, long nops)
{
    using Tr = allocator_traits<C>;
    std::printf("cmpexpr %s\n", expr);
    // C18: the maxima the composition reports through allocator_traits (fallback: the larger figure of its parts; wrappers and
    // storages forward; leaves without array members: the traits' defaults)
    begin_op();
    emit("cmp maxima", fmt("node=%zu array=%zu align=%zu", Tr::max_node_size(c), Tr::max_array_size(c), Tr::max_alignment(c)));
    LS[0] = LeafState{};
    LS[1] = LeafState{};
    LS[2] = LeafState{};
    LS[0].limit = 160; // the default runs full quickly ...
    LS[1].limit = 2048;
    SERVED.clear();
    std::vector<LiveUser> live;
    static const std::size_t sizes[] = {1, 2, 3, 8, 12, 16, 24, 31, 32, 33, 40, 64, 100, 1000};
    for (long i = 0; i < nops; ++i)
    {
        unsigned k = g.below(100);
        bool     drain = (i / 25) % 3 == 2; // ... and runs empty again
        if (drain && !live.empty())
            k = 60 + g.below(40);
        if (k < 55 || live.empty())
        {
            Shape u;
            u.arr = g.chance(45);
            u.count = u.arr ? (std::size_t[]){1, 2, 3, 7}[g.below(4)] : 1;
            u.size = sizes[g.below(14)];
            u.align = std::size_t(1) << g.below(5);
            bool  tr = composable && g.chance(40);
            void* p = nullptr;
            begin_op();
            std::string res;
            if constexpr (composable)
            {
                if (tr)
                {
                    using CTr = composable_allocator_traits<C>;
                    p = u.arr ? CTr::try_allocate_array(c, u.count, u.size, u.align) : CTr::try_allocate_node(c, u.size, u.align);
                    res = p ? "ok" : "null";
                }
            }
            if (!tr)
            {
                try
                {
                    p = u.arr ? Tr::allocate_array(c, u.count, u.size, u.align) : Tr::allocate_node(c, u.size, u.align);
                    res = "ok";
                }
                catch (out_of_memory&)
                {
                    res = "throw";
                }
            }
            std::string op = fmt("cmp %s %d %zu %zu %zu", tr ? "try_alloc" : "alloc", (int)u.arr, u.count, u.size, u.align);
            check_alloc(p, u, op);
            if (p)
            {
                LiveUser l{p, u, leaf_of(p), Shape{}};
                for (auto& s : SERVED)
                    if (s.p == p)
                        l.leaf = s.shape;
                live.push_back(l);
                ++n_ok;
            }
            else if (res == "null")
                ++n_null;
            else
                ++n_throw;
            emit(op, res);
        }
        else
        {
            std::size_t q = g.below(live.size());
            LiveUser    l = live[q];
            live.erase(live.begin() + long(q));
            bool        tr = composable && g.chance(40);
            std::size_t served_before = SERVED.size();
            begin_op();
            std::string res = "done";
            if constexpr (composable)
            {
                if (tr)
                {
                    using CTr = composable_allocator_traits<C>;
                    bool ok = l.user.arr ? CTr::try_deallocate_array(c, l.p, l.user.count, l.user.size, l.user.align)
                                         : CTr::try_deallocate_node(c, l.p, l.user.size, l.user.align);
                    res = ok ? "true" : "false";
                    if (!ok)
                        fail("try_deallocate refused memory the composition handed out");
                }
            }
            if (tr)
                ;
            else if (l.user.arr)
                Tr::deallocate_array(c, l.p, l.user.count, l.user.size, l.user.align);
            else
                Tr::deallocate_node(c, l.p, l.user.size, l.user.align);
            if (SERVED.size() + 1 != served_before)
                fail(fmt("release through %s did not release exactly one leaf allocation", expr));
            ++n_dealloc;
            emit(fmt("cmp %s %d %zu %zu %zu owner=%d", tr ? "try_dealloc" : "dealloc", (int)l.user.arr, l.user.count, l.user.size, l.user.align,
                     l.owner),
                 res);
        }
    }
    while (!live.empty())
    {
        LiveUser l = live.back();
        live.pop_back();
        begin_op();
        if (l.user.arr)
            Tr::deallocate_array(c, l.p, l.user.count, l.user.size, l.user.align);
        else
            Tr::deallocate_node(c, l.p, l.user.size, l.user.align);
        emit(fmt("cmp dealloc %d %zu %zu %zu owner=%d", (int)l.user.arr, l.user.count, l.user.size, l.user.align, l.owner), "done");
    }
    if (!SERVED.empty())
        fail(fmt("%s: %zu leaf allocations never released", expr, SERVED.size()));
}

//=== front ends: std_allocator, memory_resource_adapter, deleters ===//
template <std::size_t S, std::size_t A>
struct alignas(A) T_
{
    char pad[S];
};
struct Base
{
    virtual ~Base() {}
    long x;
};
struct Huge : Base
{
    char big[70000];
};
// a base without alignment needs and a derived type with more than the base's: the deleters that erase the derived type
// must release with the derived type's size AND alignment
struct SmallBase
{
    char tag;
};
struct alignas(32) Wide : SmallBase
{
    double d[3];
};

template <class T, class C>
static void std_case(C& c, std::size_t n)
{
    std_allocator<T, C> a(c);
    begin_op();
    T* p = nullptr;
    try
    {
        p = a.allocate(n);
    }
    catch (out_of_memory&)
    {
    }
    emit(fmt("cmp std_alloc %zu %zu %zu", n, sizeof(T), alignof(T)), p ? "ok" : "throw");
    if (p)
    {
        check_alloc(p, Shape{n != 1, n, sizeof(T), alignof(T)}, "std_allocator::allocate");
        int owner = leaf_of(p);
        begin_op();
        a.deallocate(p, n);
        emit(fmt("cmp std_dealloc %zu %zu %zu owner=%d", n, sizeof(T), alignof(T), owner), "done");
    }
}

template <bool smart, class C>
static void front_ends(C& c, const char* expr)
{
    std::printf("cmpexpr %s\n", expr);
    LS[0] = LeafState{};
    LS[1] = LeafState{};
    LS[2] = LeafState{};
    SERVED.clear();
    for (std::size_t n : {std::size_t(1), std::size_t(2), std::size_t(5), std::size_t(0)})
    {
        std_case<char>(c, n);
        std_case<long>(c, n);
        std_case<T_<24, 8>>(c, n);
        std_case<T_<48, 16>>(c, n);
        std_case<T_<4096, 8>>(c, n);
        std_case<T_<70000, 8>>(c, n);
    }
    // smart pointers and deleters: the release repeats sizeof/alignof of the type the memory was obtained for
    if constexpr (smart)
    {
    {
        begin_op();
        auto p = allocate_unique<T_<24, 8>>(c);
        emit(fmt("cmp alloc 0 1 %zu %zu", sizeof(T_<24, 8>), alignof(T_<24, 8>)), "ok");
        int owner = leaf_of(p.get());
        begin_op();
        p.reset();
        emit(fmt("cmp dealloc 0 1 %zu %zu owner=%d", sizeof(T_<24, 8>), alignof(T_<24, 8>), owner), "done");
    }
    for (std::size_t n : {std::size_t(5), std::size_t(1), std::size_t(0), std::size_t(7)})
    { // arrays, the empty one included: request and release name the same count
        begin_op();
        auto p = allocate_unique<T_<8, 8>[]>(c, n);
        emit(fmt("cmp alloc 1 %zu 8 8", n), "ok");
        int owner = leaf_of(p.get());
        begin_op();
        p.reset();
        emit(fmt("cmp dealloc 1 %zu 8 8 owner=%d", n, owner), "done");
    }
    { // unique_base_ptr from an over-aligned derived type
        begin_op();
        unique_base_ptr<SmallBase, C> p = allocate_unique<Wide>(c);
        emit(fmt("cmp alloc 0 1 %zu %zu", sizeof(Wide), alignof(Wide)), "ok");
        int owner = leaf_of(p.get());
        begin_op();
        p.reset();
        emit(fmt("cmp dealloc 0 1 %zu %zu owner=%d", sizeof(Wide), alignof(Wide), owner), "done");
    }
    { // the non-destructing pair: allocator_deallocator<Derived> converted to allocator_polymorphic_deallocator<Base>
        begin_op();
        allocator_reference<C> ref(c);
        void*                  mem = ref.allocate_node(sizeof(Wide), alignof(Wide));
        emit(fmt("cmp alloc 0 1 %zu %zu", sizeof(Wide), alignof(Wide)), "ok");
        int   owner = leaf_of(mem);
        Wide* w = ::new (mem) Wide();
        std::unique_ptr<Wide, allocator_deallocator<Wide, C>>                      up(w, allocator_deallocator<Wide, C>(ref));
        std::unique_ptr<SmallBase, allocator_polymorphic_deallocator<SmallBase, C>> bp(up.release(),
                                                                                       allocator_polymorphic_deallocator<SmallBase, C>(up.get_deleter()));
        begin_op();
        bp.reset();
        emit(fmt("cmp dealloc 0 1 %zu %zu owner=%d", sizeof(Wide), alignof(Wide), owner), "done");
    }
    { // unique_base_ptr: a derived type above 64 KiB (size used to be truncated to 16 bits)
        begin_op();
        unique_base_ptr<Base, C> p = allocate_unique<Huge>(c);
        emit(fmt("cmp alloc 0 1 %zu %zu", sizeof(Huge), alignof(Huge)), "ok");
        int owner = leaf_of(p.get());
        begin_op();
        p.reset();
        emit(fmt("cmp dealloc 0 1 %zu %zu owner=%d", sizeof(Huge), alignof(Huge), owner), "done");
    }
    }
    if (!SERVED.empty())
        fail(fmt("%s (front ends): %zu leaf allocations never released", expr, SERVED.size()));
}

template <class C>
static void mra_cases(const char* expr, Rng& g)
{
    std::printf("cmpexpr %s\n", expr);
    LS[0] = LeafState{};
    SERVED.clear();
    memory_resource_adapter<C> r{C{}};
    std::size_t                mx = allocator_traits<C>::max_node_size(r.get_allocator());
    for (std::size_t bytes : {std::size_t(1), std::size_t(600), mx - 1, mx, mx + 1, 2 * mx, 2 * mx + 1, 3 * mx - 7, std::size_t(1 + g.below(3 * mx))})
    {
        std::size_t al = std::size_t(1) << g.below(5);
        begin_op();
        void* p = r.allocate(bytes, al);
        emit(fmt("cmp mra_alloc %zu %zu %zu", bytes, al, mx), "ok");
        for (auto& s : SERVED)
            if (s.p == p && s.shape.bytes() < bytes)
                fail(fmt("memory_resource_adapter asked the allocator for %zu bytes, %zu requested", s.shape.bytes(), bytes));
        begin_op();
        r.deallocate(p, bytes, al);
        emit(fmt("cmp mra_dealloc %zu %zu %zu owner=0", bytes, al, mx), "done");
    }
    if (!SERVED.empty())
        fail("memory_resource_adapter: leaf allocations never released");
}

// D24 (recorded finding): memory_resource_adapter over an allocator whose max_node_size() shrinks releases a node as an array
static void d24_case()
{
    TRACKLOG.clear();
    TRACK_ORACLE = false; // this scenario IS the recorded finding (reported below under its own name)
    static static_allocator_storage<1024>              storage;
    using A = tracked_allocator<Tracker, static_allocator>;
    memory_resource_adapter<A> r{A(Tracker{}, static_allocator(storage))};
    void*                      p = r.allocate(600, 8);
    void*                      q = r.allocate(300, 8);
    (void)q;
    r.deallocate(p, 600, 8);
    std::string first = TRACKLOG.empty() ? "" : TRACKLOG.front(), last = TRACKLOG.empty() ? "" : TRACKLOG.back();
    if (first.rfind("on_alloc:node:600", 0) == 0 && last.rfind("on_dealloc:node:600", 0) != 0)
        fail("known-D24 memory_resource_adapter over static_allocator: block obtained as `" + first + "` released as `" + last + "`");
    TRACKLOG.clear();
    TRACK_ORACLE = true;
}

// D35 (recorded finding, C18): binary_segregator reports its fallback's max_node_size() only; a request above that figure which
// the segregatable part accepts succeeds. Library allocators on both sides (they do enforce their own figures).
static void d35_case()
{
    auto seg = make_segregator(threshold(1024u, memory_stack<>(8192)), memory_pool<>(64, 4096));
    using Tr = allocator_traits<decltype(seg)>;
    std::size_t mx = Tr::max_node_size(seg);
    void*       p = nullptr;
    try
    {
        p = Tr::allocate_node(seg, mx + 36, 8);
    }
    catch (std::exception&)
    {
    }
    if (p)
    {
        fail(fmt("known-D35 binary_segregator<threshold 1024 over memory_stack, memory_pool(64)>: max_node_size() = %zu, allocate_node(%zu, 8) "
                 "succeeded",
                 mx, mx + 36));
        Tr::deallocate_node(seg, p, mx + 36, 8);
    }
}

// C18 on library allocators (they enforce their own figures): a fallback_allocator of two pools, in both orders, plain and wrapped --
// a node request one byte above the reported max_node_size() must not succeed, one of exactly that size must
template <class A>
static void maxima_probe(const char* what, A& alloc)
{
    using Tr = allocator_traits<A>;
    std::size_t mx = Tr::max_node_size(alloc);
    for (std::size_t req : {mx, mx + 1})
    {
        void* p = nullptr;
        try
        {
            p = Tr::allocate_node(alloc, req, 8);
        }
        catch (std::exception&)
        {
        }
        if (p)
            Tr::deallocate_node(alloc, p, req, 8);
        if (p && req > mx)
            fail(fmt("%s: max_node_size() = %zu but allocate_node(%zu, 8) succeeded", what, mx, req));
        if (!p && req == mx)
            fail(fmt("%s: max_node_size() = %zu but allocate_node(%zu, 8) failed on a fresh allocator", what, mx, req));
    }
}
static void fallback_maxima_case()
{
    {
        fallback_allocator<memory_pool<>, memory_pool<>> f(memory_pool<>(32, 4096), memory_pool<>(128, 4096));
        maxima_probe("fallback_allocator<pool(32), pool(128)>", f);
    }
    {
        fallback_allocator<memory_pool<>, memory_pool<>> f(memory_pool<>(128, 4096), memory_pool<>(32, 4096));
        maxima_probe("fallback_allocator<pool(128), pool(32)>", f);
    }
    {
        using F = fallback_allocator<memory_pool<>, memory_pool<>>;
        aligned_allocator<F> a(8, F(memory_pool<>(48, 4096), memory_pool<>(16, 4096)));
        maxima_probe("aligned_allocator<fallback_allocator<pool(48), pool(16)>>", a);
    }
}

// block-level tracking (tracked_block_allocator / deeply_tracked_allocator): growth and shrinking events against the
// calls that reach the upstream allocator -- every successful block operation is seen exactly once, with its address and size
struct BlkEvent
{
    char        kind; // 'g' growth / allocation, 's' shrinking / deallocation
    void*       p;
    std::size_t size;
    bool        operator==(const BlkEvent& o) const
    {
        return kind == o.kind && p == o.p && size == o.size;
    }
};
static std::vector<BlkEvent> UPLOG, BTRACK;
struct CountingRaw
{
    using is_stateful = std::false_type;
    void* allocate_node(std::size_t size, std::size_t align)
    {
        void* p = heap_allocator{}.allocate_node(size, align);
        UPLOG.push_back({'g', p, size});
        return p;
    }
    void deallocate_node(void* p, std::size_t size, std::size_t align) noexcept
    {
        UPLOG.push_back({'s', p, size});
        heap_allocator{}.deallocate_node(p, size, align);
    }
};
struct BTracker : Tracker
{
    void on_allocator_growth(void* p, std::size_t size) noexcept
    {
        BTRACK.push_back({'g', p, size});
    }
    void on_allocator_shrinking(void* p, std::size_t size) noexcept
    {
        BTRACK.push_back({'s', p, size});
    }
};
static void block_tracking_case(Rng& g, bool thorough)
{
    auto same = [](const char* what, std::size_t skip_first, std::size_t skip_last) {
        std::vector<BlkEvent> up(UPLOG.begin() + std::min(skip_first, UPLOG.size()), UPLOG.end());
        for (std::size_t i = 0; i < skip_last && !up.empty(); ++i)
            up.pop_back();
        if (!(up == BTRACK))
            fail(fmt("%s: tracker saw %zu block events, upstream served %zu (first difference at %zu)", what, BTRACK.size(),
                     up.size(), (std::size_t)(std::mismatch(up.begin(), up.begin() + std::min(up.size(), BTRACK.size()), BTRACK.begin()).first - up.begin())));
    };
    for (int round = 0; round < (thorough ? 12 : 4); ++round)
    {
        UPLOG.clear();
        BTRACK.clear();
        {
            using BA = tracked_block_allocator<BTracker, growing_block_allocator<CountingRaw>>;
            memory_stack<BA> st(512, BTracker{});
            std::vector<memory_stack<BA>::marker> ms;
            for (int i = 0; i < 60; ++i)
            {
                unsigned r = g.below(10);
                if (r < 6)
                    st.allocate(1 + g.below(300), 8);
                else if (r < 7)
                    ms.push_back(st.top());
                else if (r < 9 && !ms.empty())
                {
                    st.unwind(ms.back());
                    ms.pop_back();
                }
                else
                    st.shrink_to_fit();
                ++n_ops;
                same("tracked_block_allocator under memory_stack", 0, 0);
            }
        }
        same("tracked_block_allocator under memory_stack (after destruction)", 0, 0);
        if (UPLOG.size() % 2 != 0)
            fail("tracked_block_allocator: blocks not all released");
        UPLOG.clear();
        BTRACK.clear();
        {
            using BA = tracked_block_allocator<BTracker, growing_block_allocator<CountingRaw>>;
            memory_pool<node_pool, BA> pool(16 + 8 * g.below(4), 256, BTracker{});
            std::vector<void*>         live;
            for (int i = 0; i < 80; ++i)
            {
                if (g.below(3) || live.empty())
                    live.push_back(pool.allocate_node());
                else
                {
                    pool.deallocate_node(live.back());
                    live.pop_back();
                }
                ++n_ops;
                same("tracked_block_allocator under memory_pool", 0, 0);
            }
        }
        same("tracked_block_allocator under memory_pool (after destruction)", 0, 0);
        UPLOG.clear();
        BTRACK.clear();
        {
            // deeply tracked: the block obtained in the constructor precedes the tracker (documented), every later one is seen
            using DT = deeply_tracked_allocator<BTracker, memory_stack<growing_block_allocator<CountingRaw>>>;
            DT a(BTracker{}, DT::allocator_type(512));
            std::size_t before = UPLOG.size();
            auto        m      = a.get_allocator().top();
            for (int rep = 0; rep < 3; ++rep)
            {
                for (int i = 0; i < 20; ++i)
                {
                    a.allocate_node(1 + g.below(300), 8);
                    ++n_ops;
                    same("deeply_tracked_allocator<memory_stack>", before, 0);
                }
                a.get_allocator().unwind(m);
                a.get_allocator().shrink_to_fit();
                same("deeply_tracked_allocator<memory_stack> after shrink_to_fit", before, 0);
            }
        }
    }
    UPLOG.clear();
    BTRACK.clear();
    TRACKLOG.clear();
}

int main(int argc, char** argv)
{
    bool               thorough = argc > 1 && std::atoi(argv[1]) != 0;
    unsigned long long seed = argc > 2 ? std::strtoull(argv[2], nullptr, 10) : 1;
    Rng                g(seed);
    long               nops = thorough ? 600 : 150;
    Handlers::install();
    std::printf("header subject=compose seed=%llu %s\n", seed, cfg_string().c_str());
    using L0a = Leaf<0, true>;
    using L1a = Leaf<1, true>;
    using L2a = Leaf<2, true>;
    using L0n = Leaf<0, false>;
    using L1n = Leaf<1, false>;
    {
        fallback_allocator<L0a, L1a> c{L0a{}, L1a{}};
        drive<true>(c, "fb L 0 a L 1 a", g, nops);
        front_ends<true>(c, "fb L 0 a L 1 a");
    }
    {
        using In = fallback_allocator<L0a, L1n>;
        fallback_allocator<In, L2a> c{In{L0a{}, L1n{}}, L2a{}};
        drive<true>(c, "fb fb L 0 a L 1 n L 2 a", g, nops);
        front_ends<true>(c, "fb fb L 0 a L 1 n L 2 a");
    }
    {
        aligned_allocator<L0a> c(16, L0a{});
        LS[0].limit = SLICE;
        drive<true>(c, "al 16 L 0 a", g, nops);
    }
    { // an adapter with state of its own that is move-ASSIGNED: the target releases what the source handed out with the
      // parameters of the original request (aligned_allocator: the minimum alignment travels with the assignment)
        for (auto mins : {std::pair<std::size_t, std::size_t>{8, 64}, {64, 8}, {16, 16}, {1, 32}})
        {
            LS[0] = LeafState{};
            SERVED.clear();
            begin_op();
            aligned_allocator<L0a> src(mins.first, L0a{}), dst(mins.second, L0a{});
            void*                  p = src.allocate_node(24, 4);
            void*                  q = src.allocate_array(3, 8, 2);
            void*                  r = dst.allocate_node(16, 1);
            dst.deallocate_node(r, 16, 1);
            dst = std::move(src);
            if (dst.min_alignment() != mins.first)
                fail(fmt("aligned_allocator move assignment: min_alignment() is %zu, the source had %zu", dst.min_alignment(), mins.first));
            dst.deallocate_array(q, 3, 8, 2);
            dst.deallocate_node(p, 24, 4);
            if (!SERVED.empty())
                fail("aligned_allocator move assignment: leaf allocations never released");
        }
    }
    {
        tracked_allocator<Tracker, L0n> c(Tracker{}, L0n{});
        drive<true>(c, "tr L 0 n", g, nops);
    }
    {
        using Seg = threshold_segregatable<L0a>;
        binary_segregator<Seg, L1a> c(Seg(32, L0a{}), L1a{});
        drive<false>(c, "sg 32 L 0 a L 1 a", g, nops);
        front_ends<true>(c, "sg 32 L 0 a L 1 a");
    }
    {
        using D = aligned_allocator<L0a>;
        using F = tracked_allocator<Tracker, L1a>;
        fallback_allocator<D, F> c{D(8, L0a{}), F(Tracker{}, L1a{})};
        drive<true>(c, "fb al 8 L 0 a tr L 1 a", g, nops);
    }
    {
        using D = tracked_allocator<Tracker, L0a>;
        fallback_allocator<D, L1a> c{D(Tracker{}, L0a{}), L1a{}};
        drive<true>(c, "fb tr L 0 a L 1 a", g, nops);
    }
    {
        using F = fallback_allocator<L0a, L1a>;
        tracked_allocator<Tracker, F> c(Tracker{}, F{L0a{}, L1a{}});
        drive<true>(c, "tr fb L 0 a L 1 a", g, nops);
    }
    {
        using F = fallback_allocator<L0a, L1a>;
        F                                              f{L0a{}, L1a{}};
        allocator_storage<direct_storage<F>, no_mutex> c(std::move(f));
        drive<true>(c, "st fb L 0 a L 1 a", g, nops);
    }
    {
        using F = fallback_allocator<L0a, L1n>;
        F                      f{L0a{}, L1n{}};
        allocator_reference<F> c(f);
        drive<true>(c, "st fb L 0 a L 1 n", g, nops);
    }
    {
        using F = fallback_allocator<L0a, L1a>;
        F                       f{L0a{}, L1a{}};
        any_allocator_reference c(f);
        drive<true>(c, "any fb L 0 a L 1 a", g, nops);
        front_ends<false>(c, "any fb L 0 a L 1 a");
    }
    {
        using F = fallback_allocator<L0a, L1a>;
        allocator_storage<direct_storage<F>, std::mutex> c(F{L0a{}, L1a{}});
        drive<true>(c, "st fb L 0 a L 1 a", g, nops);
    }
    {
        auto c = make_segregator(threshold(16, L0a{}), threshold(64, L1a{}), L2a{});
        drive<false>(c, "sg 16 L 0 a sg 64 L 1 a L 2 a", g, nops);
    }
    {
        using In = fallback_allocator<L0n, L1a>;
        using Al = aligned_allocator<In>;
        tracked_allocator<Tracker, Al> c(Tracker{}, Al(4, In{L0n{}, L1a{}}));
        drive<true>(c, "tr al 4 fb L 0 n L 1 a", g, nops);
    }
    mra_cases<L0a>("L 0 a", g);
    mra_cases<L0n>("L 0 n", g);
    d24_case();
    d35_case();
    fallback_maxima_case();
    block_tracking_case(g, thorough);
    for (auto& f : failures)
        std::printf("oracle-fail %s\n", f.c_str());
    std::printf("summary ops=%ld ok=%ld null=%ld throw=%ld grow=0 dealloc=%ld oracle_checks=%ld\n", n_ops, n_ok, n_null, n_throw, n_dealloc, n_ops);
    return 0;
}
