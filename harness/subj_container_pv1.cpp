// subj_container with a user-specialised propagation policy (variant 1: pocs=1 pocma=1 pocca=0)
#define VERIF_PROP_VARIANT 1
#include "subj_container.cpp"
