// C14: temporary allocators (scope = marker restore) and the per-thread temporary stack list under a controlled scheduler
// usage: subj_temp scope <seed> <nops>                     single thread: nesting of temporary_allocators
//        subj_temp mt <seed> <nthreads> <acts-per-thread>  real threads stepped one scheduling point at a time (hooks H2)
//        subj_temp exit <scenario>                         child-process scenarios for "everything is freed at program exit"
// lines (mt):  tmt scripts <t0 acts>;<t1 acts>;...   then   tmt step <t> |  | <point the thread now waits at> |  | inuse=[..] threads=<pc>/<stack id>...
#include <atomic>
#include <condition_variable>
#include <cstdio>
#include <cstring>
#include <map>
#include <set>
#include <mutex>
#include <thread>
#include <vector>
#include "proto.hpp"
#include "temporary_allocator.hpp"

using namespace foonathan::memory;
using namespace verif;

#if FOONATHAN_MEMORY_TEMPORARY_STACK_MODE >= 2
namespace foonathan
{
    namespace memory
    {
        namespace detail
        {
            extern void (*verif_yield_hook)(int);
            temporary_stack_list_node* verif_temporary_list_head() noexcept;
            temporary_stack*           verif_thread_temporary_stack() noexcept;
        } // namespace detail
    }     // namespace memory
} // namespace foonathan
#endif

static std::vector<std::string> failures;
static void                     fail(const std::string& s)
{
    if (failures.size() < 20)
        failures.push_back(s);
}

//=== single thread: scopes ===//
static int run_scope(unsigned long long seed, long nops)
{
    Rng g(seed);
    std::printf("header subject=temp-scope seed=%llu %s\n", seed, cfg_string().c_str());
    struct Frame
    {
        temporary_allocator*                    a;
        detail::temporary_stack_impl::marker    m; // stack top when the allocator was constructed
        std::vector<std::pair<void*, unsigned>> allocs;
    };
    temporary_stack_initializer init(256);
    auto&                       stack = get_temporary_stack();
    std::vector<Frame>          frames;
    long                        n_push = 0, n_pop = 0, n_alloc = 0, checks = 0;
    auto                        pop = [&]
    {
        Frame f = frames.back();
        frames.pop_back();
        bool shrink = g.chance(15);
        if (shrink)
            f.a->shrink_to_fit();
        delete f.a;
        ++n_pop;
        ++checks;
        if (!(stack.top() == f.m))
            fail(fmt("after destroying a temporary_allocator the stack top differs from the top at its construction (depth %zu)", frames.size()));
        // allocations of the enclosing scopes are untouched
        for (auto& fr : frames)
            for (auto& al : fr.allocs)
                if (*static_cast<unsigned char*>(al.first) != (unsigned char)al.second)
                    fail("an allocation of an enclosing temporary_allocator was overwritten by an inner scope");
    };
    for (long i = 0; i < nops && failures.empty(); ++i)
    {
        unsigned k = g.below(100);
        if (k < 25 || frames.empty())
        {
            if (frames.size() > 12)
                continue;
            auto m = stack.top();
            frames.push_back({new temporary_allocator(), m, {}});
            ++n_push;
        }
        else if (k < 80)
        {
            std::size_t lim = g.chance(10) ? stack.next_capacity() / 2 : 100;
            std::size_t size = 1 + g.below(lim ? lim : 1), al = std::size_t(1) << g.below(5);
            void*       p = frames.back().a->allocate(size, al);
            unsigned    tag = unsigned(1 + g.below(250));
            std::memset(p, int(tag), size);
            frames.back().allocs.push_back({p, tag});
            if (reinterpret_cast<std::uintptr_t>(p) % al)
                fail("temporary allocation not aligned");
            ++n_alloc;
        }
        else if (k < 85)
        { // get_temporary_stack(size) below live allocators "creates the per-thread stack if it wasn't already created":
          // the existing stack comes back as it is, whatever size is asked for (larger than what it would grow by included)
            std::size_t n = g.chance(50) ? stack.next_capacity() * 2 + g.below(4096) : 1 + g.below(8192);
            auto        before = stack.top();
            auto&       again = get_temporary_stack(n);
            ++checks;
            if (&again != &stack)
                fail(fmt("get_temporary_stack(%zu) returned another stack while temporary allocators of this thread are live", n));
            if (!(stack.top() == before))
                fail(fmt("get_temporary_stack(%zu) moved the top of the thread's temporary stack (depth %zu)", n, frames.size()));
            for (auto& fr : frames)
                for (auto& al : fr.allocs)
                    if (*static_cast<unsigned char*>(al.first) != (unsigned char)al.second)
                        fail(fmt("a live temporary allocation changed during get_temporary_stack(%zu)", n));
        }
        else
            pop();
    }
    while (!frames.empty())
        pop();
    std::printf("tmps pushes=%ld pops=%ld allocs=%ld |  | %s |  | -\n", n_push, n_pop, n_alloc, failures.empty() ? "ok" : "FAILED");
    for (auto& f : failures)
        std::printf("oracle-fail %s\n", f.c_str());
    std::printf("summary ops=%ld ok=%ld null=0 throw=0 grow=0 oracle_checks=%ld\n", n_push + n_pop + n_alloc, n_alloc, checks);
    return 0;
}

#if FOONATHAN_MEMORY_TEMPORARY_STACK_MODE >= 2
//=== multi thread: controlled scheduler ===//
enum Act
{
    A_GET,
    A_INIT_CTOR,
    A_INIT_DTOR
};
struct TState
{
    std::vector<Act> script;
    int              state = 0; // 0 not started, 1 waiting at a point, 2 running, 3 done
    int              point = 0; // scheduling point it waits at
    std::size_t      act = 0;   // index of the act in progress / next
    const void*      tls = nullptr;
};
static std::mutex              M;
static std::condition_variable CV;
static int                     turn = -1;
static std::vector<TState>     T;
static thread_local int        my_id = -1;

static void wait_turn(int point)
{
    std::unique_lock<std::mutex> lk(M);
    T[my_id].point = point;
    T[my_id].state = 1;
    T[my_id].tls = detail::verif_thread_temporary_stack();
    turn = -1;
    CV.notify_all();
    CV.wait(lk, [] { return turn == my_id; });
    T[my_id].state = 2;
}
static void yield_hook(int point)
{
    if (my_id >= 0)
        wait_turn(point);
}
// destroyed after the library's thread-exit detector (constructed earlier in the thread): marks the thread as finished
struct Fin
{
    int id = -1;
    ~Fin()
    {
        if (id < 0)
            return;
        std::unique_lock<std::mutex> lk(M);
        T[id].state = 3;
        T[id].tls = nullptr;
        turn = -1;
        CV.notify_all();
        my_id = -1;
    }
};
static thread_local Fin fin;

static void worker(int id)
{
    my_id = id;
    fin.id = id; // odr-use: constructed now, i.e. before the library's detector
    std::vector<temporary_stack_initializer*> inits;
    for (std::size_t k = 0; k < T[id].script.size(); ++k)
    {
        T[id].act = k;
        wait_turn(0);
        switch (T[id].script[k])
        {
        // (initial sizes differ per thread and grow with the thread id: a stack left behind by a thread that asked for less
        // is still the one a later, more demanding thread takes over)
        case A_GET: (void)get_temporary_stack(std::size_t(64) << (2 * (id % 4))); break;
        case A_INIT_CTOR: inits.push_back(new temporary_stack_initializer(std::size_t(64) << (2 * (id % 4)))); break;
        case A_INIT_DTOR:
            if (!inits.empty())
            {
                delete inits.back();
                inits.pop_back();
            }
            else
            {
                temporary_stack_initializer tmp(temporary_stack_initializer::defer_create);
            }
            break;
        }
    }
    T[id].act = T[id].script.size();
    wait_turn(0);
    // (initializer objects that were never destroyed are leaked on purpose: their destruction is a scripted act)
}

static std::map<const void*, int> stack_ids;
static std::string                dump_state()
{
    // list order: newest first; ids in creation order
    std::vector<detail::temporary_stack_list_node*> nodes;
    for (auto p = detail::verif_temporary_list_head(); p; p = p->next_)
        nodes.push_back(p);
    for (auto it = nodes.rbegin(); it != nodes.rend(); ++it)
        if (!stack_ids.count(*it))
        {
            int id = int(stack_ids.size());
            stack_ids[*it] = id;
        }
    std::vector<int> inuse(stack_ids.size(), 0);
    for (auto n : nodes)
        inuse[stack_ids[n]] = n->in_use_.load() ? 1 : 0;
    std::string s = "inuse=[";
    for (std::size_t i = 0; i < inuse.size(); ++i)
        s += fmt("%s%d", i ? "," : "", inuse[i]);
    s += "] threads=";
    for (std::size_t t = 0; t < T.size(); ++t)
    {
        auto&       th = T[t];
        std::string pc;
        if (th.state == 3)
            pc = "done";
        else if (th.point == 0)
            pc = fmt("idle:%zu", th.act);
        else if (th.point == 4 && th.act >= th.script.size())
            pc = "p4x";
        else
            pc = fmt("p%d:%zu", th.point, th.act);
        std::string tls = "-";
        if (th.tls)
        {
            auto node = (const detail::temporary_stack_list_node*)(static_cast<const temporary_stack*>(th.tls)); // private base
            tls = stack_ids.count(node) ? fmt("%d", stack_ids[node]) : "?";
        }
        s += fmt("%s%s/%s", t ? " " : "", pc.c_str(), tls.c_str());
    }
    return s;
}

static int run_mt(unsigned long long seed, int nthreads, int nacts)
{
    Rng g(seed);
#ifndef VERIF_TMPFIX
#define VERIF_TMPFIX "111"
#endif
    std::printf("header subject=temp-mt seed=%llu threads=%d tmpfix=%s %s\n", seed, nthreads, VERIF_TMPFIX, cfg_string().c_str());
    T.assign(std::size_t(nthreads), TState{});
    std::string sc = "tmt scripts";
    for (int t = 0; t < nthreads; ++t)
    {
        int n = 1 + int(g.below(std::size_t(nacts)));
        int open = 0;
        sc += t ? " ;" : "";
        for (int k = 0; k < n; ++k)
        {
            unsigned r = unsigned(g.below(100));
            Act      a = r < 45 ? A_GET : r < 70 ? A_INIT_CTOR : A_INIT_DTOR;
            if (a == A_INIT_CTOR)
                ++open;
            T[std::size_t(t)].script.push_back(a);
            sc += a == A_GET ? " get" : a == A_INIT_CTOR ? " ictor" : " idtor";
        }
        (void)open;
    }
    std::printf("%s\n", sc.c_str());
    detail::verif_yield_hook = &yield_hook;
    std::vector<std::thread> threads;
    {
        std::unique_lock<std::mutex> lk(M);
        for (int t = 0; t < nthreads; ++t)
            threads.emplace_back(worker, t);
        // wait until every thread waits at its first point
        CV.wait(lk,
                []
                {
                    for (auto& th : T)
                        if (th.state != 1)
                            return false;
                    return true;
                });
    }
    long steps = 0, shared = 0;
    // C14 oracle "stacks of finished threads are reused rather than leaked", from what the threads themselves hold (not
    // from the library's list): the number of distinct stacks ever held never exceeds the largest number of threads that
    // held a stack, or were in the middle of acquiring / releasing one, at the same time
    std::set<const void*> distinct;
    std::size_t           peak = 0;
    auto                  count_holders = [&] {
        std::size_t holders = 0;
        for (auto& th : T)
        {
            if (th.state == 3 || th.state == 0)
                continue;
            if (th.tls)
                distinct.insert(th.tls);
            if (th.tls || th.point != 0)
                ++holders;
        }
        peak = std::max(peak, holders);
    };
    count_holders();
    std::printf("tmt init |  | - |  | %s\n", dump_state().c_str());
    for (;;)
    {
        std::vector<int> ready;
        for (int t = 0; t < nthreads; ++t)
            if (T[std::size_t(t)].state == 1)
                ready.push_back(t);
        if (ready.empty())
            break;
        int t = ready[g.below(ready.size())];
        // bias: keep a thread running for a while sometimes, switch right at the critical points otherwise
        {
            std::unique_lock<std::mutex> lk(M);
            turn = t;
            CV.notify_all();
            CV.wait(lk, [&] { return turn == -1 && T[std::size_t(t)].state != 2; });
        }
        ++steps;
        std::string st = dump_state();
        std::printf("tmt step %d |  | %s |  | %s\n", t, T[std::size_t(t)].state == 3 ? "done" : fmt("p%d", T[std::size_t(t)].point).c_str(), st.c_str());
        count_holders();
        if (distinct.size() > peak && failures.empty())
            fail(fmt("%zu temporary stacks have been handed to threads although at most %zu threads ever held or were acquiring one at the same time: "
                     "the stack of a finished thread was not reused (step %ld)",
                     distinct.size(), peak, steps));
        // C14 oracle on the real code: no two live threads hold the same stack
        for (int a = 0; a < nthreads; ++a)
            for (int b = a + 1; b < nthreads; ++b)
                if (T[std::size_t(a)].state != 3 && T[std::size_t(b)].state != 3 && T[std::size_t(a)].tls && T[std::size_t(a)].tls == T[std::size_t(b)].tls)
                {
                    fail(fmt("threads %d and %d both use temporary stack %p (step %ld)", a, b, T[std::size_t(a)].tls, steps));
                    ++shared;
                }
    }
    for (auto& th : threads)
        th.join();
    detail::verif_yield_hook = nullptr;
    // stacks of finished threads must be free for reuse
    int still = 0, total = 0;
    for (auto p = detail::verif_temporary_list_head(); p; p = p->next_)
    {
        ++total;
        if (p->in_use_.load())
            ++still;
    }
    if (still)
        fail(fmt("%d of %d temporary stacks are still marked in use although every thread has finished (never reusable)", still, total));
    for (auto& f : failures)
        std::printf("oracle-fail %s\n", f.c_str());
    std::printf("summary ops=%ld ok=%d null=0 throw=0 grow=0 stacks=%d oracle_checks=%ld\n", steps, total - still, total, steps);
    return 0;
}

#else
// mode 1: one stack per thread in thread-local storage; threads run freely and report the stack they got
static int run_mt(unsigned long long seed, int nthreads, int)
{
    std::printf("header subject=temp-mt-mode1 seed=%llu threads=%d %s\n", seed, nthreads, cfg_string().c_str());
    std::vector<const void*> got(std::size_t(nthreads), nullptr);
    std::vector<std::thread> ts;
    std::mutex               m;
    std::condition_variable  cv;
    int                      arrived = 0;
    for (int t = 0; t < nthreads; ++t)
        ts.emplace_back(
            [&, t]
            {
                temporary_stack_initializer init(64);
                got[std::size_t(t)] = &get_temporary_stack();
                temporary_allocator a;
                a.allocate(100, 8);
                std::unique_lock<std::mutex> lk(m); // all threads alive at the same time
                ++arrived;
                cv.notify_all();
                cv.wait(lk, [&] { return arrived == nthreads; });
            });
    for (auto& t : ts)
        t.join();
    for (int a = 0; a < nthreads; ++a)
        for (int b = a + 1; b < nthreads; ++b)
            if (got[std::size_t(a)] == got[std::size_t(b)])
                fail(fmt("threads %d and %d got the same temporary stack", a, b));
    for (auto& f : failures)
        std::printf("oracle-fail %s\n", f.c_str());
    std::printf("summary ops=%d ok=%d null=0 throw=0 grow=0 stacks=%d oracle_checks=%d\n", nthreads, nthreads, nthreads, nthreads);
    return 0;
}
#endif

//=== program exit scenarios (run as a child process; the parent looks at the leak report on stderr) ===//
// mode 1 manages lifetime explicitly: every thread that uses temporary allocators owns an initializer (documented contract)
#if FOONATHAN_MEMORY_TEMPORARY_STACK_MODE == 1
#define VERIF_THREAD_INIT temporary_stack_initializer verif_thread_init_(16384);
#else
#define VERIF_THREAD_INIT
#endif
static int run_exit(const std::string& scenario)
{
    if (scenario == "workers-only")
    { // only worker threads ever use temporary allocators
        std::thread a(
            []
            {
                VERIF_THREAD_INIT
                temporary_allocator t;
                t.allocate(100, 8);
            });
        a.join();
        std::thread b(
            []
            {
                VERIF_THREAD_INIT
                temporary_allocator t;
                t.allocate(5000, 8);
            });
        b.join();
    }
    else if (scenario == "main-initializer")
    { // main creates and destroys an initializer, workers use the stacks
        {
            temporary_stack_initializer init(128);
            temporary_allocator         t;
            t.allocate(64, 8);
        }
        std::thread a(
            []
            {
                VERIF_THREAD_INIT
                temporary_allocator t;
                t.allocate(100, 8);
            });
        a.join();
    }
    else if (scenario == "main-only")
    {
        VERIF_THREAD_INIT
        temporary_allocator t;
        t.allocate(3000, 16);
    }
    else if (scenario == "main-and-workers")
    {
        VERIF_THREAD_INIT
        temporary_allocator      t;
        t.allocate(10, 1);
        std::vector<std::thread> ts;
        for (int i = 0; i < 3; ++i)
            ts.emplace_back(
                []
                {
                    VERIF_THREAD_INIT
                    temporary_allocator x;
                    x.allocate(200, 8);
                });
        for (auto& th : ts)
            th.join();
    }
    else
        return 2;
    return 0; // static destruction follows: the nifty counter must destroy every stack
}

int main(int argc, char** argv)
{
    if (argc < 3)
        return 2;
    std::string mode = argv[1];
    if (mode == "scope")
        return run_scope(std::strtoull(argv[2], nullptr, 10), argc > 3 ? std::atol(argv[3]) : 200);
    if (mode == "mt")
        return run_mt(std::strtoull(argv[2], nullptr, 10), argc > 3 ? std::atoi(argv[3]) : 2, argc > 4 ? std::atoi(argv[4]) : 3);
    if (mode == "exit")
        return run_exit(argv[2]);
    return 2;
}
