// C17: fences of the low-level allocators (heap / malloc / new / virtual memory) and their fill patterns
// usage: subj_lowlevel <thorough 0|1> <seed>
// one line per case:  ll <allocator> <size> <fence> <off:val,...> |  | reports <raw offsets...> |  | -
//   offsets are relative to the raw block (pre-fence at [0,fence), node at [fence, fence+size), post-fence after it)
// the overflow handler records (node, size, write_ptr) and RETURNS, so both fences of one block can be reported
#include <cstdio>
#include <cstring>
#include <vector>
#include "proto.hpp"
#include "heap_allocator.hpp"
#include "malloc_allocator.hpp"
#include "new_allocator.hpp"
#include "virtual_memory.hpp"
#include "detail/align.hpp"

using namespace foonathan::memory;
using namespace verif;

struct Report
{
    const void* memory;
    std::size_t size;
    const void* ptr;
};
static std::vector<Report> reports;
static void                on_overflow(const void* memory, std::size_t size, const void* ptr)
{
    reports.push_back({memory, size, ptr});
}

static long                     n_cases = 0, n_reported = 0, n_clean = 0;
static std::vector<std::string> failures;
static void                     fail(const std::string& s)
{
    if (failures.size() < 20)
        failures.push_back(s);
}

struct Poke
{
    std::size_t   off; // raw offset
    unsigned char val;
};

template <class Alloc>
static void one(const char* name, std::size_t fence, std::size_t size, std::size_t align, const std::vector<Poke>& pokes)
{
    Alloc a;
    auto  node = static_cast<unsigned char*>(a.allocate_node(size, align));
    auto  raw = node - fence;
    ++n_cases;
    if (reinterpret_cast<std::uintptr_t>(node) % align != 0)
        fail(fmt("%s size=%zu align=%zu: node not aligned", name, size, align));
#if FOONATHAN_MEMORY_DEBUG_FILL
    for (std::size_t i = 0; i < size; ++i)
        if (node[i] != 0xCD)
        {
            fail(fmt("%s size=%zu: byte %zu of the new node is %02x, not cd", name, size, i, node[i]));
            break;
        }
    for (std::size_t i = 0; i < fence; ++i)
        if (raw[i] != 0xFD || node[size + i] != 0xFD)
        {
            fail(fmt("%s size=%zu: fence byte %zu is not fd after allocation", name, size, i));
            break;
        }
#endif
    // independent expectation: lowest dirty byte of each fence
    std::vector<unsigned char> img(raw, raw + size + 2 * fence);
    std::string                ps;
    for (auto& p : pokes)
    {
        raw[p.off] = p.val;
        img[p.off] = p.val;
        ps += fmt("%s%zu:%u", ps.empty() ? "" : ",", p.off, (unsigned)p.val);
    }
    std::vector<std::size_t> expect;
    for (std::size_t i = 0; i < fence; ++i)
        if (img[i] != 0xFD)
        {
            expect.push_back(i);
            break;
        }
    for (std::size_t i = fence + size; i < size + 2 * fence; ++i)
        if (img[i] != 0xFD)
        {
            expect.push_back(i);
            break;
        }
    reports.clear();
    a.deallocate_node(node, size, align);
    std::string rs = "reports";
    for (auto& r : reports)
    {
        rs += fmt(" %zu", std::size_t(static_cast<const unsigned char*>(r.ptr) - raw));
        if (r.memory != node || r.size != size)
            fail(fmt("%s size=%zu pokes=%s: handler called with block (%p,%zu), expected the node (%p,%zu)", name, size, ps.c_str(),
                     r.memory, r.size, (void*)node, size));
    }
    bool ok = reports.size() == expect.size();
    for (std::size_t i = 0; ok && i < expect.size(); ++i)
        ok = std::size_t(static_cast<const unsigned char*>(reports[i].ptr) - raw) == expect[i];
    if (!ok)
    {
        std::string es;
        for (auto e : expect)
            es += fmt(" %zu", e);
        fail(fmt("%s size=%zu fence=%zu pokes=%s: handler calls `%s`, expected first dirty byte of each fence:%s", name, size, fence,
                 ps.c_str(), rs.c_str(), es.c_str()));
    }
    if (expect.empty())
        ++n_clean;
    else
        ++n_reported;
    std::printf("ll %s %zu %zu %s |  | %s |  | -\n", name, size, fence, ps.empty() ? "-" : ps.c_str(), rs.c_str());
}

template <class Alloc>
static void sweep(const char* name, std::size_t fence, bool thorough, Rng& g, bool is_virtual)
{
    static const std::size_t quick_sizes[] = {1, 2, 3, 7, 8, 16, 17, 33, 64};
    std::vector<std::size_t> sizes;
    if (thorough)
        for (std::size_t s = 1; s <= 64; ++s)
            sizes.push_back(s);
    else
        sizes.assign(quick_sizes, quick_sizes + 9);
    if (is_virtual)
    {
        sizes = {1, 100, 4095, 4096, 4097, 10000};
    }
    static const unsigned char vals[] = {0x00, 0xFC, 0xFE, 0xCD, 0xDD, 0xFF, 0x7D, 0xAB};
    const std::size_t          nvals = thorough ? 8 : 3;
    for (auto size : sizes)
    {
        std::size_t align = is_virtual ? 4096 : detail::alignment_for(size);
        // no poke, in-bounds pokes only
        one<Alloc>(name, fence, size, align, {});
        one<Alloc>(name, fence, size, align, {{fence, 0x11}, {fence + size - 1, 0xFD}});
        {
            std::vector<Poke> in;
            for (std::size_t i = 0; i < size && i < 64; ++i)
                in.push_back({fence + i, (unsigned char)g.below(256)});
            one<Alloc>(name, fence, size, align, in);
        }
        if (fence == 0)
            continue;
        // every byte offset of both fences x byte values different from the pattern
        std::vector<std::size_t> offs;
        if (is_virtual)
        {
            for (std::size_t o : {std::size_t(0), std::size_t(1), fence / 2, fence - 2, fence - 1})
            {
                offs.push_back(o);
                offs.push_back(fence + size + o);
            }
            for (int q = 0; q < (thorough ? 60 : 12); ++q)
            {
                offs.push_back(g.below(fence));
                offs.push_back(fence + size + g.below(fence));
            }
        }
        else
            for (std::size_t o = 0; o < fence; ++o)
            {
                offs.push_back(o);
                offs.push_back(fence + size + o);
            }
        for (auto o : offs)
            for (std::size_t v = 0; v < nvals; ++v)
                one<Alloc>(name, fence, size, align, {{o, vals[(v + o) % 8]}});
        // several writes, both fences, rewriting the pattern itself
        for (int q = 0; q < (thorough ? 12 : 3); ++q)
        {
            std::vector<Poke> ps;
            std::size_t       k = 1 + g.below(5);
            for (std::size_t i = 0; i < k; ++i)
            {
                std::size_t o = g.chance(50) ? g.below(fence) : fence + size + g.below(fence);
                ps.push_back({o, g.chance(20) ? (unsigned char)0xFD : (unsigned char)g.below(256)});
            }
            if (g.chance(50))
                ps.push_back({fence + g.below(size), (unsigned char)g.below(256)});
            one<Alloc>(name, fence, size, align, ps);
        }
    }
}

// C15 (last sentence): "the stateless low-level allocators report their process-wide net once at exit".
//   subj_lowlevel exit <allocator> <seed>   runs in a child process: a seeded history of node/array allocations and releases
//   through allocator_traits on copies of the stateless allocator, leaves some nodes unreleased, prints `expect <net>` and
//   returns from main; the recording leak handler prints `LEAK <allocator name> <amount>` whenever the library calls it.
static void exit_leak_handler(const allocator_info& info, std::ptrdiff_t amount)
{
    std::printf("LEAK %s %lld\n", info.name, (long long)amount);
    std::fflush(stdout);
}
template <class A>
static int exit_scenario(unsigned long long seed, std::size_t fence_extra)
{
    Rng g(seed);
    set_leak_handler(&exit_leak_handler);
    using traits = allocator_traits<A>;
    struct L
    {
        void*       p;
        std::size_t count, size;
        bool        arr;
    };
    std::vector<L> live;
    long long      net = 0;
    int            nops = 4 + int(g.below(20));
    for (int i = 0; i < nops; ++i)
    {
        A a; // a fresh copy every time: the count is process wide, not per object
        if (live.empty() || g.chance(60))
        {
            std::size_t size = 1 + g.below(200), count = 1 + g.below(4);
            bool        arr = g.chance(40);
            void*       p = arr ? traits::allocate_array(a, count, size, 8) : traits::allocate_node(a, size, 8);
            live.push_back({p, count, size, arr});
            net += (long long)((arr ? count * size : size) + fence_extra);
        }
        else
        {
            std::size_t k = g.below(live.size());
            L           l = live[k];
            live.erase(live.begin() + long(k));
            if (l.arr)
                traits::deallocate_array(a, l.p, l.count, l.size, 8);
            else
                traits::deallocate_node(a, l.p, l.size, 8);
            net -= (long long)((l.arr ? l.count * l.size : l.size) + fence_extra);
        }
    }
    if (seed % 3 == 0)
    { // balanced run: everything goes back, nothing may be reported
        A a;
        for (auto& l : live)
        {
            if (l.arr)
                traits::deallocate_array(a, l.p, l.count, l.size, 8);
            else
                traits::deallocate_node(a, l.p, l.size, 8);
            net -= (long long)((l.arr ? l.count * l.size : l.size) + fence_extra);
        }
        live.clear();
    }
    std::printf("expect %lld\n", net);
    std::fflush(stdout);
    return 0; // the report, if any, is made after main returns
}

//=== C03: failure of the low-level allocators themselves (the system refuses the memory) ===//
static int oom_calls, bad_calls;
template <class A>
static void oom_probe(const char* name)
{
    using traits = allocator_traits<A>;
    A                 a;
    const std::size_t maxn = traits::max_node_size(a), maxa = traits::max_array_size(a);
    std::printf("oom %s max_node=%zu max_array=%zu\n", name, maxn, maxa);
    struct Req
    {
        std::size_t count, size; // count == 0: node
    };
    std::vector<Req> reqs;
    const std::size_t big[] = {std::size_t(1) << 48, std::size_t(1) << 55, std::size_t(1) << 62, (std::size_t(1) << 63) - 4096,
                               maxn, maxn - 1, maxn - 4095, maxn / 2 + 1};
    for (auto b : big)
        if (b >= (std::size_t(1) << 48) && b <= maxn)
        {
            reqs.push_back({0, b});
            reqs.push_back({b / 4096, 4096});
        }
    // (requests beyond max_node_size() / max_array_size() are outside the RawAllocator contract: "the maximum value allowed")
    for (auto& r : reqs)
    {
        oom_calls = bad_calls = 0;
        void*       p = nullptr;
        const char* kind = "ok";
        try
        {
            p = r.count ? traits::allocate_array(a, r.count, r.size, 8) : traits::allocate_node(a, r.size, 8);
        }
        catch (const bad_allocation_size&)
        {
            kind = "bad_size";
        }
        catch (const out_of_memory&)
        {
            kind = "oom";
        }
        catch (const std::bad_alloc&)
        {
            kind = "bad_alloc";
        }
        catch (...)
        {
            kind = "other";
        }
        const std::size_t bytes = r.count ? r.count * r.size : r.size;
        const bool        too_big = r.count ? (r.size > maxn || bytes > maxa) : r.size > maxn;
        std::string       what = fmt("%s %s(%zu,%zu)", name, r.count ? "allocate_array" : "allocate_node", r.count, r.size);
        std::printf("oom-case %s -> %s oom_handler=%d bad_handler=%d\n", what.c_str(), kind, oom_calls, bad_calls);
        if (std::string(kind) == "ok")
        { // no system hands out 2^48 bytes: a pointer here means the size computation wrapped
            if (!p)
                failures.push_back(fmt("C03 %s returned nullptr instead of throwing", what.c_str()));
            else
                failures.push_back(fmt("C03/C02 %s returned a pointer although %zu bytes cannot be had (size computation wrapped)", what.c_str(), bytes));
        }
        else if (std::string(kind) == "other" || std::string(kind) == "bad_alloc")
            failures.push_back(fmt("C03 %s failed with an exception outside the library's bad_allocation_size / out_of_memory families", what.c_str()));
        else if (too_big && !((std::string(kind) == "bad_size" && bad_calls == 1 && oom_calls == 0)
                              || (std::string(kind) == "oom" && oom_calls == 1 && bad_calls == 0)))
            failures.push_back(fmt("C03 %s (beyond the reported maximum): expected bad_allocation_size or out_of_memory with exactly its handler called once, got %s (handlers %d/%d)",
                                   what.c_str(), kind, bad_calls, oom_calls));
        else if (!too_big && !(std::string(kind) == "oom" && oom_calls == 1 && bad_calls == 0))
            failures.push_back(fmt("C03 %s: expected out_of_memory with its handler called once, got %s (handlers %d/%d)", what.c_str(), kind,
                                   oom_calls, bad_calls));
        // the allocator must still serve a valid request
        void* q = nullptr;
        try
        {
            q = traits::allocate_node(a, 64, 8);
        }
        catch (...)
        {
        }
        if (!q)
            failures.push_back(fmt("C03 %s: a valid request after the failure was not served", what.c_str()));
        else
        {
            std::memset(q, 0x5a, 64);
            traits::deallocate_node(a, q, 64, 8);
        }
        ++n_cases;
    }
    // A handler may throw its own exception derived from std::bad_alloc (documented for out_of_memory::handler): every
    // later failure must still be reported to the registered handler first
    struct HandlerOom : std::bad_alloc
    {
    };
    static bool throw_now;
    auto        old = out_of_memory::set_handler([](const allocator_info&, std::size_t) {
        ++oom_calls;
        if (throw_now)
            throw HandlerOom();
    });
    for (int round = 0; round < 6; ++round)
    {
        throw_now = round % 2 == 0;
        oom_calls = bad_calls = 0;
        const char* kind = "ok";
        try
        {
            (void)traits::allocate_node(a, std::size_t(1) << 55, 8);
        }
        catch (const HandlerOom&)
        {
            kind = "handler-exception";
        }
        catch (const out_of_memory&)
        {
            kind = "oom";
        }
        catch (...)
        {
            kind = "other";
        }
        std::printf("oom-case %s round %d (handler %s) -> %s oom_handler=%d\n", name, round, throw_now ? "throws" : "returns", kind, oom_calls);
        if (oom_calls != 1 || std::string(kind) != (throw_now ? "handler-exception" : "oom"))
            failures.push_back(fmt("C03 %s allocate_node(2^55), failure no. %d after handlers that threw: the registered out_of_memory handler was called "
                                   "%d time(s), outcome %s (expected once, %s)",
                                   name, round + 1, oom_calls, kind, throw_now ? "the handler's own exception" : "out_of_memory"));
        ++n_cases;
    }
    out_of_memory::set_handler(old);
}

int main(int argc, char** argv)
{
    if (argc > 3 && std::string(argv[1]) == "exit")
    {
        std::string        which = argv[2];
        unsigned long long sd = std::strtoull(argv[3], nullptr, 10);
        const std::size_t  extra = detail::debug_fence_size ? 2 * detail::max_alignment : 0;
        if (which == "heap")
            return exit_scenario<heap_allocator>(sd, extra);
#if FOONATHAN_HOSTED_IMPLEMENTATION
        if (which == "malloc")
            return exit_scenario<malloc_allocator>(sd, extra);
        if (which == "new")
            return exit_scenario<new_allocator>(sd, extra);
#endif
        return 3;
    }
    if (argc > 1 && std::string(argv[1]) == "oom")
    {
        out_of_memory::set_handler([](const allocator_info&, std::size_t) { ++oom_calls; });
        bad_allocation_size::set_handler([](const allocator_info&, std::size_t, std::size_t) { ++bad_calls; });
        std::setvbuf(stdout, nullptr, _IOLBF, 0);
        std::printf("header subject=lowlevel-oom %s\n", cfg_string().c_str());
        oom_probe<heap_allocator>("heap");
#if FOONATHAN_HOSTED_IMPLEMENTATION
        oom_probe<malloc_allocator>("malloc");
        oom_probe<new_allocator>("new");
#endif
        oom_probe<virtual_memory_allocator>("virtual");
        for (auto& f : failures)
            std::printf("oracle-fail %s\n", f.c_str());
        std::printf("summary ops=%ld ok=%ld null=0 throw=%ld grow=0 oracle_checks=%ld\n", n_cases, 0L, n_cases, n_cases);
        return 0;
    }
    bool               thorough = argc > 1 && std::atoi(argv[1]) != 0;
    unsigned long long seed = argc > 2 ? std::strtoull(argv[2], nullptr, 10) : 1;
    Rng                g(seed);
    set_buffer_overflow_handler(&on_overflow);
    const std::size_t ll_fence = detail::debug_fence_size ? detail::max_alignment : 0;
    const std::size_t vm_fence = detail::debug_fence_size ? virtual_memory_page_size : 0;
    std::printf("header subject=lowlevel seed=%llu %s llfence=%zu vmfence=%zu magic_new=%u magic_freed=%u magic_fence=%u\n", seed,
                cfg_string().c_str(), ll_fence, vm_fence, (unsigned)debug_magic::new_memory, (unsigned)debug_magic::freed_memory,
                (unsigned)debug_magic::fence_memory);
    sweep<heap_allocator>("heap", ll_fence, thorough, g, false);
#if FOONATHAN_HOSTED_IMPLEMENTATION
    sweep<malloc_allocator>("malloc", ll_fence, thorough, g, false);
    sweep<new_allocator>("new", ll_fence, thorough, g, false);
#endif
    sweep<virtual_memory_allocator>("virtual", vm_fence, thorough, g, true);
    for (auto& f : failures)
        std::printf("oracle-fail %s\n", f.c_str());
    std::printf("summary ops=%ld ok=%ld null=0 throw=0 grow=0 reported=%ld clean=%ld oracle_checks=%ld\n", n_cases, n_cases, n_reported,
                n_clean, n_cases);
    return 0;
}
