// C20 (exception safety of the object-creating helpers) and C11 (joint allocations) on the real code
// usage: subj_smart <thorough 0|1> <seed>
// lines:
//   sp unique <S> <A> <fail>                           |  | <event log> |  | -
//   sp uarr <n> <S> <A> <k|->                          |  | <event log> |  | -
//   sp shared <size> <align> <fail>                    |  | <event log> |  | -
//   sp joint <objSize> <extra> <align> <start> <k|-> <n1> <n2> <n3> form=<f> |  | <event log> |  | -
//   jt <objSize> <extra> <S> <A> <form> <n1> <n2> <n3> |  | ok <offA> <offB> <offC> top=<off> left=<n> release=<size> | throw out_of_fixed_memory |  | -
// event log: A:node:<size>:<align> A:arr:<count>:<size>:<align> C<id> X<id> D<id> F:node:.. F:arr:.. T
#include <cstdio>
#include <cstring>
#include <list>
#include <map>
#include <string>
#include <vector>
#include "proto.hpp"
#include "heap_allocator.hpp"
#include "joint_allocator.hpp"
#include "smart_ptr.hpp"
#include "memory_pool.hpp"
#include "memory_stack.hpp"

using namespace foonathan::memory;
using namespace verif;

static std::vector<std::string> LOG;
static std::vector<std::string> failures;
static long                     n_cases = 0, n_fail_cases = 0, n_joint = 0;
static void                     fail(const std::string& s)
{
    if (failures.size() < 20)
    {
        failures.push_back(s);
        std::printf("oracle-fail %s\n", s.c_str()); // at once: the line must survive a later crash of the code under test
        std::fflush(stdout);
    }
}
static std::string log_str()
{
    std::string s;
    for (auto& e : LOG)
        s += (s.empty() ? "" : " ") + e;
    return s;
}

//=== instrumented element ===//
struct ElemFail
{
    long id;
};
static long                         next_id = 0, fail_at = -1;
static bool                         quiet = false;
static std::map<const void*, long>& registry()
{
    static std::map<const void*, long> r;
    return r;
}
static void elem_init(const void* self)
{
    if (quiet)
    {
        registry()[self] = -1;
        return;
    }
    long id = next_id++;
    if (id == fail_at)
    {
        LOG.push_back(fmt("X%ld", id));
        throw ElemFail{id};
    }
    if (registry().count(self))
        fail(fmt("element %ld constructed over a live element", id));
    registry()[self] = id;
    LOG.push_back(fmt("C%ld", id));
}
static void elem_fini(const void* self)
{
    auto it = registry().find(self);
    if (it == registry().end())
    {
        LOG.push_back("D?");
        fail("destructor ran on memory that holds no constructed element");
        return;
    }
    if (it->second >= 0)
        LOG.push_back(fmt("D%ld", it->second));
    registry().erase(it);
}
template <std::size_t S, std::size_t A>
struct alignas(A) Elem
{
    unsigned char pad[S];
    Elem()
    {
        elem_init(this);
    }
    Elem(const Elem&)
    {
        elem_init(this);
    }
    Elem(Elem&&)
    {
        elem_init(this);
    }
    ~Elem()
    {
        elem_fini(this);
    }
    Elem& operator=(const Elem&) = default;
};

//=== instrumented allocator (over the real heap_allocator) ===//
struct Blk
{
    void*       p;
    bool        arr;
    std::size_t c, s, a;
};
struct AllocState
{
    heap_allocator   heap;
    std::vector<Blk> out;
    long             n_alloc = 0, n_dealloc = 0;
};
struct LogAlloc
{
    using is_stateful = std::true_type;
    AllocState* st;
    explicit LogAlloc(AllocState& s) : st(&s) {}
    void* allocate_node(std::size_t size, std::size_t align)
    {
        void* p = st->heap.allocate_node(size, align);
        st->out.push_back({p, false, 1, size, align});
        ++st->n_alloc;
        LOG.push_back(fmt("A:node:%zu:%zu", size, align));
        return p;
    }
    void* allocate_array(std::size_t count, std::size_t size, std::size_t align)
    {
        void* p = st->heap.allocate_node(count * size + (count == 0), align);
        st->out.push_back({p, true, count, size, align});
        ++st->n_alloc;
        LOG.push_back(fmt("A:arr:%zu:%zu:%zu", count, size, align));
        return p;
    }
    void release(void* p, bool arr, std::size_t c, std::size_t s, std::size_t a) noexcept
    {
        ++st->n_dealloc;
        LOG.push_back(arr ? fmt("F:arr:%zu:%zu:%zu", c, s, a) : fmt("F:node:%zu:%zu", s, a));
        for (std::size_t i = 0; i < st->out.size(); ++i)
            if (st->out[i].p == p)
            {
                auto b = st->out[i];
                if (b.arr != arr || b.c != c || b.s != s || b.a != a)
                    fail(fmt("block allocated as %s(count %zu, size %zu, align %zu) released as %s(count %zu, size %zu, align %zu)",
                             b.arr ? "array" : "node", b.c, b.s, b.a, arr ? "array" : "node", c, s, a));
                st->heap.deallocate_node(p, b.arr ? b.c * b.s + (b.c == 0) : b.s, b.a);
                st->out.erase(st->out.begin() + long(i));
                return;
            }
        fail("release of a pointer that is not outstanding");
    }
    void deallocate_node(void* p, std::size_t size, std::size_t align) noexcept
    {
        release(p, false, 1, size, align);
    }
    void deallocate_array(void* p, std::size_t count, std::size_t size, std::size_t align) noexcept
    {
        release(p, true, count, size, align);
    }
    std::size_t max_node_size() const noexcept
    {
        return std::size_t(-1) / 2;
    }
    std::size_t max_array_size() const noexcept
    {
        return std::size_t(-1) / 2;
    }
    std::size_t max_alignment() const noexcept
    {
        return 16;
    }
};

// independent check of a finished case: every element constructed was destroyed exactly once, nothing outstanding
static void check_case(AllocState& st, const std::string& what, bool expect_throw, bool threw, long threw_id)
{
    if (!registry().empty())
    {
        bool only_protos = true;
        for (auto& kv : registry())
            if (kv.second >= 0)
                only_protos = false;
        if (!only_protos)
            fail(what + ": an element that was constructed is still alive after the helper finished (never destroyed)");
    }
    if (!st.out.empty())
        fail(what + fmt(": %zu block(s) never released", st.out.size()));
    if (expect_throw != threw)
        fail(what + (threw ? ": unexpected exception" : ": the constructor's exception did not reach the caller"));
    if (threw && threw_id != fail_at)
        fail(what + ": a different exception object reached the caller");
    // allocator still usable
    LogAlloc a(st);
    auto     save = LOG;
    void*    p = a.allocate_node(24, 8);
    a.deallocate_node(p, 24, 8);
    LOG = save;
    ++n_cases;
    if (expect_throw)
        ++n_fail_cases;
}

static void emit(const std::string& op, const std::string& res)
{
    std::printf("%s |  | %s |  | -\n", op.c_str(), res.c_str());
}

static void reset_case(long start, long k)
{
    LOG.clear();
    next_id = start;
    fail_at = k;
}

//=== allocate_unique / allocate_shared ===//
template <class E>
static void run_unique(AllocState& st, bool fail_it)
{
    reset_case(0, fail_it ? 0 : -1);
    bool threw = false;
    long tid = -1;
    try
    {
        LogAlloc a(st);
        auto     p = allocate_unique<E>(a);
        p.reset();
    }
    catch (ElemFail& f)
    {
        threw = true;
        tid = f.id;
        LOG.push_back("T");
    }
    std::string op = fmt("sp unique %zu %zu %d", sizeof(E), alignof(E), (int)fail_it);
    check_case(st, op, fail_it, threw, tid);
    emit(op, log_str());
}
template <class E>
static void run_uarr(AllocState& st, std::size_t n, long k)
{
    reset_case(0, k);
    bool threw = false;
    long tid = -1;
    try
    {
        LogAlloc a(st);
        auto     p = allocate_unique<E[]>(a, n);
        p.reset();
    }
    catch (ElemFail& f)
    {
        threw = true;
        tid = f.id;
        LOG.push_back("T");
    }
    std::string op = k >= 0 ? fmt("sp uarr %zu %zu %zu %ld", n, sizeof(E), alignof(E), k) : fmt("sp uarr %zu %zu %zu -", n, sizeof(E), alignof(E));
    check_case(st, op, k >= 0, threw, tid);
    emit(op, log_str());
}
template <class E>
static void run_shared(AllocState& st, bool fail_it)
{
    reset_case(0, fail_it ? 0 : -1);
    bool threw = false;
    long tid = -1;
    try
    {
        LogAlloc a(st);
        auto     p = allocate_shared<E>(a);
        p.reset();
    }
    catch (ElemFail& f)
    {
        threw = true;
        tid = f.id;
        LOG.push_back("T");
    }
    // the control block size is libstdc++'s business: take size/alignment from the request itself
    std::size_t size = 0, align = 0;
    if (!LOG.empty())
        std::sscanf(LOG[0].c_str(), "A:node:%zu:%zu", &size, &align);
    std::string op = fmt("sp shared %zu %zu %d", size, align, (int)fail_it);
    check_case(st, op, fail_it, threw, tid);
    emit(op, log_str());
}

//=== joint objects ===//
enum Form
{
    F_SIZE,
    F_VALUE,
    F_ILIST,
    F_RANGE,
    F_NFORMS
};
static const char* form_name(int f)
{
    static const char* n[] = {"size", "value", "ilist", "range"};
    return n[f];
}

template <class E>
struct J : joint_type<J<E>>
{
    joint_array<E> a, b, c;
    static joint_array<E> make(int form, std::size_t n, const std::vector<E>& protos, J& j)
    {
        switch (form)
        {
        case F_SIZE: return joint_array<E>(n, j);
        case F_VALUE: return joint_array<E>(n, protos[0], j);
        case F_ILIST:
            if (n == 0)
                return joint_array<E>(std::initializer_list<E>{}, j);
            if (n == 1)
                return joint_array<E>({protos[0]}, j);
            if (n == 2)
                return joint_array<E>({protos[0], protos[1]}, j);
            return joint_array<E>({protos[0], protos[1], protos[2]}, j);
        default: return joint_array<E>(protos.begin(), protos.begin() + long(n), j);
        }
    }
    J(joint jt, int form, std::size_t n1, std::size_t n2, std::size_t n3, const std::vector<E>& protos)
    : joint_type<J<E>>(jt), a(make(form, n1, protos, *this)), b(make(form, n2, protos, *this)), c(make(form, n3, protos, *this))
    {
    }
    J(joint jt, const J& o) : joint_type<J<E>>(jt), a(o.a, *this), b(o.b, *this), c(o.c, *this) {}
    J(joint jt, J&& o) : joint_type<J<E>>(jt), a(std::move(o.a), *this), b(std::move(o.b), *this), c(std::move(o.c), *this) {}
};

// bytes the three arrays need behind an object whose memory starts 16-aligned (+ sizeof(J))
template <class E>
static std::size_t joint_need(std::size_t n1, std::size_t n2, std::size_t n3)
{
    std::size_t top = sizeof(J<E>);
    for (std::size_t n : {n1, n2, n3})
    {
        top = (top + alignof(E) - 1) / alignof(E) * alignof(E);
        top += n * sizeof(E);
    }
    return top - sizeof(J<E>);
}

template <class E>
static void run_joint_exc(AllocState& st, int form, std::size_t n1, std::size_t n2, std::size_t n3, long k)
{
    // ilist elements are copied twice (into the initializer_list's array by the harness itself): build them quietly
    quiet = true;
    std::vector<E> protos(std::max<std::size_t>({n1, n2, n3, 3}));
    quiet = false;
    std::size_t extra = joint_need<E>(n1, n2, n3) + 8;
    std::string op;
    {
        // ilist: the temporaries of the braced list are constructed by the caller; keep them out of the log
        reset_case(0, k);
        bool threw = false;
        long tid = -1;
        if (form == F_ILIST)
            quiet = false;
        try
        {
            LogAlloc a(st);
            auto     jp = allocate_joint<J<E>>(a, joint_size(extra), form, n1, n2, n3, protos);
            jp.reset();
        }
        catch (ElemFail& f)
        {
            threw = true;
            tid = f.id;
            LOG.push_back("T");
        }
        op = fmt("sp joint %zu %zu %zu 0 %s %zu %zu %zu form=%s", sizeof(J<E>), extra, alignof(J<E>), k >= 0 ? fmt("%ld", k).c_str() : "-", n1,
                 n2, n3, form_name(form));
        if (form != F_ILIST) // the braced lists create extra temporaries that belong to the caller, not to the helper
        {
            check_case(st, op, k >= 0, threw, tid);
            emit(op, log_str());
        }
        else
        {
            // only the independent check (every constructed element destroyed once, block released, exception propagated)
            bool expect = threw; // temporaries shift the ids; accept either, but the bookkeeping must balance
            check_case(st, op, expect, threw, threw ? fail_at : -1);
        }
    }
    quiet = true;
    protos.clear();
    quiet = false;
    ++n_joint;
}

// A constructor of the joint object catches the failure of one of its member arrays and goes on: the rolled back
// array's joint memory must be available again (the retry with the same size fits an exact-fit block). Failure of the
// very first element is left out: the library's builder keeps the memory then (D19, classified earlier).
template <class E>
struct JRetry : joint_type<JRetry<E>>
{
    bool           caught = false; // (declared before `a`: initialised before the array is built)
    std::size_t    top_before = 0, top_after_failure = 0;
    joint_array<E> a;
    static joint_array<E> attempt(JRetry& self, int form, std::size_t n, const std::vector<E>& protos)
    {
        auto&  stk = detail::get_stack(self);
        char*  mem = detail::get_memory(self);
        self.top_before = stk.capacity_used(mem);
        try
        {
            switch (form)
            {
            case F_SIZE: return joint_array<E>(n, self);
            case F_VALUE: return joint_array<E>(n, protos[0], self);
            default: return joint_array<E>(protos.begin(), protos.begin() + long(n), self);
            }
        }
        catch (ElemFail&)
        {
            self.caught = true;
            self.top_after_failure = stk.capacity_used(mem);
            LOG.push_back("caught");
            fail_at = -1;
            // the same array again: fits only if the failed attempt gave its memory back
            return joint_array<E>(protos.begin(), protos.begin() + long(n), self);
        }
    }
    JRetry(joint jt, int form, std::size_t n, const std::vector<E>& protos) : joint_type<JRetry<E>>(jt), a(attempt(*this, form, n, protos)) {}
};

template <class E>
static void run_joint_retry(AllocState& st, int form, std::size_t n, long k)
{
    quiet = true;
    std::vector<E> protos(std::max<std::size_t>(n, 3));
    quiet = false;
    std::size_t extra = n * sizeof(E) + (alignof(E) > alignof(JRetry<E>) ? alignof(E) : 0); // exact fit (+ alignment slack only)
    reset_case(0, k);
    std::string what = fmt("joint_array %s form, n=%zu, element %ld throws, caught inside the joint object's constructor", form_name(form), n, k);
    bool        threw_out = false, oofm = false;
    {
        LogAlloc a(st);
        try
        {
            auto jp = allocate_joint<JRetry<E>>(a, joint_size(extra), form, n, protos);
            if (!jp->caught)
                fail(what + ": the element did not throw (harness)");
            else if (jp->top_after_failure > (jp->top_before + alignof(E) - 1) / alignof(E) * alignof(E) + alignof(E))
                // (the rollback returns to the start of the array: the alignment padding in front of it stays consumed,
                // which costs nothing - the next array needs the same padding)
                fail(fmt("C20 %s: %zu bytes of joint memory stay consumed after the rollback", what.c_str(), jp->top_after_failure - jp->top_before));
            if (jp->a.size() != n)
                fail("C20 " + what + ": the retried array has the wrong size");
            jp.reset();
        }
        catch (ElemFail&)
        {
            threw_out = true;
        }
        catch (out_of_fixed_memory&)
        {
            oofm = true;
        }
    }
    if (oofm)
        fail("C20 " + what + ": the same array no longer fits afterwards (out_of_fixed_memory): the failed attempt kept its joint memory");
    if (threw_out)
        fail("C20 " + what + ": harness: exception escaped");
    if (!registry().empty())
    {
        bool live = false;
        for (auto& kv : registry())
            if (kv.second >= 0)
                live = true;
        if (live)
            fail("C20 " + what + ": elements left alive");
    }
    if (!st.out.empty())
        fail("C20 " + what + ": the block of the joint object was not released");
    quiet = true;
    protos.clear();
    quiet = false;
    ++n_joint;
}

// clone_joint and move-with-allocator of an existing object (ids continue after the original's)
template <class E>
static void run_joint_clone(AllocState& st, std::size_t n1, std::size_t n2, std::size_t n3, long k, bool move_form)
{
    quiet = true;
    std::vector<E> protos(std::max<std::size_t>({n1, n2, n3, 1}));
    quiet = false;
    std::size_t extra = joint_need<E>(n1, n2, n3) + 24;
    LogAlloc    a(st);
    reset_case(0, -1);
    auto        orig = allocate_joint<J<E>>(a, joint_size(extra), (int)F_VALUE, n1, n2, n3, protos);
    long        total = long(n1 + n2 + n3);
    std::size_t used = detail::get_stack(*orig).capacity_used(detail::get_memory(*orig));
    reset_case(total, k >= 0 ? total + k : -1);
    bool threw = false;
    long tid = -1;
    try
    {
        if (move_form)
        {
            auto jp = allocate_joint<J<E>>(a, joint_size(used), std::move(*orig));
            jp.reset();
        }
        else
        {
            auto jp = clone_joint(a, *orig);
            jp.reset();
        }
    }
    catch (ElemFail& f)
    {
        threw = true;
        tid = f.id;
        LOG.push_back("T");
    }
    std::string op = fmt("sp joint %zu %zu %zu %ld %s %zu %zu %zu form=%s", sizeof(J<E>), used, alignof(J<E>), total,
                         k >= 0 ? fmt("%ld", total + k).c_str() : "-", n1, n2, n3, move_form ? "move" : "clone");
    auto        log = log_str();
    // the original is still intact and is released afterwards
    auto save_fail = fail_at;
    orig.reset();
    fail_at = save_fail;
    check_case(st, op, k >= 0, threw, tid);
    emit(op, log);
    quiet = true;
    protos.clear();
    quiet = false;
    ++n_joint;
}

//=== C11: where the joint memory goes ===//
template <class E>
static void run_joint_layout(AllocState& st, int form, std::size_t n1, std::size_t n2, std::size_t n3, std::size_t extra, bool clone)
{
    quiet = true; // elements are not logged here
    std::vector<E> protos(std::max<std::size_t>({n1, n2, n3, 3}));
    LOG.clear();
    LogAlloc    a(st);
    std::string res;
    std::string op = fmt("jt %zu %zu %zu %zu %s %zu %zu %zu", sizeof(J<E>), extra, sizeof(E), alignof(E), form == F_RANGE ? "range" : "sized", n1,
                         n2, n3);
    try
    {
        auto  jp = allocate_joint<J<E>>(a, joint_size(extra), form, n1, n2, n3, protos);
        char* obj = reinterpret_cast<char*>(jp.get());
        if (st.out.size() != 1 || st.out[0].p != obj)
            fail(op + ": the object is not at the start of its single upstream block");
        if (reinterpret_cast<std::uintptr_t>(obj) % 16 != 0)
            fail(op + ": upstream block not 16-aligned (harness assumption)");
        char*       lo = obj + sizeof(J<E>);
        char*       hi = lo + extra;
        std::string offs;
        const joint_array<E>* arrs[3] = {&jp->a, &jp->b, &jp->c};
        char*                 prev_end = lo;
        for (auto arr : arrs)
        {
            auto d = reinterpret_cast<const char*>(arr->data());
            if (arr->size() == 0 && !d)
            {
                offs += " -";
                continue;
            }
            offs += fmt(" %zu", std::size_t(d - obj));
            if (reinterpret_cast<std::uintptr_t>(d) % alignof(E) != 0)
                fail(op + ": member array not aligned for its element type");
            if (d < prev_end || d + arr->size() * sizeof(E) > hi)
                fail(op + fmt(": member array [%zu,+%zu) outside the joint memory or overlapping the previous member", std::size_t(d - obj),
                              arr->size() * sizeof(E)));
            prev_end = const_cast<char*>(d) + arr->size() * sizeof(E);
        }
        auto&       stack = detail::get_stack(*jp);
        std::size_t top = std::size_t(stack.top() - obj), left = stack.capacity_left();
        if (clone)
        {
            std::size_t used = stack.capacity_used(detail::get_memory(*jp));
            auto        cp = clone_joint(a, *jp);
            char*       cobj = reinterpret_cast<char*>(cp.get());
            if (cobj == obj || st.out.size() != 2)
                fail(op + ": clone does not live in its own upstream block");
            const joint_array<E>* carrs[3] = {&cp->a, &cp->b, &cp->c};
            for (int i = 0; i < 3; ++i)
            {
                auto d = reinterpret_cast<const char*>(carrs[i]->data());
                if (carrs[i]->size() != arrs[i]->size())
                    fail(op + ": clone has a different number of elements");
                if (d && (d < cobj + sizeof(J<E>) || d + carrs[i]->size() * sizeof(E) > cobj + sizeof(J<E>) + used))
                    fail(op + ": clone's member array lies outside the clone's block");
            }
            LOG.clear();
            cp.reset();
            if (LOG.size() != 1 || LOG[0] != fmt("F:node:%zu:%zu", sizeof(J<E>) + used, alignof(J<E>)))
                fail(op + ": clone released as `" + log_str() + "`");
        }
        LOG.clear();
        jp.reset();
        std::size_t rel = 0, ral = 0;
        if (LOG.size() != 1 || std::sscanf(LOG[0].c_str(), "F:node:%zu:%zu", &rel, &ral) != 2)
            fail(op + ": reset() did not release the block in exactly one call: `" + log_str() + "`");
        else if (rel != sizeof(J<E>) + extra || ral != alignof(J<E>))
            fail(op + fmt(": block of %zu bytes (align %zu) released as %zu bytes (align %zu)", sizeof(J<E>) + extra, alignof(J<E>), rel, ral));
        res = "ok" + offs + fmt(" top=%zu left=%zu release=%zu", top, left, rel);
    }
    catch (out_of_fixed_memory&)
    {
        res = "throw out_of_fixed_memory";
        if (!st.out.empty())
            fail(op + ": block not released after out_of_fixed_memory");
    }
    if (!registry().empty())
    {
        for (auto& kv : registry())
            if (kv.first < (const void*)&protos.front() || kv.first > (const void*)&protos.back())
            {
                fail(op + ": elements left alive");
                break;
            }
    }
    protos.clear();
    quiet = false;
    ++n_joint;
    emit(op, res);
}

//=== C11: histories through joint_allocator itself (allocate_node / deallocate_node in any order) ===//
// A member container (std::vector<T, joint_allocator>) that regrows allocates its new buffer first and releases the old one
// afterwards, i.e. it releases a node that is NOT the newest: only the newest allocation may be given back.
//   jh <objSize> <extra> <op>...   with op = a:<size>:<align> | d:<index of an earlier allocation>
//   result: one token per op (a -> offset from the object or "oofm", d -> "-") and the final top / capacity left
struct JH : joint_type<JH>
{
    long tag;
    JH(joint j, long t) : joint_type<JH>(j), tag(t) {}
};

static void run_joint_history(AllocState& st, Rng& g, std::size_t extra, int nops, bool vector_like)
{
    quiet = true;
    LOG.clear();
    LogAlloc    a(st);
    std::string op = fmt("jh %zu %zu", sizeof(JH), extra), res;
    {
        auto            jp = allocate_joint<JH>(a, joint_size(extra), 7L);
        char*           obj = reinterpret_cast<char*>(jp.get());
        joint_allocator alloc(*jp);
        struct Rec
        {
            char*       p;
            std::size_t size;
            bool        released; // given back by the allocator (was the newest), or merely abandoned by the user
            bool        user_live;
        };
        std::vector<Rec> recs;
        auto check_new = [&](char* p, std::size_t size, std::size_t align)
        {
            if (p < obj + sizeof(JH) || p + size > obj + sizeof(JH) + extra)
                fail(op + fmt(": joint_allocator node [%zu,+%zu) outside the joint memory", std::size_t(p - obj), size));
            if (reinterpret_cast<std::uintptr_t>(p) % align != 0)
                fail(op + fmt(": joint_allocator node at %zu not aligned to %zu", std::size_t(p - obj), align));
            for (auto& r : recs)
                if (r.user_live && p < r.p + r.size && r.p < p + size)
                    fail(op + fmt(": joint_allocator node [%zu,+%zu) overlaps the live node [%zu,+%zu)", std::size_t(p - obj), size,
                                  std::size_t(r.p - obj), r.size));
        };
        for (int i = 0; i < nops; ++i)
        {
            bool do_alloc = recs.empty() || g.chance(vector_like ? 50 : 60);
            if (vector_like && !recs.empty() && i % 2 == 1)
            { // regrow: a bigger buffer first, then the old one goes back
                std::size_t old = recs.size() - 1 - g.below(std::min<std::size_t>(recs.size(), 2));
                if (recs[old].user_live)
                {
                    std::size_t size = recs[old].size * 2, align = 4;
                    op += fmt(" a:%zu:%zu", size, align);
                    try
                    {
                        char* p = static_cast<char*>(alloc.allocate_node(size, align));
                        check_new(p, size, align);
                        std::memset(p, 0x5a, size);
                        recs.push_back({p, size, false, true});
                        res += fmt(" %zu", std::size_t(p - obj));
                    }
                    catch (out_of_fixed_memory&)
                    {
                        res += " oofm";
                        recs.push_back({nullptr, size, true, false});
                    }
                    op += fmt(" d:%zu", old);
                    alloc.deallocate_node(recs[old].p, recs[old].size, 4);
                    recs[old].user_live = false;
                    res += " -";
                    continue;
                }
            }
            if (do_alloc)
            {
                static const std::size_t sizes[] = {1, 3, 4, 8, 12, 16, 24, 40};
                std::size_t              size = sizes[g.below(8)], align = std::size_t(1) << g.below(5);
                op += fmt(" a:%zu:%zu", size, align);
                try
                {
                    char* p = static_cast<char*>(alloc.allocate_node(size, align));
                    check_new(p, size, align);
                    std::memset(p, 0x5a, size);
                    recs.push_back({p, size, false, true});
                    res += fmt(" %zu", std::size_t(p - obj));
                }
                catch (out_of_fixed_memory&)
                {
                    res += " oofm";
                    recs.push_back({nullptr, size, true, false});
                }
            }
            else
            {
                std::size_t k = g.below(recs.size());
                if (!recs[k].user_live)
                {
                    --i;
                    if (g.chance(30))
                        ++i;
                    continue;
                }
                op += fmt(" d:%zu", k);
                alloc.deallocate_node(recs[k].p, recs[k].size, 1);
                recs[k].user_live = false;
                res += " -";
            }
        }
        auto& stack = detail::get_stack(*jp);
        res = "ok" + res
              + fmt(" top=%zu left=%zu", std::size_t(stack.top() - obj), stack.capacity_left());
        // the memory of nodes the user still holds must be untouched
        for (auto& r : recs)
            if (r.user_live)
                for (std::size_t b = 0; b < r.size; ++b)
                    if (static_cast<unsigned char>(r.p[b]) != 0x5a)
                    {
                        fail(op + fmt(": live joint_allocator node [%zu,+%zu) was overwritten", std::size_t(r.p - obj), r.size));
                        break;
                    }
        jp.reset();
    }
    if (!st.out.empty())
        fail(op + ": block not released by reset()");
    quiet = false;
    ++n_joint;
    emit(op, res);
}

template <class E>
static void sweep(AllocState& st, bool thorough, Rng& g)
{
    run_unique<E>(st, false);
    run_unique<E>(st, true);
    run_shared<E>(st, false);
    run_shared<E>(st, true);
    std::size_t nmax = 16;
    for (std::size_t n = 0; n <= nmax; ++n)
    {
        if (!thorough && n > 5 && n != 16 && n != 9)
            continue;
        run_uarr<E>(st, n, -1);
        for (std::size_t k = 0; k < n; ++k)
            run_uarr<E>(st, n, long(k));
    }
    // joint objects: three member arrays; every form; failure at every element index
    static const std::size_t layouts[][3] = {{0, 0, 0}, {1, 0, 0}, {3, 0, 0}, {0, 2, 0}, {2, 3, 1}, {3, 0, 2}, {1, 1, 1}, {4, 4, 4}, {0, 0, 5}, {16, 0, 0}, {5, 6, 5}};
    for (auto& l : layouts)
    {
        if (!thorough && (l[0] + l[1] + l[2] > 9 && l[0] != 16))
            continue;
        std::size_t total = l[0] + l[1] + l[2];
        for (int form = 0; form < F_NFORMS; ++form)
        {
            if (form == F_ILIST && (l[0] > 3 || l[1] > 3 || l[2] > 3))
                continue;
            run_joint_exc<E>(st, form, l[0], l[1], l[2], -1);
            for (std::size_t k = 0; k < total; ++k)
                run_joint_exc<E>(st, form, l[0], l[1], l[2], long(k));
        }
        if (l[1] == 0 && l[2] == 0 && l[0] >= 2)
            for (int form : {int(F_SIZE), int(F_VALUE), int(F_RANGE)})
                for (std::size_t k = 1; k < l[0]; ++k)
                    run_joint_retry<E>(st, form, l[0], long(k));
        for (int mv = 0; mv < 2; ++mv)
        {
            run_joint_clone<E>(st, l[0], l[1], l[2], -1, mv != 0);
            for (std::size_t k = 0; k < total; ++k)
                run_joint_clone<E>(st, l[0], l[1], l[2], long(k), mv != 0);
        }
        // C11: layout with generous, exact-fit, one-byte-short and zero extra memory
        std::size_t need = joint_need<E>(l[0], l[1], l[2]);
        for (int form : {int(F_SIZE), int(F_RANGE)})
        {
            run_joint_layout<E>(st, form, l[0], l[1], l[2], need + 40, true);
            run_joint_layout<E>(st, form, l[0], l[1], l[2], need, true);
            if (need > 0)
                run_joint_layout<E>(st, form, l[0], l[1], l[2], need - 1, false);
            run_joint_layout<E>(st, form, l[0], l[1], l[2], 0, false);
            if (need > sizeof(E))
                run_joint_layout<E>(st, form, l[0], l[1], l[2], need - sizeof(E), false); // one element short
            run_joint_layout<E>(st, form, l[0], l[1], l[2], g.below(need + 20), false);
        }
    }
}

//=== the helpers over the library's own allocators: after a rollback the allocator is exactly as usable as before ===//
template <class Pool>
static void real_pool_cases(const char* name, Rng& g, bool thorough)
{
    using E = Elem<16, 8>;
    Pool        pool(sizeof(E), 4096);
    std::size_t ns = pool.node_size();
    auto        drainable = [&]
    { // nodes obtainable without growing, counted by actually taking them
        std::vector<void*> got;
        while (void* p = pool.try_allocate_node())
            got.push_back(p);
        for (auto it = got.rbegin(); it != got.rend(); ++it)
            pool.deallocate_node(*it);
        return got.size();
    };
    for (int round = 0; round < (thorough ? 12 : 4); ++round)
    {
        // fragment the free list: singles allocated and released in a seeded order
        std::vector<std::unique_ptr<E, allocator_deleter<E, Pool>>> singles;
        quiet = true;
        for (int i = 0; i < 6; ++i)
            singles.push_back(allocate_unique<E>(pool));
        for (int i = 0; i < 4; ++i)
            singles.erase(singles.begin() + long(g.below(singles.size())));
        quiet = false;
        for (std::size_t n = 1; n <= 8; ++n)
            for (long k = -1; k < long(n); ++k)
            {
                std::size_t cap0 = pool.capacity_left(), nodes0 = drainable();
                reset_case(0, k);
                bool threw = false;
                try
                {
                    auto p = allocate_unique<E[]>(pool, n);
                    p.reset();
                }
                catch (ElemFail&)
                {
                    threw = true;
                }
                ++n_cases;
                if (threw != (k >= 0))
                    fail(fmt("%s: allocate_unique<T[]>(%zu) failing at %ld: exception %s", name, n, k, threw ? "unexpected" : "lost"));
                std::size_t cap1 = pool.capacity_left(), nodes1 = drainable();
                // (an array request on a fragmented list may make the pool take another block: more capacity afterwards is
                // fine, less means memory was lost by the rollback / release)
                if (cap1 < cap0 || nodes1 < nodes0)
                    fail(fmt("%s: after allocate_unique<T[]>(%zu) %s the pool offers %zu nodes / capacity_left %zu, before %zu / %zu (node size %zu)",
                             name, n, k >= 0 ? fmt("with a constructor failure at %ld", k).c_str() : "and reset()", nodes1, cap1, nodes0, cap0, ns));
            }
        quiet = true;
        singles.clear();
        quiet = false;
    }
    LOG.clear();
}

//=== C11 / C20: joint objects of over-aligned types, and failures BEFORE the object's constructor is entered ===//
// own recording allocator: honours any alignment, fills what it hands out (so that nothing sensible can be read from a block
// whose object was never constructed), insists on the same size and alignment at the release
struct ExactAlloc
{
    using is_stateful = std::true_type;
    struct Rec
    {
        void*       p;
        std::size_t size, align;
    };
    std::vector<Rec>* out;
    explicit ExactAlloc(std::vector<Rec>& o) : out(&o) {}
    void* allocate_node(std::size_t size, std::size_t align)
    {
        void* p = nullptr;
        if (posix_memalign(&p, align < sizeof(void*) ? sizeof(void*) : align, size ? size : 1) != 0)
            throw std::bad_alloc();
        std::memset(p, 0xCD, size);
        out->push_back({p, size, align});
        return p;
    }
    void deallocate_node(void* p, std::size_t size, std::size_t align) noexcept
    {
        for (std::size_t i = 0; i < out->size(); ++i)
            if ((*out)[i].p == p)
            {
                if ((*out)[i].size != size || (*out)[i].align != align)
                    fail(fmt("joint block obtained as node(size %zu, alignment %zu) given back as node(size %zu, alignment %zu)", (*out)[i].size,
                             (*out)[i].align, size, align));
                out->erase(out->begin() + long(i));
                std::free(p);
                return;
            }
        fail("joint block released that is not outstanding");
    }
};
template <std::size_t A>
struct alignas(A) JWide : joint_type<JWide<A>>
{
    joint_array<int> arr;
    long             tag = 7;
    JWide(joint j, std::size_t n) : joint_type<JWide<A>>(j), arr(n, *this) {}
    JWide(joint j, const JWide& o) : joint_type<JWide<A>>(j), arr(o.arr, *this), tag(o.tag) {}
};
struct ThrowOnCopy
{
    bool armed = false;
    ThrowOnCopy() = default;
    ThrowOnCopy(const ThrowOnCopy& o) : armed(o.armed)
    {
        if (armed)
            throw ElemFail{-2};
    }
};
struct JArg : joint_type<JArg>
{
    joint_array<int> arr;
    JArg(joint j, ThrowOnCopy, std::size_t n) : joint_type<JArg>(j), arr(n, *this) {} // the argument is copied BEFORE this constructor runs
};
template <std::size_t A>
static void wide_case()
{
    std::vector<ExactAlloc::Rec> out;
    ExactAlloc                   a(out);
    {
        auto jp = allocate_joint<JWide<A>>(a, joint_size(64), std::size_t(5));
        ++n_cases;
        if (out.size() != 1 || out[0].align < alignof(JWide<A>) || out[0].size != sizeof(JWide<A>) + 64)
            fail(fmt("joint object of a type aligned to %zu: the block was requested as node(size %zu, alignment %zu)", alignof(JWide<A>),
                     out.empty() ? 0 : out[0].size, out.empty() ? 0 : out[0].align));
        if (reinterpret_cast<std::uintptr_t>(jp.get()) % alignof(JWide<A>) != 0)
            fail(fmt("joint object of a type aligned to %zu is misaligned", alignof(JWide<A>)));
        auto cl = clone_joint(a, *jp);
        if (reinterpret_cast<std::uintptr_t>(cl.get()) % alignof(JWide<A>) != 0 || cl->arr.size() != 5)
            fail(fmt("clone of a joint object aligned to %zu is misaligned or incomplete", alignof(JWide<A>)));
        joint_ptr<JWide<A>, ExactAlloc> moved(std::move(jp));
        moved = nullptr; // release through reset()
    }
    if (!out.empty())
        fail("joint block of an over-aligned type never released");
}
static void early_throw_case()
{
    std::vector<ExactAlloc::Rec> out;
    ExactAlloc                   a(out);
    for (int round = 0; round < 3; ++round)
    {
        ThrowOnCopy t;
        t.armed = round != 1;
        bool threw = false;
        try
        {
            auto jp = allocate_joint<JArg>(a, joint_size(48 + 16 * std::size_t(round)), t, std::size_t(3));
        }
        catch (ElemFail&)
        {
            threw = true;
        }
        ++n_cases;
        if (threw != t.armed)
            fail("allocate_joint: an exception thrown while the constructor's arguments are built did not propagate");
        if (!out.empty())
        {
            fail("allocate_joint: the block is not given back when an argument of the constructor throws");
            out.clear();
        }
    }
}

int main(int argc, char** argv)
{
    bool               thorough = argc > 1 && std::atoi(argv[1]) != 0;
    unsigned long long seed = argc > 2 ? std::strtoull(argv[2], nullptr, 10) : 1;
    Rng                g(seed);
    AllocState         st;
    Handlers::install();
    std::printf("header subject=smart seed=%llu %s\n", seed, cfg_string().c_str());
    sweep<Elem<1, 1>>(st, thorough, g);
    sweep<Elem<8, 8>>(st, thorough, g);
    sweep<Elem<24, 8>>(st, thorough, g);
    sweep<Elem<16, 16>>(st, thorough, g);
    if (thorough)
    {
        sweep<Elem<3, 1>>(st, thorough, g);
        sweep<Elem<6, 2>>(st, thorough, g);
        sweep<Elem<4, 4>>(st, thorough, g);
    }
    real_pool_cases<memory_pool<node_pool>>("memory_pool<node_pool>", g, thorough);
    real_pool_cases<memory_pool<array_pool>>("memory_pool<array_pool>", g, thorough);
    { // memory_stack: the deleter cannot give memory back (stack), but rollback must destroy and propagate all the same
        memory_stack<> stack(4096);
        using E = Elem<8, 8>;
        for (std::size_t n = 1; n <= 6; ++n)
            for (long k = -1; k < long(n); ++k)
            {
                reset_case(0, k);
                auto m = stack.top();
                bool threw = false;
                try
                {
                    auto p = allocate_unique<E[]>(stack, n);
                    p.reset();
                }
                catch (ElemFail&)
                {
                    threw = true;
                }
                stack.unwind(m);
                ++n_cases;
                if (threw != (k >= 0) || !registry().empty())
                    fail(fmt("memory_stack: allocate_unique<T[]>(%zu) failing at %ld: %s", n, k, threw == (k >= 0) ? "elements left alive" : "wrong exception behaviour"));
            }
        LOG.clear();
    }
    wide_case<16>();
    wide_case<32>();
    wide_case<64>();
    early_throw_case();
    // joint_allocator histories (C11): releases in any order, vector-like regrowth
    for (int i = 0; i < (thorough ? 400 : 60); ++i)
        run_joint_history(st, g, 16 + g.below(200), 4 + int(g.below(14)), i % 3 == 0);
    // swap / move of joint_ptrs: every block goes back with its own size (checked by the instrumented allocator)
    {
        quiet = true;
        using E = Elem<8, 8>;
        std::vector<E> protos(4);
        LogAlloc       a(st);
        auto           p1 = allocate_joint<J<E>>(a, joint_size(100), (int)F_SIZE, std::size_t(2), std::size_t(1), std::size_t(0), protos);
        auto           p2 = allocate_joint<J<E>>(a, joint_size(64), (int)F_SIZE, std::size_t(1), std::size_t(1), std::size_t(1), protos);
        swap(p1, p2);
        joint_ptr<J<E>, LogAlloc> p3(std::move(p1));
        p2 = std::move(p3);
        p2.reset();
        p1.reset();
        p3.reset();
        if (!st.out.empty())
            fail("swap/move of joint_ptr: a block was never released");
        protos.clear();
        quiet = false;
    }
    // joint_ptrs on TWO allocator objects: a block goes back to the allocator object it came from, also after move assignment
    // (the pointer takes the source's allocator along), swap and move construction
    {
        quiet = true;
        using E = Elem<8, 8>;
        std::vector<E> protos(4);
        AllocState     sa, sb;
        {
            LogAlloc a(sa), b(sb);
            auto     pa = allocate_joint<J<E>>(a, joint_size(100), (int)F_SIZE, std::size_t(2), std::size_t(1), std::size_t(0), protos);
            auto     pb = allocate_joint<J<E>>(b, joint_size(64), (int)F_SIZE, std::size_t(1), std::size_t(1), std::size_t(1), protos);
            auto     pb2 = allocate_joint<J<E>>(b, joint_size(48), (int)F_SIZE, std::size_t(1), std::size_t(0), std::size_t(0), protos);
            pa = std::move(pb); // a's object is released to a; pa now owns b's object and must release it to b
            if (sa.out.size() != 0)
                fail("joint_ptr move assignment (two allocators): the target's previous object was not released to its own allocator");
            pa.reset();
            if (sb.out.size() != 1)
                fail(fmt("joint_ptr move assignment (two allocators): after reset() allocator B still has %zu block(s) outstanding (1 expected): the "
                         "block did not go back to the allocator it came from",
                         sb.out.size()));
            joint_ptr<J<E>, LogAlloc> pc(a); // empty pointer bound to a
            pc = std::move(pb2);             // assignment onto an empty pointer
            swap(pa, pc);                    // pa (empty, now bound to ...) <-> pc (b's object)
            pa.reset();
            pc.reset();
            if (!sa.out.empty() || !sb.out.empty())
                fail(fmt("joint_ptr move assignment / swap (two allocators): %zu block(s) of A and %zu of B never released", sa.out.size(),
                         sb.out.size()));
        }
        protos.clear();
        quiet = false;
    }
    std::printf("summary ops=%ld ok=%ld null=0 throw=%ld grow=0 joint=%ld up_alloc=%ld up_dealloc=%ld oracle_checks=%ld\n", n_cases + n_joint,
                n_cases - n_fail_cases, n_fail_cases, n_joint, st.n_alloc, st.n_dealloc, n_cases + n_joint);
    return 0;
}
