// subj_container with a user-specialised propagation policy (variant 0: pocs=1 pocma=0 pocca=0)
#define VERIF_PROP_VARIANT 0
#include "subj_container.cpp"
