// state dumps of the real data structures (the abstraction function of the refinement): the harness is compiled with
// -fno-access-control, so no friend hooks are needed. The text forms equal the Lean models' `.str`.
#ifndef VERIF_DUMP_HPP
#define VERIF_DUMP_HPP
#include "proto.hpp"
#include "detail/free_list.hpp"
#include "detail/small_free_list.hpp"
#include "detail/free_list_array.hpp"
#include "memory_arena.hpp"
#include "static_allocator.hpp"
#include "detail/free_list_utils.hpp" // from <repo>/src

namespace verif
{
    namespace fmd = foonathan::memory::detail;

    // lists longer than 40 entries are printed as a digest (length, first, last, order-sensitive hash)
    inline std::string nat_list(const std::vector<std::size_t>& v)
    {
        if (v.size() > 40)
        {
            unsigned long long h = 7;
            for (auto x : v)
                h = h * 1000003ull + (unsigned long long)x + 1ull;
            return fmt("[#%zu first=%zu last=%zu h=%llu]", v.size(), v.front(), v.back(), h);
        }
        std::string s = "[";
        for (std::size_t i = 0; i < v.size(); ++i)
            s += fmt("%s%zu", i ? ", " : "", v[i]);
        return s + "]";
    }

    inline std::string dump_list(Region& R, fmd::free_memory_list& l)
    {
        std::vector<std::size_t> nodes;
        std::size_t              guard = 0;
        for (char* cur = l.first_; cur && guard < 2000000; cur = fmd::list_get_next(cur), ++guard)
            nodes.push_back(R.off(cur));
        return fmt("free ns=%zu cap=%zu nodes=", l.node_size_, l.capacity_) + nat_list(nodes);
    }

    inline std::string optr(Region& R, fmd::ordered_free_memory_list& l, char* p)
    {
        if (p == l.begin_node())
            return "B";
        if (p == l.end_node())
            return "E";
        return fmt("%zu", R.off(p));
    }

    inline std::string dump_list(Region& R, fmd::ordered_free_memory_list& l)
    {
        std::vector<std::size_t> nodes;
        char*                    prev = l.begin_node();
        char*                    cur = fmd::xor_list_get_other(prev, nullptr);
        std::size_t              guard = 0;
        while (cur != l.end_node() && cur && guard < 2000000)
        {
            nodes.push_back(R.off(cur));
            fmd::xor_list_iter_next(cur, prev);
            ++guard;
        }
        return fmt("ord ns=%zu cap=%zu nodes=", l.node_size_, l.capacity_) + nat_list(nodes) + " ldp="
               + optr(R, l, l.last_dealloc_prev_) + " ld=" + optr(R, l, l.last_dealloc_);
    }

    // the deallocation cursor of an ordered list must be a pair of neighbours of *this* list (proxies included)
    inline bool cursor_ok(fmd::ordered_free_memory_list& l)
    {
        char*       prev = l.begin_node();
        char*       cur = fmd::xor_list_get_other(prev, nullptr);
        std::size_t guard = 0;
        while (cur && guard < 2000000)
        {
            if (prev == l.last_dealloc_prev_ && cur == l.last_dealloc_)
                return true;
            if (cur == l.end_node())
                return false;
            fmd::xor_list_iter_next(cur, prev);
            ++guard;
        }
        return false;
    }
    template <class L>
    inline bool cursor_ok(L&)
    {
        return true;
    }

    inline std::string cptr(Region& R, fmd::small_free_memory_list& l, fmd::chunk_base* c)
    {
        if (c == &l.base_)
            return "P";
        return fmt("%zu", R.off(c));
    }

    inline std::string dump_list(Region& R, fmd::small_free_memory_list& l)
    {
        std::string s = fmt("small ns=%zu cap=%zu chunks=[", l.node_size_, l.capacity_);
        bool        first = true;
        std::size_t guard = 0;
        for (auto c = l.base_.next; c != &l.base_ && guard < 100000; c = c->next, ++guard)
        {
            std::vector<std::size_t> chain;
            auto                     mem = reinterpret_cast<unsigned char*>(c) + fmd::chunk_memory_offset;
            unsigned                 idx = c->first_free;
            for (unsigned steps = 0; idx != c->no_nodes && steps <= 256; ++steps)
            {
                chain.push_back(idx);
                idx = mem[idx * l.node_size_];
            }
            s += fmt("%s(%zu n=%u cap=%u free=", first ? "" : ",", R.off(c), (unsigned)c->no_nodes, (unsigned)c->capacity)
                 + nat_list(chain) + ")";
            first = false;
        }
        return s + "] alloc=" + cptr(R, l, l.alloc_chunk_) + " dealloc=" + cptr(R, l, l.dealloc_chunk_);
    }


    // addresses of the free nodes, in list order (C16 probes)
    inline std::vector<char*> free_nodes(fmd::free_memory_list& l)
    {
        std::vector<char*> v;
        for (char* cur = l.first_; cur && v.size() < 100000; cur = fmd::list_get_next(cur))
            v.push_back(cur);
        return v;
    }
    inline std::vector<char*> free_nodes(fmd::ordered_free_memory_list& l)
    {
        std::vector<char*> v;
        char*              prev = l.begin_node();
        char*              cur = fmd::xor_list_get_other(prev, nullptr);
        while (cur != l.end_node() && cur && v.size() < 100000)
        {
            v.push_back(cur);
            fmd::xor_list_iter_next(cur, prev);
        }
        return v;
    }
    inline std::vector<char*> free_nodes(fmd::small_free_memory_list& l)
    {
        std::vector<char*> v;
        for (auto c = l.base_.next; c != &l.base_ && v.size() < 100000; c = c->next)
        {
            auto     mem = reinterpret_cast<unsigned char*>(c) + fmd::chunk_memory_offset;
            unsigned idx = c->first_free;
            for (unsigned steps = 0; idx != c->no_nodes && steps <= 256; ++steps)
            {
                v.push_back(reinterpret_cast<char*>(mem + idx * l.node_size_));
                idx = mem[idx * l.node_size_];
            }
        }
        return v;
    }

    inline std::string dump_blocks(Region& R, const fmd::memory_block_stack& s)
    {
        std::string out = "[";
        bool        first = true;
        for (auto cur = s.head_; cur; cur = cur->prev)
        {
            if (!first)
                out += ",";
            first = false;
            out += fmt("%zu:%zu", R.off(cur), cur->usable_size + fmd::memory_block_stack::implementation_offset());
        }
        return out + "]";
    }

    template <class Src>
    struct SrcDump;
    template <class A, unsigned N, unsigned D>
    struct SrcDump<foonathan::memory::growing_block_allocator<A, N, D>>
    {
        static std::string str(Region&, foonathan::memory::growing_block_allocator<A, N, D>& s)
        {
            return fmt("growing:%u/%u:%zu", N, D, s.block_size_);
        }
        static std::string init(std::size_t bs)
        {
            return fmt("growing:%u/%u:%zu", N, D, bs);
        }
    };
    template <class A>
    struct SrcDump<foonathan::memory::fixed_block_allocator<A>>
    {
        static std::string str(Region&, foonathan::memory::fixed_block_allocator<A>& s)
        {
            return fmt("fixed:%zu", s.block_size_);
        }
        static std::string init(std::size_t bs)
        {
            return fmt("fixed:%zu", bs);
        }
    };
    template <>
    struct SrcDump<foonathan::memory::static_block_allocator>
    {
        static std::string str(Region& R, foonathan::memory::static_block_allocator& s)
        {
            return fmt("static:%zu:%zu:%zu", R.off(s.cur_), R.off(s.end_), s.block_size_);
        }
    };

    // uncached arena
    template <class Arena>
    std::string dump_arena(Region& R, Arena& a)
    {
        return "used=" + dump_blocks(R, a.used_) + " cached=[] src="
               + SrcDump<typename Arena::allocator_type>::str(R, a.get_allocator());
    }
} // namespace verif
#endif
