// line protocol helpers, exception classification, counting handlers, and the model-independent oracles
#ifndef VERIF_PROTO_HPP
#define VERIF_PROTO_HPP
#include <algorithm>
#include <cstdarg>
#include <functional>
#include <map>
#include <string>
#include <vector>
#include "region.hpp"
#include "error.hpp"
#include "debugging.hpp"
#include "detail/debug_helpers.hpp"

namespace verif
{
    namespace fm = foonathan::memory;

    inline std::string fmt(const char* f, ...)
    {
        char    buf[512];
        va_list ap;
        va_start(ap, f);
        std::vsnprintf(buf, sizeof buf, f, ap);
        va_end(ap);
        return buf;
    }

    // build configuration as seen by this translation unit (read by the Lean driver)
    inline std::string cfg_string()
    {
        return fmt("fill=%d fence=%zu leak=%d ptr=%d dbl=%d assert=%d", (int)FOONATHAN_MEMORY_DEBUG_FILL,
                   (std::size_t)foonathan::memory::detail::debug_fence_size, (int)FOONATHAN_MEMORY_DEBUG_LEAK_CHECK,
                   (int)FOONATHAN_MEMORY_DEBUG_POINTER_CHECK, (int)FOONATHAN_MEMORY_DEBUG_DOUBLE_DEALLOC_CHECK,
                   (int)FOONATHAN_MEMORY_DEBUG_ASSERT);
    }

    // independent re-implementation of "natural alignment of a size" for the oracles
    inline std::size_t alignment_for_size(std::size_t size)
    {
        std::size_t a = 1;
        while (a < 16 && size % (2 * a) == 0 && size != 0)
            a *= 2;
        return a;
    }

    //=== handlers ===//
    struct Handlers
    {
        static long& oom()
        {
            static long n;
            return n;
        }
        static long& bad()
        {
            static long n;
            return n;
        }
        static long& leak()
        {
            static long n;
            return n;
        }
        static std::vector<long long>& leak_amounts()
        {
            static std::vector<long long> v;
            return v;
        }
        static long& invalid()
        {
            static long n;
            return n;
        }
        static long& overflow()
        {
            static long n;
            return n;
        }
        static void install()
        {
            fm::out_of_memory::set_handler([](const fm::allocator_info&, std::size_t) noexcept { ++oom(); });
            fm::bad_allocation_size::set_handler(
                [](const fm::allocator_info&, std::size_t, std::size_t) noexcept { ++bad(); });
            fm::set_leak_handler(
                [](const fm::allocator_info&, std::ptrdiff_t amount) noexcept
                {
                    ++leak();
                    leak_amounts().push_back(amount);
                });
        }
    };

    // runs f, returns "" if no exception, else "throw <class> <handler>"
    template <class F>
    std::string guarded(F&& f)
    {
        long o = Handlers::oom(), b = Handlers::bad();
        auto hk = [&]() -> std::string
        {
            long dO = Handlers::oom() - o, dB = Handlers::bad() - b;
            if (dO == 1 && dB == 0)
                return "oomh";
            if (dO == 0 && dB == 1)
                return "badh";
            if (dO == 0 && dB == 0)
                return "noh";
            return fmt("handlers:%ld:%ld", dO, dB);
        };
        try
        {
            f();
            return "";
        }
        catch (upstream_failure&)
        {
            return "throw upstream " + hk();
        }
        catch (fm::bad_node_size&)
        {
            return "throw bad_node_size " + hk();
        }
        catch (fm::bad_array_size&)
        {
            return "throw bad_array_size " + hk();
        }
        catch (fm::bad_alignment&)
        {
            return "throw bad_alignment " + hk();
        }
        catch (fm::bad_allocation_size&)
        {
            return "throw bad_allocation_size " + hk();
        }
        catch (fm::out_of_fixed_memory&)
        {
            return "throw out_of_fixed_memory " + hk();
        }
        catch (fm::out_of_memory&)
        {
            return "throw out_of_memory " + hk();
        }
        catch (std::bad_alloc&)
        {
            return "throw std_bad_alloc " + hk();
        }
        catch (...)
        {
            return "throw non_bad_alloc " + hk();
        }
    }

    //=== oracles on the real code (independent of the Lean model) ===//
    struct LiveAlloc
    {
        long        id;
        std::size_t off, size, align;
        unsigned    seedbyte;
    };

    struct Oracle
    {
        Region*                  r;
        std::vector<LiveAlloc>   live;
        std::vector<std::string> failures;
        std::vector<UpBlock>     fixed_storage; // extra owned ranges (static storage)
        long                     checks = 0, pattern_checks = 0;
        bool                     write_content = true, check_new_pattern = true;
        explicit Oracle(Region& reg) : r(&reg) {}

        void fail(const std::string& s)
        {
            if (failures.size() < 20)
                failures.push_back(s);
        }
        static unsigned char pat(const LiveAlloc& a, std::size_t i)
        {
            return static_cast<unsigned char>((a.seedbyte + i * 7) | 1);
        }
        bool inside_owned(std::size_t off, std::size_t size) const
        {
            for (auto& b : r->outstanding)
                if (off >= b.off && off + size <= b.off + b.size)
                    return true;
            for (auto& b : fixed_storage)
                if (off >= b.off && off + size <= b.off + b.size)
                    return true;
            return false;
        }
        // a new allocation was returned
        void on_alloc(long id, void* p, std::size_t size, std::size_t align, const char* what)
        {
            ++checks;
            if (!p)
            {
                fail(fmt("%s id=%ld: throwing allocation returned null", what, id));
                return;
            }
            if (!r->inside(p))
            {
                fail(fmt("%s id=%ld: pointer outside the region", what, id));
                return;
            }
            auto o = r->off(p);
            if (align && o % align != 0) // region base is 2^24 aligned
                fail(fmt("%s id=%ld: address %zu not aligned to %zu", what, id, o, align));
            if (!inside_owned(o, size))
                fail(fmt("%s id=%ld: [%zu,+%zu) not inside memory obtained from upstream/fixed storage", what, id, o, size));
            for (auto& l : live)
                if (o < l.off + l.size && l.off < o + size)
                    fail(fmt("%s id=%ld: [%zu,+%zu) overlaps live allocation id=%ld [%zu,+%zu)", what, id, o, size, l.id,
                             l.off, l.size));
#if FOONATHAN_MEMORY_DEBUG_FILL
            // C17: memory handed to the user carries the new-memory pattern (checked before the harness writes into it)
            if (check_new_pattern && size < (std::size_t(1) << 20))
                for (std::size_t i = 0; i < size; ++i)
                    if (static_cast<unsigned char*>(p)[i] != 0xCD)
                    {
                        fail(fmt("%s id=%ld: byte %zu of the returned memory is %02x, not the new-memory pattern cd", what, id, i,
                                 static_cast<unsigned char*>(p)[i]));
                        break;
                    }
            pattern_checks += 1;
#endif
            LiveAlloc a{id, o, size, align, unsigned(id * 37 + 11)};
            if (write_content)
                for (std::size_t i = 0; i < size; ++i)
                    static_cast<unsigned char*>(p)[i] = pat(a, i);
            live.push_back(a);
        }
        void verify(const LiveAlloc& a, const char* when)
        {
            if (!write_content)
                return;
            auto p = reinterpret_cast<unsigned char*>(r->base + a.off);
            for (std::size_t i = 0; i < a.size; ++i)
                if (p[i] != pat(a, i))
                {
                    fail(fmt("content of live allocation id=%ld [%zu,+%zu) changed at byte %zu (%s): %02x, expected %02x", a.id, a.off,
                             a.size, i, when, p[i], pat(a, i)));
                    return;
                }
        }
        void verify_all(const char* when)
        {
            for (auto& a : live)
                verify(a, when);
        }
        LiveAlloc* find(long id)
        {
            for (auto& a : live)
                if (a.id == id)
                    return &a;
            return nullptr;
        }
        // before release: content must still be there
        void on_release(long id, const char* when)
        {
            for (std::size_t i = 0; i < live.size(); ++i)
                if (live[i].id == id)
                {
                    verify(live[i], when);
                    live.erase(live.begin() + long(i));
                    return;
                }
        }
        // C17: after a release to a pool `bytes` bytes at p carry the freed-memory pattern, except the first `link` bytes of
        // every node (the allocator's link word / index byte)
        void check_freed(const void* p, std::size_t bytes, std::size_t node_size, std::size_t link, const char* what)
        {
#if FOONATHAN_MEMORY_DEBUG_FILL
            auto b = static_cast<const unsigned char*>(p);
            for (std::size_t i = 0; i < bytes; ++i)
                if (i % node_size >= link && b[i] != 0xDD)
                {
                    fail(fmt("%s: byte %zu of released memory at %zu is %02x, not the freed-memory pattern dd", what, i, r->off(p), b[i]));
                    return;
                }
            ++pattern_checks;
#else
            (void)p, (void)bytes, (void)node_size, (void)link, (void)what;
#endif
        }
        // released by the allocator itself (content was verified before the operation)
        void forget(long id)
        {
            for (std::size_t i = 0; i < live.size(); ++i)
                if (live[i].id == id)
                {
                    live.erase(live.begin() + long(i));
                    return;
                }
        }
        void drop_from(std::size_t count, const char* when)
        {
            while (live.size() > count)
            {
                verify(live.back(), when);
                live.pop_back();
            }
        }
    };
} // namespace verif
#endif
