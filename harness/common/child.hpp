// Runs a call that is expected to end the program (C16 bad releases, C17 fence reports) in a forked child and
// classifies how the child ended:
//   reported  - the library's handler under test was called before the allocator state changed (exit 42)
//   reported-after-change - the handler was called, but the state dump differed from the one taken before the call (exit 43)
//   stopped   - the program was stopped by abort() (assertion / unreachable path)
//   crash <n> - killed by another signal (undefined behaviour reached)
//   missed    - the call returned normally
#ifndef VERIF_CHILD_HPP
#define VERIF_CHILD_HPP
#include <fcntl.h>
#include <sys/wait.h>
#include <unistd.h>
#include <csignal>
#include <functional>
#include <string>
#include "proto.hpp"

namespace verif
{
    struct ChildCtx
    {
        static std::string& before()
        {
            static std::string s;
            return s;
        }
        static std::function<std::string()>& now()
        {
            static std::function<std::string()> f;
            return f;
        }
    };

    inline void child_invalid_pointer_handler(const fm::allocator_info&, const void*)
    {
        _exit(ChildCtx::now() && ChildCtx::now()() != ChildCtx::before() ? 43 : 42);
    }

    // state: dumps the allocator state (may be empty function); f: the bad call
    template <class State, class F>
    std::string in_child(State&& state, F&& f)
    {
        std::fflush(stdout);
        ChildCtx::before() = state();
        ChildCtx::now() = state;
        pid_t pid = fork();
        if (pid == 0)
        {
            int fd = open("/dev/null", O_WRONLY);
            if (fd >= 0)
            {
                dup2(fd, 2);
                dup2(fd, 1);
            }
            fm::set_invalid_pointer_handler(&child_invalid_pointer_handler);
            alarm(4); // a call that never returns is classified as `hang`
            f();
            _exit(0);
        }
        int st = 0;
        waitpid(pid, &st, 0);
        ChildCtx::now() = nullptr;
        if (WIFEXITED(st))
        {
            int c = WEXITSTATUS(st);
            if (c == 42)
                return "reported";
            if (c == 43)
                return "reported-after-change";
            if (c == 0)
                return "missed";
            return fmt("exit %d", c);
        }
        if (WIFSIGNALED(st))
        {
            if (WTERMSIG(st) == SIGABRT)
                return "stopped";
            if (WTERMSIG(st) == SIGALRM)
                return "hang";
            return fmt("crash %d", WTERMSIG(st));
        }
        return "unknown";
    }
} // namespace verif
#endif
