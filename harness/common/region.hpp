// Deterministic instrumented upstream for the correspondence harness.
//  * one mmap'ed region at a 2^24-aligned base; every address is reported as an offset from the base
//  * RegionAlloc: a stateful RawAllocator (pointer to shared Region) that places blocks deterministically
//    (sequential/adjacent, with gaps, or descending), keeps a ledger of outstanding blocks and an event log,
//    and can be told to fail at the k-th call
//  * space for placing the allocator objects themselves inside the region, below or above the block area
#ifndef VERIF_REGION_HPP
#define VERIF_REGION_HPP
#include <sys/mman.h>
#include <cstdint>
#include <cstdio>
#include <cstdlib>
#include <cstring>
#include <new>
#include <string>
#include <vector>
#include <type_traits>

namespace verif
{
    struct upstream_failure : std::bad_alloc
    {
        const char* what() const noexcept override
        {
            return "verif upstream failure";
        }
    };

    struct Rng
    {
        unsigned long long s;
        explicit Rng(unsigned long long seed) : s(seed * 0x9E3779B97F4A7C15ull + 0x2545F4914F6CDD1Dull)
        {
            next();
            next();
        }
        unsigned long long next()
        {
            s ^= s << 13;
            s ^= s >> 7;
            s ^= s << 17;
            return s;
        }
        unsigned long long below(unsigned long long n)
        {
            return n ? next() % n : 0;
        }
        bool chance(unsigned pct)
        {
            return below(100) < pct;
        }
    };

    struct UpBlock
    {
        std::size_t off, size, align;
        int         tag = 0; // who asked: 0 = the allocator under test, 1 = the harness itself (sibling memory)
        int         group = 0; // which arena of the allocators under test (blocks of one arena always travel together)
    };

    struct Region
    {
        static constexpr std::size_t total      = std::size_t(1) << 26; // 64 MiB
        static constexpr std::size_t obj_below  = 1 << 20;              // [64K, 1M) : objects below the blocks
        static constexpr std::size_t blocks_lo  = 1 << 20;
        static constexpr std::size_t blocks_hi  = total - (1 << 20);
        char*                        base       = nullptr;
        std::size_t                  lo = blocks_lo, hi = blocks_hi; // bump pointers (ascending / descending)
        std::size_t                  obj_lo = 1 << 16, obj_hi = blocks_hi;
        int                          policy = 0; // 0 adjacent ascending, 1 gaps, 2 descending
        Rng                          rng{1};
        std::vector<UpBlock>         outstanding;
        std::vector<UpBlock>         free_blocks; // released, not on top: reused for equal size requests
        std::vector<std::string>     events;      // since last take_events()
        long                         calls = 0, fail_at = -1;
        long                         n_alloc = 0, n_dealloc = 0, n_fail = 0;
        int                          cur_tag = 0, cur_group = 0;
        std::vector<std::string>     errors; // ledger violations (double free, wrong size, unknown pointer)
        std::vector<UpBlock>         poisoned; // released blocks, filled with 0xEE: nobody may write into them any more
        bool                         poison = true;

        // memory that was returned upstream must not be written to afterwards (use after release)
        void verify_poison(std::size_t off, std::size_t size, const char* when)
        {
            auto p = reinterpret_cast<unsigned char*>(base + off);
            for (std::size_t i = 0; i < size; ++i)
                if (p[i] != 0xEE)
                {
                    char buf[160];
                    std::snprintf(buf, sizeof buf, "memory at %zu (block %zu:%zu) was written after it had been returned upstream (%s): byte %02x",
                                  off + i, off, size, when, p[i]);
                    if (errors.size() < 10)
                        errors.push_back(buf);
                    return;
                }
        }
        // a range is about to be handed out again / the run ends
        void unpoison_overlapping(std::size_t off, std::size_t size)
        {
            for (std::size_t i = 0; i < poisoned.size();)
            {
                auto& b = poisoned[i];
                if (b.off < off + size && off < b.off + b.size)
                {
                    verify_poison(b.off, b.size, "found when the space was reused");
                    poisoned.erase(poisoned.begin() + long(i));
                }
                else
                    ++i;
            }
        }
        void verify_all_poison()
        {
            for (auto& b : poisoned)
                verify_poison(b.off, b.size, "found at the end of the run");
            poisoned.clear();
        }

        Region()
        {
            void* raw = mmap(nullptr, 2 * total, PROT_READ | PROT_WRITE, MAP_PRIVATE | MAP_ANONYMOUS | MAP_NORESERVE,
                             -1, 0);
            if (raw == MAP_FAILED)
            {
                std::perror("mmap");
                std::abort();
            }
            auto a = (reinterpret_cast<std::uintptr_t>(raw) + total - 1) / total * total;
            base   = reinterpret_cast<char*>(a);
        }
        std::size_t off(const void* p) const
        {
            return p ? std::size_t(static_cast<const char*>(p) - base) : 0;
        }
        void* ptr(std::size_t o) const
        {
            return o ? base + o : nullptr;
        }
        bool inside(const void* p) const
        {
            return static_cast<const char*>(p) >= base && static_cast<const char*>(p) < base + total;
        }
        // storage for an allocator object: below (true) or above (false) the block area
        void* place_object(std::size_t size, std::size_t align, bool below)
        {
            if (below)
            {
                obj_lo = (obj_lo + align - 1) / align * align;
                auto p = base + obj_lo;
                obj_lo += size + 64;
                return p;
            }
            obj_hi = (obj_hi + align - 1) / align * align;
            auto p = base + obj_hi;
            obj_hi += size + 64;
            return p;
        }
        void* allocate(std::size_t size, std::size_t align)
        {
            char buf[96];
            if (cur_tag == 0)
                ++calls; // only requests of the allocator under test count for failure injection
            if (cur_tag == 0 && fail_at >= 0 && calls - 1 == fail_at)
            {
                ++n_fail;
                std::snprintf(buf, sizeof buf, "a:%zu:%zu:fail", size, align);
                events.push_back(buf);
                throw upstream_failure();
            }
            if (align < 16)
                align = 16;
            std::size_t o = 0;
            for (std::size_t i = 0; i < free_blocks.size(); ++i)
                if (free_blocks[i].size == size && free_blocks[i].off % align == 0)
                {
                    o = free_blocks[i].off;
                    free_blocks.erase(free_blocks.begin() + long(i));
                    break;
                }
            if (!o)
            {
                if (hi < lo || size > hi - lo || size + 9 * align > hi - lo)
                {
                    // a limit of the harness, not of the library: the run is discarded (exit code 77)
                    std::fprintf(stderr, "verif region exhausted\n");
                    std::fflush(stdout);
                    std::_Exit(77);
                }
                if (policy == 2)
                {
                    std::size_t top = hi - size;
                    top             = top / align * align;
                    if (rng.chance(30))
                        top -= align * (1 + rng.below(8));
                    hi = top;
                    o  = top;
                }
                else
                {
                    std::size_t start = (lo + align - 1) / align * align;
                    if (policy == 1 && rng.chance(50))
                        start += align * (1 + rng.below(8));
                    o  = start;
                    lo = start + size;
                }
                if (lo > hi)
                {
                    // a limit of the harness, not of the library: the run is discarded (exit code 77)
                    std::fprintf(stderr, "verif region exhausted\n");
                    std::fflush(stdout);
                    std::_Exit(77);
                }
            }
            if (poison)
                unpoison_overlapping(o, size);
            outstanding.push_back({o, size, align, cur_tag, cur_group});
            ++n_alloc;
            std::snprintf(buf, sizeof buf, "a:%zu:%zu:%zu", size, align, o);
            events.push_back(buf);
            return base + o;
        }
        void deallocate(void* p, std::size_t size, std::size_t align)
        {
            char buf[96];
            auto o = off(p);
            if (align < 16)
                align = 16;
            std::snprintf(buf, sizeof buf, "d:%zu:%zu:%zu", o, size, align);
            events.push_back(buf);
            ++n_dealloc;
            for (std::size_t i = 0; i < outstanding.size(); ++i)
                if (outstanding[i].off == o)
                {
                    if (outstanding[i].size != size)
                        errors.push_back(std::string("size mismatch on release ") + buf);
                    auto b = outstanding[i];
                    if (poison && b.size == size)
                    {
                        std::memset(base + b.off, 0xEE, b.size);
                        poisoned.push_back(b);
                    }
                    // C05: blocks go back in reverse order of acquisition (per requester and per arena)
                    for (std::size_t j = i + 1; j < outstanding.size(); ++j)
                        if (outstanding[j].tag == b.tag && outstanding[j].group == b.group)
                        {
                            errors.push_back(std::string("block released out of order (a more recently acquired block is still outstanding) ") + buf);
                            break;
                        }
                    outstanding.erase(outstanding.begin() + long(i));
                    if (policy != 2 && b.off + b.size == lo)
                        lo = b.off; // top block: give the space back (keeps later blocks adjacent)
                    else if (policy == 2 && b.off == hi)
                        hi = b.off + b.size;
                    else
                        free_blocks.push_back(b);
                    return;
                }
            errors.push_back(std::string("release of a block that is not outstanding ") + buf);
        }
        std::string take_events()
        {
            std::string s;
            for (auto& e : events)
            {
                if (!s.empty())
                    s += ' ';
                s += e;
            }
            events.clear();
            return s;
        }
        // answers the model needs: the results of the alloc events, in order ("<off>" or "f")
        static std::string env_of(const std::string& evs)
        {
            std::string out;
            std::size_t i = 0;
            while (i < evs.size())
            {
                auto j = evs.find(' ', i);
                if (j == std::string::npos)
                    j = evs.size();
                auto e = evs.substr(i, j - i);
                if (e[0] == 'a')
                {
                    auto k = e.rfind(':');
                    auto r = e.substr(k + 1);
                    if (!out.empty())
                        out += ' ';
                    out += (r == "fail" ? "f" : r);
                }
                i = j + 1;
            }
            return out;
        }
    };

    // RawAllocator on the region
    struct RegionAlloc
    {
        using is_stateful = std::true_type;
        Region* r;
        explicit RegionAlloc(Region& reg) : r(&reg) {}
        void* allocate_node(std::size_t size, std::size_t alignment)
        {
            return r->allocate(size, alignment);
        }
        void deallocate_node(void* p, std::size_t size, std::size_t alignment) noexcept
        {
            r->deallocate(p, size, alignment);
        }
        std::size_t max_node_size() const noexcept
        {
            return std::size_t(-1);
        }
        std::size_t max_alignment() const noexcept
        {
            return 4096;
        }
    };
} // namespace verif
#endif
