// C10: STL containers on RawAllocators — every node goes back to the allocator it came from; node size constants suffice
// usage: subj_container <thorough 0|1> <seed>
// lines:
//   ns <container> <sizeof T> <alignof T> |  | req=<largest node request> const=<X_node_size<T>> |  | -
//   ct <kind> <op> <i> <j> |  | bind=<allocator of each slot> size=<sizes> |  | -
//   cteq <kind> same=<a==copy of a> diff=<a==b> |  | ...
#include <algorithm>
#include <cstdio>
#include <cstring>
#include <map>
#include <memory>
#include <stdexcept>
#include <string>
#include <vector>
#include "proto.hpp"
#include "container.hpp"
#include "smart_ptr.hpp"
#include "memory_pool.hpp"

using namespace foonathan::memory;
using namespace verif;

static std::vector<std::string> failures;
static void                     fail(const std::string& s)
{
    if (failures.size() < 20)
        failures.push_back(s);
}
static long n_ops = 0, n_ns = 0;

//=== ledger allocator: every block remembers which allocator object handed it out ===//
struct Rec
{
    int         owner;
    bool        arr;
    std::size_t bytes, align;
};
static std::map<void*, Rec> LEDGER;
// The allocator the containers are bound to. Default: a stateful object, std_allocator refers to it by address.
// With VERIF_SHARED_ALLOC it is a copyable handle onto shared state, declared through is_shared_allocator: std_allocator
// stores a copy, two std_allocators are equal iff the handles name the same state.
#ifdef VERIF_SHARED_ALLOC
#define LEDGER_STRUCT LedgerCore
#else
#define LEDGER_STRUCT LedgerAlloc
#endif
struct LEDGER_STRUCT
{
    using is_stateful = std::true_type;
    int         id;
    std::size_t max_node_req = 0; // largest allocate_node request seen
    long        allocs = 0, deallocs = 0;
    explicit LEDGER_STRUCT(int i) : id(i) {}
    LEDGER_STRUCT(LEDGER_STRUCT&&) = default;
    LEDGER_STRUCT& operator=(LEDGER_STRUCT&&) = default;
    LEDGER_STRUCT&       st() noexcept { return *this; }
    const LEDGER_STRUCT& st() const noexcept { return *this; }
    void*        get(std::size_t bytes, std::size_t align, bool arr)
    {
        void* p = nullptr;
        if (posix_memalign(&p, align < sizeof(void*) ? sizeof(void*) : align, bytes ? bytes : 1) != 0)
            throw std::bad_alloc();
        LEDGER[p] = Rec{id, arr, bytes, align};
        ++allocs;
        return p;
    }
    void put(void* p, std::size_t bytes, std::size_t align, bool arr) noexcept
    {
        ++deallocs;
        auto it = LEDGER.find(p);
        if (it == LEDGER.end())
        {
            fail(fmt("allocator %c asked to release a pointer nobody handed out", 'A' + id));
            return;
        }
        if (it->second.owner != id)
            fail(fmt("memory obtained from allocator %c was released to allocator %c", 'A' + it->second.owner, 'A' + id));
        else if (it->second.bytes != bytes || it->second.arr != arr || it->second.align != align)
            fail(fmt("allocator %c: block of %zu bytes (%s, align %zu) released as %zu bytes (%s, align %zu)", 'A' + id, it->second.bytes,
                     it->second.arr ? "array" : "node", it->second.align, bytes, arr ? "array" : "node", align));
        LEDGER.erase(it);
        std::free(p);
    }
    void* allocate_node(std::size_t size, std::size_t align)
    {
        if (size > max_node_req)
            max_node_req = size;
        return get(size, align, false);
    }
    void* allocate_array(std::size_t count, std::size_t size, std::size_t align)
    {
        return get(count * size, align, true);
    }
    void deallocate_node(void* p, std::size_t size, std::size_t align) noexcept
    {
        put(p, size, align, false);
    }
    void deallocate_array(void* p, std::size_t count, std::size_t size, std::size_t align) noexcept
    {
        put(p, count * size, align, true);
    }
    std::size_t max_node_size() const noexcept
    {
        return std::size_t(-1) / 4;
    }
    std::size_t max_array_size() const noexcept
    {
        return std::size_t(-1) / 4;
    }
};

#ifdef VERIF_SHARED_ALLOC
struct LedgerAlloc
{
    using is_stateful = std::true_type;
    LedgerCore* core; // shared state, kept alive by the harness until it exits (the handle stays pointer-sized)
    explicit LedgerAlloc(int i) : core(new LedgerCore(i)) {}
    LedgerCore& st() const noexcept
    {
        return *core;
    }
    void* allocate_node(std::size_t size, std::size_t align)
    {
        return core->allocate_node(size, align);
    }
    void* allocate_array(std::size_t count, std::size_t size, std::size_t align)
    {
        return core->allocate_array(count, size, align);
    }
    void deallocate_node(void* p, std::size_t size, std::size_t align) noexcept
    {
        core->deallocate_node(p, size, align);
    }
    void deallocate_array(void* p, std::size_t count, std::size_t size, std::size_t align) noexcept
    {
        core->deallocate_array(p, count, size, align);
    }
    std::size_t max_node_size() const noexcept
    {
        return core->max_node_size();
    }
    std::size_t max_array_size() const noexcept
    {
        return core->max_array_size();
    }
    friend bool operator==(const LedgerAlloc& a, const LedgerAlloc& b) noexcept
    {
        return a.core == b.core;
    }
    friend bool operator!=(const LedgerAlloc& a, const LedgerAlloc& b) noexcept
    {
        return a.core != b.core;
    }
};
namespace foonathan
{
    namespace memory
    {
        template <>
        struct is_shared_allocator<LedgerAlloc> : std::true_type
        {
        };
    } // namespace memory
} // namespace foonathan
#endif

#ifdef VERIF_PROP_VARIANT
// propagation policy chosen by the user through a specialisation (the only way to express one): swap always travels (so
// that swapping containers on different allocator objects stays legal), move / copy assignment per bit 0 / bit 1
namespace foonathan
{
    namespace memory
    {
        template <>
        struct propagation_traits<LedgerAlloc>
        {
            using propagate_on_container_swap = std::true_type;
            using propagate_on_container_move_assignment = std::integral_constant<bool, ((VERIF_PROP_VARIANT)&1) != 0>;
            using propagate_on_container_copy_assignment = std::integral_constant<bool, ((VERIF_PROP_VARIANT)&2) != 0>;
            template <class AllocReference>
            static AllocReference select_on_container_copy_construction(const AllocReference& alloc)
            {
                return alloc;
            }
        };
    } // namespace memory
} // namespace foonathan
#endif

//=== element types of any size/alignment ===//
template <std::size_t S, std::size_t A>
struct alignas(A) El
{
    unsigned char d[S];
    El()
    {
        std::memset(d, 0, S);
    }
    explicit El(unsigned v)
    {
        for (std::size_t i = 0; i < S; ++i)
            d[i] = (unsigned char)(v >> (8 * (i % 4)));
    }
    bool operator<(const El& o) const
    {
        return std::memcmp(d, o.d, S) < 0;
    }
    bool operator==(const El& o) const
    {
        return std::memcmp(d, o.d, S) == 0;
    }
};
namespace std
{
    template <std::size_t S, std::size_t A>
    struct hash<El<S, A>>
    {
        std::size_t operator()(const El<S, A>& e) const noexcept
        {
            std::size_t h = 1469598103934665603ull;
            for (std::size_t i = 0; i < S; ++i)
                h = (h ^ e.d[i]) * 1099511628211ull;
            return h;
        }
    };
} // namespace std

//=== node sizes ===//
template <class C, class V>
static void ns_line(const char* name, std::size_t constant, V make)
{
    LedgerAlloc a(0);
    {
        C c(a);
        for (unsigned i = 0; i < 5; ++i)
            make(c, i);
    }
    ++n_ns;
    using T = typename C::value_type;
    std::printf("ns %s %zu %zu |  | req=%zu const=%zu |  | -\n", name, sizeof(T), alignof(T), a.st().max_node_req, constant);
    if (a.st().max_node_req > constant)
        fail(fmt("%s of a %zu-byte element (alignment %zu) requests nodes of %zu bytes, %s_node_size is %zu", name, sizeof(T), alignof(T),
                 a.st().max_node_req, name, constant));
    if (a.st().allocs != a.st().deallocs)
        fail(fmt("%s: %ld allocations, %ld releases", name, a.st().allocs, a.st().deallocs));
}

template <std::size_t S, std::size_t A>
static void ns_type()
{
    using T = El<S, A>;
    using P = std::pair<const T, T>;
    ns_line<forward_list<T, LedgerAlloc>>("forward_list", forward_list_node_size<T>::value, [](auto& c, unsigned i) { c.push_front(T(i)); });
    ns_line<list<T, LedgerAlloc>>("list", list_node_size<T>::value, [](auto& c, unsigned i) { c.push_back(T(i)); });
    ns_line<set<T, LedgerAlloc>>("set", set_node_size<T>::value, [](auto& c, unsigned i) { c.insert(T(i)); });
    ns_line<multiset<T, LedgerAlloc>>("multiset", multiset_node_size<T>::value, [](auto& c, unsigned i) { c.insert(T(i % 2)); });
    ns_line<unordered_set<T, LedgerAlloc>>("unordered_set", unordered_set_node_size<T>::value, [](auto& c, unsigned i) { c.insert(T(i)); });
    ns_line<unordered_multiset<T, LedgerAlloc>>("unordered_multiset", unordered_multiset_node_size<T>::value,
                                               [](auto& c, unsigned i) { c.insert(T(i % 2)); });
    ns_line<map<T, T, LedgerAlloc>>("map", map_node_size<P>::value, [](auto& c, unsigned i) { c.emplace(T(i), T(i)); });
    ns_line<multimap<T, T, LedgerAlloc>>("multimap", multimap_node_size<P>::value, [](auto& c, unsigned i) { c.emplace(T(i % 2), T(i)); });
    ns_line<unordered_map<T, T, LedgerAlloc>>("unordered_map", unordered_map_node_size<P>::value, [](auto& c, unsigned i) { c.emplace(T(i), T(i)); });
    ns_line<unordered_multimap<T, T, LedgerAlloc>>("unordered_multimap", unordered_multimap_node_size<P>::value,
                                                  [](auto& c, unsigned i) { c.emplace(T(i % 2), T(i)); });
    { // allocate_shared: one node of shared_ptr_stateful_node_size
        LedgerAlloc a(0);
        {
            auto p = allocate_shared<T>(a, 3u);
        }
        ++n_ns;
        std::size_t constant = allocate_shared_node_size<T, LedgerAlloc>::value;
        std::printf("ns shared_ptr_stateful %zu %zu |  | req=%zu const=%zu |  | -\n", sizeof(T), alignof(T), a.st().max_node_req, constant);
        if (a.st().max_node_req > constant)
            fail(fmt("allocate_shared of a %zu-byte element (alignment %zu) requests %zu bytes, allocate_shared_node_size is %zu", sizeof(T), alignof(T),
                     a.st().max_node_req, constant));
    }
}
template <std::size_t S>
static void ns_size()
{
    ns_type<S, 1>();
    if constexpr (S % 2 == 0)
        ns_type<S, 2>();
    if constexpr (S % 4 == 0)
        ns_type<S, 4>();
    if constexpr (S % 8 == 0)
        ns_type<S, 8>();
    if constexpr (S % 16 == 0)
        ns_type<S, 16>();
}
template <std::size_t... S>
static void ns_sizes(std::index_sequence<S...>)
{
    (ns_size<S + 1>(), ...);
}

//=== origin: containers bound to two allocator objects ===//
static LedgerAlloc* ALLOCS[2];
template <class C>
static char binding(const C& c)
{
    auto* a = &c.get_allocator().get_allocator().st();
    return a == &ALLOCS[0]->st() ? 'A' : a == &ALLOCS[1]->st() ? 'B' : '?';
}

// generic driver over a sequence-like interface provided by the adapter K
template <class K>
static void run_kind(const char* kind, Rng& g, long nops)
{
    using C = typename K::type;
    using Twin = typename K::twin;
    LedgerAlloc A(0), B(1);
    ALLOCS[0] = &A;
    ALLOCS[1] = &B;
    {
        std::vector<std::unique_ptr<C>>    slot;
        std::vector<std::unique_ptr<Twin>> twin;
        auto                               mk = [&](LedgerAlloc& a)
        {
            slot.emplace_back(new C(a));
            twin.emplace_back(new Twin());
        };
        mk(A);
        mk(B);
        mk(A);
        mk(B);
        auto state = [&]
        {
            std::string b = "bind=", s = " |  | size=";
            for (std::size_t i = 0; i < slot.size(); ++i)
            {
                b += binding(*slot[i]);
                s += fmt("%s%zu", i ? "," : "", K::size(*slot[i]));
                if (!K::equal(*slot[i], *twin[i]))
                    fail(fmt("%s slot %zu: contents differ from the same operations on a std::allocator container", kind, i));
            }
            return b + s;
        };
        auto emit = [&](const std::string& op)
        {
            std::printf("ct %s %s |  | %s\n", kind, op.c_str(), state().c_str());
            ++n_ops;
        };
        { // equality of the std_allocators
            auto a1 = slot[0]->get_allocator(), a2 = slot[2]->get_allocator(), b1 = slot[1]->get_allocator();
            bool same = (a1 == a2), diff = (a1 == b1);
            std::printf("cteq %s same=%d diff=%d |  | - |  | -\n", kind, (int)same, (int)diff);
            if (!same)
                fail(fmt("%s: two std_allocators referencing the same allocator object compare unequal", kind));
            if (diff)
                fail(fmt("%s: std_allocators referencing different allocator objects compare equal", kind));
        }
        emit("init 0 0");
        for (long n = 0; n < nops && failures.empty(); ++n)
        {
            unsigned    k = unsigned(g.below(100));
            std::size_t i = g.below(4), j = g.below(4);
            if (k < 40)
            {
                unsigned v = unsigned(g.below(50));
                K::insert(*slot[i], v);
                K::insert(*twin[i], v);
                emit(fmt("insert %zu %u", i, v));
            }
            else if (k < 52)
            {
                K::erase_one(*slot[i]);
                K::erase_one(*twin[i]);
                emit(fmt("erase %zu 0", i));
            }
            else if (k < 56)
            {
                slot[i]->clear();
                twin[i]->clear();
                emit(fmt("clear %zu 0", i));
            }
            else if (k < 64 && i != j)
            { // copy assignment
                *slot[i] = *slot[j];
                *twin[i] = *twin[j];
                emit(fmt("copy_assign %zu %zu", i, j));
            }
            else if (k < 72 && i != j)
            { // move assignment (the source stays valid but unspecified: clear both)
                *slot[i] = std::move(*slot[j]);
                *twin[i] = std::move(*twin[j]);
                slot[j]->clear();
                twin[j]->clear();
                emit(fmt("move_assign %zu %zu", i, j));
            }
            else if (k < 80 && i != j)
            {
                using std::swap;
                swap(*slot[i], *slot[j]);
                swap(*twin[i], *twin[j]);
                emit(fmt("swap %zu %zu", i, j));
            }
            else if (k < 86)
            { // copy construction replaces slot i
                std::unique_ptr<C>    c(new C(*slot[j]));
                std::unique_ptr<Twin> t(new Twin(*twin[j]));
                slot[i] = std::move(c);
                twin[i] = std::move(t);
                emit(fmt("copy_ctor %zu %zu", i, j));
            }
            else if (k < 92 && i != j)
            { // move construction replaces slot i, source cleared
                std::unique_ptr<C>    c(new C(std::move(*slot[j])));
                std::unique_ptr<Twin> t(new Twin(std::move(*twin[j])));
                slot[j]->clear();
                twin[j]->clear();
                slot[i] = std::move(c);
                twin[i] = std::move(t);
                emit(fmt("move_ctor %zu %zu", i, j));
            }
            else if (i != j)
            { // transfer of nodes between containers: only legal if the allocators compare equal
                if (slot[i]->get_allocator() == slot[j]->get_allocator())
                {
                    if (K::splice(*slot[i], *slot[j]))
                    {
                        K::splice(*twin[i], *twin[j]);
                        emit(fmt("splice %zu %zu", i, j));
                    }
                }
            }
        }
        slot.clear();
    }
    if (A.st().allocs != A.st().deallocs || B.st().allocs != B.st().deallocs)
        fail(fmt("%s: allocator A %ld/%ld, B %ld/%ld allocations/releases at the end", kind, A.st().allocs, A.st().deallocs, B.st().allocs, B.st().deallocs));
}

// adapters
template <class C>
static bool seq_equal(const C& a, const std::vector<unsigned>& b);
struct KList
{
    using type = list<unsigned, LedgerAlloc>;
    using twin = std::list<unsigned>;
    template <class C>
    static std::size_t size(const C& c)
    {
        return c.size();
    }
    template <class C, class D>
    static bool equal(const C& a, const D& b)
    {
        return a.size() == b.size() && std::equal(a.begin(), a.end(), b.begin());
    }
    template <class C>
    static void insert(C& c, unsigned v)
    {
        c.push_back(v);
    }
    template <class C>
    static void erase_one(C& c)
    {
        if (!c.empty())
            c.pop_front();
    }
    template <class C>
    static bool splice(C& a, C& b)
    {
        a.splice(a.end(), b);
        return true;
    }
};
struct KFwd : KList
{
    using type = forward_list<unsigned, LedgerAlloc>;
    using twin = std::forward_list<unsigned>;
    template <class C>
    static std::size_t size(const C& c)
    {
        return std::size_t(std::distance(c.begin(), c.end()));
    }
    template <class C, class D>
    static bool equal(const C& a, const D& b)
    {
        return size(a) == size(b) && std::equal(a.begin(), a.end(), b.begin());
    }
    template <class C>
    static void insert(C& c, unsigned v)
    {
        c.push_front(v);
    }
    template <class C>
    static bool splice(C& a, C& b)
    {
        a.splice_after(a.before_begin(), b);
        return true;
    }
};
struct KSet : KList
{
    using type = set<unsigned, LedgerAlloc>;
    using twin = std::set<unsigned>;
    template <class C>
    static void insert(C& c, unsigned v)
    {
        c.insert(v);
    }
    template <class C>
    static void erase_one(C& c)
    {
        if (!c.empty())
            c.erase(c.begin());
    }
    template <class C>
    static bool splice(C& a, C& b)
    {
        a.merge(b); // node handles: requires equal allocators
        return true;
    }
};
struct KMap : KList
{
    using type = map<unsigned, unsigned, LedgerAlloc>;
    using twin = std::map<unsigned, unsigned>;
    template <class C>
    static void insert(C& c, unsigned v)
    {
        c[v] = v + 1;
    }
    template <class C>
    static void erase_one(C& c)
    {
        if (!c.empty())
            c.erase(c.begin());
    }
    template <class C>
    static bool splice(C& a, C& b)
    {
        a.merge(b);
        return true;
    }
};
struct KUSet : KSet
{
    using type = unordered_set<unsigned, LedgerAlloc>;
    using twin = std::unordered_set<unsigned>;
    template <class C, class D>
    static bool equal(const C& a, const D& b)
    {
        if (a.size() != b.size())
            return false;
        for (auto& x : a)
            if (!b.count(x))
                return false;
        return true;
    }
};
struct KUMap : KMap
{
    using type = unordered_map<unsigned, unsigned, LedgerAlloc>;
    using twin = std::unordered_map<unsigned, unsigned>;
    template <class C, class D>
    static bool equal(const C& a, const D& b)
    {
        if (a.size() != b.size())
            return false;
        for (auto& x : a)
        {
            auto it = b.find(x.first);
            if (it == b.end() || it->second != x.second)
                return false;
        }
        return true;
    }
};
struct KVec : KList
{
    using type = vector<unsigned, LedgerAlloc>;
    using twin = std::vector<unsigned>;
    template <class C>
    static void erase_one(C& c)
    {
        if (!c.empty())
            c.pop_back();
    }
    template <class C>
    static bool splice(C&, C&)
    {
        return false;
    }
};
struct KDeque : KVec
{
    using type = deque<unsigned, LedgerAlloc>;
    using twin = std::deque<unsigned>;
};
struct KString : KVec
{
    using type = string<LedgerAlloc>;
    using twin = std::string;
    template <class C>
    static void insert(C& c, unsigned v)
    {
        c.append(std::size_t(1 + v % 40), char('a' + v % 26)); // grows beyond the small-string buffer
    }
};

// D23 (recorded finding): type-erased std_allocators on different stateful allocators compare equal
static void d23_case()
{
    LedgerAlloc A(0), B(1);
    ALLOCS[0] = &A;
    ALLOCS[1] = &B;
    auto before = failures.size();
    {
        any_std_allocator<int>                  a(A), b(B);
        bool                                    eq = (a == b);
        std::list<int, any_std_allocator<int>> la(a), lb(b);
        la.push_back(1);
        la.push_back(2);
        if (eq)
            lb.splice(lb.end(), la); // legal for equal allocators
        std::printf("cteq any same=%d diff=%d |  | - |  | -\n", (int)(a == any_std_allocator<int>(A)), (int)eq);
    }
    if (failures.size() != before)
    {
        std::string first = failures[before];
        failures.resize(before);
        fail("known-D23 any_std_allocator on two different stateful allocators compare equal; std::list::splice then moves nodes across: " + first);
    }
    LEDGER.clear();
}

//=== containers on a real memory_pool (the other half of C10: "a pool created with X_node_size<T> can serve X<T>") ===//
// Several containers share one pool; their contents are compared with the same operations on std::allocator containers after
// every step, so memory handed out twice or released with the wrong extent shows as a difference (or kills the run).
template <class T, class Pool>
static void pool_containers(const char* what, std::size_t node_size, Rng& g, long nops)
{
    // blocks far larger than the largest array the scenario asks for (the bucket array of at most 1201 pointers): a pool refuses
    // an array above next_capacity() with bad_array_size, which is its documented behaviour and not what is examined here
    Pool pool(node_size, std::size_t(1) << 16);
    {
        list<T, Pool>                lst(pool);
        set<T, Pool>                 st(pool);
        unordered_set<T, Pool>       us(pool);
        vector<unsigned, Pool>       vec(pool);
        std::list<T>                 tl;
        std::set<T>                  ts;
        std::unordered_set<T>        tu;
        std::vector<unsigned>        tv;
        auto                         same = [&]
        {
            bool ok = lst.size() == tl.size() && std::equal(lst.begin(), lst.end(), tl.begin()) && st.size() == ts.size()
                      && std::equal(st.begin(), st.end(), ts.begin()) && us.size() == tu.size() && vec.size() == tv.size()
                      && std::equal(vec.begin(), vec.end(), tv.begin());
            for (auto& x : tu)
                ok = ok && us.count(x) == 1;
            return ok;
        };
        for (long n = 0; n < nops && failures.empty(); ++n)
        {
            unsigned k = unsigned(g.below(100)), v = unsigned(g.below(200));
            if (k < 20)
            {
                if (tl.size() < 300)
                {
                    lst.push_back(T(v));
                    tl.push_back(T(v));
                }
            }
            else if (k < 35)
            {
                st.insert(T(v));
                ts.insert(T(v));
            }
            else if (k < 55)
            {
                us.insert(T(v));
                tu.insert(T(v));
            }
            else if (k < 75)
            { // the vector's buffer and the bucket array are arrays of elements smaller than a node
                if (vec.size() < 200)
                {
                    vec.push_back(v);
                    tv.push_back(v);
                }
            }
            else if (k < 80 && !tl.empty())
            {
                lst.pop_front();
                tl.pop_front();
            }
            else if (k < 85 && !ts.empty())
            {
                st.erase(*ts.begin());
                ts.erase(ts.begin());
            }
            else if (k < 90 && !tu.empty())
            {
                T x = *tu.begin();
                us.erase(x);
                tu.erase(x);
            }
            else if (k < 93)
            {
                vec.clear();
                vec.shrink_to_fit();
                tv.clear();
            }
            else if (k < 96)
            { // (bounded: every rehash doubles the bucket array, which is an array allocation of the pool)
                if (us.bucket_count() < 600)
                    us.rehash(us.bucket_count() * 2 + 1);
            }
            else
            {
                us.clear();
                tu.clear();
            }
            ++n_ops;
            if (!same())
                fail(fmt("%s: containers sharing a memory_pool (node size %zu) differ from the same operations on std::allocator containers after step %ld",
                         what, node_size, n));
        }
    }
    std::printf("cp %s node=%zu |  | %s |  | -\n", what, node_size, failures.empty() ? "ok" : "FAILED");
}

//=== smart pointers over two allocators (C10: "shared_ptr or unique_ptr ... gives each piece of memory back to the allocator object it
// was obtained from"): every way a block can be given up -- destruction, reset, move assignment over a pointer from the other
// allocator, and an element constructor that throws half-way (the helper then owns the block) ===//
struct SpThrower
{
    static int countdown; // the constructor that makes it reach 0 throws
    long       v[3];
    SpThrower()
    {
        if (--countdown == 0)
            throw std::runtime_error("verif: constructor throws");
        v[0] = v[1] = v[2] = 7;
    }
};
int SpThrower::countdown = -1;

static std::size_t ledger_live(int id)
{
    std::size_t n = 0;
    for (auto& e : LEDGER)
        if (e.second.owner == id)
            ++n;
    return n;
}

static void smart_ptr_cases()
{
    LedgerAlloc a(0), b(1);
    long        cases = 0;
    auto        settle = [&](const char* what) {
        ++cases;
        if (ledger_live(0) || ledger_live(1))
            fail(fmt("smart pointers, %s: %zu block(s) of allocator A and %zu of allocator B were never given back", what, ledger_live(0), ledger_live(1)));
    };
    {
        auto p = allocate_unique<long>(a, 5L);
        auto q = allocate_unique<long>(b, 6L);
        p = std::move(q); // A's block goes back to A now, B's when p dies
        if (ledger_live(0) != 0 || ledger_live(1) != 1)
            fail("unique_ptr move assignment across allocators: the replaced object was not released to its own allocator");
    }
    settle("unique_ptr move assignment");
    {
        auto p = allocate_unique<long[]>(a, 7u);
        auto q = allocate_unique<long[]>(b, 1u);
        auto r = allocate_unique<long[]>(b, 0u);
        p.reset();
        std::swap(q, r);
    }
    settle("unique_ptr<T[]> reset / swap");
    {
        std::shared_ptr<long> p = allocate_shared<long>(a, 1L), q = allocate_shared<long>(b, 2L);
        std::shared_ptr<long> r = p;
        p = q;
        q.reset();
    }
    settle("shared_ptr assignment");
    for (unsigned n = 1; n <= 5; ++n)
        for (unsigned k = 1; k <= n; ++k)
            for (int which = 0; which < 2; ++which)
            {
                SpThrower::countdown = int(k);
                try
                {
                    auto p = allocate_unique<SpThrower[]>(which ? b : a, n);
                    fail("allocate_unique<T[]>: the throwing constructor did not throw");
                }
                catch (std::runtime_error&)
                {
                }
                SpThrower::countdown = -1;
                settle("allocate_unique<T[]> with a constructor that throws");
            }
    for (int which = 0; which < 2; ++which)
    {
        SpThrower::countdown = 1;
        try
        {
            auto p = allocate_unique<SpThrower>(which ? b : a);
        }
        catch (std::runtime_error&)
        {
        }
        SpThrower::countdown = 1;
        try
        {
            auto p = allocate_shared<SpThrower>(which ? b : a);
        }
        catch (std::runtime_error&)
        {
        }
        SpThrower::countdown = -1;
        settle("allocate_unique / allocate_shared with a constructor that throws");
    }
    n_ns += cases;
}

int main(int argc, char** argv)
{
    bool               thorough = argc > 1 && std::atoi(argv[1]) != 0;
    unsigned long long seed = argc > 2 ? std::strtoull(argv[2], nullptr, 10) : 1;
    Rng                g(seed);
    Handlers::install();
    {
        using PT = propagation_traits<LedgerAlloc>;
        std::printf("header subject=container seed=%llu pocca=%d pocma=%d pocs=%d %s\n", seed, (int)PT::propagate_on_container_copy_assignment::value,
                    (int)PT::propagate_on_container_move_assignment::value, (int)PT::propagate_on_container_swap::value, cfg_string().c_str());
    }
#ifdef VERIF_ALL_TYPES
    ns_sizes(std::make_index_sequence<VERIF_ALL_TYPES>{});
#else
    ns_size<1>();
    ns_size<2>();
    ns_size<3>();
    ns_size<4>();
    ns_size<7>();
    ns_size<8>();
    ns_size<12>();
    ns_size<16>();
    ns_size<24>();
    ns_size<33>();
    ns_size<48>();
    ns_size<64>();
    ns_size<128>();
#endif
    smart_ptr_cases();
    long nops = thorough ? 1500 : 300;
    run_kind<KList>("list", g, nops);
    run_kind<KFwd>("forward_list", g, nops);
    run_kind<KSet>("set", g, nops);
    run_kind<KMap>("map", g, nops);
    run_kind<KUSet>("unordered_set", g, nops);
    run_kind<KUMap>("unordered_map", g, nops);
    run_kind<KVec>("vector", g, nops);
    run_kind<KDeque>("deque", g, nops);
    run_kind<KString>("string", g, nops);
#ifndef VERIF_SHARED_ALLOC
    { // real pools: node size = the largest of the containers' node size constants for the element type
        using T8 = El<8, 8>;
        using T24 = El<24, 8>;
        using P = memory_pool<array_pool>;
        std::size_t n8 = std::max({list_node_size<T8>::value, set_node_size<T8>::value, unordered_set_node_size<T8>::value});
        std::size_t n24 = std::max({list_node_size<T24>::value, set_node_size<T24>::value, unordered_set_node_size<T24>::value});
        pool_containers<T8, P>("pool-containers-8", n8, g, thorough ? 3000 : 600);
        pool_containers<T24, P>("pool-containers-24", n24, g, thorough ? 3000 : 600);
        pool_containers<T8, P>("pool-containers-8-in-64", 64, g, thorough ? 3000 : 600);
    }
#endif
    d23_case();
    if (!LEDGER.empty())
        fail(fmt("%zu blocks never released", LEDGER.size()));
    for (auto& f : failures)
        std::printf("oracle-fail %s\n", f.c_str());
    std::printf("summary ops=%ld ok=%ld null=0 throw=0 grow=0 node_size_cases=%ld oracle_checks=%ld\n", n_ops + n_ns, n_ops, n_ns, n_ops + n_ns);
    return 0;
}
