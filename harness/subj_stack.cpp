// subjects: memory_stack (growing / fixed / static block sources), iteration_allocator<N>, static_allocator
// usage: subj_stack <subject> <seed> <nops> [fail_at]
//   subject: stack-growing | stack-fixed | stack-static | iter1..iter5 | iter3-static | static
// prints one line per operation:  <subject> <op> <args> | <env> | <result> | <upstream events> | <state>
// last lines: `oracle-fail ...` for every violation of the model-independent oracles, then `summary ...`
#include <cstdio>
#include <cstring>
#include <memory>
#include "proto.hpp"
#include "child.hpp"
#include "memory_stack.hpp"
#include "iteration_allocator.hpp"
#include "static_allocator.hpp"

using namespace foonathan::memory;
using namespace verif;

static Region* R;
static Oracle* O;
static long    next_id = 0;
static long    n_ops = 0, n_ok = 0, n_null = 0, n_throw = 0, n_grow = 0, n_unwind = 0, n_unwind_blocks = 0, n_bad = 0,
            n_bad_reported = 0, n_bad_stopped = 0;
static bool    bad_mode = false;

static void bad_result(const std::string& what, const std::string& out)
{
    ++n_bad;
    if (out == "reported")
        ++n_bad_reported;
    else if (out == "stopped")
        ++n_bad_stopped;
    else
        O->fail("C16 " + what + " was not reported before the state changed: " + out);
}

static void emit(const std::string& op, const std::string& res, const std::string& st)
{
    auto ev = R->take_events();
    std::printf("%s | %s | %s | %s | %s\n", op.c_str(), Region::env_of(ev).c_str(), res.c_str(), ev.c_str(), st.c_str());
    ++n_ops;
}

// C17 (stack family): the bytes an operation left in its footprint [from, to), as runs `value*count` starting at the
// footprint's offset - observed on the real memory right after the operation, before the history writes its own content.
// Builds without debug fill write nothing: " w=-".
static std::string foot(const char* from, const char* to)
{
#if FOONATHAN_MEMORY_DEBUG_FILL
    if (!from || !to || to <= from)
        return " w=-";
    std::string out = fmt(" w=%zu:", R->off(from));
    unsigned    runs = 0;
    for (auto p = reinterpret_cast<const unsigned char*>(from), e = reinterpret_cast<const unsigned char*>(to); p < e;)
    {
        auto q = p;
        while (q < e && *q == *p)
            ++q;
        if (runs++)
            out += ",";
        if (runs > 8)
        {
            out += "...";
            break;
        }
        out += fmt("%02x*%zu", unsigned(*p), std::size_t(q - p));
        p = q;
    }
    return out;
#else
    (void)from;
    (void)to;
    return " w=-";
#endif
}
// the property itself, checked on the real bytes (independent of the model): an allocation leaves
// [fence | padding | new memory | fence] between the footprint's start and the new top, a release leaves freed memory
static void foot_expect_alloc(const char* from, const char* to, const void* p, std::size_t size, const char* what)
{
#if FOONATHAN_MEMORY_DEBUG_FILL
    auto        b = reinterpret_cast<const unsigned char*>(from);
    auto        u = static_cast<const unsigned char*>(p);
    std::size_t fence = detail::debug_fence_size;
    if (!from || u < b + fence || reinterpret_cast<const unsigned char*>(to) != u + size + fence)
    {
        O->fail(fmt("C17 %s: the footprint [%zu, %zu) does not frame the returned memory %zu (+%zu) with two fences of %zu bytes", what,
                    R->off(from), R->off(to), R->off(p), size, fence));
        return;
    }
    auto chk = [&](const unsigned char* x, const unsigned char* e, unsigned v, const char* part)
    {
        for (; x < e; ++x)
            if (*x != v)
            {
                O->fail(fmt("C17 %s: byte %zu of the %s is %02x, expected %02x (returned memory %zu, size %zu)", what, R->off(x), part,
                            unsigned(*x), v, R->off(p), size));
                return;
            }
    };
    chk(b, b + fence, 0xFD, "front fence");
    chk(b + fence, u, 0xED, "alignment padding");
    chk(u, u + size, 0xCD, "returned memory");
    chk(u + size, u + size + fence, 0xFD, "back fence");
#else
    (void)from, (void)to, (void)p, (void)size, (void)what;
#endif
}
static void foot_expect_freed(const char* from, const char* to, const char* what)
{
#if FOONATHAN_MEMORY_DEBUG_FILL
    for (auto x = reinterpret_cast<const unsigned char*>(from); from && x < reinterpret_cast<const unsigned char*>(to); ++x)
        if (*x != 0xDD)
        {
            O->fail(fmt("C17 %s: released byte %zu is %02x, expected the freed pattern dd (released range [%zu, %zu))", what, R->off(x), unsigned(*x),
                        R->off(from), R->off(to)));
            return;
        }
#else
    (void)from, (void)to, (void)what;
#endif
}
// where a memory_stack was before an operation
template <class Stack>
struct Foot
{
    Stack&      s;
    char*       top0;
    std::size_t n0;
    explicit Foot(Stack& st) : s(st), top0(st.stack_.top()), n0(st.arena_.size()) {}
    // after an allocation: from the old top - or the start of the block the stack moved into - to the new top
    std::string alloc(bool ok, const void* p = nullptr, std::size_t size = 0)
    {
        if (!ok)
            return foot(nullptr, nullptr);
        char* from = (s.arena_.size() != n0 || !top0) ? static_cast<char*>(s.arena_.current_block().memory) : top0;
        if (p)
            foot_expect_alloc(from, s.stack_.top(), p, size, "memory_stack allocation");
        return foot(from, s.stack_.top());
    }
    // after unwind(m): from the marker's top to the old top (same block) or to the end of the marker's block
    template <class M>
    std::string unwind(const M& m)
    {
        if (m.index + 1 == n0)
            foot_expect_freed(m.top, top0, "memory_stack::unwind");
        else
            foot_expect_freed(m.top, m.end, "memory_stack::unwind into an older block");
        return m.index + 1 == n0 ? foot(m.top, top0) : foot(m.top, m.end);
    }
};

static std::string blocks(const detail::memory_block_stack& s)
{
    std::string out = "[";
    bool        first = true;
    for (auto cur = s.head_; cur; cur = cur->prev)
    {
        if (!first)
            out += ",";
        first = false;
        out += fmt("%zu:%zu", R->off(cur), cur->usable_size + detail::memory_block_stack::implementation_offset());
    }
    return out + "]";
}

template <class Src>
struct SrcStr;
template <class A, unsigned N, unsigned D>
struct SrcStr<growing_block_allocator<A, N, D>>
{
    static std::string str(growing_block_allocator<A, N, D>& s)
    {
        return fmt("growing:%u/%u:%zu", N, D, s.block_size_);
    }
};
template <class A>
struct SrcStr<fixed_block_allocator<A>>
{
    static std::string str(fixed_block_allocator<A>& s)
    {
        return fmt("fixed:%zu", s.block_size_);
    }
};
template <>
struct SrcStr<static_block_allocator>
{
    static std::string str(static_block_allocator& s)
    {
        return fmt("static:%zu:%zu:%zu", R->off(s.cur_), R->off(s.end_), s.block_size_);
    }
};

template <class Stack>
static std::string stack_state(Stack& s)
{
    std::string e = s.arena_.used_.empty() ? "-" : fmt("%zu", R->off(s.block_end()));
    long long   leak = 0;
#if FOONATHAN_MEMORY_DEBUG_LEAK_CHECK
    leak = s.allocated_;
#endif
    auto& arena = s.arena_;
    using Cache  = detail::memory_arena_cache<true>;
    return fmt("cur=%zu end=%s used=%s cached=%s src=%s leak=%lld", R->off(s.stack_.top()), e.c_str(),
               blocks(arena.used_).c_str(), blocks(((Cache&)arena).cached_).c_str(),
               SrcStr<typename Stack::allocator_type>::str(arena.get_allocator()).c_str(), leak);
}

static std::size_t pick_size(Rng& g, std::size_t block)
{
    switch (g.below(12))
    {
    case 0:
    case 1:
    case 2:
    case 3:
        return 1 + g.below(64);
    case 4:
    case 5:
    case 6:
        return 1 + g.below(block / 4 + 1);
    case 7:
        return block / 2 + g.below(block / 2 + 1);
    case 8:
        return block - 16 - g.below(40); // around the usable size of the first block
    case 9:
        return block + g.below(block);
    case 10:
        return g.chance(50) ? std::size_t(-1) - g.below(64) : (std::size_t(1) << 63) + g.below(3) - 1;
    default:
        return g.below(3); // 0,1,2
    }
}
static std::size_t pick_align(Rng& g)
{
    unsigned k = g.below(10);
    if (k < 6)
        return std::size_t(1) << g.below(5); // 1..16
    if (k < 9)
        return std::size_t(1) << (5 + g.below(4)); // 32..256
    return std::size_t(1) << (9 + g.below(4));     // 512..4096
}

struct MarkerRec
{
    long        id;
    std::size_t live_count;
    bool        valid;
};

template <class Stack, class MakeStack>
static void run_stack(const char* subj, Rng& g, long nops, std::size_t block, MakeStack make)
{
    using traits = allocator_traits<Stack>;
    Stack* st[3] = {nullptr, nullptr, nullptr};
    std::vector<typename Stack::marker> markers;
    std::vector<MarkerRec>              mrec;
    auto                                place = [&](int slot) { return R->place_object(sizeof(Stack), alignof(Stack), slot % 2 == 0); };
    int                                 cur = 0, other = -1;
    std::size_t                         base_live = 0;
    long                                assign_in = 0, n_assign = 0;
    long long                           net[3] = {0, 0, 0}; // C15: bytes allocated minus deallocated through the traits, per stack object
    auto                                check_net = [&](const char* when)
    {
#if FOONATHAN_MEMORY_DEBUG_LEAK_CHECK
        if ((long long)st[cur]->allocated_ != net[cur])
            O->fail(fmt("C15 memory_stack: leak counter is %lld %s, but %lld bytes net went through allocator_traits",
                        (long long)st[cur]->allocated_, when, net[cur]));
#else
        (void)when;
#endif
    };
    auto                                do_assign = [&]
    { // *primary = std::move(*older): the primary's blocks go back upstream, it takes over the older stack completely
        O->verify_all("before move assignment");
        O->drop_from(base_live, "move assignment (target's allocations are released)");
        *st[cur] = std::move(*st[other]);
        net[cur] = net[other];
        net[other] = 0;
        check_net("after move assignment");
        emit(fmt("%s move_assign", subj), "done", stack_state(*st[cur]));
        long lk = Handlers::leak();
        st[other]->~Stack();
        {
            long mf_leaks = Handlers::leak() - lk;
            if (mf_leaks != 0)
                O->fail("C15 the moved-from memory_stack reported a leak when it was destroyed: moving an allocator moves the count with it");
            emit(fmt("%s destroy_moved_from", subj), fmt("leaks %ld", mf_leaks), "-");
        }
        st[other] = nullptr;
        other = -1;
        markers.clear();
        mrec.clear();
        ++n_assign;
        O->verify_all("after move assignment");
    };
    (void)n_assign;
    // construct
    {
        void*       mem = place(0);
        std::string res = guarded([&] { st[0] = make(mem); });
        emit(fmt("%s new %zu", subj, block), res.empty() ? "done" : res, st[0] ? stack_state(*st[0]) : "-");
        if (!st[0])
            return;
    }
    for (long i = 0; i < nops; ++i)
    {
        if (other >= 0 && --assign_in <= 0)
        {
            do_assign();
            continue;
        }
        Stack& s = *st[cur];
        unsigned k = g.below(100);
        if (k < 40)
        { // allocate (member)
            std::size_t size = pick_size(g, block), al = pick_align(g);
            if (g.chance(12) && s.capacity_left() > 2 * detail::debug_fence_size)
            { // exactly what is left in the current block
                size = s.capacity_left() - 2 * detail::debug_fence_size;
                al   = 1;
            }
            void*       p = nullptr;
            auto        used_before = s.arena_.size();
            Foot<Stack> ft(s);
            std::string res = guarded([&] { p = s.allocate(size, al); });
            std::string w = ft.alloc(res.empty(), p, size);
            if (res.empty())
            {
                long id = next_id++;
                O->on_alloc(id, p, size, al, "stack.allocate");
                res = fmt("ok %zu", R->off(p));
                ++n_ok;
            }
            else
                ++n_throw;
            if (s.arena_.size() != used_before)
                ++n_grow;
            emit(fmt("%s alloc %zu %zu", subj, size, al), res, stack_state(s) + w);
        }
        else if (k < 55)
        { // try_allocate
            std::size_t size = pick_size(g, block), al = pick_align(g);
            using ctr = composable_allocator_traits<Stack>;
            unsigned    via = unsigned(g.below(4)); // member, composable node, composable array (count * elem = size)
            std::size_t cnt = via == 2 && size % 2 == 0 ? 2 : via == 3 && size % 3 == 0 ? 3 : 1;
            Foot<Stack> ft(s);
            void*       p = via == 0 ? s.try_allocate(size, al)
                                     : via == 1 ? ctr::try_allocate_node(s, size, al) : ctr::try_allocate_array(s, cnt, size / cnt, al);
            std::string res, w = ft.alloc(p != nullptr, p, size);
            if (p)
            {
                O->on_alloc(next_id++, p, size, al, "stack.try_allocate");
                res = fmt("ok %zu", R->off(p));
                ++n_ok;
            }
            else
            {
                res = "null";
                ++n_null;
            }
            emit(fmt("%s try_alloc %zu %zu", subj, size, al), res, stack_state(s) + w);
        }
        else if (k < 63)
        { // traits allocate_node / allocate_array (leak accounting)
            std::size_t size = 1 + g.below(48), count = 1 + g.below(5), al = std::size_t(1) << g.below(4);
            bool        arr = g.chance(50);
            void*       p = nullptr;
            Foot<Stack> ft(s);
            std::string res = guarded(
                [&] { p = arr ? traits::allocate_array(s, count, size, al) : traits::allocate_node(s, size, al); });
            std::string w = ft.alloc(res.empty(), p, arr ? count * size : size);
            if (res.empty())
            {
                O->on_alloc(next_id++, p, arr ? count * size : size, al, "stack.traits_allocate");
                res = fmt("ok %zu", R->off(p));
                net[cur] += (long long)(arr ? count * size : size);
            }
            check_net(res.rfind("ok", 0) == 0 ? "after a successful traits allocation" : "after a FAILED traits allocation");
            if (arr)
                emit(fmt("%s alloc_array %zu %zu %zu", subj, count, size, al), res, stack_state(s) + w);
            else
                emit(fmt("%s alloc_node %zu %zu", subj, size, al), res, stack_state(s) + w);
        }
        else if (k < 68)
        { // traits deallocate (only counts)
            std::size_t size = 1 + g.below(48), count = 1 + g.below(5);
            bool        arr = g.chance(50);
            if (arr)
                traits::deallocate_array(s, nullptr, count, size, 1);
            else
                traits::deallocate_node(s, nullptr, size, 1);
            net[cur] -= (long long)(arr ? count * size : size);
            check_net("after a traits deallocation");
            if (arr)
                emit(fmt("%s dealloc_array %zu %zu", subj, count, size), "done", stack_state(s));
            else
                emit(fmt("%s dealloc_node %zu", subj, size), "done", stack_state(s));
        }
        else if (k >= 68 && k < 72)
        { // C08: composable try_deallocate_node/array only answers "is this my memory" (the stack releases nothing)
            using ctraits = composable_allocator_traits<Stack>;
            for (int probe = 0; probe < 3; ++probe)
            {
                char*       p = nullptr;
                std::size_t size = 8;
                int         kind = 0; // 1 = live allocation (must be recognised), 2 = outside every block (must not be)
                if (!O->live.empty() && g.chance(60))
                {
                    // while a second stack exists the ledger entries below `base_live` belong to the older one: a sibling's memory
                    std::size_t idx = g.below(O->live.size());
                    auto&       a = O->live[idx];
                    p = static_cast<char*>(R->ptr(a.off)) + (g.chance(30) && a.size > 1 ? a.size - 1 : 0);
                    size = a.size;
                    kind = (other >= 0 && idx < base_live) ? 2 : (a.size > 0 ? 1 : 0); // a zero-sized allocation has no byte to recognise
                }
                else
                {
                    // around the blocks the arena holds: one before, first usable byte, last byte, one past the end
                    std::vector<std::pair<char*, std::size_t>> blks;
                    for (auto n = s.arena_.used_.head_; n; n = n->prev)
                        blks.push_back({reinterpret_cast<char*>(n), n->usable_size + detail::memory_block_stack::implementation_offset()});
                    if (blks.empty())
                        break;
                    auto b = blks[g.below(blks.size())];
                    switch (g.below(5))
                    {
                    case 0: p = b.first - 1; break;
                    case 1: p = b.first + detail::memory_block_stack::implementation_offset(); break;
                    case 2: p = b.first + b.second - 1; break;
                    case 3: p = b.first + b.second; break;
                    default: p = static_cast<char*>(R->ptr(8)); break; // start of the region: never handed out as a block
                    }
                    bool inside = false;
                    for (auto& q : blks)
                        inside = inside || (p >= q.first && p < q.first + q.second);
                    kind = inside ? 0 : 2;
                }
                bool        arr = g.chance(40);
                std::string before = stack_state(s);
                bool        r = arr ? ctraits::try_deallocate_array(s, p, 2, size / 2 + 1, 1) : ctraits::try_deallocate_node(s, p, size, 1);
                if (kind == 1 && !r)
                    O->fail(fmt("C08 memory_stack: try_deallocate_%s does not recognise the live allocation at %zu", arr ? "array" : "node", R->off(p)));
                if (kind == 2 && r)
                    O->fail(fmt("C08 memory_stack: try_deallocate_%s claims foreign memory at %zu", arr ? "array" : "node", R->off(p)));
                if (stack_state(s) != before)
                    O->fail("C08 memory_stack: try_deallocate changed the stack");
                emit(fmt("%s try_dealloc %zu", subj, R->off(p)), r ? "true" : "false", stack_state(s));
            }
        }
        else if (k >= 75 && k < 78)
        { // C06 replay oracle: marker; requests; unwind; the same requests again must give the same addresses, served
          // from the block cache (no upstream allocation), unless the first pass saw an upstream failure
            auto m = s.top();
            emit(fmt("%s top", subj), fmt("marker %zu %zu %zu", m.index, R->off(m.top), R->off(m.end)), stack_state(s));
            std::size_t                                      live0 = O->live.size();
            std::vector<std::pair<std::size_t, std::size_t>> reqs;
            std::vector<std::string>                         first;
            for (unsigned q = 0, nq = 1 + g.below(6); q < nq; ++q)
                reqs.push_back({g.chance(70) ? 1 + g.below(block / 2 + 1) : pick_size(g, block), pick_align(g)});
            long fails0 = R->n_fail;
            // the unwind of each pass is done by hand or by a memory_stack_raii_unwind object (plain, moved-from /
            // move-constructed, move-assigned, released + explicit): the effect must be the same unwind(m)
            using Raii = memory_stack_raii_unwind<Stack>;
            for (int pass = 0; pass < 2; ++pass)
            {
                long  up0 = R->n_alloc;
                int   mode = int(g.below(6));
                Raii* u = nullptr;
                alignas(Raii) unsigned char ubuf[sizeof(Raii)];
                if (mode != 0)
                {
                    u = ::new (static_cast<void*>(ubuf)) Raii(s);
                    if (!u->will_unwind() || u->get_marker() != m || &u->get_stack() != &s)
                        O->fail("memory_stack_raii_unwind does not hold the stack's top at its construction");
                }
                for (std::size_t q = 0; q < reqs.size(); ++q)
                {
                    void*       p = nullptr;
                    Foot<Stack> ft(s);
                    std::string res = guarded([&] { p = s.allocate(reqs[q].first, reqs[q].second); });
                    std::string w = ft.alloc(res.empty(), p, reqs[q].first);
                    if (res.empty())
                    {
                        O->on_alloc(next_id++, p, reqs[q].first, reqs[q].second, "stack.allocate(replay)");
                        res = fmt("ok %zu", R->off(p));
                    }
                    if (pass == 0)
                        first.push_back(res);
                    else if (R->n_fail == fails0 && res != first[q])
                        O->fail(fmt("replay after unwind: request %zu (%zu,%zu) gave `%s`, first time `%s`", q, reqs[q].first,
                                    reqs[q].second, res.c_str(), first[q].c_str()));
                    emit(fmt("%s alloc %zu %zu", subj, reqs[q].first, reqs[q].second), res, stack_state(s) + w);
                }
                if (pass == 1 && R->n_fail == fails0 && R->n_alloc != up0)
                    O->fail("replay after unwind asked the upstream for memory although the blocks were cached");
                O->verify_all("before unwind");
                Foot<Stack> ftu(s);
                switch (mode)
                {
                case 0: s.unwind(m); break;
                case 1: u->~Raii(); break; // destructor unwinds
                case 2:
                { // move construction: the new object unwinds, the moved-from one must not
                    {
                        Raii u2(std::move(*u));
                        if (u->will_unwind() || !u2.will_unwind())
                            O->fail("memory_stack_raii_unwind move construction: wrong will_unwind()");
                    }
                    u->~Raii();
                    break;
                }
                case 3:
                { // move assignment onto an unwinder created now (its own marker is the current top: no effect), then scope end
                    {
                        Raii u3(s);
                        u3 = std::move(*u);
                        if (u->will_unwind() || !u3.will_unwind() || u3.get_marker() != m)
                            O->fail("memory_stack_raii_unwind move assignment: wrong state");
                    }
                    u->~Raii();
                    break;
                }
                case 4:
                { // release: the destructor must not unwind; unwind by hand afterwards
                    u->release();
                    if (u->will_unwind())
                        O->fail("memory_stack_raii_unwind::release: will_unwind() still true");
                    auto t = s.top();
                    u->~Raii();
                    if (s.top() != t)
                        O->fail("a released memory_stack_raii_unwind unwound the stack in its destructor");
                    s.unwind(m);
                    break;
                }
                default: // explicit unwind(), then the destructor unwinds to the same marker again (no effect)
                    u->unwind();
                    if (s.top() != m)
                        O->fail("memory_stack_raii_unwind::unwind() did not restore the marker");
                    u->~Raii();
                    break;
                }
                ++n_unwind;
                O->live.resize(std::min(O->live.size(), live0));
                O->verify_all("after unwind");
                emit(fmt("%s unwind %zu %zu %zu", subj, m.index, R->off(m.top), R->off(m.end)), "done", stack_state(s) + ftu.unwind(m));
                if (s.top() != m)
                    O->fail("top() after unwind(m) differs from m");
            }
        }
        else if (k < 78)
        { // take a marker
            auto m = s.top();
            markers.push_back(m);
            mrec.push_back({(long)markers.size() - 1, O->live.size(), true});
            emit(fmt("%s top", subj), fmt("marker %zu %zu %zu", m.index, R->off(m.top), R->off(m.end)), stack_state(s));
        }
        else if (k < 90)
        { // unwind to a valid marker (nested discipline: markers above it become invalid)
            std::vector<std::size_t> valid;
            for (std::size_t j = 0; j < mrec.size(); ++j)
                if (mrec[j].valid)
                    valid.push_back(j);
            if (valid.empty())
                continue;
            std::size_t j = valid[valid.size() - 1 - std::min<std::size_t>(g.below(3), valid.size() - 1)];
            auto        before = s.arena_.size();
            O->verify_all("before unwind");
            Foot<Stack> ftu(s);
            s.unwind(markers[j]);
            std::string w = ftu.unwind(markers[j]);
            ++n_unwind;
            n_unwind_blocks += long(before - s.arena_.size());
            O->live.resize(std::min(O->live.size(), mrec[j].live_count)); // released by the unwind (content was verified before)
            O->verify_all("after unwind");
            for (std::size_t q = j + 1; q < mrec.size(); ++q)
                mrec[q].valid = false;
            emit(fmt("%s unwind %zu %zu %zu", subj, markers[j].index, R->off(markers[j].top), R->off(markers[j].end)), "done",
                 stack_state(s) + w);
        }
        else if (k < 94)
        {
            s.shrink_to_fit();
            emit(fmt("%s shrink", subj), "done", stack_state(s));
        }
        else if (k < 97)
        { // capacity queries
            emit(fmt("%s capacity_left", subj), fmt("num %zu", s.capacity_left()), stack_state(s));
            emit(fmt("%s next_capacity", subj), fmt("num %zu", s.next_capacity()), stack_state(s));
            { // C18: the reported maxima are true upper bounds: a request above them never succeeds. The requests are part
              // of the history (the model sees them): a rejected request may still make the stack take its next block,
              // memory_stack::allocate checks the size against the block it has just acquired
                std::size_t mn = traits::max_node_size(s);
                if (mn != s.next_capacity() || traits::max_array_size(s) != s.next_capacity())
                    O->fail("C18 memory_stack: traits maxima differ from next_capacity()");
                static int above_probes = 0; // (every rejected request of this kind makes a growing stack take - and double - a block)
                if (mn < (std::size_t(1) << 16) && above_probes++ < 2)
                {
                {
                    void*       p = nullptr;
                    Foot<Stack> ft(s);
                    std::string r = guarded([&] { p = traits::allocate_node(s, mn + 1, 1); });
                    if (r.empty())
                        O->fail(fmt("C18 memory_stack: a request above the reported max_node_size succeeded (%p)", p));
                    emit(fmt("%s alloc_node %zu 1", subj, mn + 1), r.empty() ? fmt("ok %zu", R->off(p)) : r, stack_state(s) + ft.alloc(r.empty()));
                }
                {
                    std::size_t ma = traits::max_array_size(s), cnt = ma / 4 + 1;
                    void*       p = nullptr;
                    Foot<Stack> ft(s);
                    std::string r = guarded([&] { p = traits::allocate_array(s, cnt, 4, 1); });
                    if (r.empty())
                        O->fail(fmt("C18 memory_stack: a request above the reported max_array_size succeeded (%p)", p));
                    emit(fmt("%s alloc_array %zu 4 1", subj, cnt), r.empty() ? fmt("ok %zu", R->off(p)) : r, stack_state(s) + ft.alloc(r.empty()));
                }
                check_net("after requests above the reported maxima");
                }
            }
        }
        else if (!std::is_same<typename Stack::allocator_type, static_block_allocator>::value && other < 0 && g.chance(50))
        { // a second stack on the same upstream becomes the primary; the older one is move-ASSIGNED into it later
            int         to = (cur + 1) % 3;
            void*       mem = place(to);
            std::string res = guarded([&] { st[to] = make(mem); });
            emit(fmt("%s new2 %zu", subj, block), res.empty() ? "done" : res, st[to] ? stack_state(*st[to]) : "-");
            if (!st[to])
                continue;
            emit(fmt("%s switch", subj), "done", stack_state(*st[to]));
            other = cur;
            cur = to;
            net[cur] = 0;
            markers.clear();
            mrec.clear();
            base_live = O->live.size();
            assign_in = 3 + long(g.below(25));
        }
        else
        { // move-construct into the other slot, destroy the moved-from object
            int   to = (cur + 1) % 3;
            while (to == other)
                to = (to + 1) % 3;
            void* mem = place(to);
            st[to] = ::new (mem) Stack(std::move(s));
            net[to] = net[cur];
            net[cur] = 0;
            emit(fmt("%s move", subj), "done", stack_state(*st[to]));
            long lk = Handlers::leak();
            st[cur]->~Stack();
            {
            long mf_leaks = Handlers::leak() - lk;
            if (mf_leaks != 0)
                O->fail("C15 the moved-from memory_stack reported a leak when it was destroyed: moving an allocator moves the count with it");
            emit(fmt("%s destroy_moved_from", subj), fmt("leaks %ld", mf_leaks), "-");
        }
            st[cur] = nullptr;
            cur = to;
            O->verify_all("after move");
        }
        if (!O->failures.empty())
            break;
    }
    if (other >= 0 && O->failures.empty())
        do_assign();
    if (bad_mode && FOONATHAN_MEMORY_DEBUG_POINTER_CHECK && O->failures.empty())
    { // C16: unwinding to a marker above the current top must be reported (child process; the stack here is untouched)
        Stack& s = *st[cur];
        auto   state = [&] { return stack_state(s); };
        auto   m = s.top();
        auto   probe = [&](const char* why, typename Stack::marker bad)
        {
            std::string out = in_child(state, [&] { s.unwind(bad); });
            bad_result(fmt("unwind to a marker above the top (%s: index %zu top %zu)", why, bad.index, R->off(bad.top)), out);
            emit(fmt("%s bad_unwind %zu %zu %zu why=%s", subj, bad.index, R->off(bad.top), R->off(bad.end), why), out, stack_state(s));
        };
        if (s.capacity_left() > 0)
        {
            auto b = m;
            b.top += 1;
            probe("one-above", b);
            b = m;
            b.top += 1 + g.below(s.capacity_left());
            probe("above-seeded", b);
            b = m;
            b.top = const_cast<char*>(m.end);
            probe("block-end", b);
        }
        auto b = m;
        b.index += 1;
        probe("later-block", b);
        b.index += 1 + g.below(5);
        b.top = m.top - (m.top > R->base + 64 ? 16 : 0);
        probe("much-later-block", b);
    }
    // destruction: everything goes back upstream
    O->verify_all("before destroy");
    long lk = Handlers::leak();
    auto amounts_before = Handlers::leak_amounts().size();
    st[cur]->~Stack();
    std::string lr = fmt("leaks %ld", Handlers::leak() - lk);
    for (auto q = amounts_before; q < Handlers::leak_amounts().size(); ++q)
        lr += fmt(" %lld", Handlers::leak_amounts()[q]);
    emit(fmt("%s destroy", subj), lr, "-");
}

template <std::size_t N, class Src>
static std::string iter_state(iteration_allocator<N, Src>& it)
{
    std::string tops = "[";
    for (std::size_t i = 0; i < N; ++i)
        tops += fmt("%s%zu", i ? ", " : "", R->off(it.stacks_[i].top()));
    tops += "]";
    return fmt("cur=%zu tops=%s block=%zu:%zu src=%s", it.cur_, tops.c_str(), R->off(it.block_.memory), it.block_.size,
               SrcStr<typename iteration_allocator<N, Src>::allocator_type>::str(it.get_allocator()).c_str());
}

template <std::size_t N, class SrcArg, class Make>
static void run_iter(const char* subj, Rng& g, long nops, std::size_t block, Make make, bool allow_target = true)
{
    using It = iteration_allocator<N, SrcArg>;
    It*                                 it = nullptr;
    std::vector<std::vector<long>> ids(N); // allocations per iteration slot
    std::size_t                    own_cur = 0; // generation label kept by the history alone (never read from the allocator): which allocations the next
                                                // next_iteration() is allowed to recycle
    {
        void*       mem = R->place_object(sizeof(It), alignof(It), true);
        std::string res = guarded([&] { it = make(mem); });
        emit(fmt("%s new %zu %zu", subj, (std::size_t)N, block), res.empty() ? "done" : res, it ? iter_state(*it) : "-");
        if (!it)
            return;
    }
    for (long i = 0; i < nops; ++i)
    {
        unsigned k = g.below(100);
        if (k < 45 || (k < 75 && k >= 60))
        {
            bool        tr = k >= 60;
            std::size_t size = pick_size(g, block / N), al = pick_align(g);
            void*       p = nullptr;
            std::string res;
            char*       top0 = it->stacks_[it->cur_].top();
            if (tr)
            {
                p = it->try_allocate(size, al);
                res = p ? "" : "null";
            }
            else
                res = guarded([&] { p = it->allocate(size, al); });
            std::string w = res.empty() ? foot(top0, it->stacks_[it->cur_].top()) : foot(nullptr, nullptr);
            if (res.empty())
                foot_expect_alloc(top0, it->stacks_[it->cur_].top(), p, size, "iteration_allocator allocation");
            if (res.empty())
            {
                long id = next_id++;
                O->on_alloc(id, p, size, al, "iteration.allocate");
                ids[own_cur].push_back(id);
                res = fmt("ok %zu", R->off(p));
                ++n_ok;
            }
            else if (res == "null")
                ++n_null;
            else
                ++n_throw;
            emit(fmt("%s %s %zu %zu", subj, tr ? "try_alloc" : "alloc", size, al), res, iter_state(*it) + w);
        }
        else if (k >= 75 && k < 80 && it->capacity_left() > 2 * detail::debug_fence_size)
        { // fill the current region to its very last byte
            std::size_t size = it->capacity_left() - 2 * detail::debug_fence_size;
            void*       p = nullptr;
            char*       top0 = it->stacks_[it->cur_].top();
            std::string res = guarded([&] { p = it->allocate(size, 1); });
            std::string w = res.empty() ? foot(top0, it->stacks_[it->cur_].top()) : foot(nullptr, nullptr);
            if (res.empty())
            {
                long id = next_id++;
                O->on_alloc(id, p, size, 1, "iteration.allocate(brim)");
                ids[own_cur].push_back(id);
                res = fmt("ok %zu", R->off(p));
                ++n_ok;
            }
            else
                ++n_throw;
            emit(fmt("%s alloc %zu 1", subj, size), res, iter_state(*it) + w);
        }
        else if (k >= 55 && k < 60)
        { // C08: composable try_deallocate_node/array = "is this inside my block" for memory of every iteration
            using ctraits = composable_allocator_traits<It>;
            char* blk = static_cast<char*>(it->block_.memory);
            for (int probe = 0; probe < 3; ++probe)
            {
                char*       p = nullptr;
                std::size_t size = 8;
                int         kind = 0;
                if (!O->live.empty() && g.chance(60))
                {
                    auto& a = O->live[g.below(O->live.size())];
                    p = static_cast<char*>(R->ptr(a.off)) + (g.chance(30) && a.size > 1 ? a.size - 1 : 0);
                    size = a.size;
                    kind = a.size > 0 ? 1 : 0; // a zero-sized allocation has no byte to recognise
                }
                else
                {
                    switch (g.below(5))
                    {
                    case 0: p = blk - 1; break;
                    case 1: p = blk; break;
                    case 2: p = blk + it->block_.size - 1; break;
                    case 3: p = blk + it->block_.size; break;
                    default: p = static_cast<char*>(R->ptr(8)); break;
                    }
                    kind = (p >= blk && p < blk + it->block_.size) ? 0 : 2;
                }
                bool        arr = g.chance(40);
                std::string before = iter_state(*it);
                bool        r = arr ? ctraits::try_deallocate_array(*it, p, 2, size / 2 + 1, 1) : ctraits::try_deallocate_node(*it, p, size, 1);
                if (kind == 1 && !r)
                    O->fail(fmt("C08 iteration_allocator: try_deallocate_%s does not recognise the live allocation at %zu (current iteration %zu)",
                                arr ? "array" : "node", R->off(p), it->cur_iteration()));
                if (kind == 2 && r)
                    O->fail(fmt("C08 iteration_allocator: try_deallocate_%s claims foreign memory at %zu", arr ? "array" : "node", R->off(p)));
                if (iter_state(*it) != before)
                    O->fail("C08 iteration_allocator: try_deallocate changed the allocator");
                emit(fmt("%s try_dealloc %zu", subj, R->off(p)), r ? "true" : "false", iter_state(*it));
            }
        }
        else if (k < 55)
        {
            O->verify_all("before next_iteration");
            char* ntop0 = it->stacks_[(it->cur_ + 1) % N].top();
            it->next_iteration();
            std::string w = foot(it->stacks_[it->cur_].top(), ntop0);
            foot_expect_freed(it->stacks_[it->cur_].top(), ntop0, "iteration_allocator::next_iteration");
            own_cur = (own_cur + 1) % N;
            // memory of the slot we switched to is now recycled
            for (long id : ids[own_cur])
                O->forget(id);
            ids[own_cur].clear();
            O->verify_all("after next_iteration");
            emit(fmt("%s next", subj), "done", iter_state(*it) + w);
        }
        else if (k < 85)
        {
            std::size_t q = g.below(N);
            emit(fmt("%s capacity_left %zu", subj, q), fmt("num %zu", it->capacity_left(q)), iter_state(*it));
            if (q == it->cur_iteration() && g.chance(50))
            { // C18: what is reported as left (it is also the traits' max_node_size) is a true upper bound: one byte more
              // than fits between the fences is refused. The request is part of the history.
                std::size_t cl = it->capacity_left(), f2 = 2 * detail::debug_fence_size;
                if (allocator_traits<It>::max_node_size(*it) != cl || allocator_traits<It>::max_array_size(*it) != cl)
                    O->fail("C18 iteration_allocator: traits maxima differ from capacity_left()");
                std::size_t req = cl >= f2 ? cl - f2 + 1 : 1;
                char*       top0 = it->stacks_[it->cur_].top();
                void*       p = it->try_allocate(req, 1);
                std::string w = p ? foot(top0, it->stacks_[it->cur_].top()) : foot(nullptr, nullptr);
                if (p)
                {
                    O->fail(fmt("C18 iteration_allocator: capacity_left() reported %zu bytes, a request of %zu bytes (+%zu fence bytes) succeeded", cl, req, f2));
                    long id = next_id++;
                    O->on_alloc(id, p, req, 1, "iteration.try_allocate(above)");
                    ids[own_cur].push_back(id);
                }
                emit(fmt("%s try_alloc %zu 1", subj, req), p ? fmt("ok %zu", R->off(p)) : "null", iter_state(*it) + w);
            }
        }
        else if (k < 93)
        { // move construct, destroy moved-from
            void* mem = R->place_object(sizeof(It), alignof(It), g.chance(50));
            It*   n = ::new (mem) It(std::move(*it));
            emit(fmt("%s move", subj), "done", iter_state(*n));
            it->~It();
            emit(fmt("%s destroy_moved_from", subj), "done", "-");
            it = n;
            O->verify_all("after move");
        }
        else
        { // move-assign onto a fresh, non-empty target: the target's block must go back upstream
            It*         t = nullptr;
            void*       mem = R->place_object(sizeof(It), alignof(It), g.chance(50));
            if (!allow_target)
                continue;
            std::string res = guarded([&] { t = make(mem); });
            if (!t)
            {
                emit(fmt("%s new_target", subj), res, "-");
                continue;
            }
            emit(fmt("%s new_target", subj), "done", iter_state(*t));
            *t = std::move(*it);
            emit(fmt("%s move_assign", subj), "done", iter_state(*t));
            it->~It();
            emit(fmt("%s destroy_moved_from", subj), "done", "-");
            it = t;
            O->verify_all("after move assignment");
        }
        if (!O->failures.empty())
            break;
    }
    O->verify_all("before destroy");
    it->~It();
    emit(fmt("%s destroy", subj), "done", "-");
}

//=== memory_arena driven directly (C05: exactly-once LIFO release; C08: ownership; C12: moves) ===//
template <class Arena, class Make>
static void run_arena(Rng& g, long nops, std::size_t block, Make make)
{
    constexpr bool cached = Arena::is_cached::value;
    using Cache = detail::memory_arena_cache<cached>;
    alignas(Arena) static unsigned char buf[2][sizeof(Arena)];
    int    cur = 0;
    Arena* a = nullptr;
    auto   cache_str = [&](Arena& x, std::true_type) { return blocks(((detail::memory_arena_cache<true>&)x).cached_); };
    auto   cache_str0 = [&](Arena&, std::false_type) { return std::string("[]"); };
    auto   state = [&] {
        std::string c;
        if constexpr (cached)
            c = cache_str(*a, std::true_type{});
        else
            c = cache_str0(*a, std::false_type{});
        return fmt("used=%s cached=%s src=%s", blocks(a->used_).c_str(), c.c_str(),
                   SrcStr<typename Arena::allocator_type>::str(a->get_allocator()).c_str());
    };
    (void)sizeof(Cache);
    a = make(buf[0]);
    emit(fmt("arena new %zu %d", block, cached ? 1 : 0), "done", state());
    std::vector<memory_block> held; // blocks handed out by allocate_block(), oldest first
    for (long i = 0; i < nops; ++i)
    {
        unsigned k = g.below(100);
        if (k < 38 && a->next_block_size() > (std::size_t(1) << 20))
            k = 50; // the growing source doubles with every block: keep the history inside the instrumented region
        if (k < 38)
        {
            memory_block b;
            std::string  res = guarded([&] { b = a->allocate_block(); });
            if (res.empty())
            {
                // the usable block lies inside an upstream block and is disjoint from the blocks handed out before
                for (auto& h : held)
                    if (!(static_cast<char*>(b.memory) + b.size <= static_cast<char*>(h.memory)
                          || static_cast<char*>(h.memory) + h.size <= static_cast<char*>(b.memory)))
                        O->fail(fmt("memory_arena::allocate_block returned [%zu,+%zu) overlapping a block it handed out before", R->off(b.memory), b.size));
                if (!a->owns(b.memory) || !a->owns(static_cast<char*>(b.memory) + b.size - 1))
                    O->fail("memory_arena does not own the block it has just handed out");
                auto cb = a->current_block();
                if (cb.memory != b.memory || cb.size != b.size)
                    O->fail("memory_arena::current_block() differs from the block allocate_block() returned");
                std::memset(b.memory, 0x40 + int(held.size() % 32), b.size);
                held.push_back(b);
                res = fmt("blk %zu %zu", R->off(b.memory), b.size);
                ++n_ok;
            }
            else
                ++n_throw;
            emit("arena alloc_block", res, state());
        }
        else if (k < 62)
        {
            if (held.empty())
                continue;
            auto b = held.back();
            // the content of every held block is still what was written (nothing was handed out twice or touched)
            for (std::size_t q = 0; q < held.size(); ++q)
                for (std::size_t z = 0; z < held[q].size; z += 97)
                    if (static_cast<unsigned char*>(held[q].memory)[z] != (unsigned char)(0x40 + int(q % 32)))
                    {
                        O->fail(fmt("content of arena block %zu changed at byte %zu", q, z));
                        break;
                    }
            held.pop_back();
            a->deallocate_block();
            if (a->owns(b.memory))
                O->fail("memory_arena still owns a block after deallocate_block()");
            emit("arena dealloc_block", "done", state());
        }
        else if (k < 70)
        {
            a->shrink_to_fit();
            emit("arena shrink", "done", state());
        }
        else if (k < 80)
        { // C08: ownership probes: inside / at the edges of a held block, a released block, foreign memory
            char* p = nullptr;
            int   expect = -1; // 1 owned, 0 not owned, -1 only compared with the model
            if (!held.empty() && g.chance(60))
            {
                auto& h = held[g.below(held.size())];
                switch (g.below(4))
                {
                case 0: p = static_cast<char*>(h.memory); expect = 1; break;
                case 1: p = static_cast<char*>(h.memory) + h.size - 1; expect = 1; break;
                case 2: p = static_cast<char*>(h.memory) + g.below(h.size); expect = 1; break;
                default: p = static_cast<char*>(h.memory) + h.size; break;
                }
            }
            else
            {
                p = static_cast<char*>(R->ptr(8 + 16 * g.below(8)));
                expect = 0;
            }
            bool r = a->owns(p);
            if (expect == 1 && !r)
                O->fail(fmt("C08 memory_arena::owns: a byte of a block it handed out is not recognised (%zu)", R->off(p)));
            if (expect == 0 && r)
                O->fail(fmt("C08 memory_arena::owns claims foreign memory (%zu)", R->off(p)));
            emit(fmt("arena owns %zu", R->off(p)), r ? "true" : "false", state());
        }
        else if (k < 90)
        {
            emit("arena size", fmt("num %zu", a->size()), state());
            emit("arena cache_size", fmt("num %zu", a->cache_size()), state());
            emit("arena capacity", fmt("num %zu", a->capacity()), state());
            emit("arena next_block_size", fmt("num %zu", a->next_block_size()), state());
            if (a->size() != held.size())
                O->fail(fmt("memory_arena::size() is %zu, %zu blocks are outstanding", a->size(), held.size()));
            if (a->capacity() != a->size() + a->cache_size() || (!cached && a->cache_size() != 0))
                O->fail("memory_arena: capacity() != size() + cache_size()");
        }
        else
        { // C12: move construction / move assignment onto a fresh arena; the object left behind is destroyed
            std::string before = state();
            int         to = 1 - cur;
            bool        assign = g.chance(50);
            if (assign)
            {
                Arena* n = make(buf[to]);
                *n = std::move(*a);
                a->~Arena();
                a = n;
            }
            else
            {
                Arena* n = ::new (static_cast<void*>(buf[to])) Arena(std::move(*a));
                a->~Arena();
                a = n;
            }
            cur = to;
            emit(assign ? "arena move_assign" : "arena move", "done", state());
            if (state() != before)
                O->fail(fmt("memory_arena after a move: state `%s`, before `%s`", state().c_str(), before.c_str()));
            for (auto& h : held)
                if (!a->owns(h.memory))
                    O->fail("memory_arena: the new owner does not own a block handed out before the move");
        }
        if (!O->failures.empty())
            break;
    }
    a->~Arena();
    emit("arena destroy", "done", "-");
}

int main(int argc, char** argv)
{
    if (argc < 4)
        return 2;
    std::string subject = argv[1];
    unsigned long long seed = std::strtoull(argv[2], nullptr, 10);
    long               nops = std::atol(argv[3]);
    Region             region;
    Oracle             oracle(region);
    R = &region;
    O = &oracle;
    Rng g(seed);
    region.rng = Rng(seed ^ 0x55aa);
    region.policy = int((g.below(3), seed % 3)); // consecutive seeds cycle through the placement policies (ascending adjacent, gaps, descending)
    if (argc > 4)
        region.fail_at = std::atol(argv[4]);
    bad_mode = argc > 5 && std::string(argv[5]) == "bad";
    Handlers::install();
    static const std::size_t block_sizes[] = {64, 128, 200, 256, 1000, 1024, 4096};
    std::size_t              block = block_sizes[g.below(7)];
    std::printf("header subject=%s seed=%llu policy=%d block=%zu fail_at=%ld %s\n", subject.c_str(), seed,
                region.policy, block, region.fail_at, cfg_string().c_str());

    if (subject == "stack-growing")
    {
        using S = memory_stack<growing_block_allocator<RegionAlloc>>;
        run_stack<S>("stack", g, nops, block, [&](void* mem) { return ::new (mem) S(block, RegionAlloc(region)); });
    }
    else if (subject == "stack-fixed")
    {
        using S = memory_stack<fixed_block_allocator<RegionAlloc>>;
        run_stack<S>("stack", g, nops, block, [&](void* mem) { return ::new (mem) S(block, RegionAlloc(region)); });
    }
    else if (subject == "stack-static")
    {
        using S = memory_stack<static_block_allocator>;
        static const std::size_t SZ = 8192;
        auto* storage = static_cast<static_allocator_storage<SZ>*>(region.ptr(Region::blocks_lo + 4096));
        region.lo += 4096 + SZ + 4096;
        oracle.fixed_storage.push_back({region.off(storage), SZ, 16});
        std::size_t bs = (std::size_t[]){256, 512, 1024, 2048}[g.below(4)];
        block = bs;
        run_stack<S>("stack", g, nops, block, [&](void* mem) { return ::new (mem) S(bs, *storage); });
    }
    else if (subject.rfind("iter", 0) == 0 && subject.find("static") == std::string::npos)
    {
        int n = subject[4] - '0';
        block += g.below(7); // every residue mod N
        auto mk = [&](auto tag)
        {
            constexpr std::size_t N = decltype(tag)::value;
            using It = iteration_allocator<N, RegionAlloc>;
            run_iter<N, RegionAlloc>("iter", g, nops, block,
                                     [&](void* mem) { return ::new (mem) It(block, RegionAlloc(region)); });
        };
        switch (n)
        {
        case 1: mk(std::integral_constant<std::size_t, 1>{}); break;
        case 2: mk(std::integral_constant<std::size_t, 2>{}); break;
        case 3: mk(std::integral_constant<std::size_t, 3>{}); break;
        case 4: mk(std::integral_constant<std::size_t, 4>{}); break;
        default: mk(std::integral_constant<std::size_t, 5>{}); break;
        }
    }
    else if (subject == "iter3-static")
    {
        static const std::size_t SZ = 4100;
        auto* storage = static_cast<static_allocator_storage<SZ>*>(region.ptr(Region::blocks_lo + 4096));
        region.lo += 4096 + 8192;
        oracle.fixed_storage.push_back({region.off(storage), SZ, 16});
        std::size_t bs = (std::size_t[]){1025, 820, 2050, 4100, 410}[g.below(5)];
        using It = iteration_allocator<3, static_block_allocator>;
        run_iter<3, static_block_allocator>("iter", g, nops, bs,
                                            [&](void* mem) { return ::new (mem) It(bs, *storage); }, false);
    }
    else if (subject == "lifo-static" || subject == "lifo-virtual" || subject == "lifo-fixed")
    { // C16: the LIFO-only block sources driven directly; out-of-order returns run in a child process
        const bool chk = FOONATHAN_MEMORY_DEBUG_POINTER_CHECK;
        // `make(mem, second)` constructs a source in `mem` (second: a fresh object with its own storage, used as the
        // target of a move assignment / partner of a swap); `str(src)` is the state dump; `off(p)` the printed address
        auto run_lifo = [&](auto make, auto off, auto str)
        {
            using T = std::remove_pointer_t<decltype(make(nullptr, false))>;
            alignas(T) static unsigned char buf[3][sizeof(T)];
            int cur = 0;
            T*  src = make(buf[0], false);
            auto srcstr = [&] { return str(*src); };
            emit("src new " + srcstr(), "done", srcstr());
            std::vector<memory_block> got;
            for (long i = 0; i < nops; ++i)
            {
                unsigned k = g.below(100);
                if (k < 50)
                {
                    memory_block b;
                    std::string  res = guarded([&] { b = src->allocate_block(); });
                    if (res.empty())
                    {
                        got.push_back(b);
                        res = fmt("blk %zu %zu", off(b.memory), b.size);
                        ++n_ok;
                    }
                    else
                        ++n_throw;
                    emit("src alloc_block", res, srcstr());
                }
                else if (k < 75 && !got.empty())
                { // valid: the most recently allocated block (must never be reported)
                    auto b = got.back();
                    got.pop_back();
                    src->deallocate_block(b);
                    emit(fmt("src dealloc_block %zu %zu", off(b.memory), b.size), "done", srcstr());
                }
                else if (k < 87 && !bad_mode)
                { // C12: the source is moved while blocks are outstanding; the new owner serves / takes back everything,
                  // the moved-from object is destroyed (and must neither touch the memory nor stop the program)
                    std::string before = srcstr();
                    unsigned    how = unsigned(g.below(3));
                    int         to = (cur + 1) % 3;
                    if (how == 0)
                    {
                        T* n = ::new (static_cast<void*>(buf[to])) T(std::move(*src));
                        src->~T();
                        src = n;
                        emit("src move", "done", srcstr());
                    }
                    else if (how == 1)
                    { // move assignment onto a fresh object with storage of its own (which it must give up properly)
                        T* n = make(buf[to], true);
                        *n = std::move(*src);
                        src->~T();
                        src = n;
                        emit("src move_assign", "done", srcstr());
                    }
                    else
                    { // swap with a fresh object: it now owns the memory; the other one (fresh storage) is destroyed
                        T* n = make(buf[to], true);
                        swap(*n, *src);
                        src->~T();
                        src = n;
                        emit("src swap", "done", srcstr());
                    }
                    cur = to;
                    if (srcstr() != before)
                        O->fail(fmt("block source after a move/move assignment/swap: state `%s`, before `%s`", srcstr().c_str(), before.c_str()));
                }
                else if (chk && bad_mode && got.size() >= 2)
                { // invalid: any block but the most recent one
                    auto        b = got[g.below(got.size() - 1)];
                    std::string out = in_child(srcstr, [&] { src->deallocate_block(b); });
                    bad_result(fmt("out-of-order deallocate_block(%zu) of a LIFO block source", off(b.memory)), out);
                    emit(fmt("src bad_dealloc_block %zu %zu", off(b.memory), b.size), out, srcstr());
                }
            }
            while (!got.empty())
            {
                auto b = got.back();
                got.pop_back();
                src->deallocate_block(b);
                emit(fmt("src dealloc_block %zu %zu", off(b.memory), b.size), "done", srcstr());
            }
            src->~T();
            emit("src destroy", "done", "-");
        };
        if (subject == "lifo-static")
        {
            static const std::size_t SZ = 8192;
            auto* storage = static_cast<static_allocator_storage<SZ>*>(region.ptr(Region::blocks_lo + 4096));
            auto* storage2 = static_cast<static_allocator_storage<SZ>*>(region.ptr(Region::blocks_lo + 4096 + SZ + 4096));
            std::size_t bs = (std::size_t[]){256, 512, 1024, 2048}[g.below(4)]; // must divide the storage size
            std::size_t bs2 = bs == 256 ? 4096 : bs / 2;                           // the partner of a move assignment / swap differs
            run_lifo([&](void* mem, bool second) { return mem ? ::new (mem) static_block_allocator(second ? bs2 : bs, second ? *storage2 : *storage)
                                                              : static_cast<static_block_allocator*>(nullptr); },
                     [&](const void* p) { return region.off(p); },
                     [&](static_block_allocator& src) { return fmt("static:%zu:%zu:%zu", region.off(src.cur_), region.off(src.end_), src.block_size_); });
        }
        else if (subject == "lifo-virtual")
        {
            std::size_t bs = virtual_memory_page_size * (1 + g.below(3));
            std::size_t nb = 2 + g.below(5);
            const char* base = nullptr;
            run_lifo([&](void* mem, bool second) {
                         if (!mem)
                             return static_cast<virtual_block_allocator*>(nullptr);
                         auto* v = second ? ::new (mem) virtual_block_allocator(bs + virtual_memory_page_size, nb + 1) // (the partner differs)
                                          : ::new (mem) virtual_block_allocator(bs, nb);
                         if (!second)
                             base = v->cur_;
                         return v;
                     },
                     [&](const void* p) { return std::size_t(static_cast<const char*>(p) - base) + 4096; },
                     [&](virtual_block_allocator& src) {
                         return fmt("static:%zu:%zu:%zu", std::size_t(src.cur_ - base) + 4096, std::size_t(src.end_ - base) + 4096, src.block_size_);
                     });
        }
        else
        { // fixed_block_allocator: one block at a time; returning a block while none is outstanding is the invalid call
            std::size_t                      bs = 256 + 16 * g.below(20);
            fixed_block_allocator<RegionAlloc> src(bs, RegionAlloc(region));
            auto                             srcstr = [&] { return fmt("fixed:%zu", src.block_size_); };
            emit("src new " + srcstr(), "done", srcstr());
            for (long i = 0; i < nops; ++i)
            {
                memory_block b;
                std::string  res = guarded([&] { b = src.allocate_block(); });
                emit("src alloc_block", res.empty() ? fmt("blk %zu %zu", region.off(b.memory), b.size) : res, srcstr());
                if (!res.empty())
                    continue;
                if (g.chance(40))
                { // a second allocation while the block is outstanding: out_of_fixed_memory
                    memory_block b2;
                    std::string  r2 = guarded([&] { b2 = src.allocate_block(); });
                    emit("src alloc_block", r2.empty() ? fmt("blk %zu %zu", region.off(b2.memory), b2.size) : r2, srcstr());
                }
                src.deallocate_block(b);
                emit(fmt("src dealloc_block %zu %zu", region.off(b.memory), b.size), "done", srcstr());
                if (chk && bad_mode && g.chance(50))
                { // returning it a second time
                    std::string out = in_child(srcstr, [&] { src.deallocate_block(b); });
                    bad_result("second deallocate_block of a fixed_block_allocator", out);
                    emit(fmt("src bad_dealloc_block %zu %zu", region.off(b.memory), b.size), out, srcstr());
                }
            }
        }
    }
    else if (subject == "arena-assign")
    { // C05 / C12: move assignment and move construction between arenas in every combination of blocks in use and cached blocks on
      // both sides. No model: the upstream ledger decides (every block back exactly once, newest first per arena, nothing after a
      // release is written) together with the arena's own figures.
        long cases = 0;
        auto grid = [&](auto tag, const char* name)
        {
            using A = typename decltype(tag)::type;
            constexpr bool cached = A::is_cached::value;
            for (unsigned tu = 0; tu <= 2; ++tu)
                for (unsigned tc = 0; tc <= (cached ? 2u : 0u); ++tc)
                    for (unsigned su = 0; su <= 2; ++su)
                        for (unsigned sc = 0; sc <= (cached ? 2u : 0u); ++sc)
                            for (int form = 0; form < 2; ++form)
                            {
                                static int grp = 100;
                                auto fill = [&](A& a, unsigned used, unsigned cache)
                                {
                                    std::vector<memory_block> bs;
                                    for (unsigned i = 0; i < used + cache; ++i)
                                    {
                                        bs.push_back(a.allocate_block());
                                        std::memset(bs.back().memory, 0x40 + int(i), bs.back().size);
                                    }
                                    for (unsigned i = 0; i < cache; ++i)
                                        a.deallocate_block();
                                    bs.resize(used);
                                    return bs;
                                };
                                {
                                    region.cur_group = ++grp;
                                    A    s(block, RegionAlloc(region));
                                    auto sb = fill(s, su, sc);
                                    if (form == 0)
                                    {
                                        region.cur_group = ++grp;
                                        A t(block, RegionAlloc(region));
                                        fill(t, tu, tc);
                                        t = std::move(s);
                                        if (t.size() != su || t.cache_size() != sc || s.size() != 0 || s.cache_size() != 0)
                                            oracle.fail(fmt("%s move assignment (target %u used / %u cached, source %u / %u): target holds %zu / %zu, source %zu / %zu",
                                                            name, tu, tc, su, sc, t.size(), t.cache_size(), s.size(), s.cache_size()));
                                        for (auto& b : sb)
                                            if (!t.owns(b.memory))
                                                oracle.fail(fmt("%s move assignment: the target does not own a block of the source", name));
                                    }
                                    else
                                    {
                                        A t(std::move(s));
                                        if (t.size() != su || t.cache_size() != sc || s.size() != 0 || s.cache_size() != 0)
                                            oracle.fail(fmt("%s move construction (source %u used / %u cached): new object holds %zu / %zu, source %zu / %zu", name,
                                                            su, sc, t.size(), t.cache_size(), s.size(), s.cache_size()));
                                    }
                                }
                                // both objects are gone: nothing of theirs may be outstanding
                                if (!region.outstanding.empty())
                                {
                                    oracle.fail(fmt("%s %s (target %u used / %u cached, source %u / %u): %zu upstream block(s) never given back", name,
                                                    form == 0 ? "move assignment" : "move construction", tu, tc, su, sc, region.outstanding.size()));
                                    region.outstanding.clear();
                                }
                                region.take_events();
                                ++cases;
                            }
        };
        struct T1 { using type = memory_arena<growing_block_allocator<RegionAlloc>, true>; };
        struct T2 { using type = memory_arena<growing_block_allocator<RegionAlloc>, false>; };
        struct T3 { using type = memory_arena<fixed_block_allocator<RegionAlloc>, true>; };
        grid(T1{}, "cached arena over a growing source");
        grid(T2{}, "uncached arena over a growing source");
        (void)sizeof(T3);
        n_ops = cases;
    }
    else if (subject == "minblock")
    { // C18: memory_stack / memory_arena constructed with min_block_size(n): the capacity is exactly n bytes, n bytes
      // (less the two fences of a debug build) are served from the first block, and the arena's block has n usable bytes
        using S = memory_stack<fixed_block_allocator<RegionAlloc>>;
        using A = memory_arena<fixed_block_allocator<RegionAlloc>, true>;
        const std::size_t fence = detail::debug_fence_size;
        long              cases = 0;
        for (std::size_t n = 1; n <= (nops >= 1000 ? 6000u : 1500u); n += (n < 80 ? 1 : 1 + g.below(37)))
        {
            {
                S    s(S::min_block_size(n), RegionAlloc(region));
                long up0 = region.n_alloc;
                if (s.capacity_left() != n)
                    oracle.fail(fmt("minblock stack n=%zu: capacity_left() of memory_stack(min_block_size(n)) is %zu", n, s.capacity_left()));
                if (n > 2 * fence)
                {
                    void* p = s.try_allocate(n - 2 * fence, 1);
                    if (!p)
                        oracle.fail(fmt("minblock stack n=%zu: %zu bytes are not served from the first block", n, n - 2 * fence));
                    else
                    {
                        std::memset(p, 0x5c, n - 2 * fence);
                        if (s.capacity_left() != 0)
                            oracle.fail(fmt("minblock stack n=%zu: capacity_left() is %zu after the block was used up", n, s.capacity_left()));
                    }
                }
                if (region.n_alloc != up0)
                    oracle.fail(fmt("minblock stack n=%zu: the stack grew", n));
            }
            {
                A    a(A::min_block_size(n), RegionAlloc(region));
                auto b = a.allocate_block();
                if (b.size != n)
                    oracle.fail(fmt("minblock arena n=%zu: the block of memory_arena(min_block_size(n)) has %zu usable bytes", n, b.size));
                std::memset(b.memory, 0x5d, b.size);
                a.deallocate_block();
            }
            region.take_events();
            ++cases;
        }
        n_ops = cases;
        n_ok = cases;
    }
    else if (subject.rfind("arena-", 0) == 0)
    {
        bool fixed = subject.find("-fixed-") != std::string::npos, cached = subject.find("uncached") == std::string::npos;
        if (fixed && cached)
        {
            using A = memory_arena<fixed_block_allocator<RegionAlloc>, true>;
            run_arena<A>(g, nops, block, [&](void* mem) { return ::new (mem) A(block, RegionAlloc(region)); });
        }
        else if (fixed)
        {
            using A = memory_arena<fixed_block_allocator<RegionAlloc>, false>;
            run_arena<A>(g, nops, block, [&](void* mem) { return ::new (mem) A(block, RegionAlloc(region)); });
        }
        else if (cached)
        {
            using A = memory_arena<growing_block_allocator<RegionAlloc>, true>;
            run_arena<A>(g, nops, block, [&](void* mem) { return ::new (mem) A(block, RegionAlloc(region)); });
        }
        else
        {
            using A = memory_arena<growing_block_allocator<RegionAlloc>, false>;
            run_arena<A>(g, nops, block, [&](void* mem) { return ::new (mem) A(block, RegionAlloc(region)); });
        }
    }
    else if (subject == "static")
    {
        static const std::size_t SZ = 2048;
        auto* storage = static_cast<static_allocator_storage<SZ>*>(region.ptr(Region::blocks_lo + 4096 + 16 * g.below(4)));
        oracle.fixed_storage.push_back({region.off(storage), SZ, 16});
        static_allocator a(*storage);
        auto             st = [&] { return fmt("cur=%zu end=%zu", region.off(a.stack_.top()), region.off(a.end_)); };
        emit(fmt("static new %zu %zu", region.off(storage), SZ), "done", st());
        for (long i = 0; i < nops; ++i)
        {
            if (g.chance(85))
            {
                std::size_t size = pick_size(g, 256), al = pick_align(g);
                void*       p = nullptr;
                std::string res = guarded([&] { p = a.allocate_node(size, al); });
                if (res.empty())
                {
                    O->on_alloc(next_id++, p, size, al, "static.allocate_node");
                    res = fmt("ok %zu", region.off(p));
                    ++n_ok;
                }
                else
                    ++n_throw;
                emit(fmt("static alloc %zu %zu", size, al), res, st());
            }
            else
                emit("static max_node_size", fmt("num %zu", a.max_node_size()), st());
        }
        O->verify_all("end");
    }
    else
        return 2;
    region.verify_all_poison();
    for (auto& e : region.errors)
        std::printf("oracle-fail ledger: %s\n", e.c_str());
    if (!region.outstanding.empty())
        std::printf("oracle-fail ledger: %zu upstream block(s) never released (first off=%zu size=%zu)\n",
                    region.outstanding.size(), region.outstanding[0].off, region.outstanding[0].size);
    for (auto& f : oracle.failures)
        std::printf("oracle-fail %s\n", f.c_str());
    std::printf("summary ops=%ld ok=%ld null=%ld throw=%ld grow=%ld unwind=%ld unwound_blocks=%ld bad=%ld bad_reported=%ld bad_stopped=%ld "
                "up_alloc=%ld up_dealloc=%ld up_fail=%ld oracle_checks=%ld\n",
                n_ops, n_ok, n_null, n_throw, n_grow, n_unwind, n_unwind_blocks, n_bad, n_bad_reported, n_bad_stopped, region.n_alloc,
                region.n_dealloc,
                region.n_fail, oracle.checks);
    return 0;
}
