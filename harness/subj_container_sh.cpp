// subj_container over an allocator with shared semantics (is_shared_allocator): std_allocator stores a copy of the handle
#define VERIF_SHARED_ALLOC 1
#include "subj_container.cpp"
