// subjects: memory_pool<node|array|small> and memory_pool_collection<node|array|small, identity|log2>
//           over growing / fixed block sources on the instrumented region upstream
// usage: subj_pool <subject> <seed> <nops> [fail_at]
//   subject: pool-{node,array,small}-{growing,fixed}   coll-{node,array,small}-{identity,log2}-{growing,fixed}
// line format:  <pool|coll> <op> <args> | <env> | <result> | <upstream events> | <state>
#include <algorithm>
#include <cstdio>
#include <cstring>
#include <memory>
#include "dump.hpp"
#include "child.hpp"
#include "memory_pool.hpp"
#include "memory_pool_collection.hpp"

using namespace foonathan::memory;
using namespace verif;

static Region* R;
static Oracle* O;
static std::vector<std::string> findings; // occurrences of recorded findings (printed as `oracle-fail known-candidate <id> ...`)
static long    next_id = 0;
static long    n_ops = 0, n_ok = 0, n_null = 0, n_throw = 0, n_grow = 0, n_arrays = 0, n_dealloc = 0, n_foreign = 0, n_moves = 0,
            n_cycles = 0, n_bad = 0, n_bad_reported = 0, n_bad_stopped = 0;
static bool    bad_mode = false;

static void emit(const std::string& op, const std::string& res, const std::string& st)
{
    auto ev = R->take_events();
    std::printf("%s | %s | %s | %s | %s\n", op.c_str(), Region::env_of(ev).c_str(), res.c_str(), ev.c_str(), st.c_str());
    ++n_ops;
}

struct Live
{
    long        id;
    void*       p;
    bool        array;
    std::size_t count, size; // node: size = requested size ; array: count elements of size bytes
    bool        traits;      // allocated through allocator_traits (leak accounting)
};

template <class List>
struct ListKind;
template <>
struct ListKind<detail::free_memory_list>
{
    static const char* name() { return "free"; }
    static std::string proxies(detail::free_memory_list&) { return ""; }
};
template <>
struct ListKind<detail::ordered_free_memory_list>
{
    static const char* name() { return "ord"; }
    static std::string proxies(detail::ordered_free_memory_list& l)
    {
        return fmt(" B=%zu E=%zu", R->off(l.begin_node()), R->off(l.end_node()));
    }
};
template <>
struct ListKind<detail::small_free_memory_list>
{
    static const char* name() { return "small"; }
    static std::string proxies(detail::small_free_memory_list& l) { return fmt(" P=%zu", R->off(&l.base_)); }
};

template <class Pool>
static std::string pool_state(Pool& p)
{
    long long leak = 0;
#if FOONATHAN_MEMORY_DEBUG_LEAK_CHECK
    leak = p.allocated_;
#endif
    return dump_list(*R, p.free_list_) + " " + dump_arena(*R, p.arena_) + fmt(" leak=%lld", leak);
}

template <class Coll>
static std::string coll_state(Coll& c)
{
    long long leak = 0;
#if FOONATHAN_MEMORY_DEBUG_LEAK_CHECK
    leak = c.allocated_;
#endif
    std::string ls;
    for (std::size_t i = 0; i < c.pools_.no_elements_; ++i)
        ls += (i ? " ; " : "") + dump_list(*R, c.pools_.array_[i]);
    std::string e = c.arena_.used_.empty() ? "-" : fmt("%zu", R->off(c.block_end()));
    return fmt("cur=%zu end=%s ", R->off(c.stack_.top()), e.c_str()) + dump_arena(*R, c.arena_) + fmt(" leak=%lld", leak)
           + " lists=[" + ls + "]";
}

static std::string lk_result(long lk0, std::size_t a0)
{
    std::string lr = fmt("leaks %ld", Handlers::leak() - lk0);
    for (auto q = a0; q < Handlers::leak_amounts().size(); ++q)
        lr += fmt(" %lld", Handlers::leak_amounts()[q]);
    return lr;
}

// a pointer the allocator under test does not own: inside a sibling upstream block, directly before / after own blocks
struct Foreign
{
    std::vector<void*> blocks;
    void               make(std::size_t n, std::size_t size)
    {
        R->cur_tag = 1;
        for (std::size_t i = 0; i < n; ++i)
            blocks.push_back(R->allocate(size, 16));
        R->cur_tag = 0;
        R->take_events();
    }
    void release(std::size_t size)
    {
        while (!blocks.empty())
        {
            R->deallocate(blocks.back(), size, 16);
            blocks.pop_back();
        }
        R->take_events();
    }
};

//=== memory_pool ===//
template <class PoolType, class Src>
static void run_pool(Rng& g, long nops, std::size_t node_size, std::size_t block_size, const char* srcname)
{
    using Pool = memory_pool<PoolType, Src>;
    using Tr = allocator_traits<Pool>;
    using CTr = composable_allocator_traits<Pool>;
    using List = typename PoolType::type;
    const bool arrays = PoolType::value && !std::is_same<List, detail::small_free_memory_list>::value;
    Pool*      pool = nullptr;
    bool       below = g.chance(50);
    void*      mem = R->place_object(sizeof(Pool), alignof(Pool), below);
    {
        std::string res = guarded([&] { pool = ::new (mem) Pool(node_size, block_size, RegionAlloc(*R)); });
        std::string op = fmt("pool new %zu %zu kind=%s arrays=%d src=%s", node_size, block_size, ListKind<List>::name(),
                             (int)PoolType::value, SrcDump<typename Pool::allocator_type>::init(block_size).c_str());
        if (pool)
            op += ListKind<List>::proxies(pool->free_list_);
        emit(op, res.empty() ? "done" : res, pool ? pool_state(*pool) : "-");
        if (!pool)
            return;
    }
    const std::size_t ns = pool->node_size();
    const std::size_t maxal = pool->free_list_.alignment();
    std::vector<Live>  live;
    Foreign            foreign;
    foreign.make(2, 256);
    auto add_live = [&](void* p, bool arr, std::size_t count, std::size_t size, bool traits, const char* what)
    {
        long id = next_id++;
        O->on_alloc(id, p, arr ? count * size : size, arr ? std::min<std::size_t>(maxal, alignment_for_size(size)) : 1, what);
        // every node of a pool is aligned for the pool's alignment
        if (R->off(p) % maxal != 0)
            O->fail(fmt("%s id=%ld: address %zu not aligned for the pool's alignment %zu", what, id, R->off(p), maxal));
        live.push_back({id, p, arr, count, size, traits});
        ++n_ok;
        if (arr)
            ++n_arrays;
    };
    auto release = [&](std::size_t k)
    {
        Live        l = live[k];
        live.erase(live.begin() + long(k));
        O->on_release(l.id, "release");
        std::string res;
        if (l.array)
        {
            if (l.traits)
            {
                Tr::deallocate_array(*pool, l.p, l.count, l.size, 1);
                emit(fmt("pool t_dealloc_array %zu %zu %zu", R->off(l.p), l.count, l.size), "done", pool_state(*pool));
            }
            else
            {
                pool->deallocate_array(l.p, l.count);
                emit(fmt("pool dealloc_array %zu %zu", R->off(l.p), l.count), "done", pool_state(*pool));
            }
        }
        else if (l.traits)
        {
            Tr::deallocate_node(*pool, l.p, l.size, 1);
            emit(fmt("pool t_dealloc_node %zu %zu", R->off(l.p), l.size), "done", pool_state(*pool));
        }
        else
        {
            pool->deallocate_node(l.p);
            emit(fmt("pool dealloc_node %zu", R->off(l.p)), "done", pool_state(*pool));
        }
        ++n_dealloc;
        O->check_freed(l.p, l.array ? l.count * l.size : l.size, ns,
                       std::is_same<List, detail::small_free_memory_list>::value ? 1 : 8, "pool release");
        O->verify_all("after release");
    };
    auto pick_victim = [&]() -> std::size_t
    {
        switch (g.below(4))
        {
        case 0: return live.size() - 1;            // LIFO
        case 1: return 0;                          // FIFO
        default: return g.below(live.size());      // random
        }
    };
    Pool*             older = nullptr; // the pool that will be move-assigned into the current one
    std::vector<Live> stash;           // its live allocations
    int               grp_pool = 0, grp_older = 0, next_grp = 0; // ledger groups: the blocks of one arena travel together
    long              assign_in = 0;
    auto              do_assign = [&]
    { // *pool = std::move(*older): the current pool's blocks (and everything allocated from it) go back upstream
        O->verify_all("before move assignment");
        for (auto& l : live)
            O->forget(l.id);
        live.clear();
        *pool = std::move(*older);
        if (!cursor_ok(pool->free_list_))
            O->fail("C12 after move assignment the ordered free list's deallocation cursor is not a pair of neighbouring nodes of the target list");
        emit("pool move_assign" + ListKind<List>::proxies(pool->free_list_), "done", pool_state(*pool));
        long lk0 = Handlers::leak();
        auto a0 = Handlers::leak_amounts().size();
        older->~Pool();
        {
            std::string lr_mf = lk_result(lk0, a0);
            if (lr_mf != "leaks 0")
                O->fail("C15 the moved-from object reported a leak when it was destroyed (`" + lr_mf + "`): moving an allocator moves the count with it");
            emit("pool destroy_moved_from", lr_mf, "-");
        }
        older = nullptr;
        live.swap(stash);
        grp_pool = grp_older;
        R->cur_group = grp_pool;
        ++n_moves;
        O->verify_all("after move assignment");
    };
    if (arrays && nops > 10 && g.chance(60) && pool->capacity_left() / ns >= 2)
    { // prologue: ONE array over every node of the fresh block - it ends with the last node of the block (exactly at the end of the
      // usable memory when the block size is an exact fit) - released through the composable interface: still the pool's memory
        std::size_t total = pool->capacity_left() / ns;
        void*       p = nullptr;
        std::string res = guarded([&] { p = pool->allocate_array(total); });
        emit(fmt("pool alloc_array %zu", total), res.empty() ? fmt("ok %zu", R->off(p)) : res, pool_state(*pool));
        if (res.empty())
        {
            add_live(p, true, total, ns, false, "prologue.allocate_array(all nodes)");
            Live l = live.back();
            live.pop_back();
            O->on_release(l.id, "try_deallocate_array (prologue)");
            bool via_traits = g.chance(50); // (with a constant block size and an exact fit count * size == max_array_size())
            bool ok = via_traits ? CTr::try_deallocate_array(*pool, l.p, l.count, ns, 1) : pool->try_deallocate_array(l.p, l.count);
            if (!ok)
                O->fail(fmt("try_deallocate_array refused the array over all %zu nodes of the block that the pool handed out (offset %zu)",
                            l.count, R->off(l.p)));
            if (via_traits)
                emit(fmt("pool t_try_dealloc_array %zu %zu %zu 1", R->off(l.p), l.count, ns), ok ? "true" : "false", pool_state(*pool));
            else
                emit(fmt("pool try_dealloc_array %zu %zu", R->off(l.p), l.count), ok ? "true" : "false", pool_state(*pool));
            ++n_dealloc;
        }
    }
    for (long i = 0; i < nops && O->failures.empty(); ++i)
    {
        if (older && --assign_in <= 0)
        {
            do_assign();
            continue;
        }
        unsigned k = g.below(100);
        // phases: fill / drain bias
        bool     drain = (i / 40) % 3 == 2;
        if (drain && !live.empty() && k < 60)
            k = 40 + g.below(20);
        if (k < 22)
        { // allocate_node: must not grow while the list holds a node (C04)
            bool        had_node = !pool->free_list_.empty();
            long        up0 = R->n_alloc;
            void*       p = nullptr;
            std::string res = guarded([&] { p = pool->allocate_node(); });
            if (had_node && R->n_alloc != up0)
                O->fail("allocate_node asked the block source for memory although the free list was not empty");
            if (R->n_alloc != up0)
                ++n_grow;
            if (res.empty())
            {
                add_live(p, false, 1, ns, false, "pool.allocate_node");
                res = fmt("ok %zu", R->off(p));
            }
            else
                ++n_throw;
            emit("pool alloc_node", res, pool_state(*pool));
        }
        else if (k < 28)
        {
            long  up0 = R->n_alloc;
            void* p = pool->try_allocate_node();
            if (R->n_alloc != up0)
                O->fail("try_allocate_node grew the pool");
            if (p)
                add_live(p, false, 1, ns, false, "pool.try_allocate_node");
            else
                ++n_null;
            emit("pool try_alloc_node", p ? fmt("ok %zu", R->off(p)) : "null", pool_state(*pool));
        }
        else if (k < 34)
        { // traits node: sizes around the maximum, alignments around the maximum
            std::size_t size = g.chance(80) ? 1 + g.below(ns) : ns + 1 + g.below(8);
            std::size_t al = g.chance(85) ? (std::size_t(1) << g.below(5)) : 2 * maxal;
            if (g.chance(85) && al > maxal)
                al = maxal;
            void*       p = nullptr;
            long        up0 = R->n_alloc;
            std::string res = guarded([&] { p = Tr::allocate_node(*pool, size, al); });
            if (R->n_alloc != up0)
                ++n_grow;
            if (res.empty())
            {
                add_live(p, false, 1, size, true, "traits.allocate_node");
                res = fmt("ok %zu", R->off(p));
            }
            else
                ++n_throw;
            emit(fmt("pool t_alloc_node %zu %zu", size, al), res, pool_state(*pool));
        }
        else if (k < 40)
        { // arrays (member: n nodes; traits: count x size with size possibly smaller than / not dividing the node size)
            bool        tr = g.chance(50);
            std::size_t count = 1 + g.below(6), size = tr ? 1 + g.below(ns) : ns;
            if (g.chance(6))
                count = (std::size_t(1) << 60) + g.below(3); // count*size wraps (D21)
            if (g.chance(8))
                count = block_size / ns + g.below(4); // around the maximum array size
            void*       p = nullptr;
            long        up0 = R->n_alloc;
            std::string res = guarded([&] { p = tr ? Tr::allocate_array(*pool, count, size, 1) : pool->allocate_array(count); });
            if (R->n_alloc != up0)
                ++n_grow;
            if (res.empty())
            {
                add_live(p, true, count, size, tr, tr ? "traits.allocate_array" : "pool.allocate_array");
                res = fmt("ok %zu", R->off(p));
            }
            else
                ++n_throw;
            if (tr)
                emit(fmt("pool t_alloc_array %zu %zu 1", count, size), res, pool_state(*pool));
            else
                emit(fmt("pool alloc_array %zu", count), res, pool_state(*pool));
        }
        else if (k < 62)
        {
            if (live.empty())
                continue;
            release(pick_victim());
        }
        else if (k < 66)
        { // try_allocate_array (member and composable traits)
            bool        tr = g.chance(50);
            std::size_t count = 1 + g.below(6), size = tr ? 1 + g.below(ns) : ns;
            long        up0 = R->n_alloc;
            void*       p = tr ? CTr::try_allocate_array(*pool, count, size, 1) : pool->try_allocate_array(count);
            if (R->n_alloc != up0)
                O->fail("try_allocate_array grew the pool");
            if (p)
                add_live(p, true, count, size, tr, "try_allocate_array");
            else
                ++n_null;
            if (tr)
                emit(fmt("pool t_try_alloc_array %zu %zu 1", count, size), p ? fmt("ok %zu", R->off(p)) : "null", pool_state(*pool));
            else
                emit(fmt("pool try_alloc_array %zu", count), p ? fmt("ok %zu", R->off(p)) : "null", pool_state(*pool));
        }
        else if (k < 72)
        { // composable deallocation: own memory -> true, foreign memory -> false and nothing changes (C08)
            if (!live.empty() && g.chance(55))
            {
                std::size_t q = g.below(live.size());
                Live        l = live[q];
                if (l.array && !arrays)
                    continue;
                live.erase(live.begin() + long(q));
                O->on_release(l.id, "try_deallocate");
                if (g.chance(40))
                { // through composable_allocator_traits with the parameters of the request; first a rejected variant
                  // (size or alignment beyond what the pool supports): false, nothing changes, the memory stays live
                    if (g.chance(50))
                    {
                        bool        big = g.chance(50);
                        std::size_t bs = big ? ns + 1 + g.below(8) : 1 + g.below(ns), bal = big ? 1 : 32;
                        auto        before = pool_state(*pool);
                        bool        r = l.array ? CTr::try_deallocate_array(*pool, l.p, l.count, bs, bal)
                                                : CTr::try_deallocate_node(*pool, l.p, bs, bal);
                        if (r || pool_state(*pool) != before)
                            O->fail("composable try_deallocate with a size/alignment the pool does not support was not rejected cleanly");
                        if (l.array)
                            emit(fmt("pool t_try_dealloc_array %zu %zu %zu %zu", R->off(l.p), l.count, bs, bal), r ? "true" : "false", pool_state(*pool));
                        else
                            emit(fmt("pool t_try_dealloc_node %zu %zu %zu", R->off(l.p), bs, bal), r ? "true" : "false", pool_state(*pool));
                    }
                    std::size_t sz = l.array ? l.size : 1 + g.below(ns);
                    bool        ok2 = l.array ? CTr::try_deallocate_array(*pool, l.p, l.count, sz, 1) : CTr::try_deallocate_node(*pool, l.p, sz, 1);
                    if (!ok2)
                        O->fail(fmt("composable try_deallocate refused memory the pool handed out (id=%ld)", l.id));
                    if (l.array)
                        emit(fmt("pool t_try_dealloc_array %zu %zu %zu 1", R->off(l.p), l.count, sz), ok2 ? "true" : "false", pool_state(*pool));
                    else
                        emit(fmt("pool t_try_dealloc_node %zu %zu 1", R->off(l.p), sz), ok2 ? "true" : "false", pool_state(*pool));
                    ++n_dealloc;
                    continue;
                }
                bool ok = l.array ? pool->try_deallocate_array(l.p, l.count * l.size / ns + (l.count * l.size % ns ? 1 : 0))
                                  : pool->try_deallocate_node(l.p);
                if (!ok)
                    O->fail(fmt("try_deallocate refused memory the pool handed out (id=%ld)", l.id));
                if (l.array)
                    emit(fmt("pool try_dealloc_array %zu %zu", R->off(l.p), l.count * l.size / ns + (l.count * l.size % ns ? 1 : 0)),
                         ok ? "true" : "false", pool_state(*pool));
                else
                    emit(fmt("pool try_dealloc_node %zu", R->off(l.p)), ok ? "true" : "false", pool_state(*pool));
                ++n_dealloc;
            }
            else
            { // a pointer into a sibling block (directly adjacent blocks are produced by the region's placement policy)
                char* f = static_cast<char*>(foreign.blocks[g.below(foreign.blocks.size())]) + 16 * g.below(16);
                auto  before = pool_state(*pool);
                bool  ok = g.chance(50) ? pool->try_deallocate_node(f) : CTr::try_deallocate_node(*pool, f, 1 + g.below(ns), 1);
                if (ok)
                    O->fail("try_deallocate_node accepted memory of another allocator");
                if (pool_state(*pool) != before)
                    O->fail("try_deallocate_node changed the state although it returned false");
                ++n_foreign;
                emit(fmt("pool try_dealloc_node %zu", R->off(f)), ok ? "true" : "false", pool_state(*pool));
            }
        }
        else if (k < 78)
        {
            emit("pool capacity_left", fmt("num %zu", pool->capacity_left()), pool_state(*pool));
            emit("pool next_capacity", fmt("num %zu", pool->next_capacity()), pool_state(*pool));
            { // C18: the reported maxima are true upper bounds: a request above them never succeeds (and changes nothing)
                std::size_t mn = Tr::max_node_size(*pool), ma = Tr::max_array_size(*pool), mal = Tr::max_alignment(*pool);
                auto        before = pool_state(*pool);
                auto        above = [&](const char* what, auto f) {
                    void*       p = nullptr;
                    std::string r = guarded([&] { p = f(); });
                    if (r.empty())
                        O->fail(fmt("C18 memory_pool: a request above the reported %s succeeded (%p)", what, p));
                    else if (r.find("badh") == std::string::npos)
                        O->fail(fmt("C18/C03 memory_pool: a request above the reported %s ended as `%s`", what, r.c_str()));
                };
                if (mn != ns || mal != alignment_for_size(ns))
                    O->fail(fmt("C18 memory_pool: max_node_size %zu / max_alignment %zu for node size %zu", mn, mal, ns));
                above("max_node_size", [&] { return Tr::allocate_node(*pool, mn + 1, 1); });
                above("max_alignment", [&] { return Tr::allocate_node(*pool, 1, mal * 2); });
                if (mal * 2 <= mn)
                { // a size that would itself allow the larger alignment, in a pool whose nodes do not
                    above("max_alignment", [&] { return Tr::allocate_node(*pool, mal * 2, mal * 2); });
                    if (arrays)
                        above("max_alignment", [&] { return Tr::allocate_array(*pool, 1, mal * 2, mal * 2); });
                }
                if (arrays && ma < std::size_t(-1) - 2 * mn) // (an exhausted fixed source reports a wrapped, astronomically large figure)
                    above("max_array_size", [&] { return Tr::allocate_array(*pool, ma / mn + 1, mn, 1); });
                if (pool_state(*pool) != before)
                    O->fail("C18 memory_pool: a rejected request changed the pool");
            }
        }
        else if (k < 84)
        { // C04 cycle oracle: repeating an allocate/release cycle never grows the pool
            std::size_t m = 1 + g.below(12);
            long        blocks_after_first = 0;
            for (int rep = 0; rep < 3; ++rep)
            {
                std::vector<void*> got;
                for (std::size_t q = 0; q < m; ++q)
                {
                    void*       p = nullptr;
                    std::string res = guarded([&] { p = pool->allocate_node(); });
                    emit("pool alloc_node", res.empty() ? fmt("ok %zu", R->off(p)) : res, pool_state(*pool));
                    if (!res.empty())
                        break;
                    got.push_back(p);
                }
                if (rep == 0)
                    blocks_after_first = R->n_alloc;
                else if (R->n_alloc != blocks_after_first && R->n_fail == 0)
                    O->fail(fmt("repeating a cycle of %zu node allocations/releases grew the pool (repetition %d)", m, rep));
                // release in a seeded order
                while (!got.empty())
                {
                    std::size_t q = g.below(got.size());
                    pool->deallocate_node(got[q]);
                    emit(fmt("pool dealloc_node %zu", R->off(got[q])), "done", pool_state(*pool));
                    got.erase(got.begin() + long(q));
                }
            }
            ++n_cycles;
            if (arrays && g.chance(50))
            { // ... and neither does repeating a cycle with ONE array live at a time (any list type: the released run is found again)
                std::size_t cnt = 2 + g.below(4);
                long        blocks_after_first = 0;
                int         reps = 4 + int(g.below(24));
                for (int rep = 0; rep < reps; ++rep)
                {
                    void*       p = nullptr;
                    std::string res = guarded([&] { p = pool->allocate_array(cnt); });
                    emit(fmt("pool alloc_array %zu", cnt), res.empty() ? fmt("ok %zu", R->off(p)) : res, pool_state(*pool));
                    if (!res.empty())
                        break;
                    if (rep == 0)
                        blocks_after_first = R->n_alloc;
                    else if (R->n_alloc != blocks_after_first && R->n_fail == 0)
                    {
                        O->fail(fmt("repeating a cycle of one allocate_array(%zu) / deallocate_array grew the pool (repetition %d) although "
                                    "capacity_left was %zu nodes",
                                    cnt, rep, pool->capacity_left() / ns));
                        pool->deallocate_array(p, cnt);
                        emit(fmt("pool dealloc_array %zu %zu", R->off(p), cnt), "done", pool_state(*pool));
                        break;
                    }
                    std::memset(p, 0x6b, cnt * ns);
                    pool->deallocate_array(p, cnt);
                    emit(fmt("pool dealloc_array %zu %zu", R->off(p), cnt), "done", pool_state(*pool));
                }
                ++n_cycles;
            }
        }
        else if (k >= 84 && k < 88 && arrays && older == nullptr && g.chance(45))
        { // cursor drill (ordered list: last_dealloc_/last_dealloc_prev_ around an array that is taken): K nodes, a seeded subset
          // released in seeded order, an array allocation, then the neighbours of the array are released
            std::vector<long> mine;
            std::size_t       K = 8 + g.below(9);
            for (std::size_t q = 0; q < K; ++q)
            {
                void*       p = nullptr;
                std::string res = guarded([&] { p = pool->allocate_node(); });
                emit("pool alloc_node", res.empty() ? fmt("ok %zu", R->off(p)) : res, pool_state(*pool));
                if (!res.empty())
                    break;
                add_live(p, false, 1, ns, false, "drill.allocate_node");
                mine.push_back(live.back().id);
            }
            auto release_id = [&](long id)
            {
                for (std::size_t q = 0; q < live.size(); ++q)
                    if (live[q].id == id)
                    {
                        release(q);
                        return;
                    }
            };
            // release about half, in seeded order; keep the rest live (their content is watched by the oracle)
            std::vector<long> order = mine;
            for (std::size_t q = order.size(); q > 1; --q)
                std::swap(order[q - 1], order[g.below(q)]);
            std::size_t nrel = order.size() / 2 + g.below(order.size() / 4 + 1);
            for (std::size_t q = 0; q < nrel && q < order.size(); ++q)
                release_id(order[q]);
            // an array that has to be carved out of what was just released
            {
                std::size_t cnt = 2 + g.below(2);
                void*       p = nullptr;
                std::string res = guarded([&] { p = pool->allocate_array(cnt); });
                emit(fmt("pool alloc_array %zu", cnt), res.empty() ? fmt("ok %zu", R->off(p)) : res, pool_state(*pool));
                if (res.empty())
                    add_live(p, true, cnt, ns, false, "drill.allocate_array");
            }
            // now the remaining nodes of the drill go back, again in seeded order (neighbours of the array included)
            for (std::size_t q = nrel; q < order.size(); ++q)
                release_id(order[q]);
            O->verify_all("after cursor drill");
        }
        else if (k >= 84 && k < 88 && arrays && older == nullptr && pool->capacity_left() / ns >= 8 && pool->capacity_left() / ns <= 96
                 && g.chance(85))
        { // tail drill (the D14 cursor state: last_dealloc_ == end proxy with a NON-empty list): take every free node, release a few
          // non-adjacent low ones, then the two highest; allocate_array(2) takes exactly those two (the only run) so the cursor
          // moves onto the end proxy; then everything else comes back in seeded order (front / back / interval releases in that state)
            std::vector<long> mine;
            std::size_t       total = pool->capacity_left() / ns;
            for (std::size_t q = 0; q < total; ++q)
            {
                void*       p = nullptr;
                std::string res = guarded([&] { p = pool->allocate_node(); });
                emit("pool alloc_node", res.empty() ? fmt("ok %zu", R->off(p)) : res, pool_state(*pool));
                if (!res.empty())
                    break;
                add_live(p, false, 1, ns, false, "taildrill.allocate_node");
                mine.push_back(live.back().id);
            }
            auto release_id = [&](long id)
            {
                for (std::size_t q = 0; q < live.size(); ++q)
                    if (live[q].id == id)
                    {
                        release(q);
                        return;
                    }
            };
            if (mine.size() >= 8)
            {
                // highest two by address
                std::vector<std::pair<char*, long>> byaddr;
                for (long id : mine)
                    for (auto& l : live)
                        if (l.id == id)
                            byaddr.push_back({static_cast<char*>(l.p), id});
                std::sort(byaddr.begin(), byaddr.end());
                std::size_t n = byaddr.size();
                std::vector<long> rest;
                // a few non-adjacent low nodes first
                for (std::size_t q = g.below(2); q + 3 < n && q < 8; q += 2)
                    release_id(byaddr[q].second);
                bool top_adjacent = byaddr[n - 2].first + ns == byaddr[n - 1].first;
                if (g.chance(50))
                {
                    release_id(byaddr[n - 1].second);
                    release_id(byaddr[n - 2].second);
                }
                else
                {
                    release_id(byaddr[n - 2].second);
                    release_id(byaddr[n - 1].second);
                }
                if (top_adjacent)
                {
                    void*       p = nullptr;
                    std::string res = guarded([&] { p = pool->allocate_array(2); });
                    emit("pool alloc_array 2", res.empty() ? fmt("ok %zu", R->off(p)) : res, pool_state(*pool));
                    if (res.empty())
                        add_live(p, true, 2, ns, false, "taildrill.allocate_array");
                }
                // the first release in the "cursor on the end proxy" state: the lowest live node (front / interval), the array
                // itself (back), or any; then everything of the drill that is still live goes back in seeded order
                switch (g.below(3))
                {
                case 0:
                    for (std::size_t q = 0; q < n; ++q)
                    {
                        bool is_live = false;
                        for (auto& l : live)
                            is_live = is_live || l.id == byaddr[q].second;
                        if (is_live)
                        {
                            release_id(byaddr[q].second);
                            break;
                        }
                    }
                    break;
                case 1:
                    if (!live.empty() && live.back().array)
                    {
                        if (g.chance(60))
                        { // through the composable interface: an array that ends exactly at the end of its block is still the pool's
                            Live l = live.back();
                            live.pop_back();
                            O->on_release(l.id, "try_deallocate_array (tail drill)");
                            bool ok = pool->try_deallocate_array(l.p, l.count);
                            if (!ok)
                                O->fail(fmt("try_deallocate_array refused an array the pool handed out (the last %zu nodes of a block, offset %zu)",
                                            l.count, R->off(l.p)));
                            emit(fmt("pool try_dealloc_array %zu %zu", R->off(l.p), l.count), ok ? "true" : "false", pool_state(*pool));
                            ++n_dealloc;
                        }
                        else
                            release(live.size() - 1);
                    }
                    break;
                default: break;
                }
                for (std::size_t q = 0; q < n; ++q)
                    rest.push_back(byaddr[q].second);
                for (std::size_t q = rest.size(); q > 1; --q)
                    std::swap(rest[q - 1], rest[g.below(q)]);
                for (long id : rest)
                    release_id(id);
            }
            else
                for (long id : mine)
                    release_id(id);
            O->verify_all("after tail drill");
        }
        else if (k < 88 && older != nullptr && g.chance(35))
        { // std::swap's three moves: tmp(move(a)); a = move(b); b = move(tmp) - each assignment targets a MOVED-FROM pool
            O->verify_all("before three-move swap");
            {
                Pool tmp(std::move(*pool));
                *pool = std::move(*older);
                *older = std::move(tmp);
                long lk0 = Handlers::leak();
                auto a0 = Handlers::leak_amounts().size();
                (void)lk0;
                (void)a0;
            } // ~tmp: moved-from, must be inert
            std::string px = ListKind<List>::proxies(pool->free_list_), px2 = ListKind<List>::proxies(older->free_list_);
            for (const char* key : {" B=", " E=", " P="})
            {
                auto at = px2.find(key);
                if (at != std::string::npos)
                    px2.insert(at + 2, "2");
            }
            live.swap(stash);
            std::swap(grp_pool, grp_older);
            R->cur_group = grp_pool;
            emit("pool swap3" + px + px2, "done", pool_state(*pool));
            emit("pool peek2", "done", pool_state(*older));
            ++n_moves;
            O->verify_all("after three-move swap");
        }
        else if (k < 88 && older == nullptr && g.chance(45))
        { // a second pool of the same kind becomes the primary; the older one is move-ASSIGNED into it later
            void*       nm = R->place_object(sizeof(Pool), alignof(Pool), g.chance(50));
            Pool*       np = nullptr;
            grp_older = grp_pool;
            grp_pool = ++next_grp;
            R->cur_group = grp_pool;
            std::string res = guarded([&] { np = ::new (nm) Pool(node_size, block_size, RegionAlloc(*R)); });
            std::string op = fmt("pool new2 %zu %zu kind=%s arrays=%d src=%s", node_size, block_size, ListKind<List>::name(),
                                 (int)PoolType::value, SrcDump<typename Pool::allocator_type>::init(block_size).c_str());
            if (np)
                op += ListKind<List>::proxies(np->free_list_);
            emit(op, res.empty() ? "done" : res, np ? pool_state(*np) : "-");
            if (!np)
            {
                grp_pool = grp_older;
                R->cur_group = grp_pool;
                continue;
            }
            emit("pool switch", "done", pool_state(*np));
            older = pool;
            pool = np;
            stash.swap(live);
            assign_in = 4 + long(g.below(30));
        }
        else if (k < 88)
        { // move construction to a new object (placed below or above the blocks), then destroy the moved-from pool
            if (g.chance(30))
            { // ... of a pool whose free list is empty at that moment (an ordered list's cursor then sits between its two proxies)
                for (int q = 0; q < 300 && !pool->free_list_.empty(); ++q)
                {
                    void* p = pool->try_allocate_node();
                    if (!p)
                        break;
                    add_live(p, false, 1, ns, false, "pool.try_allocate_node");
                    emit("pool try_alloc_node", fmt("ok %zu", R->off(p)), pool_state(*pool));
                }
            }
            else if (PoolType::value && std::is_same<List, detail::ordered_free_memory_list>::value && g.chance(40))
            { // ... or of an ordered list whose deallocation cursor sits in front of the END proxy while nodes are left: drain the list,
              // give back the lowest node and the three highest (adjacent) ones, take the three as an array - the run that held the
              // cursor leaves, the cursor is pushed past it
                for (int q = 0; q < 300 && !pool->free_list_.empty(); ++q)
                {
                    void* p = pool->try_allocate_node();
                    if (!p)
                        break;
                    add_live(p, false, 1, ns, false, "pool.try_allocate_node");
                    emit("pool try_alloc_node", fmt("ok %zu", R->off(p)), pool_state(*pool));
                }
                std::vector<char*> singles;
                for (auto& l : live)
                    if (!l.array)
                        singles.push_back(static_cast<char*>(l.p));
                std::sort(singles.begin(), singles.end());
                std::size_t n1 = singles.size();
                if (pool->free_list_.empty() && n1 >= 5 && singles[n1 - 1] - singles[n1 - 2] == std::ptrdiff_t(ns)
                    && singles[n1 - 2] - singles[n1 - 3] == std::ptrdiff_t(ns) && singles[0] + ns < singles[n1 - 3])
                {
                    for (char* victim : {singles[0], singles[n1 - 3], singles[n1 - 2], singles[n1 - 1]})
                        for (std::size_t q = 0; q < live.size(); ++q)
                            if (live[q].p == victim)
                            {
                                release(q);
                                break;
                            }
                    void*       p = nullptr;
                    std::string res = guarded([&] { p = pool->allocate_array(3); });
                    if (res.empty())
                    {
                        add_live(p, true, 3, ns, false, "pool.allocate_array");
                        res = fmt("ok %zu", R->off(p));
                    }
                    emit("pool alloc_array 3", res, pool_state(*pool));
                }
            }
            void* nm = R->place_object(sizeof(Pool), alignof(Pool), g.chance(50));
            Pool* np = ::new (nm) Pool(std::move(*pool));
            if (!cursor_ok(np->free_list_))
                O->fail("C12 after move construction the ordered free list's deallocation cursor is not a pair of neighbouring nodes of the new list");
            emit("pool move" + ListKind<List>::proxies(np->free_list_), "done", pool_state(*np));
            long lk0 = Handlers::leak();
            auto a0 = Handlers::leak_amounts().size();
            pool->~Pool();
            {
            std::string lr_mf = lk_result(lk0, a0);
            if (lr_mf != "leaks 0")
                O->fail("C15 the moved-from object reported a leak when it was destroyed (`" + lr_mf + "`): moving an allocator moves the count with it");
            emit("pool destroy_moved_from", lr_mf, "-");
        }
            pool = np;
            ++n_moves;
            O->verify_all("after move");
        }
        else if (k < 94)
        { // composable traits node allocation
            std::size_t size = g.chance(85) ? 1 + g.below(ns) : ns + 1 + g.below(4);
            std::size_t al = g.chance(90) ? 1 : 2 * maxal;
            void*       p = CTr::try_allocate_node(*pool, size, al);
            if (p)
                add_live(p, false, 1, size, false, "composable.try_allocate_node");
            else
                ++n_null;
            emit(fmt("pool t_try_alloc_node %zu %zu", size, al), p ? fmt("ok %zu", R->off(p)) : "null", pool_state(*pool));
        }
        else
        { // exhaust: allocate until the next allocation would grow, then one more (growth or out_of_fixed_memory)
            for (int q = 0; q < 300 && !pool->free_list_.empty(); ++q)
            {
                void* p = pool->try_allocate_node();
                if (!p)
                    break;
                add_live(p, false, 1, ns, false, "pool.try_allocate_node");
                emit("pool try_alloc_node", fmt("ok %zu", R->off(p)), pool_state(*pool));
            }
        }
    }
    if (older && O->failures.empty())
        do_assign();
    if (bad_mode && O->failures.empty())
    { // C16: releases the debug checks cover must be reported (or stop the program) before the state changes.
      // Each bad call runs in a forked child; the parent's pool is untouched.
        const bool small = std::is_same<List, detail::small_free_memory_list>::value;
        const bool ordered = std::is_same<List, detail::ordered_free_memory_list>::value;
        const bool ptr_check = FOONATHAN_MEMORY_DEBUG_POINTER_CHECK, dbl_check = FOONATHAN_MEMORY_DEBUG_DOUBLE_DEALLOC_CHECK && ptr_check;
        auto       state = [&] { return pool_state(*pool); };
        auto       probe = [&](const char* why, char* ptr)
        {
            std::string out = in_child(state, [&] { pool->deallocate_node(ptr); });
            ++n_bad;
            if (out == "reported")
                ++n_bad_reported;
            else if (out == "stopped")
                ++n_bad_stopped;
            else
                O->fail(fmt("C16 bad release (%s, pointer %zu) to a %s pool was not reported before the state changed: %s", why,
                            R->off(ptr), ListKind<List>::name(), out.c_str()));
            emit(fmt("pool bad_dealloc_node %zu why=%s", R->off(ptr), why), out, pool_state(*pool));
        };
        if (dbl_check && (small || ordered))
        { // double free: first, last, middle of the free list, the most recently freed node, a seeded one
            auto fr = free_nodes(pool->free_list_);
            if (!fr.empty())
            {
                probe("double-first", fr.front());
                probe("double-last", fr.back());
                probe("double-middle", fr[fr.size() / 2]);
                probe("double-seeded", fr[g.below(fr.size())]);
            }
            if (!live.empty())
            { // free a live node for real (valid), then free it again: "most recently freed"
                std::size_t q = 0;
                while (q < live.size() && live[q].array)
                    ++q;
                if (q < live.size())
                {
                    char* victim = static_cast<char*>(live[q].p);
                    bool  tr = live[q].traits;
                    std::size_t sz = live[q].size;
                    O->on_release(live[q].id, "release");
                    live.erase(live.begin() + long(q));
                    if (tr)
                    {
                        Tr::deallocate_node(*pool, victim, sz, 1);
                        emit(fmt("pool t_dealloc_node %zu %zu", R->off(victim), sz), "done", pool_state(*pool));
                    }
                    else
                    {
                        pool->deallocate_node(victim);
                        emit(fmt("pool dealloc_node %zu", R->off(victim)), "done", pool_state(*pool));
                    }
                    probe("double-most-recent", victim);
                }
            }
        }
        if (small && ptr_check)
        { // foreign pointers and pointers between node boundaries
            probe("foreign-sibling", static_cast<char*>(foreign.blocks[0]) + 16);
            probe("foreign-low", R->base + 4096);
            probe("foreign-high", R->base + Region::total - 4096);
            auto& sl = pool->free_list_;
            for (auto c = reinterpret_cast<detail::small_free_memory_list&>(sl).base_.next;
                 c != &reinterpret_cast<detail::small_free_memory_list&>(sl).base_; c = c->next)
            {
                char* cb = reinterpret_cast<char*>(c);
                probe("chunk-header", cb + 8);
                char* area_end = cb + detail::chunk_memory_offset + std::size_t(c->no_nodes) * ns;
                probe("past-node-area", area_end);
                if (ns > 1)
                {
                    probe("between-first", cb + detail::chunk_memory_offset + 1);
                    probe("between-seeded", cb + detail::chunk_memory_offset + g.below(c->no_nodes) * ns + 1 + g.below(ns - 1));
                    probe("between-last", area_end - 1);
                }
                if (g.chance(60))
                    break;
            }
            for (auto& l : live)
                if (!l.array && ns > 1)
                {
                    probe("inside-live-node", static_cast<char*>(l.p) + 1 + g.below(ns - 1));
                    // every kind of interior offset: odd, the alignments up to max_alignment (a pointer that is aligned for the
                    // pool but not on a node boundary), the middle, the last byte
                    std::vector<std::size_t> offs;
                    for (std::size_t d : {std::size_t(1), std::size_t(2), std::size_t(4), std::size_t(8), std::size_t(16), std::size_t(32), ns / 2, ns - 1})
                        if (d > 0 && d < ns && std::find(offs.begin(), offs.end(), d) == offs.end())
                            offs.push_back(d);
                    for (std::size_t d : offs)
                        probe("inside-live-node-at", static_cast<char*>(l.p) + d);
                    break;
                }
        }
    }
    // release everything: capacity must come back (C04)
    O->verify_all("before final release");
    while (!live.empty() && O->failures.empty())
        release(pick_victim());
    {
        std::size_t total_nodes = 0;
        // model-independent expectation: every node of every owned block is free again
        for (auto cur = pool->arena_.used_.head_; cur; cur = cur->prev)
            total_nodes += pool->free_list_.usable_size(cur->usable_size) / ns;
        if (!std::is_same<List, detail::small_free_memory_list>::value && pool->free_list_.capacity() != total_nodes
            && O->failures.empty())
            O->fail(fmt("after releasing everything the pool has %zu free nodes, its blocks hold %zu", pool->free_list_.capacity(),
                        total_nodes));
    }
    foreign.release(256);
    long lk0 = Handlers::leak();
    auto a0 = Handlers::leak_amounts().size();
    pool->~Pool();
    emit("pool destroy", lk_result(lk0, a0), "-");
}

//=== memory_pool_collection ===//
template <class PoolType, class Dist, class Src>
static void run_coll(Rng& g, long nops, std::size_t max_node, std::size_t block_size, const char* distname)
{
    using Coll = memory_pool_collection<PoolType, Dist, Src>;
    using Tr = allocator_traits<Coll>;
    using CTr = composable_allocator_traits<Coll>;
    using List = typename PoolType::type;
    const bool arrays = PoolType::value && !std::is_same<List, detail::small_free_memory_list>::value;
    Coll*      c = nullptr;
    void*      mem = R->place_object(sizeof(Coll), alignof(Coll), g.chance(50));
    {
        std::string res = guarded([&] { c = ::new (mem) Coll(max_node, block_size, RegionAlloc(*R)); });
        std::string op = fmt("coll new %zu %zu kind=%s dist=%s arrays=%d src=%s", max_node, block_size, ListKind<List>::name(), distname,
                             (int)PoolType::value, SrcDump<typename Coll::allocator_type>::init(block_size).c_str());
        if (c)
            op += fmt(" array=%zu n=%zu", R->off(c->pools_.array_), c->pools_.no_elements_);
        emit(op, res.empty() ? "done" : res, c ? coll_state(*c) : "-");
        if (!c)
            return;
    }
    const std::size_t mx = c->max_node_size();
    std::vector<Live> live;
    Foreign           foreign;
    foreign.make(2, 256);
    auto add_live = [&](void* p, bool arr, std::size_t count, std::size_t size, bool traits, const char* what)
    {
        long        id = next_id++;
        std::size_t al = alignment_for_size(size);
        O->on_alloc(id, p, arr ? count * size : size, al, what);
        live.push_back({id, p, arr, count, size, traits});
        ++n_ok;
        if (arr)
            ++n_arrays;
    };
    auto release = [&](std::size_t k)
    {
        Live l = live[k];
        live.erase(live.begin() + long(k));
        O->on_release(l.id, "release");
        if (l.array)
        {
            if (l.traits)
            {
                Tr::deallocate_array(*c, l.p, l.count, l.size, 1);
                emit(fmt("coll t_dealloc_array %zu %zu %zu", R->off(l.p), l.count, l.size), "done", coll_state(*c));
            }
            else
            {
                c->deallocate_array(l.p, l.count, l.size);
                emit(fmt("coll dealloc_array %zu %zu %zu", R->off(l.p), l.count, l.size), "done", coll_state(*c));
            }
        }
        else if (l.traits)
        {
            Tr::deallocate_node(*c, l.p, l.size, 1);
            emit(fmt("coll t_dealloc_node %zu %zu", R->off(l.p), l.size), "done", coll_state(*c));
        }
        else
        {
            c->deallocate_node(l.p, l.size);
            emit(fmt("coll dealloc_node %zu %zu", R->off(l.p), l.size), "done", coll_state(*c));
        }
        ++n_dealloc;
        {
            std::size_t bns = c->pools_.get(l.size).node_size();
            O->check_freed(l.p, l.array ? l.count * l.size : l.size, bns,
                           std::is_same<List, detail::small_free_memory_list>::value ? 1 : 8, "collection release");
        }
        O->verify_all("after release");
    };
    auto pick_size = [&]() -> std::size_t
    {
        switch (g.below(6))
        {
        case 0: return 1 + g.below(std::min<std::size_t>(mx, 8)); // never above max_node_size(): the queries require it
        case 1: return mx - g.below(std::min<std::size_t>(mx, 4));
        case 2:
        { // around a power of two
            std::size_t p2 = std::size_t(1) << g.below(8);
            std::size_t s = p2 + g.below(3) - 1;
            return s < 1 ? 1 : (s > mx ? mx : s);
        }
        default: return 1 + g.below(mx);
        }
    };
    Coll*             older = nullptr;
    std::vector<Live> stash;
    long              assign_in = 0;
    auto              do_assign = [&]
    {
        O->verify_all("before move assignment");
        for (auto& l : live)
            O->forget(l.id);
        live.clear();
        *c = std::move(*older);
        for (std::size_t q = 0; q < c->pools_.no_elements_; ++q)
            if (!cursor_ok(c->pools_.array_[q]))
                O->fail(fmt("C12 after move assignment of the collection the deallocation cursor of ordered list %zu is not a pair of neighbouring nodes", q));
        emit("coll move_assign", "done", coll_state(*c));
        long lk0 = Handlers::leak();
        auto a0 = Handlers::leak_amounts().size();
        older->~Coll();
        {
            std::string lr_mf = lk_result(lk0, a0);
            if (lr_mf != "leaks 0")
                O->fail("C15 the moved-from object reported a leak when it was destroyed (`" + lr_mf + "`): moving an allocator moves the count with it");
            emit("coll destroy_moved_from", lr_mf, "-");
        }
        older = nullptr;
        live.swap(stash);
        ++n_moves;
        O->verify_all("after move assignment");
    };
    for (long i = 0; i < nops && O->failures.empty(); ++i)
    {
        if (older && --assign_in <= 0)
        {
            do_assign();
            continue;
        }
        unsigned k = g.below(100);
        bool     drain = (i / 50) % 3 == 2;
        if (drain && !live.empty() && k < 60)
            k = 45 + g.below(20);
        if (k < 25)
        {
            std::size_t size = g.chance(94) ? pick_size() : mx + 1 + g.below(8);
            bool        had = size <= mx && !c->pools_.get(size).empty();
            long        up0 = R->n_alloc;
            void*       p = nullptr;
            std::string res = guarded([&] { p = c->allocate_node(size); });
            if (had && R->n_alloc != up0)
                O->fail("collection.allocate_node asked the block source although the matching free list was not empty");
            if (R->n_alloc != up0)
                ++n_grow;
            if (res.empty())
            {
                add_live(p, false, 1, size, false, "coll.allocate_node");
                if (c->pools_.get(size).node_size() < size)
                    O->fail(fmt("bucket node size %zu smaller than the request %zu", c->pools_.get(size).node_size(), size));
                res = fmt("ok %zu", R->off(p));
            }
            else
                ++n_throw;
            emit(fmt("coll alloc_node %zu", size), res, coll_state(*c));
        }
        else if (k < 33)
        {
            std::size_t size = g.chance(94) ? pick_size() : mx + 1 + g.below(8);
            long        up0 = R->n_alloc;
            bool        tr = g.chance(40);
            std::size_t al = g.chance(80) ? (std::size_t(1) << g.below(5)) : 32;
            void*       p = tr ? CTr::try_allocate_node(*c, size, al) : c->try_allocate_node(size);
            if (R->n_alloc != up0)
                O->fail("collection.try_allocate_node grew the collection");
            if (p)
                add_live(p, false, 1, size, false, "coll.try_allocate_node");
            else
                ++n_null;
            if (tr)
                emit(fmt("coll t_try_alloc_node %zu %zu", size, al), p ? fmt("ok %zu", R->off(p)) : "null", coll_state(*c));
            else
                emit(fmt("coll try_alloc_node %zu", size), p ? fmt("ok %zu", R->off(p)) : "null", coll_state(*c));
        }
        else if (k < 39)
        { // traits node with alignment around alignment_for(size)
            std::size_t size = pick_size();
            std::size_t al = g.chance(85) ? alignment_for_size(size) : 2 * alignment_for_size(size);
            if (g.chance(50))
                al = 1;
            void*       p = nullptr;
            std::string res = guarded([&] { p = Tr::allocate_node(*c, size, al); });
            if (res.empty())
            {
                add_live(p, false, 1, size, true, "coll.traits.allocate_node");
                res = fmt("ok %zu", R->off(p));
            }
            else
                ++n_throw;
            emit(fmt("coll t_alloc_node %zu %zu", size, al), res, coll_state(*c));
        }
        else if (k < 45)
        { // arrays (only where the pool type supports them: contract of allocate_array)
            if (!arrays)
                continue;
            std::size_t size = pick_size(), count = 1 + g.below(5);
            if (g.chance(10))
                count = block_size / size + g.below(3);
            else if (c->next_capacity() < (std::size_t(1) << 17) && g.chance(25))
                // (only while the blocks are small: each such array makes a growing source double its block)
                // just above the default refill (next block / number of buckets): the third stage of allocate_array,
                // which reserves exactly what the array needs; sizes that are not a multiple of the bucket's node size included
                count = c->next_capacity() / c->pools_.size() / size + 1 + g.below(4);
            bool        tr = g.chance(50);
            void*       p = nullptr;
            long        up0 = R->n_alloc;
            std::string res =
                guarded([&] { p = tr ? Tr::allocate_array(*c, count, size, 1) : c->allocate_array(count, size); });
            if (R->n_alloc != up0)
                ++n_grow;
            if (res.empty() && !arrays && !p)
                res = "null-from-throwing";
            if (res.empty())
            {
                add_live(p, true, count, size, tr, "coll.allocate_array");
                res = fmt("ok %zu", R->off(p));
            }
            else
                ++n_throw;
            emit(fmt("coll %salloc_array %zu %zu%s", tr ? "t_" : "", count, size, tr ? " 1" : ""), res, coll_state(*c));
        }
        else if (k < 65)
        {
            if (live.empty())
                continue;
            std::size_t q = g.chance(30) ? live.size() - 1 : g.below(live.size());
            release(q);
        }
        else if (k < 69)
        {
            std::size_t size = pick_size(), count = 1 + g.below(5);
            long        up0 = R->n_alloc;
            bool        tr = g.chance(50);
            std::size_t al = g.chance(85) ? 1 : 32;
            if (tr && g.chance(10))
                count = block_size / size + 1 + g.below(4 * block_size / size + 1); // around / beyond max_array_size
            void*       p = tr ? CTr::try_allocate_array(*c, count, size, al) : c->try_allocate_array(count, size);
            if (R->n_alloc != up0)
                O->fail("collection.try_allocate_array grew the collection");
            if (p)
                add_live(p, true, count, size, false, "coll.try_allocate_array");
            else
                ++n_null;
            if (tr)
                emit(fmt("coll t_try_alloc_array %zu %zu %zu", count, size, al), p ? fmt("ok %zu", R->off(p)) : "null", coll_state(*c));
            else
                emit(fmt("coll try_alloc_array %zu %zu", count, size), p ? fmt("ok %zu", R->off(p)) : "null", coll_state(*c));
        }
        else if (k < 75)
        { // composable deallocation
            if (!live.empty() && g.chance(55))
            {
                std::size_t q = g.below(live.size());
                Live        l = live[q];
                if (l.array && !arrays)
                    continue;
                live.erase(live.begin() + long(q));
                O->on_release(l.id, "try_deallocate");
                if (g.chance(40))
                { // through composable_allocator_traits; first a variant with an unsupported alignment: rejected, nothing changes
                    if (g.chance(50))
                    {
                        auto before = coll_state(*c);
                        bool r = l.array ? CTr::try_deallocate_array(*c, l.p, l.count, l.size, 32) : CTr::try_deallocate_node(*c, l.p, l.size, 32);
                        if (r || coll_state(*c) != before)
                            O->fail("composable try_deallocate with an alignment the collection does not support was not rejected cleanly");
                        if (l.array)
                            emit(fmt("coll t_try_dealloc_array %zu %zu %zu 32", R->off(l.p), l.count, l.size), r ? "true" : "false", coll_state(*c));
                        else
                            emit(fmt("coll t_try_dealloc_node %zu %zu 32", R->off(l.p), l.size), r ? "true" : "false", coll_state(*c));
                    }
                    std::size_t al = std::size_t(1) << g.below(5);
                    bool        ok2 = l.array ? CTr::try_deallocate_array(*c, l.p, l.count, l.size, al) : CTr::try_deallocate_node(*c, l.p, l.size, al);
                    if (!ok2)
                        O->fail(fmt("composable try_deallocate refused memory the collection handed out (id=%ld)", l.id));
                    if (l.array)
                        emit(fmt("coll t_try_dealloc_array %zu %zu %zu %zu", R->off(l.p), l.count, l.size, al), ok2 ? "true" : "false", coll_state(*c));
                    else
                        emit(fmt("coll t_try_dealloc_node %zu %zu %zu", R->off(l.p), l.size, al), ok2 ? "true" : "false", coll_state(*c));
                    ++n_dealloc;
                    continue;
                }
                bool ok = l.array ? c->try_deallocate_array(l.p, l.count, l.size) : c->try_deallocate_node(l.p, l.size);
                if (!ok)
                    O->fail(fmt("try_deallocate refused memory the collection handed out (id=%ld)", l.id));
                if (l.array)
                    emit(fmt("coll try_dealloc_array %zu %zu %zu", R->off(l.p), l.count, l.size), ok ? "true" : "false", coll_state(*c));
                else
                    emit(fmt("coll try_dealloc_node %zu %zu", R->off(l.p), l.size), ok ? "true" : "false", coll_state(*c));
                ++n_dealloc;
            }
            else
            {
                char*       f = static_cast<char*>(foreign.blocks[g.below(foreign.blocks.size())]) + 16 * g.below(16);
                std::size_t size = pick_size();
                auto        before = coll_state(*c);
                bool        ok = c->try_deallocate_node(f, size);
                if (ok)
                    O->fail("collection.try_deallocate_node accepted memory of another allocator");
                if (coll_state(*c) != before)
                    O->fail("collection.try_deallocate_node changed the state although it returned false");
                ++n_foreign;
                emit(fmt("coll try_dealloc_node %zu %zu", R->off(f), size), ok ? "true" : "false", coll_state(*c));
            }
        }
        else if (k < 81)
        {
            std::size_t size = pick_size();
            emit(fmt("coll pool_capacity_left %zu", size), fmt("num %zu", c->pool_capacity_left(size)), coll_state(*c));
            emit("coll capacity_left", fmt("num %zu", c->capacity_left()), coll_state(*c));
            emit("coll next_capacity", fmt("num %zu", c->next_capacity()), coll_state(*c));
            { // C18: the reported maxima are true upper bounds
                std::size_t mn = Tr::max_node_size(*c), ma = Tr::max_array_size(*c), mal = Tr::max_alignment(*c);
                auto        before = coll_state(*c);
                auto        above = [&](const char* what, auto f) {
                    void*       p = nullptr;
                    std::string r = guarded([&] { p = f(); });
                    if (r.empty())
                        O->fail(fmt("C18 memory_pool_collection: a request above the reported %s succeeded (%p)", what, p));
                    else if (r.find("badh") == std::string::npos)
                        O->fail(fmt("C18/C03 memory_pool_collection: a request above the reported %s ended as `%s`", what, r.c_str()));
                };
                if (mn != c->max_node_size() || ma != c->next_capacity())
                    O->fail("C18 memory_pool_collection: traits maxima differ from the members");
                above("max_node_size", [&] { return Tr::allocate_node(*c, mn + 1, 1); });
                above("max_alignment", [&] { return Tr::allocate_node(*c, 8, mal * 2); });
                if (coll_state(*c) != before)
                    O->fail("C18 memory_pool_collection: a rejected request changed the collection");
                static int above_array_probes = 0;
                if (arrays && ma < (std::size_t(1) << 16) && above_array_probes++ < 2)
                { // (at most twice per trace and only while the figure is small: every success - finding D33 - doubles the blocks)
                  // part of the history (the model sees it): before it rejects the array the collection may already have
                  // reserved the bucket's default capacity
                    std::size_t cnt = ma / 8 + 1;
                    void*       p = nullptr;
                    long        up0 = R->n_alloc;
                    std::string r = guarded([&] { p = Tr::allocate_array(*c, cnt, 8, 1); });
                    if (r.empty())
                    {
                        if (R->n_alloc - up0 >= 2)
                            // recorded finding D33: the size is checked against next_capacity() only after the first of two
                            // block acquisitions of the same call, i.e. against a larger figure than the one reported before
                            findings.push_back(fmt("known-candidate D33 memory_pool_collection::allocate_array(%zu, 8) = %zu bytes succeeded although "
                                                   "max_array_size() was %zu before the call (the call acquired %ld blocks)",
                                                   cnt, cnt * 8, ma, R->n_alloc - up0));
                        else
                            O->fail(fmt("C18 memory_pool_collection: a request above the reported max_array_size succeeded (%p)", p));
                        add_live(p, true, cnt, 8, true, "coll.traits.allocate_array(above max)");
                    }
                    emit(fmt("coll t_alloc_array %zu 8 1", cnt), r.empty() ? fmt("ok %zu", R->off(p)) : r, coll_state(*c));
                }
            }
        }
        else if (k < 84)
        {
            std::size_t size = pick_size(), cap = 16 + g.below(200);
            std::size_t pool0 = c->pool_capacity_left(size);
            std::string res = guarded([&] { c->reserve(size, cap); });
            // C04/C18: reserve() "inserts more memory on the free list for nodes of given size": what it takes from the block
            // must show up as capacity of that bucket (at least the whole nodes that fit into `cap` bytes)
            if (res.empty() && size <= mx)
            {
                std::size_t bns = c->pool_capacity_left(size) >= pool0 ? c->pool_capacity_left(size) - pool0 : 0;
                std::size_t node = PoolType::type::min_element_size > size ? PoolType::type::min_element_size : size; // lower bound of the bucket's node size
                // (pool_capacity_left counts nodes; how many fit depends on the list type's overhead: at least one must appear)
                (void)node;
                if (bns == 0)
                    O->fail(fmt("C04 memory_pool_collection::reserve(%zu, %zu): the bucket's capacity grew by %zu nodes only - the reserved memory "
                                "was taken from the block but not put on the free list",
                                size, cap, bns));
            }
            emit(fmt("coll reserve %zu %zu", size, cap), res.empty() ? "done" : res, coll_state(*c));
        }
        else if (k < 90)
        { // cycle oracle (C04) on one bucket
            std::size_t size = pick_size(), m = 1 + g.below(10);
            long        blocks_after_first = 0;
            for (int rep = 0; rep < 3; ++rep)
            {
                std::vector<void*> got;
                for (std::size_t q = 0; q < m; ++q)
                {
                    void*       p = nullptr;
                    std::string res = guarded([&] { p = c->allocate_node(size); });
                    emit(fmt("coll alloc_node %zu", size), res.empty() ? fmt("ok %zu", R->off(p)) : res, coll_state(*c));
                    if (!res.empty())
                        break;
                    got.push_back(p);
                }
                if (rep == 0)
                    blocks_after_first = R->n_alloc;
                else if (R->n_alloc != blocks_after_first && R->n_fail == 0)
                    O->fail(fmt("repeating a cycle of %zu allocations/releases of size %zu grew the collection (repetition %d)", m, size,
                                rep));
                while (!got.empty())
                {
                    std::size_t q = g.below(got.size());
                    c->deallocate_node(got[q], size);
                    emit(fmt("coll dealloc_node %zu %zu", R->off(got[q]), size), "done", coll_state(*c));
                    got.erase(got.begin() + long(q));
                }
            }
            ++n_cycles;
        }
        else if (k < 94 && older == nullptr && g.chance(45))
        { // a second collection becomes the primary; the older one is move-assigned into it later
            void*       nm = R->place_object(sizeof(Coll), alignof(Coll), g.chance(50));
            Coll*       nc = nullptr;
            std::string res = guarded([&] { nc = ::new (nm) Coll(max_node, block_size, RegionAlloc(*R)); });
            std::string op = fmt("coll new2 %zu %zu kind=%s dist=%s arrays=%d src=%s", max_node, block_size, ListKind<List>::name(), distname,
                                 (int)PoolType::value, SrcDump<typename Coll::allocator_type>::init(block_size).c_str());
            if (nc)
                op += fmt(" array=%zu n=%zu", R->off(nc->pools_.array_), nc->pools_.no_elements_);
            emit(op, res.empty() ? "done" : res, nc ? coll_state(*nc) : "-");
            if (!nc)
                continue;
            emit("coll switch", "done", coll_state(*nc));
            older = c;
            c = nc;
            stash.swap(live);
            assign_in = 4 + long(g.below(30));
        }
        else if (k < 94)
        {
            void* nm = R->place_object(sizeof(Coll), alignof(Coll), g.chance(50));
            Coll* nc = ::new (nm) Coll(std::move(*c));
            for (std::size_t q = 0; q < nc->pools_.no_elements_; ++q)
                if (!cursor_ok(nc->pools_.array_[q]))
                    O->fail(fmt("C12 after move construction of the collection the deallocation cursor of ordered list %zu is not a pair of neighbouring nodes", q));
            emit("coll move", "done", coll_state(*nc));
            long lk0 = Handlers::leak();
            auto a0 = Handlers::leak_amounts().size();
            c->~Coll();
            {
            std::string lr_mf = lk_result(lk0, a0);
            if (lr_mf != "leaks 0")
                O->fail("C15 the moved-from object reported a leak when it was destroyed (`" + lr_mf + "`): moving an allocator moves the count with it");
            emit("coll destroy_moved_from", lr_mf, "-");
        }
            c = nc;
            ++n_moves;
            O->verify_all("after move");
        }
        else
        { // exhaust one bucket through try_allocate_node
            std::size_t size = pick_size();
            for (int q = 0; q < 400; ++q)
            {
                void* p = c->try_allocate_node(size);
                emit(fmt("coll try_alloc_node %zu", size), p ? fmt("ok %zu", R->off(p)) : "null", coll_state(*c));
                if (!p)
                {
                    ++n_null;
                    break;
                }
                add_live(p, false, 1, size, false, "coll.try_allocate_node");
            }
        }
    }
    if (older && O->failures.empty())
        do_assign();
    O->verify_all("before final release");
    while (!live.empty() && O->failures.empty())
        release(g.below(live.size()));
    foreign.release(256);
    long lk0 = Handlers::leak();
    auto a0 = Handlers::leak_amounts().size();
    c->~Coll();
    emit("coll destroy", lk_result(lk0, a0), "-");
}

int main(int argc, char** argv)
{
    if (argc < 4)
        return 2;
    std::string        subject = argv[1];
    unsigned long long seed = std::strtoull(argv[2], nullptr, 10);
    long               nops = std::atol(argv[3]);
    Region             region;
    Oracle             oracle(region);
    R = &region;
    O = &oracle;
    Rng g(seed);
    region.rng = Rng(seed ^ 0x55aa);
    region.policy = int((g.below(3), seed % 3)); // consecutive seeds cycle through the placement policies (ascending adjacent, gaps, descending)
    if (argc > 4)
        region.fail_at = std::atol(argv[4]);
    bad_mode = argc > 5 && std::string(argv[5]) == "bad";
    Handlers::install();
    std::printf("header subject=%s seed=%llu policy=%d fail_at=%ld %s\n", subject.c_str(), seed, region.policy, region.fail_at,
                cfg_string().c_str());
    bool growing = subject.find("growing") != std::string::npos;
    if (subject == "minblock")
    { // C18 grid: a pool created with min_block_size(ns, n) serves n nodes without growing; counters move exactly
        std::size_t ns_max = nops >= 1000 ? 512 : 96, n_max = nops >= 1000 ? 2000 : 700;
        long        cases = 0, bad = 0;
        auto        one = [&](auto pt, const char* name, std::size_t ns, std::size_t n)
        {
            using PT = decltype(pt);
            using Pool = memory_pool<PT, fixed_block_allocator<RegionAlloc>>;
            std::size_t bs = Pool::min_block_size(ns, n);
            Pool        pool(ns, bs, RegionAlloc(region));
            std::size_t cap0 = pool.capacity_left(), got = 0;
            std::size_t step = n > 300 ? 97 : 1; // count through capacity_left for big n, one by one for small n
            if (step == 1)
            {
                std::vector<void*> ps;
                while (void* p = pool.try_allocate_node())
                {
                    ps.push_back(p);
                    ++got;
                    if (pool.capacity_left() != cap0 - got * pool.node_size())
                    {
                        oracle.fail(fmt("minblock %s ns=%zu n=%zu: capacity_left moved by %zu instead of %zu", name, ns, n,
                                        cap0 - pool.capacity_left(), got * pool.node_size()));
                        break;
                    }
                }
                for (auto p : ps)
                    pool.deallocate_node(p);
                if (pool.capacity_left() != cap0)
                    oracle.fail(fmt("minblock %s ns=%zu n=%zu: capacity_left %zu after releasing everything, %zu before", name, ns, n,
                                    pool.capacity_left(), cap0));
            }
            else
                got = cap0 / pool.node_size();
            ++cases;
            if (got < n)
            {
                ++bad;
                oracle.fail(fmt("minblock %s ns=%zu n=%zu: block of min_block_size=%zu serves only %zu nodes", name, ns, n, bs, got));
            }
            region.take_events();
        };
        for (std::size_t ns = 1; ns <= ns_max; ns += (ns < 40 ? 1 : 1 + g.below(9)))
            for (std::size_t n = 1; n <= n_max; n += (n < 20 ? 1 : 1 + g.below(n_max > 1000 ? 13 : 29)))
            {
                one(node_pool{}, "node", ns, n);
                one(array_pool{}, "array", ns, n);
                one(small_node_pool{}, "small", ns, n);
                // the boundary lattice of the small list: multiples of 255
                if (n % 50 == 0)
                    for (std::size_t m : {255u, 256u, 509u, 510u, 511u, 765u, 1020u, 1021u})
                        one(small_node_pool{}, "small", ns, m);
            }
        std::printf("summary ops=%ld ok=%ld null=0 throw=0 grow=0 cases=%ld bad=%ld up_alloc=%ld up_dealloc=%ld up_fail=0 oracle_checks=%ld\n",
                    cases, cases - bad, cases, bad, region.n_alloc, region.n_dealloc, cases);
        for (auto& f : oracle.failures)
            std::printf("oracle-fail %s\n", f.c_str());
        return 0;
    }
    if (subject.rfind("pool-", 0) == 0)
    {
        // consecutive seeds walk through the node sizes; every other one is not a multiple of the pointer size (the node
        // grid is then finer than the alignment of a pointer) - a handful of traces per subject must not depend on luck
        static const std::size_t nss[] = {12, 16, 29, 8, 100, 1, 20, 24, 9, 32, 3, 48, 10, 64};
        std::size_t              ns = nss[seed % 14];
        std::size_t              nodes = 3 + g.below(40);
        auto                     run = [&](auto pt)
        {
            using PT = decltype(pt);
            // exact fit (the last node ends with the block) in half of the traces, a few spare bytes otherwise
            std::size_t slack_sel = g.below(4);
            std::size_t bs = memory_pool<PT>::min_block_size(ns, nodes) + (slack_sel < 2 ? 0 : (slack_sel - 1) * 5);
            if (growing)
                run_pool<PT, growing_block_allocator<RegionAlloc>>(g, nops, ns, bs, "growing");
            else if (subject.find("const") != std::string::npos) // a source whose blocks all have the same size (growth factor 1/1)
                run_pool<PT, growing_block_allocator<RegionAlloc, 1, 1>>(g, nops, ns, bs, "const");
            else
                run_pool<PT, fixed_block_allocator<RegionAlloc>>(g, nops, ns, bs, "fixed");
        };
        if (subject.find("node") != std::string::npos)
            run(node_pool{});
        else if (subject.find("array") != std::string::npos)
            run(array_pool{});
        else
            run(small_node_pool{});
    }
    else if (subject.rfind("coll-", 0) == 0)
    {
        static const std::size_t mxs[] = {4, 8, 16, 29, 32, 50, 64, 100, 128};
        std::size_t              mx = mxs[g.below(9)];
        bool                     log2 = subject.find("log2") != std::string::npos;
        std::size_t              bs = (log2 ? 1200 : 2000 + mx * 70) + g.below(5000);
        auto                     run = [&](auto pt, auto dist)
        {
            using PT = decltype(pt);
            using D = decltype(dist);
            if (growing)
                run_coll<PT, D, growing_block_allocator<RegionAlloc>>(g, nops, mx, bs, log2 ? "log2" : "identity");
            else
                run_coll<PT, D, fixed_block_allocator<RegionAlloc>>(g, nops, mx, bs, log2 ? "log2" : "identity");
        };
        auto with_dist = [&](auto pt)
        {
            if (log2)
                run(pt, log2_buckets{});
            else
                run(pt, identity_buckets{});
        };
        if (subject.find("node") != std::string::npos)
            with_dist(node_pool{});
        else if (subject.find("array") != std::string::npos)
            with_dist(array_pool{});
        else
            with_dist(small_node_pool{});
    }
    else
        return 2;
    region.verify_all_poison();
    for (auto& e : region.errors)
        std::printf("oracle-fail ledger: %s\n", e.c_str());
    if (!region.outstanding.empty())
        std::printf("oracle-fail ledger: %zu upstream block(s) never released (first off=%zu size=%zu)\n",
                    region.outstanding.size(), region.outstanding[0].off, region.outstanding[0].size);
    for (auto& f : findings)
        std::printf("oracle-fail %s\n", f.c_str());
    for (auto& f : oracle.failures)
        std::printf("oracle-fail %s\n", f.c_str());
    std::printf("summary ops=%ld ok=%ld null=%ld throw=%ld grow=%ld arrays=%ld dealloc=%ld foreign=%ld moves=%ld cycles=%ld "
                "bad=%ld bad_reported=%ld bad_stopped=%ld up_alloc=%ld up_dealloc=%ld up_fail=%ld oracle_checks=%ld\n",
                n_ops, n_ok, n_null, n_throw, n_grow, n_arrays, n_dealloc, n_foreign, n_moves, n_cycles, n_bad, n_bad_reported,
                n_bad_stopped, region.n_alloc,
                region.n_dealloc, region.n_fail, oracle.checks);
    return 0;
}
