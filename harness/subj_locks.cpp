// C13: every operation that reaches the wrapped allocator through allocator_storage runs while the mutex is held
// usage: subj_locks <thorough 0|1> <seed>
// lines:  lk <storage> <member> calls=<n> without_lock=<n> overlap=<n>      (n threads hammer every member)
//         lkcfg stateless_no_mutex=<0|1> stateful_given_mutex=<0|1> joint_thread_safe=<0|1>
#include <atomic>
#include <cstdio>
#include <cstdlib>
#include <map>
#include <mutex>
#include <string>
#include <thread>
#include <vector>
#include "proto.hpp"
#include "allocator_storage.hpp"
#include "heap_allocator.hpp"
#include "joint_allocator.hpp"
#include "memory_pool.hpp"
#include "threading.hpp"
#include "aligned_allocator.hpp"
#include "fallback_allocator.hpp"
#include "iteration_allocator.hpp"
#include "malloc_allocator.hpp"
#include "memory_pool_collection.hpp"
#include "memory_stack.hpp"
#include "new_allocator.hpp"
#include "segregator.hpp"
#include "static_allocator.hpp"
#include "tracking.hpp"
#include "virtual_memory.hpp"

using namespace foonathan::memory;
using namespace verif;

static thread_local int held = 0; // how many instrumented mutexes the calling thread holds
struct OwnerMutex
{
    std::mutex m;
    void       lock()
    {
        m.lock();
        ++held;
    }
    bool try_lock()
    {
        if (!m.try_lock())
            return false;
        ++held;
        return true;
    }
    void unlock()
    {
        --held;
        m.unlock();
    }
};

enum Member
{
    M_allocate_node,
    M_allocate_array,
    M_deallocate_node,
    M_deallocate_array,
    M_try_allocate_node,
    M_try_allocate_array,
    M_try_deallocate_node,
    M_try_deallocate_array,
    M_max_node_size,
    M_max_array_size,
    M_max_alignment,
    M_COUNT
};
static const char* member_name[] = {"allocate_node", "allocate_array", "deallocate_node", "deallocate_array", "try_allocate_node",
                                    "try_allocate_array", "try_deallocate_node", "try_deallocate_array", "max_node_size", "max_array_size",
                                    "max_alignment"};
struct Counters
{
    std::atomic<long> calls[M_COUNT], without[M_COUNT], overlap[M_COUNT];
    std::atomic<int>  inside{0};
    Counters()
    {
        for (int i = 0; i < M_COUNT; ++i)
            calls[i] = without[i] = overlap[i] = 0;
    }
};
static Counters* CUR = nullptr;
// shared, deliberately unsynchronised state: the wrapped allocator's own data (ThreadSanitizer sees a race if the lock is missing)
static long unsync_state = 0;

struct Probe
{
    explicit Probe(Member m)
    {
        ++CUR->calls[m];
        if (held == 0)
            ++CUR->without[m];
        if (++CUR->inside > 1)
            ++CUR->overlap[m];
        unsync_state += 1;
    }
    ~Probe()
    {
        --CUR->inside;
    }
};

// the state of a stateful allocator need not live inside the object: `CheckedAllocT<true>` is an EMPTY class that declares
// is_stateful (a handle to shared state) - it needs the mutex exactly like the non-empty one
template <bool Empty>
struct CheckedBase
{
    int dummy = 0;
};
template <>
struct CheckedBase<true>
{
};
template <bool Empty>
struct CheckedAllocT : CheckedBase<Empty>
{
    using is_stateful = std::true_type;
    void* allocate_node(std::size_t size, std::size_t)
    {
        Probe p(M_allocate_node);
        return std::malloc(size);
    }
    void* allocate_array(std::size_t c, std::size_t s, std::size_t)
    {
        Probe p(M_allocate_array);
        return std::malloc(c * s);
    }
    void deallocate_node(void* ptr, std::size_t, std::size_t) noexcept
    {
        Probe p(M_deallocate_node);
        std::free(ptr);
    }
    void deallocate_array(void* ptr, std::size_t, std::size_t, std::size_t) noexcept
    {
        Probe p(M_deallocate_array);
        std::free(ptr);
    }
    void* try_allocate_node(std::size_t size, std::size_t) noexcept
    {
        Probe p(M_try_allocate_node);
        return std::malloc(size);
    }
    void* try_allocate_array(std::size_t c, std::size_t s, std::size_t) noexcept
    {
        Probe p(M_try_allocate_array);
        return std::malloc(c * s);
    }
    bool try_deallocate_node(void* ptr, std::size_t, std::size_t) noexcept
    {
        Probe p(M_try_deallocate_node);
        std::free(ptr);
        return true;
    }
    bool try_deallocate_array(void* ptr, std::size_t, std::size_t, std::size_t) noexcept
    {
        Probe p(M_try_deallocate_array);
        std::free(ptr);
        return true;
    }
    std::size_t max_node_size() const
    {
        Probe p(M_max_node_size);
        return 1 << 20;
    }
    std::size_t max_array_size() const
    {
        Probe p(M_max_array_size);
        return 1 << 20;
    }
    std::size_t max_alignment() const
    {
        Probe p(M_max_alignment);
        return 16;
    }
};

using CheckedAlloc = CheckedAllocT<false>;
using CheckedAllocEmpty = CheckedAllocT<true>;
static_assert(std::is_empty<CheckedAllocEmpty>::value, "archetype must be an empty class");

template <class Storage>
static void hammer(const char* name, Storage& st, int nthreads, long iters, bool use_proxy)
{
    Counters c;
    CUR = &c;
    std::vector<std::thread> ts;
    for (int t = 0; t < nthreads; ++t)
        ts.emplace_back(
            [&, t]
            {
                Rng g(1000 + t);
                for (long i = 0; i < iters; ++i)
                {
                    void* a = st.allocate_node(8 + g.below(64), 8);
                    void* b = st.allocate_array(1 + g.below(4), 8, 8);
                    (void)st.max_node_size();
                    void* d = st.try_allocate_node(16, 8);
                    void* e = st.try_allocate_array(2, 8, 8);
                    (void)st.max_array_size();
                    st.deallocate_node(a, 8, 8);
                    (void)st.max_alignment();
                    st.try_deallocate_node(d, 16, 8);
                    st.deallocate_array(b, 1, 8, 8);
                    st.try_deallocate_array(e, 2, 8, 8);
                    if (use_proxy)
                    { // several operations under one lock() proxy
                        auto  l = st.lock();
                        void* x = l->allocate_node(24, 8);
                        (void)l->max_node_size();
                        l->deallocate_node(x, 24, 8);
                    }
                    if (use_proxy)
                    { // the proxy of a *const* storage (a const reference or member): queries through it hold the mutex too
                        const Storage& cst = st;
                        auto           l = cst.lock();
                        (void)l->max_node_size();
                        (void)l->max_array_size();
                        (void)l->max_alignment();
                    }
                    if (use_proxy && i % 4 == 0)
                    { // a proxy that is moved (handed out of a function, stored in a session object): the moved-from
                      // temporary dies first and must not unlock
                        auto make = [&] {
                            auto l = st.lock();
                            return std::move(l); // forces the move constructor (no elision)
                        };
                        auto  l2 = make();
                        void* x = l2->allocate_node(40, 8);
                        l2->deallocate_node(x, 40, 8);
                    }
                }
            });
    for (auto& t : ts)
        t.join();
    for (int m = 0; m < M_COUNT; ++m)
        std::printf("lk %s %s calls=%ld without_lock=%ld overlap=%ld\n", name, member_name[m], c.calls[m].load(), c.without[m].load(),
                    c.overlap[m].load());
    CUR = nullptr;
}

// trackers for tracked_allocator: one with state, one without
struct CountTracker
{
    long n = 0;
    void on_node_allocation(void*, std::size_t, std::size_t) noexcept { ++n; }
    void on_array_allocation(void*, std::size_t, std::size_t, std::size_t) noexcept { ++n; }
    void on_node_deallocation(void*, std::size_t, std::size_t) noexcept { --n; }
    void on_array_deallocation(void*, std::size_t, std::size_t, std::size_t) noexcept { --n; }
};
struct EmptyTracker
{
    void on_node_allocation(void*, std::size_t, std::size_t) noexcept {}
    void on_array_allocation(void*, std::size_t, std::size_t, std::size_t) noexcept {}
    void on_node_deallocation(void*, std::size_t, std::size_t) noexcept {}
    void on_array_deallocation(void*, std::size_t, std::size_t, std::size_t) noexcept {}
};
// (this file is compiled WITHOUT -fno-access-control: with it, typedefs of privately inherited bases become visible to the traits'
// detection idiom and e.g. a segregator would show the is_stateful of its fallback)
// the selection rule behind thread_safe_allocator: a stateful allocator (allocator_traits<A>::is_stateful) gets the mutex it is
// given, a stateless one gets none - for the library's own allocators and adapters, adapters over stateless allocators included
template <class A>
static bool mutex_rule(const char* name, bool expect_stateful)
{
    bool stateful = allocator_traits<A>::is_stateful::value;
    if (stateful != expect_stateful)
    {
        std::printf("lktype %s stateful=%d EXPECTED %d\n", name, (int)stateful, (int)expect_stateful);
        return false;
    }
    bool gets = std::is_same<detail::mutex_for<A, OwnerMutex>, OwnerMutex>::value;
    bool none = std::is_same<detail::mutex_for<A, OwnerMutex>, no_mutex>::value;
    std::printf("lktype %s stateful=%d mutex=%d none=%d\n", name, (int)stateful, (int)gets, (int)none);
    return stateful ? gets : none;
}
static bool mutex_rules()
{
    bool ok = true;
    ok &= mutex_rule<heap_allocator>("heap_allocator", false);
    ok &= mutex_rule<malloc_allocator>("malloc_allocator", false);
    ok &= mutex_rule<new_allocator>("new_allocator", false);
    ok &= mutex_rule<virtual_memory_allocator>("virtual_memory_allocator", false);
    ok &= mutex_rule<static_allocator>("static_allocator", true);
    ok &= mutex_rule<memory_pool<>>("memory_pool", true);
    ok &= mutex_rule<memory_pool<small_node_pool>>("memory_pool<small>", true);
    ok &= mutex_rule<memory_pool_collection<node_pool, identity_buckets>>("memory_pool_collection", true);
    ok &= mutex_rule<memory_stack<>>("memory_stack", true);
    ok &= mutex_rule<iteration_allocator<2>>("iteration_allocator", true);
    ok &= mutex_rule<tracked_allocator<CountTracker, heap_allocator>>("tracked<stateful tracker, heap>", true);
    ok &= mutex_rule<tracked_allocator<EmptyTracker, heap_allocator>>("tracked<empty tracker, heap>", false);
    ok &= mutex_rule<tracked_allocator<EmptyTracker, CheckedAlloc>>("tracked<empty tracker, stateful>", true);
    ok &= mutex_rule<tracked_allocator<CountTracker, CheckedAlloc>>("tracked<stateful tracker, stateful>", true);
    ok &= mutex_rule<aligned_allocator<heap_allocator>>("aligned<heap>", true);
    ok &= mutex_rule<aligned_allocator<CheckedAlloc>>("aligned<stateful>", true);
    ok &= mutex_rule<fallback_allocator<CheckedAlloc, heap_allocator>>("fallback<stateful, heap>", true);
    ok &= mutex_rule<fallback_allocator<memory_stack<>, heap_allocator>>("fallback<memory_stack, heap>", true);
    ok &= mutex_rule<binary_segregator<threshold_segregatable<CheckedAlloc>, heap_allocator>>("segregator<stateful, heap>", true);
    ok &= mutex_rule<binary_segregator<threshold_segregatable<heap_allocator>, malloc_allocator>>("segregator<heap, malloc>", true);
    return ok;
}

int main(int argc, char** argv)
{
    bool thorough = argc > 1 && std::atoi(argv[1]) != 0;
    long iters = thorough ? 20000 : 3000;
    std::printf("header subject=locks %s\n", cfg_string().c_str());
    std::printf("lkcfg stateless_no_mutex=%d stateful_given_mutex=%d joint_thread_safe=%d\n",
                (int)std::is_same<detail::mutex_for<heap_allocator, std::mutex>, no_mutex>::value,
                (int)(std::is_same<detail::mutex_for<CheckedAlloc, OwnerMutex>, OwnerMutex>::value
                      && std::is_same<detail::mutex_for<CheckedAllocEmpty, OwnerMutex>, OwnerMutex>::value && mutex_rules()),
                (int)is_thread_safe_allocator<joint_allocator>::value);
    for (int n : {2, 4, 8})
    {
        if (!thorough && n == 8)
            continue;
        {
            thread_safe_allocator<CheckedAlloc, OwnerMutex> st{CheckedAlloc{}};
            hammer(fmt("direct/%d", n).c_str(), st, n, iters, true);
        }
        {
            CheckedAlloc                                                 a;
            allocator_storage<reference_storage<CheckedAlloc>, OwnerMutex> st(a);
            hammer(fmt("reference/%d", n).c_str(), st, n, iters, true);
        }
        {
            CheckedAlloc                                                  a;
            allocator_storage<reference_storage<any_allocator>, OwnerMutex> st(a);
            hammer(fmt("any/%d", n).c_str(), st, n, iters, false);
        }
        { // empty class with external state
            thread_safe_allocator<CheckedAllocEmpty, OwnerMutex> st{CheckedAllocEmpty{}};
            hammer(fmt("direct-empty/%d", n).c_str(), st, n, iters, true);
        }
        {
            CheckedAllocEmpty                                                   a;
            allocator_storage<reference_storage<CheckedAllocEmpty>, OwnerMutex> st(a);
            hammer(fmt("reference-empty/%d", n).c_str(), st, n, iters, true);
        }
    }
    // a stateless allocator needs and takes no lock: concurrent use of the real heap_allocator through thread_safe_allocator
    {
        thread_safe_allocator<heap_allocator> st;
        std::vector<std::thread>              ts;
        std::atomic<long>                     done{0};
        for (int t = 0; t < 4; ++t)
            ts.emplace_back(
                [&]
                {
                    for (long i = 0; i < iters; ++i)
                    {
                        void* p = st.allocate_node(32, 8);
                        static_cast<char*>(p)[0] = 1;
                        st.deallocate_node(p, 32, 8);
                        ++done;
                    }
                });
        for (auto& t : ts)
            t.join();
        std::printf("lkstateless heap_allocator threads=4 ops=%ld\n", done.load());
    }
    std::printf("summary ops=%ld ok=0 null=0 throw=0 grow=0 oracle_checks=0 unsync=%ld\n", iters, unsync_state > 0 ? 1L : 0L);
    return 0;
}
