#!/usr/bin/env python3
"""Single entry point of the verification machinery.

    check.py <Cxx> --tier quick|thorough [--replay FILE]

Decision rule (DESIGN.md section 5): exit 0 iff
  (1) the translator regenerates MemVerif/Gen from the current tree without error,
  (2) `lake build` accepts every module the property's theorems depend on (against the regenerated Gen),
  (3) the audit finds no forbidden construct and no axiom outside {propext, Classical.choice, Quot.sound},
  (4) every correspondence trace of the property's subjects matches the model,
  (5) no property oracle fired on the real code, other than listed known findings.
Otherwise the failing-input search result is reported:  VIOLATION property=<id> replay=<path> [no-failing-input-found]
"""
import argparse, fcntl, importlib, json, os, re, subprocess, sys, time, traceback

VERIF = os.path.dirname(os.path.abspath(__file__))
sys.path.insert(0, os.path.join(VERIF, "tools"))
sys.path.insert(0, os.path.join(VERIF, "checks"))
import buildlib, gen  # noqa: E402

LEAN = os.path.join(VERIF, "lean")
ALLOWED_AXIOMS = {"propext", "Classical.choice", "Quot.sound"}
FORBIDDEN = re.compile(r"\bsorry\b|\badmit\b|^\s*axiom\s|native_decide|bv_decide|implemented_by|\bunsafe\s|maxHeartbeats\s+0|\bopaque\b")
TRUSTED_BASE = [
    "Lean 4.33.0 kernel (lake build; thorough tier re-checks the property's modules with leanchecker)",
    "axioms: subset of {propext, Classical.choice, Quot.sound}, audited per theorem on every run with Lean.collectAxioms",
    "translator tools/cxx2lean.py + clang-14 JSON AST (validated each run: generated Lean functions vs compiled C++ on boundary sets)",
    "correspondence harness + Lean driver (differential testing; samples, see coverage)",
    "C++ compiler, libstdc++, OS memory primitives: modelled, not verified",
]


class Ctx:
    def __init__(self, pid, tier, seed):
        self.pid, self.tier, self.seed = pid, tier, seed
        self.t0 = time.time()
        self.violations = []  # dict(replay, what, no_input)
        self.known_hits = []  # (finding id, what)
        self.notes = []
        self.coverage = dict(evaluations=0, distinct_nontrivial=0, traces_validated_against_impl=0,
                             samples=[], subjects={}, rule="")
        self.assumptions = []
        self.thorough = tier == "thorough"
        self.replay_dir = os.path.join(VERIF, "replays", pid)
        self.known = load_known(pid)
        self.gen = None
        self.lean_ok = False
        self.lean_errors = []
        self.audit = {}

    # ---- building
    def lib(self, cfg):
        return buildlib.build(cfg)

    def harness(self, name, cfg, srcs=None, flags=(), sanitize=False):
        srcs = srcs or [os.path.join(VERIF, "harness", name + ".cpp")]
        return buildlib.build_harness(name, cfg, srcs, list(flags), sanitize=sanitize)

    def driver(self, text, timeout=600):
        exe = os.path.join(LEAN, ".lake", "build", "bin", "driver")
        r = subprocess.run([exe], input=text, capture_output=True, text=True, timeout=timeout)
        if r.returncode != 0:
            raise RuntimeError("driver failed: " + r.stderr[-2000:])
        return r.stdout

    # ---- results
    def write_replay(self, name, obj):
        os.makedirs(self.replay_dir, exist_ok=True)
        p = os.path.join(self.replay_dir, "%d-%s.json" % (self.seed, name))
        with open(p, "w") as f:
            json.dump(obj, f, indent=1)
        return p

    def violation(self, name, what, replay_obj, no_input=False, signature=None):
        """report a property violation unless it matches a listed known finding"""
        for k in self.known:
            if k.get("status") == "known" and signature is not None and match_sig(k.get("signature", {}), signature):
                if k["id"] not in [h[0] for h in self.known_hits]:
                    self.known_hits.append((k["id"], k["what"]))
                return False
        replay_obj = dict(replay_obj)
        replay_obj.update(property=self.pid, what=what, seed=self.seed, tier=self.tier, signature=signature)
        p = self.write_replay(name, replay_obj)
        self.violations.append(dict(replay=p, what=what, no_input=no_input))
        return True

    def add_cov(self, subject, evaluations, distinct, traces=0, sample=None, extra=None):
        c = self.coverage
        c["evaluations"] += evaluations
        c["distinct_nontrivial"] += distinct
        c["traces_validated_against_impl"] += traces
        s = c["subjects"].setdefault(subject, dict(evaluations=0, distinct_nontrivial=0, traces=0))
        s["evaluations"] += evaluations
        s["distinct_nontrivial"] += distinct
        s["traces"] += traces
        if extra:
            s.update(extra)
        if sample is not None and len(c["samples"]) < 12:
            c["samples"].append(sample)

    def diff_traces(self, subject, observed, predicted, header=None, max_report=1):
        """line-by-line comparison of harness trace and driver output. returns index of first difference or None"""
        a, b = observed.splitlines(), predicted.splitlines()
        n = min(len(a), len(b))
        for i in range(n):
            if a[i] != b[i]:
                return i, a[i], b[i]
        if len(a) != len(b):
            return n, (a[n] if n < len(a) else "<eof>"), (b[n] if n < len(b) else "<eof>")
        return None


def load_known(pid):
    p = os.path.join(VERIF, "known_findings.json")
    if not os.path.exists(p):
        return []
    return [k for k in json.load(open(p))["findings"] if k["property"] == pid]


def match_sig(pat, sig):
    """every key of the finding's signature must equal (or, for lists, contain) the violation's value"""
    for k, v in pat.items():
        if k not in sig:
            return False
        if isinstance(v, list):
            if sig[k] not in v:
                return False
        elif isinstance(v, dict) and "max" in v:
            if not (isinstance(sig[k], (int, float)) and v.get("min", -10 ** 30) <= sig[k] <= v["max"]):
                return False
        elif sig[k] != v:
            return False
    return True


# ---------------------------------------------------------------- Lean side
def lean_prepare(ctx, spec):
    """regenerate Gen, build the property's modules + driver, audit. Serialised by a file lock."""
    os.makedirs(buildlib.BUILD, exist_ok=True)
    with open(os.path.join(buildlib.BUILD, "lean.lock"), "w") as lk:
        fcntl.flock(lk, fcntl.LOCK_EX)
        t = time.time()
        ctx.gen = gen.generate(tuple(spec.get("gen_cfgs", ("rwdi",))))
        ctx.notes.append("gen %.1fs" % (time.time() - t))
        targets = list(spec["modules"]) + ["driver"]
        t = time.time()
        r = subprocess.run(["lake", "build"] + targets, cwd=LEAN, capture_output=True, text=True)
        ctx.notes.append("lake build %.1fs" % (time.time() - t))
        ctx.lean_ok = r.returncode == 0
        if not ctx.lean_ok:
            ctx.lean_errors = parse_lake_errors(r.stdout + r.stderr)
            # the driver may still be buildable even if a proof broke: try it alone
            r2 = subprocess.run(["lake", "build", "driver"], cwd=LEAN, capture_output=True, text=True)
            ctx.driver_ok = r2.returncode == 0
            if not ctx.driver_ok:
                ctx.lean_errors += parse_lake_errors(r2.stdout + r2.stderr)
        else:
            ctx.driver_ok = True
    return ctx.lean_ok


def parse_lake_errors(out):
    errs = []
    for m in re.finditer(r"error: (\S+?\.lean):(\d+):(\d+): (.*)", out):
        f, line, col, msg = m.group(1), int(m.group(2)), int(m.group(3)), m.group(4)
        decl = enclosing_decl(os.path.join(LEAN, f) if not os.path.isabs(f) else f, line)
        errs.append(dict(file=f, line=line, decl=decl, msg=msg[:300]))
    if not errs and "error" in out:
        errs.append(dict(file="?", line=0, decl="?", msg=out[-600:]))
    return errs


def enclosing_decl(path, line):
    try:
        lines = open(path).read().splitlines()
    except OSError:
        return "?"
    for i in range(min(line, len(lines)) - 1, -1, -1):
        m = re.match(r"\s*(?:private\s+|protected\s+)?(theorem|lemma|def|example|instance|abbrev)\s+([^\s:(\[{]+)?", lines[i])
        if m:
            return "%s %s" % (m.group(1), m.group(2) or "")
    return "?"


def theorems_in(module):
    p = os.path.join(LEAN, module.replace(".", "/") + ".lean")
    txt = open(p).read()
    return re.findall(r"^\s*theorem\s+([^\s:(\[{]+)", txt, re.M)


def audit(ctx, spec):
    """forbidden-construct grep over all project sources + axioms of every theorem in the property's namespace"""
    bad = []
    for path in import_closure(spec["modules"] + ["Driver"]):
        txt = open(path).read()
        txt = re.sub(r"/-.*?-/", lambda m: "\n" * m.group(0).count("\n"), txt, flags=re.S)
        for i, l in enumerate(txt.splitlines()):
            l = l.split("--")[0]
            if FORBIDDEN.search(l):
                bad.append("%s:%d: %s" % (os.path.relpath(path, LEAN), i + 1, l.strip()[:120]))
    ctx.audit["forbidden"] = bad
    thms = {}
    if ctx.lean_ok:
        src = ["import Lean"] + ["import %s" % m for m in spec["modules"]] + ["open Lean Elab Command in",
              "#eval show CommandElabM Unit from do",
              "  let env ← getEnv",
              "  let pfxs : List Name := [%s]" % ", ".join("`" + m for m in spec["modules"]),
              "  let mut names : Array Name := #[]",
              "  for (n, ci) in env.constants.toList do",
              "    if pfxs.any (fun p => p.isPrefixOf n) && !n.isInternal && (match ci with | .thmInfo _ => true | _ => false) then",
              "      names := names.push n",
              "  for n in names.qsort (fun a b => a.toString < b.toString) do",
              "    let axs ← liftCoreM (collectAxioms n)",
              "    logInfo m!\"AUDIT {n} : {axs.toList}\""]
        p = os.path.join(buildlib.BUILD, "audit_%s.lean" % ctx.pid)
        open(p, "w").write("\n".join(src) + "\n")
        r = subprocess.run(["lake", "env", "lean", p], cwd=LEAN, capture_output=True, text=True)
        for m in re.finditer(r"AUDIT (\S+) : \[(.*?)\]", r.stdout):
            axs = [a.strip() for a in m.group(2).split(",") if a.strip()]
            thms[m.group(1)] = axs
        if r.returncode != 0 and not thms:
            ctx.audit["error"] = (r.stdout + r.stderr)[-800:]
    ctx.audit["theorems"] = thms
    ctx.audit["bad_axioms"] = {t: [a for a in axs if a not in ALLOWED_AXIOMS] for t, axs in thms.items()
                               if any(a not in ALLOWED_AXIOMS for a in axs)}
    return ctx.audit


def import_closure(modules):
    """source files of the project that the given modules import, transitively"""
    seen, todo = {}, list(modules)
    while todo:
        m = todo.pop()
        if m in seen:
            continue
        p = os.path.join(LEAN, m.replace(".", "/") + ".lean")
        if not os.path.exists(p):
            continue
        seen[m] = p
        for im in re.findall(r"^import\s+(\S+)", open(p).read(), re.M):
            if im.startswith("MemVerif"):
                todo.append(im)
    return sorted(seen.values())


def leanchecker(ctx, spec):
    res = {}
    for m in spec["modules"]:
        r = subprocess.run(["lake", "env", "leanchecker", m], cwd=LEAN, capture_output=True, text=True)
        res[m] = r.returncode == 0
        if r.returncode != 0:
            res[m + ":out"] = (r.stdout + r.stderr)[-400:]
    ctx.audit["leanchecker"] = res
    return all(v for k, v in res.items() if not k.endswith(":out"))


# ---------------------------------------------------------------- main
def run(pid, tier, seed, replay=None):
    ctx = Ctx(pid, tier, seed)
    mod = importlib.import_module(pid.lower())
    spec = mod.SPEC
    rc = 0
    try:
        lean_prepare(ctx, spec)
        audit(ctx, spec)
        if ctx.thorough and ctx.lean_ok:
            leanchecker(ctx, spec)
        # property specific correspondence + oracles (also the implementation-side failing-input search)
        mod.run(ctx)
        # --- proof side obligations
        declared = [m + "." + t for m in spec["modules"] for t in theorems_in(m)]
        total = len(declared)
        audited = ctx.audit.get("theorems", {})
        discharged = len([t for t in declared if t in audited]) if ctx.lean_ok else 0
        if ctx.lean_ok and discharged != total:
            ctx.notes.append("declared theorems missing from the audit: %s" % [t for t in declared if t not in audited])
        broken = []
        if ctx.gen["errors"]:
            broken.append(dict(kind="translator", detail=ctx.gen["errors"]))
        if not ctx.lean_ok:
            broken.append(dict(kind="proof", detail=ctx.lean_errors))
        if ctx.audit.get("forbidden"):
            broken.append(dict(kind="forbidden-construct", detail=ctx.audit["forbidden"]))
        if ctx.audit.get("bad_axioms"):
            broken.append(dict(kind="axioms", detail=ctx.audit["bad_axioms"]))
        if ctx.audit.get("leanchecker") and not all(v for k, v in ctx.audit["leanchecker"].items() if not k.endswith(":out")):
            broken.append(dict(kind="leanchecker", detail=ctx.audit["leanchecker"]))
        if broken and not ctx.violations:
            # the search (mod.run) found no concrete failing input: still a violation
            names = sorted(set(e.get("decl", "?") for b in broken if b["kind"] == "proof" for e in b["detail"]))
            ctx.violation("broken-obligation", "obligation no longer checks: " + (", ".join(names) or broken[0]["kind"]),
                          dict(broken=broken, note="no concrete failing input was found by the model- and implementation-side search"),
                          no_input=True)
        elif broken:
            for v in ctx.violations:
                pass
            ctx.notes.append("broken obligations: %s" % json.dumps(broken)[:1500])
    except Exception as e:  # machinery error: never a VIOLATION
        traceback.print_exc()
        print("CHECK-ERROR property=%s %s" % (pid, str(e)[:500]))
        write_evidence(ctx, spec, 0, 0, error=str(e)[:2000])
        return 2
    for kid, what in ctx.known_hits:
        print("KNOWN-FINDING: property=%s %s %s" % (pid, kid, what))
    for v in ctx.violations:
        print("VIOLATION property=%s replay=%s%s" % (pid, v["replay"], " no-failing-input-found" if v["no_input"] else ""))
        print("  what: " + v["what"][:400])
        rc = 1
    write_evidence(ctx, spec, total, discharged)
    print("%s %s tier=%s seed=%d obligations=%d discharged=%d traces=%d evaluations=%d wall=%.1fs" % (
        pid, "OK" if rc == 0 else "FAILED", tier, seed, total, discharged, ctx.coverage["traces_validated_against_impl"],
        ctx.coverage["evaluations"], time.time() - ctx.t0))
    return rc


def write_evidence(ctx, spec, total, discharged, error=None):
    os.makedirs(os.path.join(VERIF, "evidence"), exist_ok=True)
    cov = dict(ctx.coverage)
    cov.update(obligations=max(total, 1) if not error else 1, discharged=discharged,
               checker_cmd="cd /verif/lean && lake build %s  (+ lake env lean build/audit_%s.lean; thorough: lake env leanchecker <module>)" % (
                   " ".join(spec["modules"]), ctx.pid),
               trusted_base=TRUSTED_BASE + spec.get("trusted_extra", []),
               theorems=sorted(t for t in ctx.audit.get("theorems", {}).keys() if ".eq_" not in t and "._" not in t),
               axioms_used=sorted(set(a for axs in ctx.audit.get("theorems", {}).values() for a in axs)),
               translator_errors=ctx.gen["errors"] if ctx.gen else None,
               lean_errors=ctx.lean_errors, notes=ctx.notes,
               known_findings_reproduced=[k for k, _ in ctx.known_hits])
    if ctx.audit.get("leanchecker"):
        cov["leanchecker"] = ctx.audit["leanchecker"]
    if cov.get("model_branches"):
        import common as _common
        cov["model_branches"] = dict(sorted(cov["model_branches"].items()))
        cov["model_branches_not_reached"] = _common.branches_not_reached(cov["model_branches"])
    if error:
        cov["error"] = error
    ev = dict(property_id=ctx.pid, tier=ctx.tier, seed=ctx.seed, level="proof", coverage=cov,
              assumptions=spec.get("assumptions", []) + ctx.assumptions, wall_s=round(time.time() - ctx.t0, 2),
              violations=len(ctx.violations))
    with open(os.path.join(VERIF, "evidence", ctx.pid + ".json"), "w") as f:
        json.dump(ev, f, indent=1)


if __name__ == "__main__":
    ap = argparse.ArgumentParser()
    ap.add_argument("pid")
    ap.add_argument("--tier", default=os.environ.get("VERIF_TIER", "quick"))
    ap.add_argument("--replay")
    a = ap.parse_args()
    seed = int(os.environ.get("VERIF_SEED", "1"))
    sys.exit(run(a.pid, a.tier, seed, a.replay))
