"""C02 — returned memory honours size, count and alignment (DESIGN.md #C02)"""
import subjects

SPEC = dict(modules=["MemVerif.Props.C02", "MemVerif.Props.C02Pool", "MemVerif.Props.C02Coll", "MemVerif.Props.C02CollArr"], gen_cfgs=("rwdi",),
            assumptions=["theorems cover the bump-stack family (fixed_memory_stack::allocate = static_allocator, try_allocate of "
                         "memory_stack/iteration_allocator, collection block carving) for every power-of-two alignment and fence size; "
                         "memory_pool over all three lists (Props/C02Pool): every live allocation sits on the node grid of one block / chunk, "
                         "aligned to alignment_for(node_size) given max_alignment-aligned blocks, arrays are n whole consecutive "
                         "cells, for all histories; collections: alignment, size and contiguity checked by the harness "
                         "oracles on sampled histories"])


def run(ctx):
    n = 40 if ctx.thorough else 6
    ops = 300 if ctx.thorough else 120
    st = subjects.run(ctx, "C02", subjects.STATIC + subjects.STACK + ["iter3", "iter3-static"], ["rwdi", "dbg"], n, ops)
    st.update(subjects.run(ctx, "C02", subjects.POOL + subjects.COLL, ["rwdi", "dbg"], max(4, n // 3), 100))
    ctx.coverage["rule"] = ("seeded histories on static_allocator, memory_stack (3 sources), iteration_allocator, memory_pool (3 list types) and "
                            "memory_pool_collection (3 x identity/log2), fences off (rwdi) and 8 (dbg); sizes 0..>block incl. SIZE_MAX-64.., "
                            "alignments 1..4096 on the stack family; oracle on the real code for every returned pointer: non-null, "
                            "address % alignment == 0 (pool nodes: % alignment_for(node size)), [p, p+size*count) inside owned memory, "
                            "disjoint from all live allocations, all bytes written and read back at release; "
                            "distinct_nontrivial = allocation attempts")
    subjects.sample(ctx, st)
