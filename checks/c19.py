"""C19 — size and alignment arithmetic (see DESIGN.md #C19)."""
import subprocess, os, json

SPEC = dict(
    modules=["MemVerif.Props.C19"],
    gen_cfgs=("rwdi",),
    assumptions=["x86-64 sandbox constants (max_alignment=16, min element sizes 8/8/1) read by the probe each run",
                 "log2 bucket theorems assume sizes <= 2^63 (1 << 64 is undefined behaviour in the source)"],
)

M64 = (1 << 64) - 1


def ispow2(a):
    return a != 0 and a & (a - 1) == 0


def oracle(fn, args, res):
    """independent definition-level oracle on the *compiled* function's result. returns None or a reason."""
    if fn == "is_valid_alignment":
        return None if bool(res) == ispow2(args[0]) else "not exactly the powers of two"
    if fn == "round_up":
        x, a = args
        if not ispow2(a):
            return None
        if x + a - 1 <= M64:
            want = (x + a - 1) // a * a
            return None if res == want else "not the least multiple of the alignment >= size (want %d)" % want
        want = ((x + a - 1) & M64) & ~(a - 1) & M64
        return None if res == want else "overflow branch differs from wrapped arithmetic"
    if fn == "align_offset":
        x, a = args
        want = (-x) % a
        return None if res == want else "not the least adjustment (want %d)" % want
    if fn == "is_aligned":
        x, a = args
        return None if bool(res) == (x % a == 0) else "wrong divisibility answer"
    if fn == "alignment_for":
        x = args[0]
        want = 0 if x == 0 else min(x & -x, 16)
        return None if res == want else "not the largest power of two dividing size capped at 16 (want %d)" % want
    if fn == "is_power_of_two":
        x = args[0]
        return None if x == 0 or bool(res) == ispow2(x) else "wrong"
    if fn == "ilog2":
        return None if res == args[0].bit_length() - 1 else "not floor(log2)"
    if fn == "ilog2_base":
        return None if res == args[0].bit_length() else "not floor(log2)+1"
    if fn in ("ilog2_ceil", "log2_index_from_size"):
        x = args[0]
        return None if res == (x - 1).bit_length() else "not ceil(log2)"
    if fn == "log2_size_from_index":
        return None if res == 1 << args[0] else "not 2^i"
    if fn == "bucket_node_size":
        pol, m, s = args
        if res < s:
            return "bucket node smaller than the request"
        if pol == 1 and not res < 2 * s:
            return "log2 bucket not less than twice the request"
        if pol == 0 and s >= m and res != s:
            return "identity bucket not exact"
    return None


def run(ctx):
    exe = ctx.harness("subj_arith", "rwdi", flags=["-fno-access-control"])
    r = subprocess.run([exe, "1" if ctx.thorough else "0", str(ctx.seed)], capture_output=True, text=True)
    if r.returncode != 0:
        ctx.violation("arith-crash", "arithmetic harness crashed (rc %d)" % r.returncode,
                      dict(cmd=[exe], stderr=r.stderr[-2000:]), signature=dict(oracle="crash"))
        return
    obs = r.stdout
    lines = obs.splitlines()
    # (ii) implementation-side oracles: the property itself, on the compiled code
    fails = 0
    distinct = set()
    for ln in lines:
        t = ln.split()
        fn = t[1]
        k = t.index("=>")
        args = [int(x) for x in t[2:k]]
        res = int(t[k + 1])
        distinct.add((fn, tuple(args)))
        why = oracle(fn, args, res)
        if why:
            sig = dict(oracle="arith", fn=fn)
            if fn == "bucket_node_size":
                sig.update(policy=args[0], min_elem=args[1], size=args[2], result_is_min=int(res == args[1]),
                           reason="tight" if res >= args[2] else "fits")
            if ctx.violation("arith-%s-%d" % (fn, fails), "%s%s = %d: %s" % (fn, tuple(args), res, why),
                             dict(subject="arith", line=ln, reason=why), signature=sig):
                fails += 1
                if fails > 5:
                    break
    # (B) translator validation / correspondence: generated Lean definitions vs compiled functions
    if ctx.driver_ok:
        pred = ctx.driver(obs)
        d = ctx.diff_traces("arith", obs, pred)
        if d is not None:
            i, a, b = d
            ctx.violation("arith-tie", "translated definition disagrees with compiled function: impl `%s` model `%s`" % (a, b),
                          dict(subject="arith", line_no=i, impl=a, model=b), no_input=(fails == 0),
                          signature=dict(oracle="tie"))
    byfn = {}
    for fn, _ in distinct:
        byfn[fn] = byfn.get(fn, 0) + 1
    ctx.add_cov("arith", len(lines), len(distinct), traces=1, sample=lines[len(lines) // 3],
                extra=dict(per_function=byfn))
    ctx.coverage["samples"].append(lines[len(lines) // 2])
    ctx.coverage["rule"] = ("boundary classes around every power of two (2^k-2..2^k+2), 0..39, 2^64-40.., seeded randoms of every bit "
                            "length, x 64 alignments; complete domain size<300 (quick) / <4096 (thorough) x alignment<=4096; "
                            "bucket selection on real free_list_arrays of 3 list types x 2 policies; distinct = distinct (function, arguments)")
