"""C08 — composable deallocation recognises exactly its own memory (DESIGN.md #C08)"""
import common, subjects

SPEC = dict(modules=["MemVerif.Props.C08", "MemVerif.Props.C08Coll"], gen_cfgs=("rwdi",),
            assumptions=["live allocations of a sibling allocator lie in the sibling's upstream blocks, which are disjoint from this allocator's "
                         "blocks (EnvOk; the instrumented upstream places blocks directly adjacent so the boundary cases occur)",
                         "memory_stack / iteration_allocator composable traits only test ownership (they release nothing): theorems "
                         "C08_stack_recognises_own / C08_iter_recognises_own / C08_iter_contains_next / C08_iter_foreign, and the stack/iter "
                         "harness probes try_deallocate_node/array with live allocations of every iteration / block and with pointers around "
                         "the block boundaries"])


def run(ctx):
    common.run_sweep(ctx, "C08", "subj_compose", ["rwdi"] + (["dbg", "rel"] if ctx.thorough else []),
                     ["1" if ctx.thorough else "0", ctx.seed], ["cmp"], subject="compose", ignore_known=("D24", "D35"))
    n = 16 if ctx.thorough else 3
    st = subjects.run(ctx, "C08", subjects.POOL + subjects.COLL, ["rwdi", "dbg"], n, 150)
    st.update(subjects.run(ctx, "C08", subjects.STACK + subjects.ITER, ["rwdi", "dbg"], n, 150))
    ctx.coverage["foreign_try_deallocations"] = sum(v.get("foreign", 0) for v in st.values())
    ctx.coverage["rule"] = ("(1) pools and collections (3 list types, identity/log2) on the instrumented upstream with sibling blocks placed directly "
                            "before / after their own blocks: try_deallocate_node/array with own live memory (must return true and release) and with "
                            "pointers into the sibling's blocks (must return false and leave the state dump unchanged), interleaved with ordinary "
                            "traffic, compared with the model; (2) fallback_allocator compositions (plain, nested with a leaf lacking array "
                            "members, over aligned and tracked sub-allocators, inside storages) with the default running full and empty again: "
                            "every release observed at the leaves must reach the leaf that served the allocation with the same call shape; "
                            "(3) memory_stack (3 sources) and iteration_allocator<1..5>: composable try_deallocate_node/array probed with live "
                            "allocations from every block / every iteration (after wrap-around of the iteration counter) - must be true - and "
                            "with the bytes just outside the blocks - must be false; state unchanged; answers compared with the model")
    subjects.sample(ctx, st, 2)
