"""C13 — thread_safe_allocator serialises all access to the wrapped allocator (DESIGN.md #C13)"""
import os, re, subprocess, common

SPEC = dict(modules=["MemVerif.Props.C13"], gen_cfgs=("rwdi",),
            assumptions=["std::mutex / std::lock_guard semantics and the C++ memory model (a critical section protected by one mutex is data-race "
                         "free) are trusted; the theorem is mutual exclusion + 'every access is executed by the mutex owner' for the transition "
                         "system whose member table is regenerated from the AST on every run",
                         "the mutex belongs to the storage object: copies of a reference storage have their own mutex (mutex_storage's copy "
                         "constructor creates a fresh one), so the statement is per storage object",
                         "get_allocator() returns an unsynchronised reference by design (the table records it; the theorem does not cover "
                         "accesses made through it)",
                         "ThreadSanitizer (thorough tier) is supporting evidence for the harness' instrumented allocator, not a proof"])


def run(ctx):
    members = (ctx.gen or {}).get("storage_members", [])
    table = {}
    for m in members:
        if m["reaches"]:
            table[m["name"]] = table.get(m["name"], True) and m["locksFirst"]
    ctx.coverage["table"] = [dict(name=m["name"], reaches=m["reaches"], locksFirst=m["locksFirst"], proxy=m["proxy"]) for m in members
                             if m["reaches"] or m["proxy"] or m["returnsRef"]]
    runs = [("rwdi", False)] + ([("rwdi", "thread"), ("dbg", False)] if ctx.thorough else [])
    for cfg, san in runs:
        exe = ctx.harness("subj_locks", cfg, flags=[], sanitize=san)
        env = dict(os.environ, TSAN_OPTIONS="halt_on_error=0 report_signal_unsafe=0")
        try:
            r = subprocess.run([exe, "1" if ctx.thorough else "0", str(ctx.seed)], capture_output=True, text=True, timeout=1800, env=env)
        except subprocess.TimeoutExpired:
            ctx.violation("C13-timeout", "lock stress harness did not finish (deadlock?)", dict(cmd=exe), signature=dict(oracle="hang"))
            continue
        lines = r.stdout.splitlines()
        tag = cfg + ("-tsan" if san else "")
        calls = bad = 0
        seen = set()
        for l in lines:
            m = re.match(r"lk (\S+) (\S+) calls=(\d+) without_lock=(\d+) overlap=(\d+)", l)
            if not m:
                continue
            st, mem, c, w, o = m.group(1), m.group(2), int(m.group(3)), int(m.group(4)), int(m.group(5))
            calls += c
            seen.add(mem)
            if (w or o) and bad < 3:
                bad += 1
                ctx.violation("C13-%s-%s-%s" % (tag, st.replace("/", "_"), mem),
                              "allocator_storage::%s (%s storage, %s threads) reached the wrapped allocator %d times without the mutex held "
                              "by the caller, %d times while another thread was inside it (of %d calls)" % (mem, st.split("/")[0], st.split("/")[1], w, o, c),
                              dict(subject="locks", cfg=cfg, line=l, replay_cmd="%s %d %d" % (exe, 1 if ctx.thorough else 0, ctx.seed)),
                              signature=dict(oracle="lock", member=mem))
        cfgl = next((l for l in lines if l.startswith("lkcfg")), "")
        if cfgl and ("stateless_no_mutex=1" not in cfgl or "stateful_given_mutex=1" not in cfgl):
            ctx.violation("C13-mutexfor-" + tag, "mutex selection is wrong: " + cfgl, dict(subject="locks", line=cfgl), signature=dict(oracle="mutex_for"))
        if r.returncode != 0 and not bad:
            ctx.violation("C13-crash-" + tag, "lock stress harness died rc=%d: %s" % (r.returncode, r.stderr[-400:]), dict(cmd=exe),
                          signature=dict(oracle="crash"))
        if san == "thread":
            races = len(re.findall(r"WARNING: ThreadSanitizer: data race", r.stderr))
            ctx.coverage["tsan_data_races"] = races
            if races:
                ctx.violation("C13-tsan", "ThreadSanitizer reports %d data race(s) in the wrapped allocator's state under thread_safe_allocator: %s" % (
                    races, r.stderr[:600].replace("\n", " ")), dict(cmd=exe, stderr=r.stderr[:3000]), signature=dict(oracle="tsan"))
        # tie between the generated table and what the harness exercises
        if lines:
            missing = sorted(k for k in table if k not in seen)
            extra = sorted(k for k in seen if k not in table)
            if missing or extra:
                ctx.violation("C13-tie-" + tag, "member table regenerated from the AST and the members driven by the harness differ: "
                              "not driven %s / not in table %s" % (missing, extra), dict(subject="locks", missing=missing, extra=extra),
                              no_input=True, signature=dict(oracle="tie"))
        ctx.add_cov("locks/" + tag, len(lines), calls, traces=1, sample=lines[3] if len(lines) > 3 else None, extra=dict(member_calls=calls))
    ctx.coverage["rule"] = ("member table: every member function body of allocator_storage found in clang's AST, classified (forwards to the traits? "
                            "lock_guard first? returns a reference? lock() proxy?) and proved in Lean to lock first; stress: 2/4 (thorough 8) real "
                            "threads x 3000 (thorough 20000) rounds over all eleven forwarding members and the lock() proxy on direct, reference and "
                            "type-erased storage with an instrumented mutex (per-thread hold count) and an instrumented stateful allocator that "
                            "counts entries made without the mutex held and entries overlapping another thread; mutex selection "
                            "(no mutex for stateless allocators) read from the compiled traits; thorough: the same under ThreadSanitizer")
