"""C17 — fences catch every overflow beside low-level allocations; fill patterns exact (DESIGN.md #C17)"""
import subprocess, subjects, common

SPEC = dict(modules=["MemVerif.Props.C17", "MemVerif.Props.C17Stack"], gen_cfgs=("rwdi",),
            assumptions=["the byte-level model covers debug_fill_new/debug_fill_free/debug_is_filled and the [fence|node|fence] layout of the four "
                         "low-level allocators, and the writes of the bump stacks (memory_stack, iteration_allocator); the pattern claims for pools/collections (new pattern on every returned byte, freed pattern "
                         "except link bytes after a release, neighbours untouched) are oracles on the real code over the C01 histories",
                         "the freed pattern of a low-level node cannot be observed after deallocate_node (the memory is returned to the OS); it is "
                         "proved for the model and observed for pools",
                         "overflow handler used by the harness returns (so both fences can be reported); the default handler aborts at the first call"])


def run(ctx):
    cfgs = ["dbg", "fence16", "rwdi"] + (["rel"] if ctx.thorough else [])
    total = 0
    for cfg in cfgs:
        exe = ctx.harness("subj_lowlevel", cfg, flags=["-fno-access-control"])
        rc, out, err = common.run_harness(exe, ["1" if ctx.thorough else "0", ctx.seed], timeout=1200)
        lines = out.splitlines()
        res = dict(rc=rc, lines=lines, diff=None, oracle=[l for l in lines if l.startswith("oracle-fail")], stderr=err[-1500:], summary={})
        for l in lines:
            if l.startswith("summary"):
                res["summary"] = {t.split("=")[0]: int(t.split("=")[1]) for t in l.split()[1:]}
        if ctx.driver_ok and lines:
            drc, pred, derr = common.run_driver(out, timeout=600)
            p = pred.splitlines()
            for i in range(min(len(lines), len(p))):
                if lines[i] != p[i]:
                    res["diff"] = (i, lines[i], p[i])
                    break
            else:
                if len(lines) != len(p) or drc != 0:
                    res["diff"] = (min(len(lines), len(p)), "<length %d>" % len(lines), "<length %d> %s" % (len(p), derr[-200:]))
        sm = res["summary"]
        ctx.add_cov("lowlevel/" + cfg, len(lines), sm.get("ops", 0), traces=1,
                    sample=next((l for l in lines if "reports " in l and not l.endswith("reports |  | -")), None),
                    extra=dict(cases=sm.get("ops", 0), reported=sm.get("reported", 0), clean=sm.get("clean", 0)))
        total += sm.get("ops", 0)
        if res["oracle"] or rc != 0:
            what = "lowlevel [%s] %s" % (cfg, res["oracle"][0] if res["oracle"] else "harness died rc=%d %s" % (rc, err[-300:]))
            ctx.violation("C17-lowlevel-%s" % cfg, what, dict(subject="lowlevel", cfg=cfg, oracle=res["oracle"][:5],
                          replay_cmd="%s %d %d" % (exe, 1 if ctx.thorough else 0, ctx.seed)), signature=dict(oracle="fence", cfg=cfg))
        elif res["diff"]:
            i, a, b = res["diff"]
            ctx.violation("C17-tie-%s" % cfg, "lowlevel [%s] implementation and model disagree at line %d: impl `%s` / model `%s`" % (cfg, i, a, b),
                          dict(subject="lowlevel", cfg=cfg, diff=res["diff"]), no_input=True, signature=dict(oracle="tie", cfg=cfg))
    # fill patterns of pools / collections / stacks: oracles inside the pool and stack harnesses
    n = 10 if ctx.thorough else 2
    st = subjects.run(ctx, "C17", subjects.POOL + subjects.COLL, ["rwdi", "dbg"], n, 120)
    st.update(subjects.run(ctx, "C17", subjects.STACK + ["iter3", "static"], ["rwdi", "dbg"], n, 120))
    ctx.coverage["lowlevel_cases"] = total
    ctx.coverage["rule"] = ("low-level allocators heap/malloc/new/virtual in dbg (FENCE 8), fence16, rwdi (fence 0): per node size "
                            "(quick: 9 sizes, thorough: 1..64; virtual: 6 sizes around the page size) every byte offset of both fences x "
                            "3 (quick) / 8 (thorough) byte values != 0xFD, plus no write, in-bounds writes over the whole node, multi-writes into "
                            "both fences and rewrites of the pattern itself; recording overflow handler; the harness' own expectation (lowest "
                            "dirty byte of each fence, handler gets the node and its size) and the Lean model's handler-call list are both "
                            "compared per case; new-memory and fence patterns checked after allocation. Pools/collections/stacks: every "
                            "returned byte carries 0xCD, every released pool byte beyond the link bytes carries 0xDD, live neighbours keep "
                            "their content (C01 oracle)")
    subjects.sample(ctx, st, 2)
