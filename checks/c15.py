"""C15 — leak reporting is exact (DESIGN.md #C15)"""
import re
import common, subjects

SPEC = dict(modules=["MemVerif.Props.C15"], gen_cfgs=("rwdi",),
            assumptions=["process-wide report of heap/malloc/new_allocator at exit: checked on the real code in child processes (seeded "
                         "histories through allocator_traits on fresh copies of the stateless allocator; exactly one handler call with the "
                         "exact net incl. the fence bytes the allocator adds, none when balanced); the model of it is the same counter as "
                         "for objects (C15_net_exact), the once-at-exit part (nifty counter over translation units) is runtime behaviour"])


def run(ctx):
    n = 40 if ctx.thorough else 6
    st = subjects.run(ctx, "C15", subjects.STACK, ["rwdi", "dbg", "rel"], n, 150)
    st.update(subjects.run(ctx, "C15", subjects.POOL + subjects.COLL, ["rwdi", "rel"], max(3, n // 2), 120))
    ctx.coverage["rule"] = ("histories mixing member and allocator_traits calls (node and array, element sizes different from the pool's node size) "
                            "with moves; a recording leak handler; compared with the model per destruction: number of handler calls (0 or 1) and the "
                            "exact amount, the per-object counter after every operation (read from the object), moved-from objects report nothing; "
                            "rel (leak checking off) must never call the handler; low-level allocators: child processes, exactly one report with the "
                            "exact process-wide net after main returns, none when balanced")
    # process-wide net of the stateless low-level allocators, reported once after main returns (child processes)
    nexit = 0
    for cfg in ["rwdi", "dbg", "rel"]:
        exe = ctx.harness("subj_lowlevel", cfg, flags=["-fno-access-control"])
        for which in ("heap", "malloc", "new"):
            for sd in range(ctx.seed * 100, ctx.seed * 100 + (24 if ctx.thorough else 6)):
                rc, out, err = common.run_harness(exe, ["exit", which, sd], timeout=60)
                nexit += 1
                m = re.search(r"expect (-?\d+)", out)
                leaks = re.findall(r"LEAK (\S+) (-?\d+)", out.split("expect")[-1]) if "expect" in out else []
                early = re.findall(r"LEAK", out.split("expect")[0]) if "expect" in out else []
                want = int(m.group(1)) if m else None
                leak_on = cfg != "rel"
                ok = rc == 0 and m is not None and not early and (
                    (len(leaks) == 0) if (want == 0 or not leak_on) else (len(leaks) == 1 and int(leaks[0][1]) == want))
                if not ok:
                    ctx.violation("C15-exit-%s-%s-%d" % (cfg, which, sd),
                                  "%s_allocator [%s] history seed %d: net %s bytes unreleased at exit, leak handler calls after main: %s%s (rc=%d)" % (
                                      which, cfg, sd, want, leaks, " and %d before main returned" % len(early) if early else "", rc),
                                  dict(subject="lowlevel-exit", cfg=cfg, replay_cmd="%s exit %s %d" % (exe, which, sd), stdout=out[-400:]),
                                  signature=dict(oracle="exit-net", cfg=cfg, allocator=which))
    ctx.coverage["exit_scenarios"] = nexit
    ctx.coverage["evaluations"] += nexit
    subjects.sample(ctx, st)
