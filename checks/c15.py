"""C15 — leak reporting is exact (DESIGN.md #C15)"""
import subjects

SPEC = dict(modules=["MemVerif.Props.C15"], gen_cfgs=("rwdi",),
            assumptions=["the process-wide report of the stateless low-level allocators at exit is not covered in this round (partial)"])


def run(ctx):
    n = 40 if ctx.thorough else 6
    st = subjects.run(ctx, "C15", subjects.STACK, ["rwdi", "dbg", "rel"], n, 150)
    st.update(subjects.run(ctx, "C15", subjects.POOL + subjects.COLL, ["rwdi", "rel"], max(3, n // 2), 120))
    ctx.coverage["rule"] = ("histories mixing member and allocator_traits calls (node and array, element sizes different from the pool's node size) "
                            "with moves; a recording leak handler; compared with the model per destruction: number of handler calls (0 or 1) and the "
                            "exact amount, the per-object counter after every operation (read from the object), moved-from objects report nothing; "
                            "rel (leak checking off) must never call the handler")
    subjects.sample(ctx, st)
