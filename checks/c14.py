"""C14 — temporary allocations end with their scope; each live thread has its own stack (DESIGN.md #C14)"""
import os, subprocess, common
from concurrent.futures import ThreadPoolExecutor

SPEC = dict(modules=["MemVerif.Props.C14", "MemVerif.Props.C06"], gen_cfgs=("rwdi",),
            assumptions=["sequential consistency of the atomics of the stack list (the code uses the default seq_cst operations); weaker orders and "
                         "the order of thread_local destructors across translation units are runtime facts the model does not exhibit",
                         "the thread-local pointer and `nifty counter` are per thread; main-exit behaviour is observed in child processes (leak "
                         "report of the library's own global leak checker)",
                         "mode 1 (thread_local storage) has no shared list: covered by the scope oracle, a real-thread distinctness test and the "
                         "exit scenarios, not by the transition system",
                         "temporary_allocator scopes: the restore theorem is C06's (same memory_stack template over the temporary block allocator)"])

SCENARIOS = ["workers-only", "main-initializer", "main-only", "main-and-workers"]


def run(ctx):
    nseeds = 120 if ctx.thorough else 24
    for cfg in ["rwdi", "dbg", "tsm1"]:
        exe = ctx.harness("subj_temp", cfg, flags=["-fno-access-control"])
        jobs = []
        for i in range(nseeds):
            seed = ctx.seed * 1000 + i
            if cfg != "tsm1":
                jobs.append(("mt", [seed, 2 + i % 3, 3 + i % 4]))
                if i % 2 == 0:  # thread churn: more threads, longer scripts (stacks released and re-acquired several times)
                    jobs.append(("mt", [seed + 500, 4 + i % 3, 8 + i % 5]))
            elif i < 6:
                jobs.append(("mt", [seed, 2 + i % 3, 1]))
            if i < (12 if ctx.thorough else 4):
                jobs.append(("scope", [seed, 400 if ctx.thorough else 200]))

        def work(j):
            return j, common.one_trace(exe, [j[0]] + j[1], use_driver=(j[0] == "mt" and cfg != "tsm1" and ctx.driver_ok))

        st = dict(traces=0, lines=0, steps=0, stacks=0)
        fails = []
        with ThreadPoolExecutor(8) as ex:
            for j, res in ex.map(work, jobs):
                st["traces"] += 1
                st["lines"] += len(res["lines"])
                st["steps"] += res["summary"].get("ops", 0)
                st["stacks"] += res["summary"].get("stacks", 0)
                if common.failing(res):
                    fails.append((j, res))
        ctx.add_cov("temp/" + cfg, st["lines"], st["steps"], traces=st["traces"],
                    sample=None, extra=st)
        fails.sort(key=lambda f: 0 if (f[1]["oracle"] or f[1]["rc"] != 0) else 1)  # a concrete failing input first
        for j, res in fails[:2]:
            cmd = "%s %s %s" % (exe, j[0], " ".join(map(str, j[1])))
            scripts = [l for l in res["lines"] if l.startswith("tmt scripts")]
            if res["oracle"] or res["rc"] != 0:
                what = "temporary stacks [%s] %s" % (cfg, res["oracle"][0] if res["oracle"] else "harness died rc=%d %s" % (res["rc"], res["stderr"][-300:]))
                ctx.violation("C14-%s-%s-%s" % (cfg, j[0], j[1][0]), what,
                              dict(subject="temp", cfg=cfg, mode=j[0], args=j[1], scripts=scripts, oracle=res["oracle"][:4],
                                   schedule=[l.split("|")[0].strip() for l in res["lines"] if l.startswith("tmt step")], replay_cmd=cmd),
                              signature=dict(oracle="temp", cfg=cfg))
            else:
                i, a, b = res["diff"]
                ctx.violation("C14-tie-%s-%s" % (cfg, j[1][0]),
                              "temporary stack list [%s] implementation and model disagree at line %d: impl `%s` / model `%s` (scripts %s)" % (cfg, i, a[:200], b[:200], scripts),
                              dict(subject="temp", cfg=cfg, diff=res["diff"], scripts=scripts, replay_cmd=cmd), no_input=True,
                              signature=dict(oracle="tie", cfg=cfg))
        # program exit: every stack is destroyed (the library's own leak checker must stay silent)
        for sc in SCENARIOS:
            xrc, xout, xerr = common.run_harness(exe, ["exit", sc], timeout=60)
            ctx.coverage["evaluations"] += 1
            if "leaked" in xerr or xrc != 0:
                ctx.violation("C14-exit-%s-%s" % (cfg, sc),
                              "temporary stacks [%s] scenario %s: at program exit rc=%d, leak report: %s" % (cfg, sc, xrc, xerr.strip()[-300:]),
                              dict(subject="temp-exit", cfg=cfg, scenario=sc, replay_cmd="%s exit %s" % (exe, sc)),
                              signature=dict(oracle="exit-leak", cfg=cfg, scenario=sc))
    ctx.coverage["rule"] = ("mode 2 (rwdi, dbg): 2-4 real threads with seeded scripts of get_temporary_stack / initializer construction / initializer "
                            "destruction (incl. deferred initializers) and implicit thread exit are advanced one scheduling point at a time by a "
                            "controller along a seeded schedule (guarded hooks before the list-head load, every compare-exchange on in_use, the push "
                            "of a new node, the in_use=false store); after every step the in_use flags of all stacks and the stack held by every "
                            "thread are compared with the Lean transition system; oracle on the real code: no two live threads hold the same stack, "
                            "no stack stays in use after all threads finished, and - counted from what the threads hold, not from the library's list - never "
                            "more distinct stacks than the largest number of threads that held or were acquiring one at the same time (reuse); half of the "
                            "traces use 4-6 threads with scripts of 8-12 acts (churn). single thread: random nesting of temporary_allocators with "
                            "allocations, shrink_to_fit flags; the stack top after each destructor must equal the top at construction and enclosing "
                            "scopes keep their content. program exit (child processes): workers-only, initializer in main, main only, main and "
                            "workers - the library's leak checker must report nothing. mode 1 (tsm1): scope oracle, distinctness of the stacks of "
                            "concurrently alive threads, exit scenarios")
