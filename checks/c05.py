"""C05 — every upstream block is returned exactly once, unchanged, in reverse order (DESIGN.md #C05)"""
import subjects, common

SPEC = dict(modules=["MemVerif.Props.C05"], gen_cfgs=("rwdi",),
            assumptions=["theorem is for growing/fixed block sources on a RawAllocator upstream; static/virtual sources emit no upstream events "
                         "(their LIFO pointer checks are exercised by the correspondence in dbg/rwdi)"])


def run(ctx):
    n = 30 if ctx.thorough else 5
    ops = 250 if ctx.thorough else 100
    fails = tuple(range(0, 8)) if ctx.thorough else (1, 2, 4)
    st = subjects.run(ctx, "C05", subjects.STACK + ["iter2", "iter3", "iter3-static"], ["rwdi", "dbg"], n, ops, fail_positions=fails)
    # memory_arena itself (cached and uncached, growing and fixed source): allocate_block / deallocate_block / shrink_to_fit / moves
    st.update(subjects.run(ctx, "C05", subjects.ARENA, ["rwdi", "dbg"], n, 60, fail_positions=fails))
    st.update(subjects.run(ctx, "C05", subjects.POOL + subjects.COLL, ["rwdi", "dbg"], max(2, n // 2), 80, fail_positions=fails))
    # move assignment / construction between arenas, every combination of used and cached blocks on both sides (no model: upstream ledger)
    exs = subjects.exes(ctx, ["rwdi", "dbg"], ["subj_stack"])["subj_stack"]
    st.update(common.run_subjects(ctx, "C05", exs, [dict(subject="arena-assign", cfg=c, seed=ctx.seed, nops=1) for c in ("rwdi", "dbg")], use_driver=False))
    ctx.coverage["rule"] = ("memory_arena driven directly (cached/uncached x growing/fixed: allocate_block, deallocate_block, shrink_to_fit, owns, size/cache_size/capacity/"
                            "next_block_size, move, move assignment, destruction) and every arena client (memory_stack: cached arena; pools, collections: uncached; iteration_allocator: bare block source) "
                            "over growing/fixed/static sources, histories with unwinds, shrink_to_fit, moves, move assignment and destruction, "
                            "upstream failure at call k in %s; the instrumented upstream keeps a ledger: every block released exactly once with "
                            "the address and size it was acquired with, most recently acquired first, nothing outstanding at the end; the upstream "
                            "event list of every operation is compared with the model's" % (list(fails),))
    subjects.sample(ctx, st)
