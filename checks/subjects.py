"""subject families served by the two trace harnesses"""
import common

STACK = ["stack-growing", "stack-fixed", "stack-static"]
ITER = ["iter1", "iter2", "iter3", "iter4", "iter5", "iter3-static"]
STATIC = ["static"]
LIFO = ["lifo-static", "lifo-virtual", "lifo-fixed"]   # block sources driven directly
ARENA = ["arena-%s-%s" % (s, c) for s in ("growing", "fixed") for c in ("cached", "uncached")]   # memory_arena driven directly
POOL = ["pool-%s-%s" % (t, s) for t in ("node", "array", "small") for s in ("growing", "fixed", "const")]   # const: growth factor 1/1
COLL = ["coll-%s-%s-%s" % (t, d, s) for t in ("node", "array", "small") for d in ("identity", "log2") for s in ("growing", "fixed")]

HARNESS = {}
for s in STACK + ITER + STATIC + LIFO + ARENA:
    HARNESS[s] = "subj_stack"
for s in POOL + COLL:
    HARNESS[s] = "subj_pool"

# minimised past failures: these seeds run first in every tier (the history that exposed the defect named)
CORPUS = {
    "coll-small-identity-growing": [3003],   # D31: default capacity below one small-list chunk
    "coll-small-identity-fixed": [3003],
}

FLAGS = {"subj_stack": ["-fno-access-control"], "subj_pool": ["-fno-access-control", "-I/repo/src"]}


def exes(ctx, cfgs, harnesses):
    import buildlib
    flags = dict(FLAGS)
    flags["subj_pool"] = ["-fno-access-control", "-I" + buildlib.repo_dir() + "/src"]
    return {h: {c: ctx.harness(h, c, flags=flags[h]) for c in cfgs} for h in harnesses}


def run(ctx, tag, subjects, cfgs, nseeds, nops, fail_positions=(), classify=None):
    """seeded histories of the given subjects in the given configurations; optional upstream-failure injection at
    each of the given upstream call positions"""
    hs = sorted(set(HARNESS[s] for s in subjects))
    ex = exes(ctx, cfgs, hs)
    stats = {}
    for h in hs:
        jobs = []
        for c in cfgs:
            for s in subjects:
                if HARNESS[s] != h:
                    continue
                for sd in CORPUS.get(s, []):
                    if not (ctx.seed * 1000 <= sd < ctx.seed * 1000 + nseeds):
                        jobs.append(dict(subject=s, cfg=c, seed=sd, nops=nops))
                for i in range(nseeds):
                    jobs.append(dict(subject=s, cfg=c, seed=ctx.seed * 1000 + i, nops=nops))
                for k in fail_positions:
                    for i in range(max(1, nseeds // 4)):
                        jobs.append(dict(subject=s, cfg=c, seed=ctx.seed * 1000 + 500 + i, nops=nops, extra=[k]))
        stats.update(common.run_subjects(ctx, tag, ex[h], jobs, classify=classify))
    return stats


def sample(ctx, stats, n=3):
    for k in list(stats)[:n]:
        ctx.coverage["samples"].append({k: {a: b for a, b in stats[k].items() if isinstance(b, int)}})
