"""C20 — object-creating helpers are exception safe at every constructor failure point (DESIGN.md #C20)"""
import common

SPEC = dict(modules=["MemVerif.Props.C20"], gen_cfgs=("rwdi",),
            assumptions=["event-level model: the C++ rules 'members are destroyed in reverse order of construction when a constructor throws' and "
                         "'a function-try-less constructor propagates the exception' are part of the model (trusted: the compiler)",
                         "allocate_shared's control block layout is libstdc++'s: size/alignment of its single request are taken from the request",
                         "joint_array's initializer_list form: the list's own temporaries belong to the caller, so only the balance oracle "
                         "(every constructed element destroyed once, block released, exception propagated) is applied to it"])


def run(ctx):
    total = common.run_sweep(ctx, "C20", "subj_smart", ["rwdi", "dbg"] + (["rel"] if ctx.thorough else []),
                             ["1" if ctx.thorough else "0", ctx.seed], ["sp "], subject="smartptr")
    ctx.coverage["rule"] = ("exhaustive over the property's domain: allocate_unique<T>, allocate_unique<T[]> for lengths 0..16 (quick: 0..5, 9, 16) "
                            "x a constructor failure at every index and none, allocate_shared, joint_ptr creation with three joint_array members "
                            "in 10 layouts (empty, single, mixed, 16 elements) x every joint_array constructor form (size, size+value, "
                            "initializer list, iterator range, copy via clone_joint, move-with-allocator) x a copy/move/default-constructor "
                            "failure at every element index and none; element types (size,align) (1,1) (8,8) (24,8) (16,16) [+ (3,1) (6,2) (4,4) "
                            "thorough]; instrumented allocator on top of the real heap_allocator; the recorded event log (allocations, "
                            "constructions, destructions, releases, propagation) is compared with the Lean model's and independently checked: "
                            "every constructed element destroyed exactly once, memory released with the parameters it was obtained with, the "
                            "same exception object reaches the caller, the allocator works afterwards")
