"""C06 — unwinding a memory stack restores exactly the state at the marker (DESIGN.md #C06)"""
import subjects

SPEC = dict(modules=["MemVerif.Props.C06"], gen_cfgs=("rwdi",),
            assumptions=["theorems: block source is not static_block_allocator (hsrc) and fewer than 2^64 blocks (hlen); both shown necessary by machine-checked counterexamples",
                         "static source covered by correspondence only"])


def run(ctx):
    st = subjects.run(ctx, "C06", subjects.STACK, ["rwdi", "rel", "dbg"], 60 if ctx.thorough else 10, 400 if ctx.thorough else 150,
                      fail_positions=(1, 2, 3) if ctx.thorough else (2,))
    ctx.coverage["rule"] = ("seeded histories of allocate/try_allocate/top/unwind (nested, across blocks)/shrink_to_fit/move/traits calls on "
                            "memory_stack over growing, fixed and static block sources, fences off (rel, rwdi) and on (dbg), with upstream failures; "
                            "every line compared with the Lean model (result, upstream events, top, block lists, cache, leak counter); "
                            "independent oracles on the real code: after unwind(m) the same requests give the same addresses without an "
                            "upstream call, top()==m, older allocations keep their content; distinct_nontrivial = allocation attempts")
    subjects.sample(ctx, st)
