"""C10 — STL containers on RawAllocators return every node to the allocator it came from (DESIGN.md #C10)"""
import common

SPEC = dict(modules=["MemVerif.Props.C10"], gen_cfgs=("rwdi",),
            assumptions=["libstdc++'s containers are modelled at protocol level (which allocator a container's handle references after each operation, "
                         "per the allocator-aware container requirements with the library's trait values) and by a node layout formula "
                         "(header bytes per container kind); both are validated by the harness against the real containers, not proved against "
                         "libstdc++'s source",
                         "node size table: regenerated from cmake/get_node_size.cpp with this compiler by tools/gen_node_sizes.py (the method of "
                         "get_container_node_sizes.cmake) for every library build",
                         "type-erased any_std_allocator: equality is constantly true (finding D23); the equality theorem is _partial (typed handles)"])


def run(ctx):
    cfgs = ["rwdi"] + (["dbg"] if ctx.thorough else [])
    # the origin theorem is stated for the library's trait values (all propagation traits true): the harness prints what the
    # compiled code says; anything else invalidates the hypothesis of `C10_origin_invariant`
    exe0 = ctx.harness("subj_container", "rwdi", flags=[])
    hdr = common.run_harness(exe0, ["0", ctx.seed], timeout=600)[1].splitlines()[:1]
    if hdr and not all(t in hdr[0] for t in ("pocca=1", "pocma=1", "pocs=1")):
        ctx.notes.append("propagation traits differ from the values the origin theorem assumes: " + hdr[0])
        ctx.coverage["traits_mismatch"] = hdr[0]
    common.run_sweep(ctx, "C10", "subj_container", cfgs, ["1" if ctx.thorough else "0", ctx.seed], ["ns ", "ct ", "cteq "], subject="container")
    # user-specialised propagation_traits (swap travels, move / copy assignment do not): the origin oracle and the protocol model
    # follow whatever propagation_traits<LedgerAlloc> says (the header line carries the values)
    for pv in ("subj_container_pv1", "subj_container_pv2"):
        common.run_sweep(ctx, "C10", pv, ["rwdi"], ["0", ctx.seed], ["ct ", "cteq "], subject="container-" + pv[-3:])
    # an allocator with shared semantics (is_shared_allocator: std_allocator holds a copy of the handle; equal iff same shared state)
    common.run_sweep(ctx, "C10", "subj_container_sh", ["rwdi"], ["0", ctx.seed], ["ct ", "cteq "], subject="container-shared")
    if ctx.thorough:
        # every element size 1..128 x every alignment dividing it (248 types) x 11 containers
        import buildlib
        srcs = [buildlib.os.path.join(buildlib.VERIF, "harness", "subj_container.cpp")]
        try:
            exe = buildlib.build_harness("subj_container_all", "rwdi", srcs, ["-DVERIF_ALL_TYPES=128"])
            rc, out, err = common.run_harness(exe, ["0", ctx.seed], timeout=1200)
            lines = [l for l in out.splitlines() if l.startswith("ns ")]
            oracle = [l for l in out.splitlines() if l.startswith("oracle-fail") and "known-" not in l]
            ctx.add_cov("container-all-types/rwdi", len(lines), len(lines), traces=1, sample=lines[len(lines) // 2] if lines else None)
            if oracle or rc != 0:
                ctx.violation("C10-alltypes", "container node sizes over all element types: %s" % (oracle[0] if oracle else "rc=%d %s" % (rc, err[-300:])),
                              dict(subject="container", oracle=oracle[:5], replay_cmd="%s 0 %d" % (exe, ctx.seed)), signature=dict(oracle="sweep"))
            elif ctx.driver_ok and lines:
                drc, pred, derr = common.run_driver("\n".join(lines) + "\n", timeout=600)
                p = pred.splitlines()
                for i in range(min(len(lines), len(p))):
                    if lines[i] != p[i]:
                        ctx.violation("C10-alltypes-tie", "node request of a real container differs from the layout model: impl `%s` model `%s`" % (lines[i], p[i]),
                                      dict(subject="container", impl=lines[i], model=p[i]), no_input=True, signature=dict(oracle="tie"))
                        break
        except RuntimeError as e:
            ctx.notes.append("all-types harness could not be built: %s" % str(e)[-300:])
    ctx.coverage["rule"] = ("node sizes: forward_list, list, set, multiset, unordered_set/multiset, map, multimap, unordered_map/multimap, "
                            "allocate_shared over an instrumented allocator for element types of 13 sizes (1..128) x every alignment 1..16 dividing "
                            "the size (quick: 40 types; thorough: all 248 types with size 1..128): the largest node request of the real container "
                            "must not exceed X_node_size<T> and equals the layout model's prediction; origin: list, forward_list, set, map, "
                            "unordered_set, unordered_map, vector, deque, string in four slots bound to two allocator objects, 300 (thorough 1500) "
                            "seeded operations each: insert, erase, clear, copy/move construction, copy/move assignment, swap, splice/merge between "
                            "containers whose allocators compare equal; per operation the allocator each slot references is compared with the "
                            "protocol model, contents with std::allocator twins; a ledger checks at every release that the block goes to the "
                            "allocator object that handed it out, with the size/kind/alignment it was obtained with; equality of std_allocators "
                            "(same object / different objects / type-erased); the same with two user-specialised propagation policies "
                            "(swap propagates, move resp. copy assignment does not)")
