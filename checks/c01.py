"""C01 — live allocations never overlap and lie inside memory the allocator owns (DESIGN.md #C01)"""
import subjects

SPEC = dict(modules=["MemVerif.Props.C01", "MemVerif.Props.C01Stack", "MemVerif.Props.C01Ord", "MemVerif.Props.C01Heap", "MemVerif.Props.C01Coll", "MemVerif.Props.C01CollArr", "MemVerif.Props.C07"], gen_cfgs=("rwdi",),
            assumptions=["proved: memory_pool over ALL THREE free lists - unordered, ordered, small node - (all histories incl. arrays, any environment, any configuration; Props/C01Ord: ordered list stays sorted with a valid cursor, find_pos finds every released pointer; small list: chunk ring sorted, cursors valid, chunk search finds every live node, checks never fire for a live node); memory_stack over growing/fixed sources (all histories of allocate/try_allocate/nested marker scopes: C01_stack_live_disjoint_inside); iteration regions (C07). "
                         "collections, memory_stack over static storage, static_allocator: correspondence + overlap/inside/content oracles (partial)",
                         "n * node_size of allocate_array(n) must not wrap (POp.Fits; counterexample C01_pool_allocArray_overflow_cex = finding D21)",
                         "low-level allocators: disjointness of what malloc/mmap return is trusted (EnvOk)",
                         "pointer encoding: the unordered list is also modelled at word level (Model/HeapList: first_ + next words, insert_impl and list_search_array as loops) and proved to refine the sequence model and to write only next words of free nodes (Props/C01Heap); the harness dump - following the real next words from first_ to nullptr - is the representation predicate evaluated on the real memory; xor links of the ordered list and the chunk ring pointers are covered by the dumps only"])


def run(ctx):
    n = 30 if ctx.thorough else 4
    cfgs = ["rwdi", "rel", "dbg"]
    st = subjects.run(ctx, "C01", subjects.POOL + subjects.COLL, cfgs, n, 200 if ctx.thorough else 100)
    st.update(subjects.run(ctx, "C01", subjects.STACK + subjects.ITER + subjects.STATIC, cfgs, n, 150))
    ctx.coverage["rule"] = ("every allocator kind of the property's quantifier that the harnesses drive (3 pools, 6 collections, memory_stack over 3 "
                            "sources, iteration_allocator<1..5>, static_allocator) x rel/rwdi/dbg; seeded histories with moves, unwinds, iteration "
                            "switches; oracle on the real code after every allocation: inside memory obtained upstream / fixed storage, disjoint "
                            "from every live allocation; every live allocation is filled with a pattern that is verified at release, before and "
                            "after every move/unwind/switch and at the end (the allocator never writes into live memory); model correspondence "
                            "of every returned address")
    subjects.sample(ctx, st)
