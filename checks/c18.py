"""C18 — capacity figures are truthful (DESIGN.md #C18)"""
import subjects, common

SPEC = dict(modules=["MemVerif.Props.C18", "MemVerif.Props.C18Counters", "MemVerif.Props.C18Compose"], gen_cfgs=("rwdi",),
            assumptions=["no-overflow side conditions are explicit hypotheses (C18_min_block_wraps shows they are needed)",
                         "counter deltas (capacity_left, pool_capacity_left, next_capacity) per operation are compared with the model on every trace line"])


def run(ctx):
    ex = subjects.exes(ctx, ["rwdi", "dbg"], ["subj_pool"])["subj_pool"]
    jobs = [dict(subject="minblock", cfg=c, seed=ctx.seed, nops=2000 if ctx.thorough else 100) for c in ("rwdi", "dbg")]
    st = common.run_subjects(ctx, "C18", ex, jobs, use_driver=False)
    exs = subjects.exes(ctx, ["rwdi", "dbg"], ["subj_stack"])["subj_stack"]
    st.update(common.run_subjects(ctx, "C18", exs, [dict(subject="minblock", cfg=c, seed=ctx.seed, nops=2000 if ctx.thorough else 100)
                                                     for c in ("rwdi", "dbg")], use_driver=False))
    st.update(subjects.run(ctx, "C18", ["pool-node-fixed", "pool-array-growing", "pool-small-growing", "coll-node-log2-growing", "coll-small-identity-fixed",
                                        "stack-growing", "stack-fixed", "iter2", "iter3", "iter5", "iter3-static"], ["rwdi", "dbg"], 12 if ctx.thorough else 3, 100))
    # reported maxima of compositions (fallback_allocator, wrappers, storages, segregator): `cmp maxima` lines of the compose harness
    # against Model.maxima; D35 (segregator reports its fallback's figure only) is reproduced on library allocators
    common.run_sweep(ctx, "C18", "subj_compose", ["rwdi", "dbg"], ["1" if ctx.thorough else "0", ctx.seed], ["cmp"], subject="compose",
                     ignore_known=("D24",))
    ctx.coverage["rule"] = ("(1) grid on the real pools: node sizes 1..96 (quick) / 1..512 (thorough) x node counts 1..700 / 1..2000 incl. the multiples "
                            "of 255 +-1, x node/array/small pool: a pool constructed with min_block_size(ns,n) on a fixed block serves >= n nodes, "
                            "capacity_left drops by node_size per allocation and returns to its initial value; memory_stack / memory_arena constructed with "
                            "min_block_size(n), n up to 1500 / 6000: capacity_left() == n, n bytes (less the fences) served without growth, the arena block has n usable bytes; (2) counter values after every "
                            "operation of seeded histories compared with the model; the min_block_size formulas themselves are regenerated from the "
                            "source by the translator and validated against the compiled functions in check C19; (3) max_node_size / max_array_size / "
                            "max_alignment that allocator_traits reports for 14 compositions (fallback, aligned, tracked, segregator, storages; leaves "
                            "with distinct figures, with and without array members) compared with Model.maxima")
    subjects.sample(ctx, st)
