"""C12 — moving an allocator transfers all its memory; the moved-from object is harmless (DESIGN.md #C12)"""
import subjects

SPEC = dict(modules=["MemVerif.Props.C12", "MemVerif.Props.C12Pool"], gen_cfgs=("rwdi",),
            assumptions=["sentinel re-linking of the intrusive lists is validated by the state dumps after every move (walks the real links), not proved",
                         "virtual_block_allocator: the reservation is real (mmap); its addresses are compared relative to the first reservation"])


def run(ctx):
    n = 40 if ctx.thorough else 6
    st = subjects.run(ctx, "C12", subjects.STACK + ["iter2", "iter3", "iter5"], ["rwdi", "dbg"], n, 200 if ctx.thorough else 120)
    # block sources moved / move-assigned / swapped while blocks are outstanding (static storage, reserved virtual memory)
    st.update(subjects.run(ctx, "C12", ["lifo-static", "lifo-virtual"] + subjects.ARENA, ["rwdi", "dbg"], n, 60))
    st.update(subjects.run(ctx, "C12", subjects.POOL + subjects.COLL, ["rwdi", "dbg", "rel"] if ctx.thorough else ["rwdi", "dbg"], max(3, n // 2), 120))
    import common
    exs = subjects.exes(ctx, ["rwdi", "dbg"], ["subj_stack"])["subj_stack"]
    st.update(common.run_subjects(ctx, "C12", exs, [dict(subject="arena-assign", cfg=c, seed=ctx.seed, nops=1) for c in ("rwdi", "dbg")], use_driver=False))
    moves = sum(v.get("moves", 0) for v in st.values())
    ctx.coverage["moves_executed"] = moves
    ctx.coverage["rule"] = ("histories with move construction at seeded positions (new object placed below or above the memory blocks), the "
                            "moved-from object destroyed immediately (assertions enabled in dbg), work continued on the new owner, everything "
                            "released through it, final destruction; compared with the model: state after the move (free lists walked through the "
                            "real links, cursors, proxies re-based), upstream events of the moved-from destructor (none), leak reports; oracles: "
                            "live allocations keep their content across the move, ledger balanced at the end")
    subjects.sample(ctx, st)
