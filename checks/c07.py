"""C07 — iteration allocator (DESIGN.md #C07)"""
import common

SPEC = dict(modules=["MemVerif.Props.C07"], gen_cfgs=("rwdi",),
            assumptions=["block lies below 2^62 and N*size does not wrap (IterGeo)", "alignments are powers of two below 2^48"])


def run(ctx):
    cfgs = ["rwdi", "rel", "dbg"]
    exe = {c: ctx.harness("subj_stack", c, flags=["-fno-access-control"]) for c in cfgs}
    nseeds = 120 if ctx.thorough else 14
    nops = 400 if ctx.thorough else 150
    jobs = []
    for c in cfgs:
        for subj in ["iter1", "iter2", "iter3", "iter4", "iter5", "iter3-static"]:
            for s in range(nseeds):
                jobs.append(dict(subject=subj, cfg=c, seed=ctx.seed * 1000 + s, nops=nops))
    st = common.run_subjects(ctx, "C07", exe, jobs)
    ctx.coverage["rule"] = ("seeded histories of allocate/try_allocate/next_iteration/capacity_left/move/move-assign on "
                            "iteration_allocator<1..5> (block sizes with every residue mod N) and <3> over static storage, in rel/rwdi/dbg; "
                            "each line compared with the Lean model (result, upstream events, all N tops); oracles on the real code: "
                            "alignment, inside-owned-memory, pairwise disjointness, content of live allocations unchanged until the "
                            "N-th next_iteration; distinct_nontrivial = allocation attempts (served, null or thrown)")
    for k in list(st)[:2]:
        ctx.coverage["samples"].append({k: st[k]})
