"""C04 — memory returned to a pool is reusable: no capacity is lost (DESIGN.md #C04)"""
import subjects

SPEC = dict(modules=["MemVerif.Props.C04", "MemVerif.Props.C04Lists", "MemVerif.Props.C04Pool", "MemVerif.Props.C04Coll", "MemVerif.Props.C04CollArr"], gen_cfgs=("rwdi",),
            assumptions=["memory_pool over the unordered, the ordered and the small node list: exact accounting for ALL histories (Props/C04Pool: capacity + live "
                         "cells = cells of the blocks in use; nothing lost after everything is released; cycles without growth restore the "
                         "counter exactly) under the C01 environment hypotheses and n*node_size < 2^64",
                         "node-cycle no-growth theorem is for the unordered list; multi-array cycles on the unordered list can grow (documented "
                         "limitation, finding D15) and are excluded from the cycle oracle",
                         "small list: restoration is proved at the level of chunk capacities"])


def classify(job, res):
    return None


def run(ctx):
    n = 40 if ctx.thorough else 5
    st = subjects.run(ctx, "C04", subjects.POOL + subjects.COLL, ["rel", "dbg", "rwdi"] if ctx.thorough else ["rel", "dbg"], n, 200 if ctx.thorough else 120)
    ctx.coverage["cycles_executed"] = sum(v.get("cycles", 0) for v in st.values())
    ctx.coverage["rule"] = ("histories on the three pool types and six collection types in rel (unordered node list) and dbg (ordered node list): "
                            "interleaved node/array allocations and releases in LIFO/FIFO/random order, element sizes that do not divide the node "
                            "size; free lists dumped through the real links after every operation and compared with the model (order, capacity, "
                            "cursors, chunk chains); oracles on the real code: allocate_node never calls the block source while the matching list "
                            "holds a node; a cycle repeated three times never grows the pool; after releasing everything the number of free nodes "
                            "equals the number of nodes of all owned blocks")
    subjects.sample(ctx, st)
