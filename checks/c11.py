"""C11 — joint allocations stay inside the object's single block and it is freed whole (DESIGN.md #C11)"""
import common

SPEC = dict(modules=["MemVerif.Props.C11", "MemVerif.Props.C02"], gen_cfgs=("rwdi",),
            assumptions=["upstream nodes are 16-aligned (checked by the harness), so member offsets do not depend on the block address for element "
                         "alignments <= 16",
                         "containers with joint_allocator inside a joint object use joint_allocator::allocate_node/deallocate_node: covered by the "
                         "model's JOp histories (theorems) and by `jh` histories on the real joint_allocator (releases in any order, vector-like "
                         "regrowth: new buffer first, old buffer released afterwards)",
                         "clone_joint produces an independent object: the clone's block is a fresh upstream block (disjointness of upstream "
                         "blocks is the environment assumption EnvOk)"])


def run(ctx):
    total = common.run_sweep(ctx, "C11", "subj_smart", ["rwdi", "dbg"] + (["rel"] if ctx.thorough else []),
                             ["1" if ctx.thorough else "0", ctx.seed], ["jt ", "jh "], subject="joint")
    ctx.coverage["rule"] = ("joint objects with three joint_array members: 10 member layouts x element types (size,align) (1,1) (8,8) (24,8) (16,16) "
                            "[+3 thorough] x sized and iterator-range construction x additional sizes: generous, exact fit, one byte short, one "
                            "element short, zero, seeded; observed on the real code: offset of every member array in the block, stack top, "
                            "capacity left, the size/alignment of the single upstream release, out_of_fixed_memory for what does not fit; "
                            "compared with the Lean model; independent oracle: arrays aligned, inside the joint memory, in order without overlap, "
                            "object at the start of its one upstream block, reset() = exactly one release of sizeof(T)+additional_size with "
                            "alignof(T), clone lives in its own block of sizeof(T)+capacity_used and is released with that size, swap/move of "
                            "joint_ptrs keep each block with its size; `jh`: seeded histories of joint_allocator::allocate_node / deallocate_node "
                            "(any release order, regrowth pattern) - every returned offset and the final top compared with the model, and on the "
                            "real code: inside the joint memory, aligned, no overlap with nodes the user still holds, their bytes untouched")
