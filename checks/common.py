"""shared runner for trace subjects: harness (real code) -> trace ; Lean driver (model) -> predicted trace ; diff + oracles"""
import os, re, subprocess, json
from concurrent.futures import ThreadPoolExecutor

VERIF = os.path.dirname(os.path.dirname(os.path.abspath(__file__)))
DRIVER = os.path.join(VERIF, "lean", ".lake", "build", "bin", "driver")


def _cpu_limit(seconds):
    import resource

    def f():
        resource.setrlimit(resource.RLIMIT_CPU, (seconds, seconds + 5))
    return f


def run_harness(exe, args, timeout=60, wall_factor=15):
    """A hang of the code under test is a result (rc -99); a slow machine is not. The limit that decides is therefore CPU
    time (RLIMIT_CPU = `timeout` seconds: a spinning loop burns it, a starved process does not); the wall-clock limit
    (`timeout * wall_factor`) is only the backstop for a process that blocks without using the CPU (deadlock)."""
    try:
        r = subprocess.run([exe] + [str(a) for a in args], capture_output=True, text=True,
                           timeout=min(timeout * wall_factor, max(3600, 2 * timeout)),
                           preexec_fn=_cpu_limit(timeout))
        if r.returncode in (-24, -9) and "verif region exhausted" not in (r.stderr or ""):  # SIGXCPU / SIGKILL at the hard limit
            return -99, r.stdout, "timeout (cpu limit %ds reached)" % timeout
        return r.returncode, r.stdout, r.stderr
    except subprocess.TimeoutExpired as e:
        return -99, (e.stdout or b"").decode() if isinstance(e.stdout, bytes) else (e.stdout or ""), "timeout (wall clock, no cpu use: blocked)"


def run_driver(text, timeout=60):
    try:
        r = subprocess.run([DRIVER], input=text, capture_output=True, text=True, timeout=timeout * 15, preexec_fn=_cpu_limit(timeout))
    except subprocess.TimeoutExpired:
        return -99, "", "driver timeout"
    return r.returncode, r.stdout, r.stderr


def one_trace(exe, args, use_driver=True):
    """returns dict(rc, lines, diff=(i, impl, model)|None, oracle=[...], summary={}, stderr)"""
    rc, out, err = run_harness(exe, args)
    lines = out.splitlines()
    res = dict(rc=rc, lines=lines, diff=None,
               oracle=[l for l in lines if l.startswith("oracle-fail") and not l.startswith("oracle-fail known-candidate ")],
               findings=[l[len("oracle-fail known-candidate "):] for l in lines if l.startswith("oracle-fail known-candidate ")],
               stderr=err[-1500:], summary={})
    for l in lines:
        if l.startswith("summary"):
            for t in l.split()[1:]:
                k, v = t.split("=")
                res["summary"][k] = int(v)
    if use_driver and lines:
        drc, pred, derr = run_driver(out)
        for l in derr.splitlines():
            if l.startswith("coverage "):
                res["branches"] = {}
                for t in l.split()[1:]:
                    k, _, v = t.rpartition("=")
                    res["branches"][k] = res["branches"].get(k, 0) + int(v)
        if drc != 0:
            res["diff"] = (0, "<driver crashed>", derr[-300:])
            return res
        p = pred.splitlines()
        n = min(len(lines), len(p))
        for i in range(n):
            if lines[i] != p[i]:
                res["diff"] = (i, lines[i], p[i])
                break
        else:
            if len(lines) != len(p):
                res["diff"] = (n, lines[n] if n < len(lines) else "<eof>", p[n] if n < len(p) else "<eof>")
    return res


# every label the driver can emit (lean/MemVerif/Drv/Cover.lean); a family counts as exercised when one of its labels was hit
ALL_BRANCHES = (
    # (cursor pairs are adjacent list positions: (B, E) only for the empty list; with ldp = B or ld = E the `front`/`back` tests fire
    # before the cursor / one of the interval tests can - those combinations are structurally unreachable and not listed)
    ["ord.find_pos.%s.cur=%s" % (c, px) for c, pxs in (("front", ("Bn", "nE", "nn")), ("back", ("Bn", "nE", "nn")), ("cursor", ("nn",)),
                                                        ("interval-low", ("nE", "nn")), ("interval-high", ("Bn", "nn"))) for px in pxs]
    + ["ord.find_pos.empty.cur=BE", "ord.alloc_array.node-path", "ord.alloc_array.no-run", "ord.alloc_array.ld-in-run",
       "ord.alloc_array.ldp-is-last", "ord.alloc_array.cursor-outside", "ord.alloc_array.cursor-outside.run-at-front",
       "ord.pop", "ord.pop.head-is-ld", "ord.pop.head-is-ldp",
       "free.push", "free.pop", "free.alloc_array.node-path", "free.alloc_array.no-run", "free.alloc_array.run-at-head",
       "free.alloc_array.run-inside",
       "small.find_chunk.dealloc-cursor", "small.find_chunk.alloc-cursor", "small.find_chunk.search-up", "small.find_chunk.search-down",
       "small.alloc.alloc-cursor", "small.alloc.dealloc-cursor", "small.alloc.search", "list.empty->grow",
       "coll.reserve.carve", "coll.reserve.rest=0+new-block", "coll.reserve.rest-inserted+new-block",
       "coll.reserve.rest-too-small+new-block", "coll.def_capacity-raised", "coll.bad-node-size",
       "stack.alloc.fits", "stack.alloc.fits-exactly", "stack.alloc.grow-from-cache", "stack.alloc.grow-new-block", "stack.try_alloc",
       "stack.unwind.same-block", "stack.unwind.1-block", "stack.unwind.2+blocks", "stack.shrink.empty-cache", "stack.shrink.cached",
       "stack.move", "stack.move_assign", "pool.move", "pool.move_assign", "pool.swap3"])


def branches_not_reached(hit):
    fams = set(k.replace("array:", "").split(".")[0] for k in hit)
    norm = set(k.replace("array:", "") for k in hit)
    return sorted(b for b in ALL_BRANCHES if b.split(".")[0] in fams and b not in norm)


HARNESS_LIMIT = 77  # the instrumented region ran out of space: the run says nothing about the library


def finding_properties(kid):
    """properties under which known_findings.json lists the finding `kid` (any status)"""
    import json
    p = os.path.join(os.path.dirname(os.path.dirname(os.path.abspath(__file__))), "known_findings.json")
    try:
        return set(k["property"] for k in json.load(open(p))["findings"] if k.get("id") == kid)
    except Exception:
        return set()


def failing(res):
    if res["rc"] == HARNESS_LIMIT:
        return False
    return res["rc"] != 0 or res["diff"] is not None or bool(res["oracle"])


def prop_failing(res):
    """the property itself fails on the real code (oracle fired / the code crashed), not merely the tie"""
    if res["rc"] == HARNESS_LIMIT:
        return False
    return res["rc"] != 0 or bool(res["oracle"])


def shrink_prefix(exe, mkargs, nops, use_driver=True, pred=failing):
    """smallest number of operations (prefix of the same seeded history) that still fails"""
    lo, hi = 0, nops
    best = one_trace(exe, mkargs(nops), use_driver)
    while lo + 1 < hi:
        mid = (lo + hi) // 2
        r = one_trace(exe, mkargs(mid), use_driver)
        if pred(r):
            hi, best = mid, r
        else:
            lo = mid
    return hi, best


def run_subjects(ctx, pid_tag, exe_by_cfg, jobs, classify=None, use_driver=True, search_extra=150):
    """jobs: list of dict(subject, cfg, seed, nops, extra=[...]).  Reports violations through ctx.
    classify(job, res) -> signature dict lets a property map failures to known findings.
    Property-level failures (oracle on the real code fired / crash) are reported with their shrunk input.
    If only the model/implementation correspondence broke, more and longer seeded histories of the same subject are
    searched (driver off) for an input on which the property itself fails; if none is found the broken tie is
    reported with no-failing-input-found."""
    use_driver = use_driver and ctx.driver_ok

    def work(j, drv=True):
        exe = exe_by_cfg[j["cfg"]]
        args = [j["subject"], j["seed"], j["nops"]] + list(j.get("extra", []))
        return j, one_trace(exe, args, use_driver and drv)

    stats = {}
    fails = []
    with ThreadPoolExecutor(12) as ex:
        for j, res in ex.map(work, jobs):
            key = "%s/%s" % (j["subject"], j["cfg"])
            st = stats.setdefault(key, dict(traces=0, lines=0, ops=0, ok=0, null=0, throws=0, grow=0, up_fail=0, oracle_checks=0))
            st["traces"] += 1
            st["lines"] += len(res["lines"])
            for k_, s_ in (("ops", "ops"), ("ok", "ok"), ("null", "null"), ("throws", "throw"), ("grow", "grow"),
                           ("up_fail", "up_fail"), ("oracle_checks", "oracle_checks")):
                st[k_] += res["summary"].get(s_, 0)
            for k_, v_ in res["summary"].items():
                if k_ not in ("ops", "ok", "null", "throw", "grow", "up_fail", "oracle_checks"):
                    st[k_] = st.get(k_, 0) + v_
            br = ctx.coverage.setdefault("model_branches", {})
            for k_, v_ in res.get("branches", {}).items():
                if k_.startswith("coll.bucket="):
                    k_ = "coll.bucket=*"
                br[k_] = br.get(k_, 0) + v_
            if failing(res):
                fails.append((j, res))
            for f in res.get("findings", []):
                # an occurrence of a recorded finding, recognised by the harness from its specific mechanism: KNOWN-FINDING if
                # known_findings.json lists it for this property, a violation otherwise
                kid = f.split()[0]
                props = finding_properties(kid)
                if props and ctx.pid not in props:
                    continue  # a recorded finding of another property (it is reported there)
                seen = ctx.coverage.setdefault("finding_occurrences", {})
                seen[kid] = seen.get(kid, 0) + 1
                if seen[kid] == 1:
                    exe = exe_by_cfg[j["cfg"]]
                    ctx.violation("%s-%s-%s-%s-%s" % (pid_tag, kid, j["subject"], j["cfg"], j["seed"]),
                                  "%s [%s] %s" % (j["subject"], j["cfg"], f),
                                  dict(subject=j["subject"], cfg=j["cfg"], seed=j["seed"], nops=j["nops"], finding=f,
                                       replay_cmd="%s %s %s %d %s" % (exe, j["subject"], j["seed"], j["nops"], " ".join(map(str, j.get("extra", []))))),
                                  signature=dict(oracle="finding", known=kid))
    for key, st in stats.items():
        ctx.add_cov(key, st["lines"], st["ok"] + st["null"] + st["throws"], traces=st["traces"], extra=st)
    if not fails:
        return stats

    def report(j, res, pred, no_input):
        exe = exe_by_cfg[j["cfg"]]
        mk = lambda n, j=j: [j["subject"], j["seed"], n] + list(j.get("extra", []))
        n, small = shrink_prefix(exe, mk, j["nops"], use_driver, pred)
        if not pred(small):
            small, n = res, j["nops"]
        if small["oracle"]:
            what = "%s [%s] property oracle on the real code: %s" % (j["subject"], j["cfg"], small["oracle"][0])
            kind = "oracle"
        elif small["rc"] != 0:
            what = "%s [%s] real code died rc=%d: %s" % (j["subject"], j["cfg"], small["rc"], small["stderr"][-300:].replace("\n", " "))
            kind = "crash"
        else:
            i, a, b = small["diff"]
            what = "%s [%s] implementation and model disagree at line %d: impl `%s` / model `%s`" % (j["subject"], j["cfg"], i, a, b)
            kind = "tie"
        sig = dict(oracle=kind, subject=j["subject"], cfg=j["cfg"])
        if classify:
            extra = classify(j, small)
            if extra:
                sig.update(extra)
        rep = dict(subject=j["subject"], cfg=j["cfg"], seed=j["seed"], nops=n, extra=j.get("extra", []),
                   harness=os.path.basename(exe), trace_tail=small["lines"][-12:], oracle=small["oracle"][:5], diff=small["diff"],
                   replay_cmd="%s %s %s %d %s" % (exe, j["subject"], j["seed"], n, " ".join(map(str, j.get("extra", [])))))
        return ctx.violation("%s-%s-%s-%s" % (pid_tag, j["subject"], j["cfg"], j["seed"]), what, rep, no_input=no_input, signature=sig)

    prop = [(j, r) for j, r in fails if prop_failing(r)]
    nviol = 0
    for j, r in prop:
        if nviol >= 2:
            break
        if report(j, r, prop_failing, False):
            nviol += 1
    if prop:
        return stats
    # only the tie broke: search for an input on which the property itself fails
    j0, r0 = fails[0]
    found = None
    extra_jobs = []
    subs = sorted(set((j["subject"], j["cfg"]) for j, _ in fails))
    for (sub, cfg) in subs[:6]:
        for s in range(search_extra // max(1, len(subs[:6]))):
            extra_jobs.append(dict(subject=sub, cfg=cfg, seed=7777000 + ctx.seed * 1000 + s, nops=3 * j0["nops"], extra=j0.get("extra", [])))
    with ThreadPoolExecutor(12) as ex:
        for j, res in ex.map(lambda j: work(j, False), extra_jobs):
            if prop_failing(res) and found is None:
                found = (j, res)
    ctx.notes.append("tie broken on %d trace(s); searched %d extra histories for a failing input: %s" % (
        len(fails), len(extra_jobs), "found" if found else "none"))
    if found:
        report(found[0], found[1], prop_failing, False)
    else:
        report(j0, r0, failing, True)
    return stats


def run_sweep(ctx, tag, harness, cfgs, args, prefixes, flags=(), timeout=1200, subject=None, ignore_known=()):
    """deterministic sweep harnesses (one run per configuration): the lines starting with one of `prefixes` are compared with the
    driver's output; `oracle-fail` lines and crashes are property failures with the harness command as the replay"""
    total = {}
    for cfg in cfgs:
        exe = ctx.harness(harness, cfg, flags=list(flags))
        rc, out, err = run_harness(exe, args, timeout=timeout, wall_factor=3)
        lines = out.splitlines()
        keep = [l for l in lines if l.startswith("header") or any(l.startswith(p) for p in prefixes)]
        oracle = [l for l in lines if l.startswith("oracle-fail")]
        summary = {}
        for l in lines:
            if l.startswith("summary"):
                for t in l.split()[1:]:
                    k, v = t.split("=")
                    summary[k] = int(v)
        diff = None
        if ctx.driver_ok and keep:
            drc, pred, derr = run_driver("\n".join(keep) + "\n", timeout=600)
            p = pred.splitlines()
            for i in range(min(len(keep), len(p))):
                if keep[i] != p[i]:
                    diff = (i, keep[i], p[i])
                    break
            else:
                if len(keep) != len(p) or drc != 0:
                    diff = (min(len(keep), len(p)), "<%d lines>" % len(keep), "<%d lines> %s" % (len(p), derr[-200:]))
        name = "%s/%s" % (subject or harness, cfg)
        ncase = len(keep) - 1
        ctx.add_cov(name, len(keep), ncase, traces=1, sample=keep[len(keep) // 2] if len(keep) > 1 else None,
                    extra=dict(cases=ncase, **{k: v for k, v in summary.items() if k in ("throw", "joint", "reported", "clean")}))
        total[cfg] = ncase
        cmd = "%s %s" % (exe, " ".join(map(str, args)))
        # findings listed in known_findings.json carry a `known-<id>` tag in the harness output
        import re as _re
        known = [l for l in oracle if _re.search(r"known-(D\d+)", l)]
        oracle = [l for l in oracle if l not in known]
        for l in known:
            kid = _re.search(r"known-(D\d+)", l).group(1)
            if kid in ignore_known:  # a recorded finding of another property that the same harness reproduces
                continue
            ctx.violation("%s-%s-%s-%s" % (tag, harness, cfg, kid), "%s [%s] %s" % (harness, cfg, l),
                          dict(subject=harness, cfg=cfg, oracle=[l], replay_cmd=cmd), signature=dict(oracle="sweep", known=kid))
        if oracle or rc != 0:
            what = "%s [%s] %s" % (harness, cfg, oracle[0] if oracle else "harness died rc=%d %s" % (rc, err[-300:].replace("\n", " ")))
            ctx.violation("%s-%s-%s" % (tag, harness, cfg), what, dict(subject=harness, cfg=cfg, oracle=oracle[:6], replay_cmd=cmd),
                          signature=dict(oracle="sweep", subject=harness, cfg=cfg))
        elif diff:
            i, a, b = diff
            ctx.violation("%s-tie-%s-%s" % (tag, harness, cfg),
                          "%s [%s] implementation and model disagree at line %d: impl `%s` / model `%s`" % (harness, cfg, i, a[:300], b[:300]),
                          dict(subject=harness, cfg=cfg, diff=diff, replay_cmd=cmd), no_input=True, signature=dict(oracle="tie", cfg=cfg))
    return total
