"""C09 — adapters forward every request faithfully and release with matching parameters (DESIGN.md #C09)"""
import common

SPEC = dict(modules=["MemVerif.Props.C09"], gen_cfgs=("rwdi",),
            assumptions=["count * size of an array request does not wrap (Req.NoOverflow); the wrapped case is finding D21",
                         "memory_resource_adapter: release matches under constant max_node_size() of the wrapped allocator (finding D24 otherwise)",
                         "template dispatch of allocator_traits (member function or fallback) is modelled by the leaf's `hasArray` flag; the C++ "
                         "overload resolution itself is the compiler's (the harness instantiates both kinds of leaf)",
                         "thread_safe_allocator/direct/reference storage forward unchanged (`storage` node); locking is C13"])


def run(ctx):
    common.run_sweep(ctx, "C09", "subj_compose", ["rwdi", "dbg"] + (["rel"] if ctx.thorough else []),
                     ["1" if ctx.thorough else "0", ctx.seed], ["cmp"], subject="compose", ignore_known=("D35",))
    ctx.coverage["rule"] = ("14 compositions up to depth 3 over instrumented leaf allocators (with and without array members) in adjacent memory: "
                            "fallback (plain, nested, over aligned/tracked), aligned, tracked (inside and outside a fallback), binary and 3-way "
                            "segregator, direct/reference/type-erased/mutex storage; seeded histories (150 quick / 600 thorough operations each) of "
                            "node and array requests (count 1 arrays, sizes 1..1000 on both sides of the thresholds, alignments 1..16) through "
                            "the throwing and the composable interface with the default running full and empty again; front ends: std_allocator "
                            "for 6 value types from 1 byte to 70000 bytes x n in {0,1,2,5}, allocate_unique / allocate_unique<T[]> / "
                            "unique_base_ptr to a 70 KiB derived type, memory_resource_adapter around max_node_size; every leaf call (leaf, "
                            "kind, count, size, alignment, served?) and tracker event compared with the Lean model; independent oracle in the "
                            "harness: one served leaf request per allocation, at least the bytes/alignment requested, release reaches the serving "
                            "leaf exactly once with the shape it was served with")
