"""C16 — invalid releases that the debug checks cover are reported, valid ones never are (DESIGN.md #C16)"""
import subjects, common

SPEC = dict(modules=["MemVerif.Props.C16"], gen_cfgs=("rwdi",),
            assumptions=["intrusive node/array lists have no foreign-pointer check (none is claimed by the property); their double-free check exists "
                         "only with FOONATHAN_MEMORY_DEBUG_DOUBLE_DEALLOC_CHECK (dbg, dbgna)",
                         "small list: soundness, termination AND completeness of the chunk search are proved (ring sorted by address with disjoint "
                         "extents, cursors anywhere); the ring invariant is proved to be kept by releases; that `insert` keeps it is validated by "
                         "the state dumps (sampling)",
                         "virtual_block_allocator is modelled by the static source model (same check on cur_)"])

LIFO = ["lifo-static", "lifo-virtual", "lifo-fixed"]
for s in LIFO:
    subjects.HARNESS[s] = "subj_stack"


def run(ctx):
    n = 24 if ctx.thorough else 4
    cfgs = ["rwdi", "dbg", "dbgna"]
    ex = subjects.exes(ctx, cfgs, ["subj_pool", "subj_stack"])
    jobs_pool, jobs_stack = [], []
    for c in cfgs:
        for i in range(n):
            seed = ctx.seed * 1000 + i
            for s in subjects.POOL:
                jobs_pool.append(dict(subject=s, cfg=c, seed=seed, nops=60 + 20 * (i % 4), extra=[-1, "bad"]))
            for s in subjects.STACK:
                jobs_stack.append(dict(subject=s, cfg=c, seed=seed, nops=80, extra=[-1, "bad"]))
            for s in LIFO:
                jobs_stack.append(dict(subject=s, cfg=c, seed=seed, nops=60, extra=[-1, "bad"]))
    st = common.run_subjects(ctx, "C16", ex["subj_pool"], jobs_pool)
    st.update(common.run_subjects(ctx, "C16", ex["subj_stack"], jobs_stack))
    bad = sum(v.get("bad", 0) for v in st.values())
    ctx.coverage["bad_calls_executed"] = bad
    ctx.coverage["bad_calls_reported_by_handler"] = sum(v.get("bad_reported", 0) for v in st.values())
    ctx.coverage["bad_calls_stopped_by_abort"] = sum(v.get("bad_stopped", 0) for v in st.values())
    ctx.coverage["valid_releases_executed"] = sum(v.get("dealloc", 0) + v.get("unwind", 0) for v in st.values())
    if bad == 0:
        ctx.notes.append("no bad call was executed (harness problem)")
    ctx.coverage["rule"] = ("after a seeded valid history on the real allocator each bad call runs in a forked child with an invalid-pointer "
                            "handler that compares the allocator's state dump with the one taken before the call: double release of the first / "
                            "last / middle / seeded / most recently freed node (ordered and small lists, double-free checking on); small pools: "
                            "pointer in a sibling allocator's block, below and above all memory, in a chunk header, past the node area, between "
                            "node boundaries (first, last, seeded), inside a live node; memory_stack: marker one above the top, seeded above, at "
                            "the block end, of a later block; static/virtual/fixed block sources: any block but the most recent one, a second "
                            "return. Outcome classes reported / stopped(abort) / missed / hang / crash are compared with the Lean model's "
                            "prediction; the oracle requires reported-before-change or stopped. The valid part of every history runs with the "
                            "library's default (aborting) handler, so a false report kills the run. configurations: rwdi (pointer check), dbg, "
                            "dbgna (= dbg without assertions, so the handler itself is reached)")
    subjects.sample(ctx, st)
