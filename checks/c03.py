"""C03 — allocation failure is always signalled (DESIGN.md #C03)"""
import common, subjects

SPEC = dict(modules=["MemVerif.Props.C03", "MemVerif.Props.C03Coll"], gen_cfgs=("rwdi",),
            assumptions=["count*size of the traits-level array functions is computed in size_t and may wrap (finding D21, outside the proved statements)",
                         "crash/handler outcomes of the model are contract violations; they do not occur on validated traces"])


def run(ctx):
    n = 30 if ctx.thorough else 4
    ops = 250 if ctx.thorough else 100
    fails = tuple(range(0, 8)) if ctx.thorough else (0, 1, 2, 3)
    cfgs = ["rwdi", "rel", "dbg"] if ctx.thorough else ["rwdi", "dbg"]
    st = subjects.run(ctx, "C03", subjects.STATIC + subjects.STACK + ["iter2", "iter3-static"], cfgs, n, ops, fail_positions=fails)
    st.update(subjects.run(ctx, "C03", subjects.POOL + subjects.COLL, cfgs, max(2, n // 2), 80, fail_positions=fails))
    # the low-level allocators themselves: the system refuses the memory (sizes from 2^48 up to the reported maximum and beyond)
    for cfg in (["rwdi", "dbg", "rel"]):
        exe = ctx.harness("subj_lowlevel", cfg, flags=["-fno-access-control"])
        rc, out, err = common.run_harness(exe, ["oom"], timeout=120)
        cases = [l for l in out.splitlines() if l.startswith("oom-case")]
        fails = [l[len("oracle-fail "):] for l in out.splitlines() if l.startswith("oracle-fail")]
        ctx.coverage["evaluations"] += len(cases)
        ctx.add_cov("lowlevel-oom/" + cfg, len(cases), len(cases), traces=1, sample=None, extra=dict(cases=len(cases)))
        if rc != 0 or fails:
            last = cases[-1] if cases else "-"
            what = ("low-level allocators [%s] %s" % (cfg, fails[0])) if fails else \
                   ("low-level allocators [%s] real code died rc=%d after `%s`: %s" % (cfg, rc, last, err.strip()[-200:]))
            ctx.violation("C03-lowlevel-oom-%s" % cfg, what,
                          dict(subject="lowlevel-oom", cfg=cfg, rc=rc, last_case=last, oracle=fails[:6], replay_cmd="%s oom" % exe),
                          signature=dict(oracle="lowlevel-oom", cfg=cfg))
    ctx.coverage["rule"] = ("seeded histories with requests around every maximum (node size, array size, alignment, SIZE_MAX-64.., 2^63), "
                            "exhaustion of fixed sources (static storage, fixed_block_allocator, iteration regions, collection blocks), and an "
                            "upstream failure injected at the k-th upstream call for k in %s; compared with the model per line: exception class, "
                            "which handler ran (exactly one of out-of-memory / bad-size, or none for a propagated upstream exception), state after "
                            "the failure; oracles on the real code: throwing functions never return null, try_ functions never call the block "
                            "source, earlier allocations keep their content, later valid requests still succeed. heap/malloc/new/virtual_memory allocators: node and array requests "
                            "of 2^48 .. max_node_size() bytes and beyond through allocator_traits: never a pointer, never null, an exception of the "
                            "library's two families with exactly its handler called once, and a valid request is served afterwards" % (list(fails),))
    subjects.sample(ctx, st)
