"""C03 — allocation failure is always signalled (DESIGN.md #C03)"""
import subjects

SPEC = dict(modules=["MemVerif.Props.C03", "MemVerif.Props.C03Coll"], gen_cfgs=("rwdi",),
            assumptions=["count*size of the traits-level array functions is computed in size_t and may wrap (finding D21, outside the proved statements)",
                         "crash/handler outcomes of the model are contract violations; they do not occur on validated traces"])


def run(ctx):
    n = 30 if ctx.thorough else 4
    ops = 250 if ctx.thorough else 100
    fails = tuple(range(0, 8)) if ctx.thorough else (0, 1, 2, 3)
    cfgs = ["rwdi", "rel", "dbg"] if ctx.thorough else ["rwdi", "dbg"]
    st = subjects.run(ctx, "C03", subjects.STATIC + subjects.STACK + ["iter2", "iter3-static"], cfgs, n, ops, fail_positions=fails)
    st.update(subjects.run(ctx, "C03", subjects.POOL + subjects.COLL, cfgs, max(2, n // 2), 80, fail_positions=fails))
    ctx.coverage["rule"] = ("seeded histories with requests around every maximum (node size, array size, alignment, SIZE_MAX-64.., 2^63), "
                            "exhaustion of fixed sources (static storage, fixed_block_allocator, iteration regions, collection blocks), and an "
                            "upstream failure injected at the k-th upstream call for k in %s; compared with the model per line: exception class, "
                            "which handler ran (exactly one of out-of-memory / bad-size, or none for a propagated upstream exception), state after "
                            "the failure; oracles on the real code: throwing functions never return null, try_ functions never call the block "
                            "source, earlier allocations keep their content, later valid requests still succeed" % (list(fails),))
    subjects.sample(ctx, st)
