#!/usr/bin/env python3
"""setup_cmd: build the library configurations, regenerate Gen, cold-build the Lean package and the driver, warm the audit,
and pre-build every harness (the checks find them in the cache; a changed source tree rebuilds what it affects)."""
import os, subprocess, sys
HERE = os.path.dirname(os.path.abspath(__file__))
VERIF = os.path.dirname(HERE)
sys.path.insert(0, HERE)
import buildlib, gen
from concurrent.futures import ThreadPoolExecutor
CFGS = ["rel", "rwdi", "dbg", "dbgna", "fence16", "tsm1"]
with ThreadPoolExecutor(3) as ex:
    list(ex.map(buildlib.build, CFGS))
r = gen.generate(("rwdi",))
print("gen:", r["errors"] or "ok")
lean = subprocess.Popen(["lake", "build"], cwd=os.path.join(VERIF, "lean"))
H = os.path.join(VERIF, "harness")
NA = ["-fno-access-control"]
POOL = NA + ["-I" + os.path.join(buildlib.repo_dir(), "src")]
jobs = []
for c in ("rel", "rwdi", "dbg", "dbgna"):
    jobs.append(("subj_pool", c, POOL))
    jobs.append(("subj_stack", c, NA))
for c in ("rwdi", "dbg"):
    jobs += [("subj_smart", c, []), ("subj_compose", c, [])]
for c in ("rwdi", "dbg", "fence16"):
    jobs.append(("subj_lowlevel", c, NA))
for c in ("rwdi", "dbg", "tsm1"):
    jobs.append(("subj_temp", c, NA))
jobs += [("subj_arith", "rwdi", NA), ("subj_locks", "rwdi", []), ("subj_container", "rwdi", [])]


def one(j):
    name, cfg, flags = j
    try:
        buildlib.build_harness(name, cfg, [os.path.join(H, name + ".cpp")], flags)
        return None
    except Exception as e:
        return "%s/%s: %s" % (name, cfg, str(e)[-500:])


with ThreadPoolExecutor(8) as ex:
    errs = [e for e in ex.map(one, jobs) if e]
for e in errs:
    print("harness build problem (left to the check that needs it):", e)
rc = lean.wait()
# warm `import Lean` used by the audit
open(os.path.join(buildlib.BUILD, "warm.lean"), "w").write("import Lean\n")
subprocess.run(["lake", "env", "lean", os.path.join(buildlib.BUILD, "warm.lean")], cwd=os.path.join(VERIF, "lean"))
sys.exit(rc)
