#!/usr/bin/env python3
"""setup_cmd: build the library configurations, regenerate Gen, cold-build the Lean package and the driver, warm the audit."""
import os, subprocess, sys
HERE = os.path.dirname(os.path.abspath(__file__))
VERIF = os.path.dirname(HERE)
sys.path.insert(0, HERE)
import buildlib, gen
from concurrent.futures import ThreadPoolExecutor
with ThreadPoolExecutor(3) as ex:
    list(ex.map(buildlib.build, ["rel", "rwdi", "dbg"]))
r = gen.generate(("rwdi",))
print("gen:", r["errors"] or "ok")
p = subprocess.run(["lake", "build"], cwd=os.path.join(VERIF, "lean"))
# warm `import Lean` used by the audit
open(os.path.join(buildlib.BUILD, "warm.lean"), "w").write("import Lean\n")
subprocess.run(["lake", "env", "lean", os.path.join(buildlib.BUILD, "warm.lean")], cwd=os.path.join(VERIF, "lean"))
sys.exit(p.returncode)
