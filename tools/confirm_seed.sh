#!/bin/bash
# usage: confirm_seed.sh <worktree>   -- confirms a seeded change: tests pass with it, demo fails with it and passes without it
W=$1
cd $W || exit 2
B=$W/_build
log=$W/seed/confirm.log
: > $log
cfgflags="-G Ninja -DCMAKE_BUILD_TYPE=RelWithDebInfo -DFETCHCONTENT_TRY_FIND_PACKAGE_MODE=ALWAYS -DFETCHCONTENT_UPDATES_DISCONNECTED=ON"
git -C $W diff --quiet -- include src && { echo "patch not applied in worktree" >> $log; git -C $W apply seed/patch.diff || exit 3; }
cmake -S $W -B $B $cfgflags >/dev/null 2>&1
cmake --build $B -j8 >/dev/null 2>&1 || { echo "BUILD-FAILED with patch" >> $log; exit 4; }
$B/test/foonathan_memory_test > $W/seed/tests_patched.txt 2>&1; t=$?
echo "tests_with_patch rc=$t $(tail -3 $W/seed/tests_patched.txt | tr '\n' ' ')" >> $log
bash seed/build_demo.sh > seed/demo_patched.txt 2>&1; d1=$?
echo "demo_with_patch rc=$d1" >> $log
git -C $W apply -R seed/patch.diff || { echo "cannot revert" >> $log; exit 5; }
cmake --build $B -j8 >/dev/null 2>&1
bash seed/build_demo.sh > seed/demo_original.txt 2>&1; d0=$?
echo "demo_original rc=$d0" >> $log
git -C $W apply seed/patch.diff
if [ $t -eq 0 ] && [ $d1 -ne 0 ] && [ $d0 -eq 0 ]; then echo CONFIRMED >> $log; else echo NOT-CONFIRMED >> $log; fi
cat $log
