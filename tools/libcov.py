"""line coverage of the library (files under /repo) from a run of the checks with VERIF_BUILD=<dir> VERIF_EXTRA_CXXFLAGS="-O0 --coverage":
   python3 tools/libcov.py   (reads every .gcda under $VERIF_BUILD, prints per-file coverage, writes /tmp/lines.json and /tmp/uncovered_funcs.txt)"""
import subprocess, json, os, sys, glob, collections, gzip
root=os.environ.get('VERIF_BUILD','/tmp/covbuild')
lines=collections.defaultdict(lambda: collections.defaultdict(int))  # file -> line -> count
funcs=collections.defaultdict(lambda: collections.defaultdict(int))  # file -> (name,line) -> count
gcdas=[os.path.join(dp,f) for dp,dn,fn in os.walk(root) for f in fn if f.endswith('.gcda')]
for g in gcdas:
    d=os.path.dirname(g)
    r=subprocess.run(['gcov','-j','-t',os.path.basename(g)],cwd=d,capture_output=True)
    if r.returncode!=0: print('gcov failed',g,r.stderr[-200:]); continue
    for chunk in r.stdout.decode(errors='replace').splitlines():
        chunk=chunk.strip()
        if not chunk.startswith('{'): continue
        try: j=json.loads(chunk)
        except Exception as e: continue
        for f in j.get('files',[]):
            fn=f['file']
            if not fn.startswith('/repo/'): continue
            for l in f['lines']:
                lines[fn][l['line_number']]+=l['count']
            for fu in f.get('functions',[]):
                funcs[fn][(fu['demangled_name'] if 'demangled_name' in fu else fu['name'],fu['start_line'])]+=fu['execution_count']
tot=0;cov=0
rep=[]
for fn in sorted(lines):
    n=len(lines[fn]); c=sum(1 for v in lines[fn].values() if v>0)
    tot+=n;cov+=c
    rep.append((fn,c,n))
for fn,c,n in rep:
    print("%-70s %4d/%4d %5.1f%%"%(fn[6:],c,n,100.0*c/max(n,1)))
print("TOTAL %d/%d %.1f%%"%(cov,tot,100.0*cov/tot))
json.dump({fn:{str(k):v for k,v in d.items()} for fn,d in lines.items()},open('/tmp/lines.json','w'))
with open('/tmp/uncovered_funcs.txt','w') as f:
    for fn in sorted(funcs):
        # merge by start line: uncovered if all instantiations at that line have 0
        byline=collections.defaultdict(lambda:[0,set()])
        for (name,line),cnt in funcs[fn].items():
            byline[line][0]+=cnt; byline[line][1].add(name)
        for line in sorted(byline):
            if byline[line][0]==0:
                f.write("%s:%d %s\n"%(fn[6:],line,sorted(byline[line][1])[0][:160]))
