#!/bin/bash
# run inside a `vp run --with-repo` snapshot:  tools/seedall.sh "<name>:<checks,comma>" ...
# builds everything once in the snapshot, then applies each seeded change to the repo snapshot and runs the checks
export VERIF_REPO=${VP_RUN_REPO:-/repo}
export SEED_OUT=${SEED_OUT:-/tmp/seedres}
python3 tools/setup.py > setup.log 2>&1 || { echo setup failed; tail -20 setup.log; exit 1; }
for spec in "$@"; do
  name=${spec%%:*}; checks=${spec#*:}; checks=${checks//,/ }
  python3 tools/seedrun.py run $name $checks 2>&1 | grep -v conda
done
echo ALL-DONE
