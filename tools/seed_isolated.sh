#!/usr/bin/env bash
# Run confirmed seeds without touching /repo or the working /verif:
#   tools/seed_isolated.sh S-C02-5:C02 S-C07-5:C07 ...
# /repo is checked out as a scratch worktree (/tmp/seedrepo), /verif is copied to /tmp/vseed (committed and uncommitted files,
# Lean build output included), the quick check of the named property runs there against the patched worktree
# (VERIF_REPO / VERIF_BUILD), and meta.json + the first replay are copied back to /verif/seeded/<id>/.
set -u
VERIF=$(cd "$(dirname "$0")/.." && pwd)
REPO=${VERIF_REPO_SRC:-/repo}
[ -d /tmp/seedrepo ] || git -C "$REPO" worktree add --detach /tmp/seedrepo HEAD >/dev/null 2>&1
git -C /tmp/seedrepo checkout -q --detach "$(git -C "$REPO" rev-parse HEAD)" && git -C /tmp/seedrepo checkout -- .
mkdir -p /tmp/vseed /tmp/seedout
rsync -a --delete --exclude build --exclude replays "$VERIF"/ /tmp/vseed/
for spec in "$@"; do
    id=${spec%%:*}; pr=${spec##*:}
    (cd /tmp/vseed && SEED_OUT=/tmp/seedout VERIF_REPO=/tmp/seedrepo VERIF_BUILD=/tmp/seedbuild python3 tools/seedrun.py run "$id" "$pr" 2>&1 | grep -v conda | head -5)
    [ -f /tmp/seedout/$id.json ] && cp /tmp/seedout/$id.json "$VERIF/seeded/$id/meta.json"
    for f in /tmp/seedout/$id.replay_*.json; do [ -f "$f" ] && cp "$f" "$VERIF/seeded/$id/$(basename "$f" | sed "s/^$id\.//")"; done
done
git -C /tmp/seedrepo status --short | head -3
