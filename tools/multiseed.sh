#!/bin/bash
# clean-tree robustness: every quick check at several seeds (run in a vp snapshot or in /verif); prints only failures + timing
python3 tools/setup.py > setup.log 2>&1 || { echo setup failed; tail -20 setup.log; exit 1; }
for seed in "$@"; do
  for p in C01 C02 C03 C04 C05 C06 C07 C08 C09 C10 C11 C12 C13 C14 C15 C16 C17 C18 C19 C20; do
    out=$(VERIF_SEED=$seed python3 check.py $p --tier ${TIER:-quick} 2>&1 | grep -v conda)
    echo "$out" | tail -1
    echo "$out" | grep -E 'VIOLATION|CHECK-ERROR|what:' | head -6
  done
done
echo ALL-DONE
