#!/usr/bin/env python3
"""Regenerate lean/MemVerif/Gen/*.lean from the current working tree of the repository:
   Consts.lean  - constants printed by the compiled probe (tools/probe_consts.cpp), per configuration
   Arith.lean   - C19/C18 arithmetic translated by cxx2lean from clang's AST
   Guards.lean  - bounds-check conditions extracted from the stateful code (C02/C03/C11/...)
Returns a dict with what was generated / which items failed (broken tie)."""
import json, os, subprocess, sys, hashlib

HERE = os.path.dirname(os.path.abspath(__file__))
VERIF = os.path.dirname(HERE)
sys.path.insert(0, HERE)
import buildlib, cxx2lean, gen_locks

GEN = os.path.join(VERIF, "lean", "MemVerif", "Gen")

ARITH_ITEMS = [
    dict(lean="isValidAlignment", name="is_valid_alignment", filter="detail::is_valid_alignment", kind="fn"),
    dict(lean="roundUp", name="round_up_to_multiple_of_alignment", filter="detail::round_up_to_multiple_of_alignment", kind="fn"),
    dict(lean="alignOffset", name="align_offset", filter="detail::align_offset", kind="fn",
         params=["std::uintptr_t", "std::size_t"]),
    dict(lean="isAligned", name="is_aligned", filter="detail::is_aligned", kind="fn"),
    dict(lean="alignmentFor", name="alignment_for", filter="detail::alignment_for", kind="fn"),
    dict(lean="isPowerOfTwo", name="is_power_of_two", filter="detail::is_power_of_two", kind="fn",
         params=["unsigned long"]),
    dict(lean="ilog2Base", name="ilog2_base", filter="detail::ilog2_base", kind="fn"),
    dict(lean="ilog2", name="ilog2", filter="detail::ilog2", kind="fn"),
    dict(lean="ilog2Ceil", name="ilog2_ceil", filter="detail::ilog2_ceil", kind="fn"),
    dict(lean="log2IndexFromSize", name="index_from_size", filter="log2_access_policy::index_from_size", kind="fn"),
    dict(lean="log2SizeFromIndex", name="size_from_index", filter="log2_access_policy::size_from_index", kind="fn"),
    dict(lean="identityIndexFromSize", name="index_from_size", filter="identity_access_policy::index_from_size", kind="fn"),
    dict(lean="identitySizeFromIndex", name="size_from_index", filter="identity_access_policy::size_from_index", kind="fn"),
    # free_list_array::get : the index clamp `i < min_size_index`
    dict(lean="bucketClampCond", name="get", filter="detail::free_list_array", kind="guard", index=0,
         vars=["i", "min_size_index"]),
    dict(lean="bucketMaxIndexClampCond", name="max_index", filter="detail::free_list_array", kind="guard", index=0,
         vars=["i", "min_size_index"]),
    # C18 formulas
    dict(lean="freeListMinBlockSize", name="min_block_size", filter="detail::free_memory_list::min_block_size", kind="fn",
         const_map={"min_element_size": "free_min_element_size"}),
    dict(lean="orderedListMinBlockSize", name="min_block_size", filter="detail::ordered_free_memory_list::min_block_size", kind="fn",
         const_map={"min_element_size": "ordered_min_element_size"}),
    dict(lean="smallChunkCount", name="chunk_count", filter="small_free_memory_list::chunk_count", kind="fn"),
    dict(lean="smallPaddedChunkSize", name="padded_chunk_size", filter="small_free_memory_list::padded_chunk_size", kind="fn"),
    dict(lean="smallListMinBlockSize", name="min_block_size", filter="detail::small_free_memory_list::min_block_size", kind="fn"),
    dict(lean="implementationOffset", name="implementation_offset", filter="memory_block_stack::implementation_offset", kind="fn"),
    dict(lean="freeListUsableSize", name="usable_size", filter="detail::free_memory_list::usable_size", kind="fn"),
    dict(lean="orderedListUsableSize", name="usable_size", filter="detail::ordered_free_memory_list::usable_size", kind="fn"),
    dict(lean="smallListUsableSize", name="usable_size", filter="small_free_memory_list::usable_size", kind="fn"),
    dict(lean="growBlockSize", name="grow_block_size", filter="memory::growing_block_allocator", kind="fn"),
    dict(lean="stackMinBlockSizeT", name="min_block_size", filter="memory::memory_stack", kind="fn"),
    dict(lean="arenaMinBlockSizeT", name="min_block_size", filter="memory::memory_arena", kind="fn"),
]

GUARD_ITEMS = [
    dict(lean="stackAllocationFits", name="stack_allocation_fits", filter="detail::stack_allocation_fits", kind="fn"),
    # fixed_memory_stack::allocate: `cur_ == nullptr` and the rejection test (calls the function above)
    dict(lean="fixedStackNull", name="allocate", filter="fixed_memory_stack::allocate", kind="guard", index=0, vars=["cur_"]),
    dict(lean="fixedStackRejects", name="allocate", filter="fixed_memory_stack::allocate", kind="guard", index=1,
         vars=["fence_size", "offset", "size", "remaining"]),
    dict(lean="staticBlockExhausted", name="allocate_block", filter="static_block_allocator::allocate_block", kind="guard", index=0,
         vars=["cur_", "block_size_", "end_"]),
    dict(lean="jointBumpRejects", name="bump", filter="joint_stack::bump", kind="guard", index=0,
         vars=["offset", "end_", "top_"]),
]


def probe(cfg):
    li = buildlib.build(cfg)
    exe = os.path.join(buildlib.BUILD, "lib", cfg, "probe_consts")
    src = os.path.join(HERE, "probe_consts.cpp")
    stamp = exe + ".stamp"
    key = li["hash"] + hashlib.sha256(open(src, "rb").read()).hexdigest()
    if not (os.path.exists(exe) and os.path.exists(stamp) and open(stamp).read() == key):
        cmd = [buildlib.CXX, "-std=c++17", "-O0", "-fno-access-control"] + os.environ.get("VERIF_EXTRA_CXXFLAGS", "").split() + li["flags"] + \
              ["-I" + os.path.join(buildlib.repo_dir(), "src"), src, li["lib"], "-lpthread", "-o", exe]
        r = subprocess.run(cmd, capture_output=True, text=True)
        if r.returncode != 0:
            raise RuntimeError("probe build failed: " + r.stderr[-3000:])
        open(stamp, "w").write(key)
    out = subprocess.run([exe], capture_output=True, text=True, check=True).stdout
    d = {}
    for line in out.splitlines():
        k, v = line.split()
        d[k] = int(v)
    return d


def write_if_changed(path, text):
    if os.path.exists(path) and open(path).read() == text:
        return False
    os.makedirs(os.path.dirname(path), exist_ok=True)
    with open(path, "w") as f:
        f.write(text)
    return True


HEADER = """-- GENERATED by tools/gen.py from the repository's current working tree. Do not edit.
"""

PRELUDE = HEADER + """
namespace MemVerif.Gen

/-- `__builtin_clzll` on a non-zero argument (undefined for 0 in C++; here 0 ↦ 64). Result type `int`. -/
def clz64 (x : BitVec 64) : BitVec 32 :=
  if x = 0#64 then 64#32 else BitVec.ofNat 32 (63 - Nat.log2 x.toNat)

end MemVerif.Gen
"""


def generate(cfgs=("rwdi",)):
    repo = buildlib.repo_dir()
    res = dict(errors=[], files=[], consts={})
    consts_by_cfg = {c: probe(c) for c in cfgs}
    base = consts_by_cfg[cfgs[0]]
    res["consts"] = consts_by_cfg
    # Consts.lean
    lines = [HEADER, "namespace MemVerif.Gen.C\n"]
    for k, v in base.items():
        if k == "debug_fence_size":
            continue
        lines.append("def %s : BitVec 64 := %d#64" % (k, v))
    lines.append("\n/-- debug_fence_size per build configuration (probe) -/")
    for c, d in consts_by_cfg.items():
        lines.append("def debug_fence_size_%s : Nat := %d" % (c, d["debug_fence_size"]))
    lines.append("\nend MemVerif.Gen.C\n")
    write_if_changed(os.path.join(GEN, "Consts.lean"), "\n".join(lines))
    write_if_changed(os.path.join(GEN, "Prelude.lean"), PRELUDE)
    li = buildlib.build(cfgs[0])
    incs = [f for f in li["flags"] if f.startswith("-I")] + ["-I" + os.path.join(repo, "src")]
    defs = [f for f in li["flags"] if f.startswith("-D")]
    tu = os.path.join(HERE, "tu_all.cpp")
    consts = {"max_alignment": "max_alignment", "chunk_memory_offset": "chunk_memory_offset",
              "chunk_max_nodes": "chunk_max_nodes", "debug_fence_size": "debug_fence_size"}
    sizeofs = {"sizeof(unsigned long long)": "sizeof_unsigned_long_long", "sizeof(value)": "sizeof_unsigned_long_long",
               "sizeof(foonathan::memory::detail::memory_block_stack::node)": "sizeof_block_node",
               "sizeof(node)": "sizeof_block_node",
               "sizeof(foonathan::memory::detail::chunk_base)": "sizeof_chunk_base",
               "alignof(foonathan::memory::detail::chunk)": "alignof_chunk",
               "alignof(chunk)": "alignof_chunk",
               "alignof(foonathan::memory::detail::chunk_base)": "alignof_chunk_base",
               "alignof(chunk_base)": "alignof_chunk_base"}
    hdr = HEADER + "import MemVerif.Gen.Prelude\nimport MemVerif.Gen.Consts\n"
    sigs = {}
    for fname, items, ns in (("Arith.lean", ARITH_ITEMS, "MemVerif.Gen"), ("Guards.lean", GUARD_ITEMS, "MemVerif.Gen")):
        try:
            text, s = cxx2lean.translate(items, repo, incs, defs, tu, consts, sizeofs, ns, hdr)
            write_if_changed(os.path.join(GEN, fname), text)
            res["files"].append(fname)
            sigs.update(s)
        except cxx2lean.TranslateError as e:
            res["errors"].append("%s: %s" % (fname, e))
    res["sigs"] = sigs
    # C10: node size table (regenerated by buildlib through tools/gen_node_sizes.py from cmake/get_node_size.cpp)
    try:
        nsj = os.path.join(li["inc"], "container_node_sizes_impl.hpp.json")
        tbl = json.load(open(nsj))
        formulas = tbl.pop("__formula__", None)
        if formulas is not None:
            # the hand-written model `nodeSizeConst c s a = round_up(base c a + s, 8)` (Model/Container.lean) is tied to the
            # formula text the repository's generator emits: any other text is a broken tie
            for c, ftxt in formulas.items():
                want = "detail::round_up_to_multiple_of_alignment(detail::%s_node_size<alignof(T)>::value + sizeof(T), alignof(void*))" % c
                if ftxt != want:
                    res["errors"].append("node size formula of %s is `%s`, the model (Model/Container.lean nodeSizeConst) assumes `%s`" % (c, ftxt, want))
            if set(formulas) != set(tbl):
                res["errors"].append("node size formulas %s / tables %s" % (sorted(formulas), sorted(tbl)))
        rows = []
        for c in tbl:
            for a in sorted(tbl[c], key=int):
                rows.append('  ("%s", %s, %d)' % (c, a, tbl[c][a]))
        text = HEADER + "\nnamespace MemVerif.Gen\n\n/-- `detail::X_node_size<alignment>`: (container, alignment, base) as generated for this compiler / standard library -/\n" \
            "def nodeSizeTable : List (String × Nat × Nat) := [\n" + ",\n".join(rows) + "\n]\n\nend MemVerif.Gen\n"
        write_if_changed(os.path.join(GEN, "NodeSizes.lean"), text)
        res["files"].append("NodeSizes.lean")
        res["node_sizes"] = tbl
    except Exception as e:
        res["errors"].append("NodeSizes.lean: %s" % e)
    # C13: lock discipline table of allocator_storage (from the AST)
    try:
        lk = gen_locks.generate(repo, incs, defs, GEN)
        res["storage_members"] = lk.get("members", [])
        res["locked_allocator"] = lk.get("locked_allocator", {})
        res["errors"] += ["StorageMembers.lean: " + e for e in lk["errors"]]
        if not lk["errors"]:
            res["files"].append("StorageMembers.lean")
    except Exception as e:  # translator failure = broken tie, reported by the checks
        res["errors"].append("StorageMembers.lean: %s" % e)
    with open(os.path.join(buildlib.BUILD, "gen_sigs.json"), "w") as f:
        json.dump(res, f, indent=1)
    return res


if __name__ == "__main__":
    r = generate(tuple(sys.argv[1:]) or ("rwdi",))
    print(json.dumps({k: r[k] for k in ("errors", "files")}, indent=1))
    sys.exit(1 if r["errors"] else 0)
