#!/usr/bin/env python3
"""Writes /verif/MANIFEST.json from the table below (kept in one place so it stays valid)."""
import json, os
VERIF = os.path.dirname(os.path.dirname(os.path.abspath(__file__)))

CHECKS = {
    "C19": dict(
        text="Machine-checked Lean 4 theorems over the arithmetic definitions that the translator regenerates from the C++ "
             "source (clang AST -> BitVec 64) on every run: valid-alignment, round-up (least multiple, overflow branch stated), "
             "align_offset (least adjustment), is_aligned, alignment_for (largest power of two dividing, capped), ilog2 floor/ceil, "
             "bucket selection fits (identity, log2) and log2 tightness (_partial, D16). Unbounded: every 64-bit input, all 64 alignments.",
        note="Trusted: Lean kernel + 3 standard axioms; translator cxx2lean.py/clang AST, validated per run against the compiled functions on "
             "boundary classes and a complete small domain; platform constants from the compiled probe. bucket theorems assume size <= 2^63.",
        technique="Lean 4 proof over translator-generated model + translation validation"),
}
CHECKS["C07"] = dict(
    text="Lean theorems over the iteration_allocator<N> model for every N>=1 and every block size: regions tile the block and are "
         "pairwise disjoint; the constructor puts every stack at the start of its region (the D4 repair); every successful "
         "allocate/try_allocate lies in the current region, aligned, and leaves other regions alone; next_iteration restores the full "
         "capacity of the region it switches to; a region is not reset by fewer than N switches (lifetime). Tied to the code by "
         "line-by-line correspondence of seeded histories (N=1..5, rel/rwdi/dbg) plus overlap/content/alignment oracles on the real code.",
    note="Trusted: Lean kernel + standard axioms; hand-written model (Model/Stack.lean) tied by sampled correspondence; guards and align_offset "
         "come from the translator; debug fill writes are not modelled (content oracle covers them by sampling).",
    technique="Lean 4 proof (invariant by induction) + model/implementation correspondence")
NOT_YET = {}

def main():
    props = [json.loads(l) for l in open(os.path.join(VERIF, "properties.jsonl"))]
    checks, na = [], []
    for p in props:
        pid = p["id"]
        if pid in CHECKS:
            c = CHECKS[pid]
            checks.append(dict(
                property_id=pid,
                quick_cmd="python3 check.py %s --tier quick" % pid,
                thorough_cmd="python3 check.py %s --tier thorough" % pid,
                evidence_file="evidence/%s.json" % pid,
                replay_cmd_template="python3 check.py %s --replay {path}" % pid,
                engine="lean-proof+correspondence",
                level_claimed=dict(category="proof", text=c["text"], design_ref="DESIGN.md#%s" % pid),
                level_note=c["note"], technique=c["technique"]))
        else:
            na.append(dict(property_id=pid, reason=NOT_YET.get(pid, "check not built yet in this round (work in progress; an executable model is planned, see DESIGN.md section 7)")))
    m = dict(
        version=1,
        setup_cmd="python3 tools/setup.py",
        hooks=dict(guard="FOONATHAN_MEMORY_VERIF", enable="checks compile /repo's sources directly with -DFOONATHAN_MEMORY_VERIF=1 (tools/buildlib.py)",
                   baseline_off_cmd="cmake --build /repo/_build -j16 && ctest --test-dir /repo/_build -j8 --timeout 900",
                   source_commits=[], add_only=True),
        engines=[dict(name="lean-proof+correspondence", path="check.py", serves_properties=sorted(CHECKS),
                      kind_free_text="Lean 4 theorems over hand-written and translator-generated models; C++ harness + Lean driver line-protocol correspondence; property oracles on the real code as failing-input search")],
        checks=checks, not_applicable=na,
        notes="See DESIGN.md. known_findings.json lists recorded defects; replays/ holds reproducers.")
    json.dump(m, open(os.path.join(VERIF, "MANIFEST.json"), "w"), indent=1)

if __name__ == "__main__":
    main()
