#!/usr/bin/env python3
"""Writes /verif/MANIFEST.json from the table below (kept in one place so it stays valid)."""
import json, os
VERIF = os.path.dirname(os.path.dirname(os.path.abspath(__file__)))

CHECKS = {
    "C19": dict(
        text="Machine-checked Lean 4 theorems over the arithmetic definitions that the translator regenerates from the C++ "
             "source (clang AST -> BitVec 64) on every run: valid-alignment, round-up (least multiple, overflow branch stated), "
             "align_offset (least adjustment), is_aligned, alignment_for (largest power of two dividing, capped), ilog2 floor/ceil, "
             "bucket selection fits (identity, log2) and log2 tightness (_partial, D16). Unbounded: every 64-bit input, all 64 alignments.",
        note="Trusted: Lean kernel + 3 standard axioms; translator cxx2lean.py/clang AST, validated per run against the compiled functions on "
             "boundary classes and a complete small domain; platform constants from the compiled probe. bucket theorems assume size <= 2^63.",
        technique="Lean 4 proof over translator-generated model + translation validation"),
}
CHECKS["C07"] = dict(
    text="Lean theorems over the iteration_allocator<N> model for every N>=1 and every block size: regions tile the block and are "
         "pairwise disjoint; the constructor puts every stack at the start of its region (the D4 repair); every successful "
         "allocate/try_allocate lies in the current region, aligned, and leaves other regions alone; next_iteration restores the full "
         "capacity of the region it switches to; a region is not reset by fewer than N switches (lifetime). Tied to the code by "
         "line-by-line correspondence of seeded histories (N=1..5, rel/rwdi/dbg) plus overlap/content/alignment oracles on the real code.",
    note="Trusted: Lean kernel + standard axioms; hand-written model (Model/Stack.lean) tied by sampled correspondence; guards and align_offset "
         "come from the translator; debug fill writes are not modelled (content oracle covers them by sampling).",
    technique="Lean 4 proof (invariant by induction) + model/implementation correspondence")
CHECKS["C06"] = dict(
    text="Lean theorems over the memory_stack model for all histories with nested marker scopes (no bound on length or depth), all "
         "configurations and all upstream environments: unwind(m) restores top, used blocks, capacity and leak counter of the state at m and "
         "keeps the blocks acquired meanwhile in the cache; replaying the same requests yields the same addresses from the cache alone; "
         "unwind never calls the block source; markers are strictly totally ordered, monotone along histories. Two hypotheses (non-static "
         "source, < 2^64 blocks) are shown necessary by machine-checked counterexamples. Tied to the code by line-by-line correspondence "
         "on 3 block sources x rel/rwdi/dbg plus an independent replay oracle on the real stack.",
    note="Trusted: Lean kernel + standard axioms; hand-written model tied by sampled correspondence; writes of debug fills not modelled "
         "(content oracle samples 'older allocations untouched').",
    technique="Lean 4 proof (simulation + invariant, mutual structural induction over nested scopes) + correspondence")
CHECKS["C02"] = dict(
    text="Lean theorems (1) for the bump-stack allocation path shared by static_allocator, memory_stack (allocate and try_allocate, "
         "incl. growth), iteration_allocator, joint stack and collection carving: a served request is aligned for every power-of-two "
         "alignment, has its fences, size bytes inside [top, end], and a fitting request is never refused; guards and align_offset are "
         "regenerated from the source by the translator. (2) for memory_pool over all three free lists, all histories: conservation - "
         "free cells + cells of live allocations are exactly the cells the blocks were cut into - hence every live address sits on the "
         "node grid of one block (intrusive lists) / of one chunk (small list: usable start + i*stride + header + idx*node_size) after any "
         "amount of growth and is aligned to alignment_for(node_size) (blocks max_alignment-aligned; alignment_for divides node size, "
         "max_alignment, the chunk header and the chunk stride); a node is one whole cell, an array of n nodes is n consecutive cells of "
         "one block (element i at base + i*node_size). (3) memory_pool_collection over node_pool/array_pool buckets, node and array operations and reserve, all histories (Props/C02Coll, Props/C02CollArr): every cell the "
         "caller holds (nodes, every cell of every array) and every free cell is aligned to alignment_for(node size of its bucket) - regions given to a bucket start max_alignment-aligned (fixed_memory_stack::allocate, "
         "align_offset in insert_rest), also after growth and through all three stages of allocate_array; an array handed out is ceil(count*size/ns) consecutive whole cells covering count*size bytes; no operation "
         "changes a bucket's node size; the bucket's node size is at least the requested size and alignment_for(requested size) divides alignment_for(bucket node size) (identity and log2 buckets, via C19) - so the "
         "alignment the traits accept for the request is honoured. Small-node buckets: alignment, size and usability checked by oracles on the real code over seeded histories (model correspondence for addresses).",
    note="partial: small-node buckets of collections at correspondence + oracle level; over-aligned requests are rejected by pools (C03).",
    technique="Lean 4 proof over translated guards (stacks) and conservation invariant by induction over histories (pools) + correspondence/oracles")
CHECKS["C03"] = dict(
    text="Lean theorems over the models of static_allocator, memory_stack, iteration_allocator, memory_pool and memory_pool_collection "
         "(all list types, sources, configurations, upstream environments): try_ functions never throw, emit no upstream event and leave the "
         "arena unchanged; throwing functions never return null; no request size makes the bump-stack bounds check wrap (D20 repair); a failed "
         "request leaves blocks, free list, top and leak counter as they were; memory_pool_collection (Props/C03Coll): allocate_node never returns null, and whatever way it fails "
         "the ledger of live nodes is untouched and the collection invariant of C01 still holds for it (earlier allocations valid, later requests served). Tied by correspondence with upstream failure injected at every "
         "early call position and exhaustion histories; exception class and handler kind are compared per line.",
    note="count*size overflow of traits-level array functions (D21) is a recorded finding outside the proved statements.",
    technique="Lean 4 proof (case analysis over executable model) + fault-injection correspondence")
CHECKS["C05"] = dict(
    text="Lean theorem: for every history of allocate_block/deallocate_block/shrink_to_fit on a cached or uncached arena over a growing or "
         "fixed source and EVERY upstream environment (failure at any position), the upstream event log followed by destruction replays as a "
         "stack — each release returns the most recently acquired outstanding block with its original address and size, nothing remains; plus "
         "the acquisition-order invariant, cache-first, failure-keeps-blocks, moved-from-inert. Tied by correspondence of the per-operation "
         "upstream events and an independent ledger in the instrumented upstream under all arena clients.",
    note="static/virtual sources: no upstream events; covered by correspondence of their pointer checks only.",
    technique="Lean 4 proof (ledger invariant by induction over histories) + correspondence")
CHECKS["C12"] = dict(
    text="Lean theorems: (1) moving a memory_pool over any of the three list types into an object outside its blocks keeps the complete "
         "C01 invariant WITH THE SAME LEDGER - every pointer handed out before the move is a live allocation of the new owner (disjoint, "
         "inside its blocks, releasable), nothing is lost (conservation), the re-based ordered list has a valid cursor, the re-based small "
         "list a valid ring; moves compose (three-move swap); the moved-from pool holds no block/node/leak count and its destruction is "
         "inert. (2) move of memory_stack/arena/iteration_allocator/ordered list hands over the complete state, the moved-from state is "
         "empty and its destruction is inert (no upstream event, no leak report) in every configuration. Tied by correspondence with moves, "
         "move assignments and three-move swaps at seeded positions (object placed below/above its memory), destruction of the moved-from "
         "object with assertions on, and continued use of the new owner; the driver executes the same `Pool.moveInto` the theorems are about.",
    note="partial: the pointer re-linking itself (xor links, chunk ring pointers) is validated by state dumps (sampling); collections' moves "
         "at correspondence level.",
    technique="Lean 4 proof (invariant transport across moves) + correspondence")

CHECKS["C15"] = dict(
    text="Lean theorems over the pool model: each traits operation changes the counter by exactly the traits-level size iff it succeeded "
         "(never with leak checking off); after any history the counter is the initial value plus the signed sum (induction); destruction "
         "reports iff non-zero with the exact amount; balanced histories are silent; a move carries the count. Tied by correspondence of the "
         "counter after every operation and of the recorded handler calls; the process-wide net of heap/malloc/new_allocator is checked "
         "on the real code in child processes (exactly one report after main returns with the exact net incl. fence bytes, none when "
         "balanced or with leak checking off).",
    note="partial: the once-at-exit part (nifty counter across translation units, static destruction order) is runtime behaviour checked "
         "by the child-process scenarios only.",
    technique="Lean 4 proof (induction over histories) + correspondence")
CHECKS["C01"] = dict(
    text="Lean theorems: for memory_pool over ALL THREE free lists - the unordered list (release builds), the address-ordered xor list "
         "(array_pool always, node_pool when double-free checking is on) and the chunked small node list - after ANY history of node/array allocations, try_ variants and "
         "releases (any environment incl. upstream failures, any node size, any configuration) live ranges are pairwise disjoint, lie inside "
         "the usable part of an owned block, and free cells (the only memory the allocator writes) are disjoint from them (frame); the ordered "
         "list stays sorted with an adjacent cursor pair, find_pos finds every pointer the pool handed out from every reachable cursor state, "
         "valid releases never fail; the small list keeps its chunk ring sorted with valid cursors, its two-cursor chunk search finds the "
         "chunk of every live node and the pointer checks never fire for one; invariant established by the constructors. memory_stack: placement invariant for all histories with nested "
         "marker scopes. Iteration regions: C07 theorems. memory_pool_collection over node_pool/array_pool buckets (Props/C01Coll): for ANY history "
         "of allocate_node/try_allocate_node/deallocate_node (any bucket policy, sizes, environment incl. upstream failure, fences up to 2^32) the live nodes - "
         "each as long as its bucket's node size, which is at least the requested size (identity and log2 buckets) - are pairwise disjoint, disjoint from every free cell of "
         "every bucket and from the array of list objects, inside held blocks; the bump pointer stays inside the current block and everything tracked lies below it; "
         "every bucket list stays well formed; releases of live nodes always succeed; established by the constructor; the same for histories that also contain allocate_array / "
         "try_allocate_array / deallocate_array (Props/C01CollArr: an array is entered as its ceil(count*size/node size) consecutive cells; all three stages of allocate_array incl. the "
         "array's own reservation; a release of an array the caller holds always succeeds and returns exactly its cells). Small-node buckets: line-by-line correspondence of "
         "every returned address plus overlap / inside-owned / content-pattern / poison-after-release oracles on the real code in rel/rwdi/dbg.",
    note="partial: proof covers memory_pool over all three list types, memory_stack over growing/fixed sources, iteration regions; "
         "collections: node and array operations over intrusive buckets proved, small-node buckets at correspondence+oracle level. Hypothesis n*node_size < 2^64 is necessary (machine-checked "
         "counterexample, finding D21). Environment hypotheses: blocks well formed and pairwise disjoint, pool object outside its blocks.",
    technique="Lean 4 proof (partition invariant over cells, order-independent; ordered-list structural invariant; induction over histories) + correspondence/oracles")
CHECKS["C04"] = dict(
    text="Lean theorems: (1) memory_pool over the unordered, the ordered AND the small node free list, for ALL histories of node/array allocations, try_ "
         "variants and releases in any order, any configuration and environment: exact accounting - capacity counter + cells of live "
         "allocations = number of cells of the blocks in use, at every point; hence after everything has been released the capacity is at "
         "least the initial capacity plus everything that was live, and a cycle that did not grow the pool restores the counter exactly "
         "(Props/C04Pool). memory_pool_collection over node_pool/array_pool buckets, node operations, ALL histories (Props/C04Coll): for every bucket, free cells + live nodes "
         "served by it never decrease; the bucket's capacity() equals its number of free cells; hence once everything is released every bucket's capacity is at least its "
         "initial capacity plus what was live; a request served from the list takes exactly one cell of that bucket, a release returns exactly one; the same with allocate_array / "
         "try_allocate_array / deallocate_array in the history (Props/C04CollArr: the ledger counts cells, an array is its consecutive cells; an array served from the list takes exactly "
         "its cells, a release of a held array returns exactly them; reserve(size, capacity) is an operation of these histories and, when it succeeds, gives its bucket at least one more "
         "free cell - defect D34, repaired). (2) per-list facts: capacity counter = number of free nodes for every operation of the unordered list and chunk "
         "capacities of the small list; allocate+release restores the unordered list exactly (arrays: as a permutation, exactly ceil(n/ns) "
         "cells both ways); ordered list: find_pos is correct for every sorted list, cursor and address; pools/collections never call the "
         "block source while the matching list holds a node; m node allocations with >= m free nodes never grow. Tied by state-dump "
         "correspondence of all three lists in rel and dbg.",
    note="multi-array cycles on the unordered list may grow although no cell is lost (fragmented list order; D15, documented limitation; "
         "recorded finding). Collections: node and array operations over intrusive buckets proved (Props/C04Coll, C04CollArr); small-node buckets: per-list capacity theorems + correspondence.",
    technique="Lean 4 proof (exact-accounting invariant by induction over histories, list invariants, find_pos correctness) + correspondence")
CHECKS["C18"] = dict(
    text="Lean theorems over the translator-generated min_block_size formulas and the list insert models: for every node size and count "
         "(explicit no-overflow hypotheses) a block of min_block_size bytes yields exactly n nodes (intrusive lists) / at least n and fewer "
         "than n+255 nodes (small list, using the repaired padded stride; the old formula is refuted by a checked counterexample = D13); pool "
         "and stack min_block_size add exactly the arena header. Counters of the bump allocators (Props/C18Counters): capacity_left of "
         "iteration_allocator (also its traits' max_node_size / max_array_size) and of memory_stack drops by exactly new top - old top = "
         "fence + padding + size + fence on a served request, the figures of the other regions do not move, and a request needing more "
         "than what is reported as left is refused with the state unchanged (true upper bound). Tied by the translator validation (C19 "
         "harness), a grid run on the real pools, per-operation counter correspondence, and requests one byte above the reported maxima "
         "as operations of the pool / collection / stack / iteration histories. Reported maxima of compositions (Props/C18Compose): "
         "for every composition of fallback_allocator, aligned/tracked wrappers and storages (any depth, both interfaces, any leaf "
         "behaviour), if every leaf refuses what lies above its own figures then a node request above the composition's max_node_size() "
         "or max_alignment() is never served; the figures allocator_traits reports for 14 real compositions are compared with Model.maxima.",
    note="pools and collections: 'maxima are true upper bounds' through C03 (oversize requests rejected), the above-maximum requests of the histories and D33 (recorded finding). "
         "binary_segregator reports its fallback's figures only: the bound is false for it (C18_segregator_max_counterexample, recorded finding D35); "
         "array requests through compositions: C18_compose_array_bound under the hypothesis that no leaf reports a smaller array figure than node figure.",
    technique="Lean 4 proof over generated formulas + grid enumeration on the real code")
CHECKS["C16"] = dict(
    text="Lean theorems over the L1 models (proxies and chunk ring as addresses): ordered list - releasing any node that is on the list "
         "(any position, any cursor state) with double-free checking on is never accepted: handler or unreachable path, no state produced; "
         "valid releases are inserted in address order in every configuration (no false report). Small list - the chunk search terminates "
         "for every state and pointer (repaired loop), only answers with a chunk that contains the pointer, and deallocate reports every "
         "pointer that is outside all node areas or not on a node boundary (pointer check) or already free (double-free check), producing no "
         "state; an accepted release was a valid one. memory_stack::unwind to any marker above the top is reported with the stack unchanged, "
         "markers at or below the top in the current block never are; static/virtual/fixed block sources report exactly the non-LIFO returns. "
         "Tied by child-process probes on the real allocators after seeded valid histories (outcome class vs model) in rwdi/dbg/dbgna.",
    note="small list: search soundness, termination and completeness proved for every sorted ring and cursor position, valid releases never "
         "reported; the ring invariant under `insert` is at correspondence level. Two genuine defects found and repaired (cursor overwritten "
         "before the report; non-terminating search for a foreign pointer on a one-chunk list).",
    technique="Lean 4 proof (search correctness/termination, case analysis of the checks) + child-process correspondence")
CHECKS["C17"] = dict(
    text="Lean theorems over a byte-level model of debug_fill_new/debug_fill_free/debug_is_filled and the [fence|node|fence] layout: for "
         "every node size, fence size and memory content, a dirty byte at any offset of either fence (any value != 0xFD) makes "
         "deallocate_node call the overflow handler, the first call naming the lowest dirty fence byte; clean fences are never reported "
         "(in-bounds writes, any content); at most one call per fence; a returned node carries new_memory on every byte, fences "
         "fence_memory, nothing outside the raw block is written; a released node carries freed_memory on every byte and nothing else "
         "changes. Tied by an exhaustive sweep on heap/malloc/new/virtual (every fence offset x byte values x node sizes) compared with the "
         "model's handler-call list and an independent expectation. Stack family (Model/StackFill, Props/C17Stack): the writes of memory_stack "
         "allocate / try_allocate / unwind and of iteration_allocator allocate / try_allocate / next_iteration are model functions next to the "
         "state functions; theorems: a successful allocation writes exactly one footprint [fence|padding|new memory|fence] from the old top (or the "
         "start of the block it grew into) to the new top, a failed request writes nothing, unwind writes freed_memory from the marker's top "
         "upwards only, so no byte of an allocation that stays live is touched; without debug fill nothing is written. Tied by comparing, after "
         "every such operation of every stack / iteration history, the bytes the real code left in the footprint (run-length form) with the "
         "model's fills, plus a model-independent oracle of the same shape. Pools/collections: pattern oracles.",
    note="partial: pool/collection fill patterns are oracles on the real code (sampled histories), not theorems; fence sizes 0 (rwdi), 8 (dbg) "
         "and 16 (fence16) are run; low-level fences are max_alignment/page-size whenever the option is non-zero.",
    technique="Lean 4 proof (byte-level model, induction over the scan) + exhaustive fence sweep correspondence")
CHECKS["C20"] = dict(
    text="Lean theorems over event-level models whose loops mirror the source loops (detail::construct and its rollback, the deleters' "
         "destroy loops, joint_array::builder, member-wise construction of a joint object): for EVERY array length n and failing index "
         "k < n, every element size/alignment and every member layout of a joint object, the elements constructed are exactly the "
         "elements destroyed (each once, none twice), nothing past the failing element is touched, the single allocation is released "
         "exactly once with the kind/count/size/alignment it was made with and the exception leaves the helper; on success each element "
         "is constructed once and destroyed once by the deleter / reset(). Tied by an exhaustive run of the property's domain (n <= 16 x "
         "every k x every helper and joint_array constructor form) on the real code, event log compared line by line.",
    note="allocate_shared is std::allocate_shared over std_allocator: modelled as one node request (libstdc++ trusted). D19 (first-element "
         "failure does not unwind the joint stack) is not a violation: the block is released whole.",
    technique="Lean 4 proof (induction over loop models, permutation/nodup of construct/destroy ids) + exhaustive event-log correspondence")
CHECKS["C11"] = dict(
    text="Lean theorems over the joint stack model (bounds-checked bump over [obj+sizeof T, +additional_size), fence 0, translated guards): "
         "for every history of member allocations and releases, every size >= 1 and every power-of-two alignment a served piece is aligned, "
         "inside the object's block above everything handed out before and disjoint from every live piece (invariant, induction); a piece "
         "that does not fit yields out_of_fixed_memory with the state unchanged, an exactly fitting one is served; bump never overruns; the "
         "block boundaries never move, so reset() releases exactly sizeof(T)+additional_size in one call. Tied by layout correspondence on "
         "the real joint_ptr/joint_array/clone_joint over an instrumented upstream (offsets, top, release parameters, overflow).",
    note="partial: containers with joint_allocator are covered by joint_allocator allocate/deallocate histories in any release order (model "
         "theorems + `jh` correspondence on the real joint_allocator), not by instantiating std containers; clone independence rests on "
         "upstream blocks being disjoint.",
    technique="Lean 4 proof (invariant over histories, reuse of the bump-stack lemmas) + layout correspondence")
CHECKS["C09"] = dict(
    text="Lean theorems by structural induction over composition expressions of ANY depth (leaf with/without array members, aligned, "
         "tracked, fallback, segregator, direct/reference/type-erased storage) for every request shape and every pattern of served/declined "
         "leaf calls, through the throwing and the composable interface: every call a leaf sees asks for at least the requested bytes at an "
         "alignment no smaller than requested; a served allocation is served by exactly one leaf call; releasing with the same user-level "
         "parameters reaches exactly the leaf that served it, with the kind/count/size/alignment it was served with, exactly once; a tracker "
         "sees each successful operation once and no failed one; std_allocator's and memory_resource_adapter's node/array decisions are "
         "functions of the user parameters (the adapter's under constant max_node_size: _partial, D24). Tied by line-by-line correspondence "
         "of leaf-call and tracker logs on 14 real compositions + front ends.",
    note="count*size overflow (D21) excluded by hypothesis; D24 is a recorded finding; D6, D7, D8 repaired.",
    technique="Lean 4 proof (structural induction over composition expressions) + leaf-log correspondence")
CHECKS["C08"] = dict(
    text="Lean theorems: the arena's ownership test answers true for every address inside the usable part of a held block and false for every "
         "address in none of its blocks - including a sibling's block that starts exactly one past the end of an own block or ends directly "
         "before one (half-open comparison, no adjacency hypothesis); try_deallocate of pools and collections on foreign memory returns false "
         "with the state unchanged and on own memory is exactly deallocate + true; a fallback_allocator of any nesting depth sends every "
         "release to the sub-allocator that served the allocation with the same call shape (corollary of the C09 routing theorem); memory_pool_collection (Props/C08Coll): under the C01 "
         "collection invariant try_deallocate_node returns true for every node the caller holds and keeps the invariant, and returns false with the state unchanged for every pointer "
         "inside a block of another allocator. Tied by "
         "correspondence of pool/collection traces with foreign pointers in adjacent sibling blocks, of fallback compositions, and of "
         "try_deallocate probes on memory_stack / iteration_allocator<1..5> (live memory of every iteration, block boundaries, a sibling stack).",
    note="partial: 'handed out' is approximated by 'inside a held block' - the library cannot distinguish a live node from a free node of its "
         "own block (not claimed by the property); memory_stack/iteration_allocator: every live allocation of every block / iteration is "
         "recognised (theorems over all histories + probes on the real code), zero-sized allocations have no byte to recognise.",
    technique="Lean 4 proof (ownership lemmas + routing induction) + correspondence")
CHECKS["C13"] = dict(
    text="(1) Translator: the member table of allocator_storage is regenerated on every run from clang's AST (every member function body: "
         "does it forward to the allocator traits, is a std::lock_guard<actual_mutex> on *this declared first, is it the lock() proxy), plus "
         "locked_allocator's constructor/destructor/move; a Lean `decide` over the complete table proves every forwarding member (throwing, "
         "composable, size query) locks first. (2) Lean theorem by induction over schedules: for any number of threads, any programs of "
         "table members and proxy uses and any interleaving, every access to the wrapped allocator is executed by the thread that owns the "
         "mutex and no two threads hold it at once; the hypothesis is shown necessary (an unlocked member yields an unowned access). "
         "Validated by a multi-thread stress on the real storages with an instrumented mutex and allocator; mutex_for selection read from "
         "the compiled code.",
    note="partial: data-race freedom follows from mutual exclusion + std::mutex semantics (trusted); ThreadSanitizer run in the thorough tier "
         "is supporting evidence. Per storage object (copies have their own mutex).",
    technique="Lean 4 proof (decide over AST-generated table + invariant over all schedules) + instrumented multi-thread stress")
CHECKS["C14"] = dict(
    text="Lean theorems over an interleaving transition system of the temporary stack list (one transition per stretch of code between "
         "two scheduling points of the real code: list-head load, each compare-exchange on in_use, push of a new node, in_use=false store, "
         "thread exit with/without an armed exit detector, initializer construction/destruction): for ANY number of threads, ANY scripts "
         "and ANY schedule no two live threads hold the same stack; every stack marked in use has a live holder with an armed exit "
         "detector, so after all threads finished every stack is free for reuse; a thread creates a new stack only after trying every "
         "stack of its snapshot; the list is destroyed unconditionally at exit. Each of the three repairs (D10, D11, D12) is shown "
         "necessary by a machine-checked failing schedule. Scope restore = C06's unwind theorem. Tied by stepping real threads through "
         "the guarded hooks along seeded schedules and comparing every intermediate state with the model; exit scenarios in child processes.",
    note="partial: sequential consistency assumed (the code uses seq_cst atomics); TLS destructor order across translation units and weak-memory "
         "effects are runtime behaviour the model cannot exhibit; mode 1 is covered by oracles only.",
    technique="Lean 4 proof (invariant over all schedules of a transition system) + controlled-scheduler correspondence on real threads")
CHECKS["C10"] = dict(
    text="Lean theorems: (1) for every container of the node-size table (regenerated from cmake/get_node_size.cpp with this compiler on every "
         "library build, by the cmake module's own method), every element size s >= 1 and every table alignment a | s, X_node_size<T> = "
         "round_up(base(a)+s, 8) is at least the node request under the libstdc++ layout model (a decide over the complete generated table "
         "+ an arithmetic lemma, no bound on s); (2) with the library's propagation trait values and address equality of typed handles, "
         "every operation sequence of the allocator-aware container protocol (insert, erase, copy/move construction and assignment, swap, "
         "node transfer between equal handles) over any number of containers keeps every node in a container whose handle references the "
         "allocator it came from (induction over sequences); handles compare equal iff they reference the same allocator (_partial: typed "
         "handles; the type-erased handle's constant-true equality is refuted by a machine-checked counterexample = finding D23). Tied by "
         "real libstdc++ containers over two ledger allocators: per-operation binding vs model, release-to-origin ledger, contents vs twins, "
         "node requests vs constants and layout model.",
    note="partial: libstdc++ itself is modelled (protocol + layout formula), validated by sampling; D23 recorded as known finding (repair needs "
         "a new virtual function in the type-erased base and cases for stateless/shared allocators).",
    technique="Lean 4 proof (table decide + arithmetic; protocol invariant by induction) + real-container correspondence")
NOT_YET = {}

def main():
    props = [json.loads(l) for l in open(os.path.join(VERIF, "properties.jsonl"))]
    checks, na = [], []
    for p in props:
        pid = p["id"]
        if pid in CHECKS:
            c = CHECKS[pid]
            checks.append(dict(
                property_id=pid,
                quick_cmd="python3 check.py %s --tier quick" % pid,
                thorough_cmd="python3 check.py %s --tier thorough" % pid,
                evidence_file="evidence/%s.json" % pid,
                replay_cmd_template="python3 check.py %s --replay {path}" % pid,
                engine="lean-proof+correspondence",
                level_claimed=dict(category="proof", text=c["text"], design_ref="DESIGN.md#%s" % pid),
                level_note=c["note"], technique=c["technique"]))
        else:
            na.append(dict(property_id=pid, reason=NOT_YET.get(pid, "check not built yet in this round (work in progress; an executable model is planned, see DESIGN.md section 7)")))
    m = dict(
        version=1,
        setup_cmd="python3 tools/setup.py",
        hooks=dict(guard="FOONATHAN_MEMORY_VERIF", enable="checks compile /repo's sources directly with -DFOONATHAN_MEMORY_VERIF=1 (tools/buildlib.py)",
                   baseline_off_cmd="cmake --build /repo/_build -j16 && ctest --test-dir /repo/_build -j8 --timeout 900",
                   source_commits=["2b7ce33"], add_only=True),
        engines=[dict(name="lean-proof+correspondence", path="check.py", serves_properties=sorted(CHECKS),
                      kind_free_text="Lean 4 theorems over hand-written and translator-generated models; C++ harness + Lean driver line-protocol correspondence; property oracles on the real code as failing-input search")],
        checks=checks, not_applicable=na,
        notes="See DESIGN.md. known_findings.json lists recorded defects; replays/ holds reproducers.")
    json.dump(m, open(os.path.join(VERIF, "MANIFEST.json"), "w"), indent=1)

if __name__ == "__main__":
    main()
