#!/usr/bin/env python3
"""Build foonathan/memory from the *current working tree* of the repository for one of the
verification configurations, by direct compiler invocation (no cmake), with the verification hooks
enabled (-DFOONATHAN_MEMORY_VERIF=1).

Output: <build>/lib/<cfg>/libmem.a and <build>/lib/<cfg>/inc/{config_impl.hpp,container_node_sizes_impl.hpp}
A content hash of include/, src/ and the configuration is stored next to the archive; an
up-to-date archive is reused.
"""
import hashlib, os, subprocess, sys, shutil, re, glob, json, time
from concurrent.futures import ThreadPoolExecutor

VERIF = os.path.dirname(os.path.dirname(os.path.abspath(__file__)))
BUILD = os.environ.get("VERIF_BUILD", os.path.join(VERIF, "build"))


def repo_dir():
    return os.environ.get("VERIF_REPO", "/repo")


# name -> options
CONFIGS = {
    # ASSERT FILL FENCE LEAK PTR DBL
    "rel": dict(ASSERT=0, FILL=0, FENCE=0, LEAK=0, PTR=0, DBL=0, TSM=2),
    "rwdi": dict(ASSERT=0, FILL=1, FENCE=0, LEAK=1, PTR=1, DBL=0, TSM=2),
    "dbg": dict(ASSERT=1, FILL=1, FENCE=8, LEAK=1, PTR=1, DBL=1, TSM=2),
    # dbg without assertions: the pointer checks are then the only line of defence (C16)
    "dbgna": dict(ASSERT=0, FILL=1, FENCE=8, LEAK=1, PTR=1, DBL=1, TSM=2),
    "fence16": dict(ASSERT=1, FILL=1, FENCE=16, LEAK=1, PTR=1, DBL=1, TSM=2),
    "tsm1": dict(ASSERT=0, FILL=1, FENCE=0, LEAK=1, PTR=1, DBL=0, TSM=1),
}

DEFS = ["-DFOONATHAN_MEMORY=1", "-DFOONATHAN_MEMORY_VERSION_MAJOR=0",
        "-DFOONATHAN_MEMORY_VERSION_MINOR=7", "-DFOONATHAN_MEMORY_VERSION_PATCH=4",
        "-DFOONATHAN_MEMORY_VERIF=1"]

CXX = os.environ.get("VERIF_CXX", "g++")
CXXFLAGS = ["-std=c++17", "-O1", "-g", "-fno-omit-frame-pointer"] + os.environ.get("VERIF_EXTRA_CXXFLAGS", "").split()


def tree_hash(repo, extra=""):
    h = hashlib.sha256()
    for sub in ("include", "src", "cmake"):
        for root, dirs, files in os.walk(os.path.join(repo, sub)):
            dirs.sort()
            for f in sorted(files):
                p = os.path.join(root, f)
                h.update(os.path.relpath(p, repo).encode())
                with open(p, "rb") as fh:
                    h.update(fh.read())
    h.update(extra.encode())
    return h.hexdigest()


def config_impl(repo, opt):
    src = open(os.path.join(repo, "src", "config.hpp.in")).read()
    vals = {
        "FOONATHAN_MEMORY_CHECK_ALLOCATION_SIZE": 1,
        "FOONATHAN_MEMORY_DEBUG_ASSERT": opt["ASSERT"],
        "FOONATHAN_MEMORY_DEBUG_FILL": opt["FILL"],
        "FOONATHAN_MEMORY_DEBUG_LEAK_CHECK": opt["LEAK"],
        "FOONATHAN_MEMORY_DEBUG_POINTER_CHECK": opt["PTR"],
        "FOONATHAN_MEMORY_DEBUG_DOUBLE_DEALLOC_CHECK": opt["DBL"],
        "FOONATHAN_MEMORY_EXTERN_TEMPLATE": 1,
    }
    subst = {
        "FOONATHAN_MEMORY_DEFAULT_ALLOCATOR": "heap_allocator",
        "FOONATHAN_MEMORY_DEBUG_FENCE": str(opt["FENCE"]),
        "FOONATHAN_MEMORY_TEMPORARY_STACK_MODE": str(opt["TSM"]),
    }

    def cm(m):
        name = m.group(1)
        return "#define %s %d" % (name, vals.get(name, 0))

    src = re.sub(r"#cmakedefine01\s+(\w+)", cm, src)
    src = re.sub(r"\$\{(\w+)\}", lambda m: subst.get(m.group(1), "0"), src)
    return src


CMAKE_GEN = """cmake_minimum_required(VERSION 3.14)
project(gcns CXX)
include(${REPO}/cmake/get_container_node_sizes.cmake)
get_container_node_sizes(${OUT})
"""


def node_sizes_header(repo, incdir):
    """container_node_sizes_impl.hpp: produced by RUNNING the repository's own cmake module
    (<repo>/cmake/get_container_node_sizes.cmake: table probes and the X_node_size<T> formula text) in a scratch cmake
    project under <build>; cached on the content of <repo>/cmake. The table is then read back from the generated header
    (<out>.json) for the Lean side. Falls back to tools/gen_node_sizes.py if cmake cannot run."""
    out = os.path.join(incdir, "container_node_sizes_impl.hpp")
    h = hashlib.sha256()
    cm = os.path.join(repo, "cmake")
    for f in sorted(os.listdir(cm)):
        h.update(f.encode())
        h.update(open(os.path.join(cm, f), "rb").read())
    key = h.hexdigest()
    cache = os.path.join(BUILD, "gcns", key)
    cached = os.path.join(cache, "container_node_sizes_impl.hpp")
    if not os.path.exists(cached):
        os.makedirs(cache, exist_ok=True)
        open(os.path.join(cache, "CMakeLists.txt"), "w").write(CMAKE_GEN)
        r = subprocess.run(["cmake", "-S", cache, "-B", os.path.join(cache, "b"), "-G", "Ninja", "-DREPO=" + repo, "-DOUT=" + cached,
                            "-DCMAKE_CXX_COMPILER=" + CXX], capture_output=True, text=True)
        shutil.rmtree(os.path.join(cache, "b"), ignore_errors=True)
        if r.returncode != 0 or not os.path.exists(cached):
            sys.stderr.write("cmake node size generation failed: %s\n" % (r.stdout + r.stderr)[-1500:])
            if os.path.exists(cached):
                os.remove(cached)
    if os.path.exists(cached):
        shutil.copy(cached, out)
        write_node_size_json(out)
        return out
    gen = os.path.join(VERIF, "tools", "gen_node_sizes.py")
    r = subprocess.run([sys.executable, gen, repo, out], capture_output=True, text=True)
    if r.returncode == 0 and os.path.exists(out):
        return out
    raise RuntimeError("cannot generate container_node_sizes_impl.hpp: " + r.stderr[-1000:])


def write_node_size_json(header):
    """table {container: {alignment: base}} and the formula text per container, parsed from the generated header"""
    txt = open(header).read()
    table, formula = {}, {}
    for m in re.finditer(r"struct (\w+)_node_size<(\d+)>\s*:\s*std::integral_constant<std::size_t,\s*(\d+)>", txt):
        table.setdefault(m.group(1), {})[m.group(2)] = int(m.group(3))
    for m in re.finditer(r"template <typename T>\s*struct (\w+)_node_size\s*:\s*std::integral_constant<std::size_t,\s*(.*?)>\s*\{\};", txt, re.S):
        formula[m.group(1)] = " ".join(m.group(2).split())
    json.dump(dict(table, __formula__=formula), open(header + ".json", "w"), indent=1)


def include_flags(repo, cfg):
    inc = os.path.join(BUILD, "lib", cfg, "inc")
    return ["-I" + os.path.join(repo, "include"),
            "-I" + os.path.join(repo, "include", "foonathan", "memory"),
            "-I" + inc, "-I" + os.path.join(inc, "foonathan", "memory"),
            "-I" + os.path.join(VERIF, "harness", "common")] + DEFS


def build(cfg, repo=None, quiet=True):
    """returns dict(lib=..., inc=..., flags=[...], rebuilt=bool, hash=...); raises on failure"""
    repo = repo or repo_dir()
    opt = CONFIGS[cfg]
    out = os.path.join(BUILD, "lib", cfg)
    inc = os.path.join(out, "inc")
    os.makedirs(inc, exist_ok=True)
    os.makedirs(os.path.join(out, "obj"), exist_ok=True)
    hsh = tree_hash(repo, json.dumps(opt, sort_keys=True) + " ".join(CXXFLAGS + DEFS) + repo)
    stamp = os.path.join(out, "stamp")
    lib = os.path.join(out, "libmem.a")
    info = dict(lib=lib, inc=inc, flags=include_flags(repo, cfg), cfg=cfg, hash=hsh, opt=opt)
    if os.path.exists(stamp) and open(stamp).read() == hsh and os.path.exists(lib):
        info["rebuilt"] = False
        return info
    t0 = time.time()
    with open(os.path.join(inc, "config_impl.hpp"), "w") as f:
        f.write(config_impl(repo, opt))
    # installed layout variant too (foonathan/memory/config_impl.hpp) for headers that include "config_impl.hpp" relatively
    os.makedirs(os.path.join(inc, "foonathan", "memory", "detail"), exist_ok=True)
    shutil.copy(os.path.join(inc, "config_impl.hpp"), os.path.join(inc, "foonathan", "memory", "config_impl.hpp"))
    ns = node_sizes_header(repo, inc)
    shutil.copy(ns, os.path.join(inc, "foonathan", "memory", "detail", "container_node_sizes_impl.hpp"))
    srcs = sorted(glob.glob(os.path.join(repo, "src", "*.cpp")) + glob.glob(os.path.join(repo, "src", "detail", "*.cpp")))
    for o in glob.glob(os.path.join(out, "obj", "*.o")):
        os.remove(o)

    def comp(s):
        o = os.path.join(out, "obj", os.path.relpath(s, os.path.join(repo, "src")).replace("/", "_")[:-4] + ".o")
        cmd = [CXX] + CXXFLAGS + info["flags"] + ["-c", s, "-o", o]
        r = subprocess.run(cmd, capture_output=True, text=True)
        return (s, o, r.returncode, r.stderr)

    with ThreadPoolExecutor(16) as ex:
        res = list(ex.map(comp, srcs))
    bad = [r for r in res if r[2] != 0]
    if bad:
        raise RuntimeError("library build failed (%s):\n%s" % (cfg, "\n".join(b[3][-3000:] for b in bad)))
    if os.path.exists(lib):
        os.remove(lib)
    subprocess.run(["ar", "rcs", lib] + [r[1] for r in res], check=True)
    with open(stamp, "w") as f:
        f.write(hsh)
    info["rebuilt"] = True
    info["build_s"] = round(time.time() - t0, 2)
    if not quiet:
        print("built %s in %.1fs" % (cfg, info["build_s"]))
    return info


def build_harness(name, cfg, srcs, extra_flags=(), repo=None, sanitize=False):
    """compile harness sources against the library of configuration cfg; cached on content hash."""
    repo = repo or repo_dir()
    li = build(cfg, repo)
    outdir = os.path.join(BUILD, "harness", cfg)
    os.makedirs(outdir, exist_ok=True)
    exe = os.path.join(outdir, name + ("_tsan" if sanitize == "thread" else "_san" if sanitize else ""))
    h = hashlib.sha256(li["hash"].encode())
    hdrs = sorted(glob.glob(os.path.join(VERIF, "harness", "common", "*.hpp")))
    for s in list(srcs) + hdrs:
        h.update(open(s, "rb").read())
    h.update((" ".join(extra_flags) + str(sanitize)).encode())
    stamp = exe + ".stamp"
    if os.path.exists(exe) and os.path.exists(stamp) and open(stamp).read() == h.hexdigest():
        return exe
    flags = list(CXXFLAGS)
    if sanitize == "thread":
        flags += ["-fsanitize=thread"]
    elif sanitize:
        flags += ["-fsanitize=address,undefined", "-fno-sanitize-recover=all"]
    cmd = [CXX] + flags + li["flags"] + list(extra_flags) + list(srcs) + [li["lib"], "-lpthread", "-o", exe]
    r = subprocess.run(cmd, capture_output=True, text=True)
    if r.returncode != 0:
        raise RuntimeError("harness build failed (%s/%s):\n%s" % (name, cfg, r.stderr[-6000:]))
    with open(stamp, "w") as f:
        f.write(h.hexdigest())
    return exe


if __name__ == "__main__":
    cfgs = sys.argv[1:] or list(CONFIGS)
    with ThreadPoolExecutor(4) as ex:
        for i in ex.map(lambda c: build(c), cfgs):
            print(i["cfg"], "rebuilt" if i["rebuilt"] else "cached", i.get("build_s", ""))
