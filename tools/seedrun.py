#!/usr/bin/env python3
"""Self-test against seeded changes (never committed to /repo):
   seedrun.py import <worktree> <name> <property>   copy patch/demo/notes of a confirmed seed into /verif/seeded/<name>
   seedrun.py run <name> [check ids...]              apply the patch to /repo, run the quick checks, undo, record who caught it
"""
import json, os, shutil, subprocess, sys, time
VERIF = os.path.dirname(os.path.dirname(os.path.abspath(__file__)))
SEEDED = os.path.join(VERIF, "seeded")
REPO = os.environ.get("VERIF_REPO", "/repo")


def sh(cmd, **kw):
    return subprocess.run(cmd, shell=True, capture_output=True, text=True, **kw)


def do_import(wt, name, prop):
    d = os.path.join(SEEDED, name)
    os.makedirs(d, exist_ok=True)
    for f in ("patch.diff", "demo.cpp", "build_demo.sh", "notes.md", "confirm.log"):
        p = os.path.join(wt, "seed", f)
        if os.path.exists(p):
            shutil.copy(p, os.path.join(d, f))
    conf = open(os.path.join(d, "confirm.log")).read() if os.path.exists(os.path.join(d, "confirm.log")) else ""
    meta = dict(id=name, property=prop, confirmed="CONFIRMED" in conf and "NOT-CONFIRMED" not in conf,
                confirmation=conf.strip().splitlines(),
                what_i_ran=["tools/confirm_seed.sh <scratch worktree>: build with the patch, run the unedited test-suite (must pass), "
                            "build+run the demonstration (must fail), revert the patch, rebuild, run the demonstration (must pass)"],
                needs_to_manifest="see notes.md", caught_by={})
    json.dump(meta, open(os.path.join(d, "meta.json"), "w"), indent=1)
    print("imported", name)


def do_run(name, checks):
    d = os.path.join(SEEDED, name)
    meta = json.load(open(os.path.join(d, "meta.json")))
    checks = checks or [meta["property"]]
    if sh("git -C %s status --porcelain -- include src cmake" % REPO).stdout.strip():
        print("refusing: %s has uncommitted changes" % REPO); return 2
    r = sh("git -C %s apply %s" % (REPO, os.path.join(d, "patch.diff")))
    if r.returncode != 0:
        print("patch does not apply:", r.stderr); return 2
    try:
        for c in checks:
            t = time.time()
            env = dict(os.environ)
            r = sh("python3 %s/check.py %s --tier quick" % (VERIF, c), env=env)
            viol = [l for l in r.stdout.splitlines() if l.startswith("VIOLATION") or l.startswith("  what:")]
            meta["caught_by"][c] = dict(rc=r.returncode, caught=r.returncode == 1, wall=round(time.time() - t, 1), lines=viol[:6])
            print(name, c, "rc", r.returncode, "%.0fs" % (time.time() - t))
            for l in viol[:4]:
                print("   ", l[:300])
            # keep the replay of the first violation next to the seed
            for l in viol:
                if l.startswith("VIOLATION") and "replay=" in l:
                    rp = l.split("replay=")[1].split()[0]
                    if os.path.exists(rp):
                        shutil.copy(rp, os.path.join(d, "replay_%s.json" % c))
                    break
    finally:
        sh("git -C %s checkout -- ." % REPO)
        # evidence files were rewritten by the runs on the patched tree: restore the committed ones
        sh("git -C %s checkout -- evidence" % VERIF)
    json.dump(meta, open(os.path.join(d, "meta.json"), "w"), indent=1)
    if os.environ.get("SEED_OUT"):
        os.makedirs(os.environ["SEED_OUT"], exist_ok=True)
        json.dump(meta, open(os.path.join(os.environ["SEED_OUT"], name + ".json"), "w"), indent=1)
        for f in os.listdir(d):
            if f.startswith("replay_"):
                shutil.copy(os.path.join(d, f), os.path.join(os.environ["SEED_OUT"], name + "." + f))
    return 0


if __name__ == "__main__":
    if sys.argv[1] == "import":
        do_import(sys.argv[2], sys.argv[3], sys.argv[4])
    else:
        sys.exit(do_run(sys.argv[2], sys.argv[3:]))
