// compiled (g++ -fno-access-control) against the current tree; prints platform/layout constants
#include <cstdio>
#include <cstddef>
#include "detail/align.hpp"
#include "detail/free_list.hpp"
#include "detail/small_free_list.hpp"
#include "detail/free_list_array.hpp"
#include "detail/debug_helpers.hpp"
#include "memory_arena.hpp"
#include "memory_pool.hpp"
#include "memory_pool_collection.hpp"
#include "memory_stack.hpp"
#include "virtual_memory.hpp"
#include "threading.hpp"
#include "allocator_storage.hpp"
#include <mutex>
#include "../src/detail/small_free_list.cpp"
using namespace foonathan::memory;
using namespace foonathan::memory::detail;

// C13: allocator archetypes for the mutex selection of allocator_storage (detail::mutex_for)
namespace probe_arch
{
    template <int Declared /* 0 = no typedef, 1 = true_type, 2 = false_type */, bool Empty>
    struct Arch;
#define PROBE_ARCH_BODY                                                                                                                    \
    void*       allocate_node(std::size_t, std::size_t) { return nullptr; }                                                               \
    void        deallocate_node(void*, std::size_t, std::size_t) noexcept {}
    template <> struct Arch<0, true> { PROBE_ARCH_BODY };
    template <> struct Arch<0, false> { int state; PROBE_ARCH_BODY };
    template <> struct Arch<1, true> { using is_stateful = std::true_type; PROBE_ARCH_BODY };
    template <> struct Arch<1, false> { using is_stateful = std::true_type; int state; PROBE_ARCH_BODY };
    template <> struct Arch<2, true> { using is_stateful = std::false_type; PROBE_ARCH_BODY };
    template <int D, bool E>
    constexpr int takes_mutex()
    {
        using A = Arch<D, E>;
        using S = foonathan::memory::allocator_storage<foonathan::memory::direct_storage<A>, std::mutex>;
        // the storage object really contains a std::mutex (not only the alias picks it)
        return std::is_same<foonathan::memory::detail::mutex_for<A, std::mutex>, std::mutex>::value
               && std::is_base_of<foonathan::memory::detail::mutex_storage<std::mutex>, S>::value;
    }
} // namespace probe_arch

#define P(name, v) std::printf("%s %llu\n", name, (unsigned long long)(v))
int main()
{
    P("max_alignment", max_alignment);
    P("sizeof_chunk_base", sizeof(chunk_base));
    P("sizeof_chunk", sizeof(chunk));
    P("alignof_chunk", alignof(chunk));
    P("alignof_chunk_base", alignof(chunk_base));
    P("chunk_memory_offset", chunk_memory_offset);
    P("chunk_max_nodes", chunk_max_nodes);
    P("implementation_offset", memory_block_stack::implementation_offset());
    P("sizeof_block_node", sizeof(memory_block_stack::node));
    P("free_min_element_size", free_memory_list::min_element_size);
    P("ordered_min_element_size", ordered_free_memory_list::min_element_size);
    P("small_min_element_size", small_free_memory_list::min_element_size);
    P("sizeof_free_list", sizeof(free_memory_list));
    P("sizeof_ordered_list", sizeof(ordered_free_memory_list));
    P("sizeof_small_list", sizeof(small_free_memory_list));
    P("alignof_free_list", alignof(free_memory_list));
    P("alignof_ordered_list", alignof(ordered_free_memory_list));
    P("alignof_small_list", alignof(small_free_memory_list));
    P("debug_fence_size", debug_fence_size);
    P("sizeof_unsigned_long_long", sizeof(unsigned long long));
    P("char_bit", CHAR_BIT);
    P("virtual_page_size", get_virtual_memory_page_size());
    P("node_list_is_ordered", (std::is_same<node_free_memory_list, ordered_free_memory_list>::value));
    P("mutexfor_none_empty", (probe_arch::takes_mutex<0, true>()));
    P("mutexfor_none_nonempty", (probe_arch::takes_mutex<0, false>()));
    P("mutexfor_true_empty", (probe_arch::takes_mutex<1, true>()));
    P("mutexfor_true_nonempty", (probe_arch::takes_mutex<1, false>()));
    P("mutexfor_false_empty", (probe_arch::takes_mutex<2, true>()));
    return 0;
}
