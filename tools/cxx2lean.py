#!/usr/bin/env python3
"""cxx2lean: translate the integer-arithmetic functions and guards of foonathan/memory from clang-14's
typed JSON AST into Lean 4 definitions over BitVec (C++ unsigned wrap-around semantics).

Supported constructs (anything else -> TranslateError, reported by the check as a broken tie):
  IntegerLiteral, CXXBoolLiteralExpr, DeclRefExpr (parameters, locals, named constexpr variables),
  BinaryOperator (+ - * / % & | ^ << >> == != < > <= >= && ||), UnaryOperator (~ ! -),
  ConditionalOperator, ParenExpr, ImplicitCastExpr/CStyleCastExpr/CXXStaticCastExpr/CXXFunctionalCastExpr
  (integral casts, bool<->int), CXXReinterpretCastExpr pointer->integer (the operand becomes an
  opaque 64-bit input), CallExpr to other translated functions or __builtin_clzll,
  UnaryExprOrTypeTraitExpr (sizeof/alignof -> constant supplied by the compiled probe),
  DeclStmt/VarDecl with initialiser (let), IfStmt, ReturnStmt, NullStmt, CompoundStmt,
  ExprWithCleanups/MaterializeTemporaryExpr/ConstantExpr wrappers, SubstNonTypeTemplateParmExpr.

Types: 64-bit unsigned (size_t, uintptr_t, uint64_t, unsigned long [long]) -> BitVec 64; int / unsigned -> BitVec 32;
unsigned char -> BitVec 8; bool -> Bool; pointers (only as opaque inputs or in pointer differences) -> BitVec 64.
Signed comparisons/division on 32-bit ints are not needed by the translated set and are rejected.
"""
import json, os, re, subprocess, sys
from concurrent.futures import ThreadPoolExecutor


class TranslateError(Exception):
    pass


U64_TYPES = {"std::size_t", "size_t", "unsigned long", "unsigned long long", "std::uintptr_t", "uintptr_t",
             "std::uint64_t", "uint64_t", "const std::size_t", "const unsigned long", "unsigned long const",
             "std::ptrdiff_t", "long", "long long"}
U32_TYPES = {"unsigned int", "unsigned", "const unsigned int"}
I32_TYPES = {"int", "const int"}
U8_TYPES = {"unsigned char", "const unsigned char"}


def width_of(qt):
    qt = qt.strip()
    if qt.startswith("const "):
        qt = qt[6:]
    if qt in U64_TYPES or qt.endswith("*") or qt.endswith("* const"):
        return 64
    if qt == "auto":
        # local of an uninstantiated template pattern (only accepted for guards, where the other operand fixes
        # the width: a mismatch is rejected by the width check of the binary operator)
        return 64
    if qt in U32_TYPES or qt in I32_TYPES:
        return 32
    if qt in U8_TYPES or qt in ("char", "signed char"):
        return 8
    if qt in ("bool", "const bool"):
        return 1
    raise TranslateError("unsupported type '%s'" % qt)


def is_signed(qt):
    qt = qt.replace("const ", "").strip()
    return qt in I32_TYPES or qt in ("long", "long long", "std::ptrdiff_t", "char", "signed char")


def lean_ty(w):
    return "Bool" if w == 1 else "BitVec %d" % w


def run_clang(repo, incs, defs, tu, filt):
    cmd = ["clang++-14", "-std=gnu++17", "-fsyntax-only", "-Wno-everything"] + incs + defs + \
          ["-Xclang", "-ast-dump=json", "-Xclang", "-ast-dump-filter=" + filt, tu]
    r = subprocess.run(cmd, capture_output=True, text=True)
    if r.returncode != 0:
        raise TranslateError("clang failed for filter %s: %s" % (filt, r.stderr[-2000:]))
    s = r.stdout
    dec = json.JSONDecoder()
    i, docs = 0, []
    while i < len(s):
        while i < len(s) and s[i].isspace():
            i += 1
        if i >= len(s):
            break
        d, j = dec.raw_decode(s, i)
        docs.append(d)
        i = j
    return docs


def find_functions(doc, name):
    """all FunctionDecl/CXXMethodDecl nodes called name that have a body, depth first"""
    out = []

    def rec(n):
        if not isinstance(n, dict):
            return
        if n.get("kind") in ("FunctionDecl", "CXXMethodDecl") and n.get("name") == name:
            if any(c.get("kind") == "CompoundStmt" for c in n.get("inner", [])):
                out.append(n)
        for c in n.get("inner", []):
            rec(c)

    rec(doc)
    return out


class Ctx:
    def __init__(self, known_fns, consts, sizeofs):
        self.known = known_fns  # c++ name -> (lean name, [param widths], ret width)
        self.consts = consts  # constexpr variable name -> (value, width)
        self.sizeofs = sizeofs
        self.free = []  # (name, width) free variables in order of first use (guard mode)
        self.locals = {}
        self.used_consts = set()
        self.opaque = {}

    def var(self, name, w):
        if name in self.locals:
            return name if self.locals[name] is None else self.locals[name]
        if name in self.consts:
            self.used_consts.add(name)
            return "C." + self.consts[name]
        if name not in [f[0] for f in self.free]:
            self.free.append((name, w))
        return sanitize(name)


def sanitize(n):
    n = re.sub(r"[^A-Za-z0-9_]", "_", n)
    if n in ("end", "from", "at", "open", "in", "then", "else", "if", "fun", "let", "do", "show", "have", "by", "with", "match", "next"):
        n += "_"
    return n


def ty(n):
    t = n.get("type", {})
    return t.get("desugaredQualType") or t.get("qualType", "")


def expr(n, cx):
    """returns (lean string, width) ; width 1 means Bool"""
    k = n.get("kind")
    inner = [c for c in n.get("inner", []) if isinstance(c, dict)]
    if k in ("ParenExpr", "ExprWithCleanups", "MaterializeTemporaryExpr", "ConstantExpr",
             "SubstNonTypeTemplateParmExpr", "CXXBindTemporaryExpr"):
        if k == "SubstNonTypeTemplateParmExpr":
            inner = [c for c in inner if c.get("kind") != "NonTypeTemplateParmDecl"] or inner
        s, w = expr(inner[-1], cx)
        return s, w
    if k == "IntegerLiteral":
        w = width_of(ty(n))
        return "(%s#%d)" % (n["value"], w), w
    if k in ("CXXNullPtrLiteralExpr", "GNUNullExpr"):
        return "(0#64)", 64
    if k == "CXXBoolLiteralExpr":
        return ("true" if n.get("value") else "false"), 1
    if k == "DeclRefExpr":
        rd = n.get("referencedDecl", {})
        name = rd.get("name")
        w = width_of(ty(n))
        return cx.var(name, w), w
    if k == "MemberExpr":
        # member of *this (e.g. node_size_, cur_): treated as a free variable named after the member
        name = n.get("name")
        w = width_of(ty(n))
        return cx.var(name, w), w
    if k in ("ImplicitCastExpr", "CStyleCastExpr", "CXXStaticCastExpr", "CXXFunctionalCastExpr",
             "CXXReinterpretCastExpr"):
        ck = n.get("castKind")
        if ck == "PointerToIntegral":
            # opaque 64-bit input: take the pointer-valued operand as a variable if it is one
            s, w = expr(inner[-1], cx)
            return s, 64
        s, w = expr(inner[-1], cx)
        if ck in ("LValueToRValue", "NoOp", "FunctionToPointerDecay", "ArrayToPointerDecay", "BitCast", "NullToPointer",
                  "ConstructorConversion", "UserDefinedConversion"):
            return s, w
        if ck == "IntegralCast":
            tw = width_of(ty(n))
            if tw == w:
                return s, w
            if w == 1:
                return "(if %s then (1#%d) else (0#%d))" % (s, tw, tw), tw
            if tw > w and is_signed(ty(inner[-1])):
                m = re.fullmatch(r"\((\d+)#\d+\)", s)
                if m:  # non-negative literal
                    return "(%s#%d)" % (m.group(1), tw), tw
                return "(BitVec.signExtend %d %s)" % (tw, s), tw
            m = re.fullmatch(r"\((\d+)#\d+\)", s)
            if m and tw > w:
                return "(%s#%d)" % (m.group(1), tw), tw
            return "(BitVec.setWidth %d %s)" % (tw, s), tw
        if ck == "IntegralToBoolean":
            return "(%s != (0#%d))" % (s, w), 1
        if ck == "PointerToBoolean":
            return "(%s != (0#64))" % s, 1
        raise TranslateError("unsupported cast kind %s" % ck)
    if k == "UnaryOperator":
        op = n["opcode"]
        s, w = expr(inner[0], cx)
        if op == "~":
            return "(~~~%s)" % s, w
        if op == "!":
            if w != 1:
                s = "(%s != (0#%d))" % (s, w)
            return "(!%s)" % s, 1
        if op == "-":
            return "(-%s)" % s, w
        if op == "+":
            return s, w
        raise TranslateError("unsupported unary operator %s" % op)
    if k == "BinaryOperator":
        op = n["opcode"]
        a, wa = expr(inner[0], cx)
        b, wb = expr(inner[1], cx)
        if op in ("&&", "||"):
            if wa != 1:
                a = "(%s != (0#%d))" % (a, wa)
            if wb != 1:
                b = "(%s != (0#%d))" % (b, wb)
            return "(%s %s %s)" % (a, op, b), 1
        if op in ("<<", ">>"):
            lop = "<<<" if op == "<<" else ">>>"
            return "(%s %s %s)" % (a, lop, b), wa
        ptr_l = ty(inner[0]).rstrip().endswith("*")
        ptr_r = ty(inner[1]).rstrip().endswith("*")
        if ptr_l != ptr_r and op in ("+", "-"):
            # pointer +- integer on char* / unsigned char* only (byte arithmetic)
            pt = ty(inner[0]) if ptr_l else ty(inner[1])
            if not re.match(r"(const )?(unsigned )?char \*", pt):
                raise TranslateError("pointer arithmetic on non-char pointer %s" % pt)
        if wa != wb:
            if wa == 1:
                a = "(if %s then (1#%d) else (0#%d))" % (a, wb, wb); wa = wb
            elif wb == 1:
                b = "(if %s then (1#%d) else (0#%d))" % (b, wa, wa); wb = wa
            else:
                raise TranslateError("width mismatch in %s: %d vs %d" % (op, wa, wb))
        if wa == 1 and op in ("==", "!=", "&", "|", "^"):
            m = {"==": "==", "!=": "!=", "&": "&&", "|": "||", "^": "^^"}[op]
            return "(%s %s %s)" % (a, m, b), 1
        if op in ("==", "!="):
            return "(%s %s %s)" % (a, op, b), 1
        if op in ("<", ">", "<=", ">="):
            if is_signed(ty(inner[0])) and not ty(inner[0]).rstrip().endswith("*"):
                raise TranslateError("signed comparison")
            return "(decide (%s %s %s))" % (a, op, b), 1
        if op in ("/", "%") and is_signed(ty(n)):
            raise TranslateError("signed division")
        m = {"+": "+", "-": "-", "*": "*", "/": "/", "%": "%", "&": "&&&", "|": "|||", "^": "^^^"}.get(op)
        if m is None:
            raise TranslateError("unsupported binary operator %s" % op)
        return "(%s %s %s)" % (a, m, b), wa
    if k == "ConditionalOperator":
        c, wc = expr(inner[0], cx)
        if wc != 1:
            c = "(%s != (0#%d))" % (c, wc)
        a, wa = expr(inner[1], cx)
        b, wb = expr(inner[2], cx)
        if wa != wb:
            raise TranslateError("?: width mismatch")
        return "(if %s then %s else %s)" % (c, a, b), wa
    if k == "UnaryExprOrTypeTraitExpr":
        what = n.get("name")  # sizeof / alignof
        at = n.get("argType", {}).get("qualType")
        if at is None:
            at = "expr:" + ty(inner[0])
            at = ty(inner[0])
        key = "%s(%s)" % (what, at)
        if key not in cx.sizeofs:
            raise TranslateError("no probe value for %s" % key)
        return "C." + cx.sizeofs[key], 64
    if k in ("CallExpr", "CXXMemberCallExpr"):
        callee = inner[0]
        # dig for the referenced function name
        name = None

        def dig(x):
            nonlocal name
            if x.get("kind") == "DeclRefExpr":
                name = x.get("referencedDecl", {}).get("name")
            elif x.get("kind") == "MemberExpr":
                name = x.get("name")
            for c in x.get("inner", []):
                if name is None:
                    dig(c)

        dig(callee)
        args = [expr(a, cx) for a in inner[1:] if a.get("kind") != "CXXDefaultArgExpr"]
        if name == "__builtin_clzll":
            return "(clz64 %s)" % args[0][0], 32
        cands = [v for kname, v in cx.known.items() if kname.split("#")[0] == name]
        for lname, pws, rw in cands:
            if len(pws) == len(args) and all(pw == a[1] for pw, a in zip(pws, args)):
                return "(%s %s)" % (lname, " ".join(a[0] for a in args)), rw
        if not args and k == "CXXMemberCallExpr" and name:
            # opaque nullary member call (e.g. stack_.top()): a free variable named after the method
            return cx.var(name + "_", width_of(ty(n))), width_of(ty(n))
        raise TranslateError("call to untranslated function %s/%d" % (name, len(args)))
    raise TranslateError("unsupported expression kind %s" % k)


def stmts(body, cx, ret_w):
    """translate a CompoundStmt that ends in return (possibly with if/return chains) to a Lean term"""
    items = [c for c in body.get("inner", []) if isinstance(c, dict)] if body.get("kind") == "CompoundStmt" else [body]
    return seq(items, cx, ret_w)


def seq(items, cx, ret_w):
    if not items:
        raise TranslateError("control reaches end of function without return")
    s = items[0]
    k = s.get("kind")
    rest = items[1:]
    if k == "NullStmt":
        return seq(rest, cx, ret_w)
    if k == "CompoundStmt":
        return seq([c for c in s.get("inner", [])] + rest, cx, ret_w)
    if k == "ReturnStmt":
        e, w = expr(s["inner"][0], cx)
        if w != ret_w:
            raise TranslateError("return width mismatch %d vs %d" % (w, ret_w))
        return e
    if k == "DeclStmt":
        out = ""
        for v in s.get("inner", []):
            if v.get("kind") != "VarDecl" or "inner" not in v:
                raise TranslateError("unsupported declaration")
            e, w = expr(v["inner"][0], cx)
            ln = sanitize(v["name"])
            cx.locals[v["name"]] = ln
            out += "let %s : %s := %s\n  " % (ln, lean_ty(w), e)
        return out + seq(rest, cx, ret_w)
    if k == "IfStmt":
        inner = s["inner"]
        c, wc = expr(inner[0], cx)
        if wc != 1:
            c = "(%s != (0#%d))" % (c, wc)
        saved = dict(cx.locals)
        th = seq([inner[1]] + ([] if ends_in_return(inner[1]) else rest), cx, ret_w)
        cx.locals = dict(saved)
        if len(inner) > 2:
            el = seq([inner[2]] + ([] if ends_in_return(inner[2]) else rest), cx, ret_w)
        else:
            el = seq(rest, cx, ret_w)
        cx.locals = saved
        return "if %s then\n  (%s)\n  else\n  (%s)" % (c, th, el)
    raise TranslateError("unsupported statement kind %s" % k)


def ends_in_return(s):
    k = s.get("kind")
    if k == "ReturnStmt":
        return True
    if k == "CompoundStmt":
        inn = s.get("inner", [])
        return bool(inn) and ends_in_return(inn[-1])
    if k == "IfStmt":
        inn = s["inner"]
        return len(inn) > 2 and ends_in_return(inn[1]) and ends_in_return(inn[2])
    return False


def collect_guards(body):
    """conditions of IfStmt and ConditionalOperator nodes in source order"""
    out = []

    def rec(n):
        if not isinstance(n, dict):
            return
        if n.get("kind") in ("IfStmt", "ConditionalOperator"):
            out.append(n["inner"][0])
        for c in n.get("inner", []):
            rec(c)

    rec(body)
    return out


def pick(fns, params):
    """choose the overload/instantiation whose parameter qualTypes match `params` (list) if given"""
    if params is None:
        # prefer non-dependent
        for f in fns:
            return f
    for f in fns:
        ps = [c for c in f.get("inner", []) if c.get("kind") == "ParmVarDecl"]
        if [p.get("type", {}).get("qualType") for p in ps] == params or [ty(p) for p in ps] == params:
            return f
    raise TranslateError("no overload with parameters %s among %s" % (
        params, [[ty(p) for p in f.get("inner", []) if p.get("kind") == "ParmVarDecl"] for f in fns]))


def translate_item(item, docs, known, consts, sizeofs):
    fns = []
    for d in docs:
        fns += find_functions(d, item["name"])
    if not fns:
        raise TranslateError("function %s not found (filter %s)" % (item["name"], item["filter"]))
    if item.get("params") is None and len(fns) > 1:
        # several bodies (template pattern + instantiations): first one that translates
        first = None
        for f in fns:
            try:
                return translate_fn(item, f, known, consts, sizeofs)
            except TranslateError as e:
                first = first or e
        raise first
    f = pick(fns, item.get("params"))
    return translate_fn(item, f, known, consts, sizeofs)


def translate_fn(item, f, known, consts, sizeofs):
    body = [c for c in f["inner"] if c.get("kind") == "CompoundStmt"][0]
    consts = dict(consts)
    consts.update(item.get("const_map", {}))
    cx = Ctx(known, consts, sizeofs)
    if item["kind"] == "fn":
        ps = [c for c in f["inner"] if c.get("kind") == "ParmVarDecl"]
        pws = []
        for p in ps:
            w = width_of(ty(p))
            cx.locals[p["name"]] = sanitize(p["name"])
            pws.append((sanitize(p["name"]), w))
        rt = ty(f).split("(")[0].strip()
        rw = width_of(rt)
        term = stmts(body, cx, rw)
        # member variables / unknown names become extra leading parameters
        extra = [(sanitize(n), w) for n, w in cx.free]
        allp = extra + pws
        sig = " ".join("(%s : %s)" % (n, lean_ty(w)) for n, w in allp)
        text = "def %s %s : %s :=\n  %s\n" % (item["lean"], sig, lean_ty(rw), term)
        return text, [w for _, w in allp], rw, [n for n, _ in allp]
    if item["kind"] == "guard":
        gs = collect_guards(body)
        idx = item["index"]
        if idx >= len(gs):
            raise TranslateError("function %s has only %d guards" % (item["name"], len(gs)))
        # locals declared before the guard are *inlined as free variables*: the guard is a predicate over them
        e, w = expr(gs[idx], cx)
        if w != 1:
            e = "(%s != (0#%d))" % (e, w)
        want = item.get("vars")
        free = [(sanitize(n), w) for n, w in cx.free]
        if want is not None:
            if sorted(n for n, _ in free) != sorted(want):
                raise TranslateError("guard %s: free variables %s differ from expected %s" % (
                    item["lean"], [n for n, _ in free], want))
            free = [(n, dict(free)[n]) for n in want]
        sig = " ".join("(%s : %s)" % (n, lean_ty(w)) for n, w in free)
        text = "def %s %s : Bool :=\n  %s\n" % (item["lean"], sig, e)
        return text, [w for _, w in free], 1, [n for n, _ in free]
    raise TranslateError("bad item kind")


def translate(items, repo, incs, defs, tu, consts, sizeofs, namespace, header=""):
    """returns (lean source text, signature table)"""
    filters = sorted(set(i["filter"] for i in items))
    with ThreadPoolExecutor(16) as ex:
        docs = dict(zip(filters, ex.map(lambda f: run_clang(repo, incs, defs, tu, f), filters)))
    known = {}
    out = [header, "namespace %s\n" % namespace]
    sigs = {}
    for it in items:
        try:
            text, pws, rw, pnames = translate_item(it, docs[it["filter"]], known, consts, sizeofs)
        except TranslateError as e:
            raise TranslateError("%s (%s): %s" % (it["lean"], it["filter"], e))
        key = it["name"] + "#" + it["lean"]
        if it["kind"] == "fn":
            known[key] = (it["lean"], pws, rw)
        out.append("/-- translated from `%s` (%s%s) -/" % (it["filter"], it["kind"],
                                                          "" if it["kind"] == "fn" else " #%d" % it["index"]))
        out.append(text)
        sigs[it["lean"]] = dict(params=pnames, widths=pws, ret=rw)
    out.append("end %s\n" % namespace)
    return "\n".join(out), sigs
