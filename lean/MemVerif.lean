import MemVerif.Gen.Prelude
import MemVerif.Gen.Consts
import MemVerif.Gen.Arith
import MemVerif.Gen.Guards
import MemVerif.Lemmas.Bits
import MemVerif.Lemmas.Arith
import MemVerif.Model.Buckets
import MemVerif.Props.C19
