import MemVerif.Model.ListInv
/-! Helper lemmas for `MemVerif.Lemmas.OrdList`: list/position facts, the two-cursor interval walk, `find_pos`,
sorted insertion and removal of the first node. -/
namespace MemVerif.Model

theorem addrA_toArray (l : OrdList) (i : Nat) : l.addrA l.nodes.toArray i = l.addr i := by
  simp [OrdList.addrA, OrdList.addr]

theorem getD_lt {xs : List Nat} {j : Nat} (h : j < xs.length) : xs.getD j 0 = xs[j] := by
  simp [List.getD, h]

theorem getD_mem {xs : List Nat} {j : Nat} (h : j < xs.length) : xs.getD j 0 ∈ xs := by
  rw [getD_lt h]; exact List.getElem_mem h

theorem asc_getD {xs : List Nat} (ha : Ascending xs) {a b : Nat} (hab : a < b) (hb : b < xs.length) :
    xs.getD a 0 < xs.getD b 0 := by
  rw [getD_lt hb, getD_lt (Nat.lt_trans hab hb)]
  exact (List.pairwise_iff_getElem.mp ha) a b _ _ hab

theorem asc_getD_le {xs : List Nat} (ha : Ascending xs) {a b : Nat} (hab : a ≤ b) (hb : b < xs.length) :
    xs.getD a 0 ≤ xs.getD b 0 := by
  rcases Nat.lt_or_eq_of_le hab with h | h
  · exact Nat.le_of_lt (asc_getD ha h hb)
  · subst h; exact Nat.le_refl _

/-- converse monotonicity -/
theorem asc_getD_lt_imp {xs : List Nat} (ha : Ascending xs) {a b : Nat} (hb : a < xs.length)
    (h : xs.getD a 0 < xs.getD b 0) (_hb' : b < xs.length) : a < b := by
  apply Nat.lt_of_not_le; intro hle
  have := asc_getD_le ha hle hb
  omega

theorem idxOf?_some {xs : List Nat} {a j : Nat} (h : xs.idxOf? a = some j) :
    j < xs.length ∧ xs.getD j 0 = a := by
  unfold List.idxOf? at h
  rw [List.findIdx?_eq_some_iff_getElem] at h
  obtain ⟨hj, h1, _⟩ := h
  exact ⟨hj, by rw [getD_lt hj]; simpa using h1⟩

theorem idxOf?_getD {xs : List Nat} (ha : Ascending xs) {j : Nat} (hj : j < xs.length) :
    xs.idxOf? (xs.getD j 0) = some j := by
  unfold List.idxOf?
  rw [List.findIdx?_eq_some_iff_getElem]
  rw [getD_lt hj]
  refine ⟨hj, by simp, ?_⟩
  intro k hk
  have := asc_getD ha hk hj
  rw [getD_lt (Nat.lt_trans hk hj), getD_lt hj] at this
  simp; omega

theorem idxOf?_none {xs : List Nat} {a : Nat} (h : xs.idxOf? a = none) : a ∉ xs := by
  unfold List.idxOf? at h
  intro hmem
  simp at h
  exact h a hmem rfl


/-! ### positions and addresses -/

theorem iterNext_fwd {n p : Nat} (h : p + 1 ≤ n) :
    iterNext n (some (p + 1)) (some p) = some (some (p + 2), some (p + 1)) := by
  simp [iterNext]; omega

theorem iterNext_bwd {n c : Nat} (h : c + 1 ≤ n) :
    iterNext n (some (c + 1)) (some (c + 2)) = some (some c, some (c + 1)) := by
  simp [iterNext]; omega

theorem addr_zero (l : OrdList) : l.addr 0 = l.B := by simp [OrdList.addr]

theorem addr_end (l : OrdList) : l.addr (l.nodes.length + 1) = l.E := by simp [OrdList.addr]

theorem addr_succ (l : OrdList) {j : Nat} (h : j < l.nodes.length) : l.addr (j + 1) = l.nodes.getD j 0 := by
  unfold OrdList.addr
  rw [if_neg (by omega), if_neg (by omega)]; rfl

theorem posOf_some {l : OrdList} {a k : Nat} (h : l.posOf a = some k) :
    k ≤ l.nodes.length + 1 ∧ l.addr k = a := by
  unfold OrdList.posOf at h
  split at h
  · cases h; exact ⟨by omega, by rw [addr_zero]; omega⟩
  · split at h
    · cases h; exact ⟨by omega, by rw [addr_end]; omega⟩
    · split at h
      · rename_i i hi
        cases h
        have := idxOf?_some hi
        exact ⟨by omega, by rw [addr_succ l this.1]; exact this.2⟩
      · cases h

theorem posOf_addr {l : OrdList} (hasc : Ascending l.nodes) (hB : l.B ∉ l.nodes) (hE : l.E ∉ l.nodes)
    (hBE : l.B ≠ l.E) {k : Nat} (hk : k ≤ l.nodes.length + 1) : l.posOf (l.addr k) = some k := by
  unfold OrdList.posOf
  rcases Nat.eq_zero_or_pos k with h0 | h0
  · subst h0; rw [addr_zero, if_pos rfl]
  · rcases Nat.lt_or_eq_of_le hk with h1 | h1
    · obtain ⟨j, rfl⟩ : ∃ j, k = j + 1 := ⟨k - 1, by omega⟩
      have hj : j < l.nodes.length := by omega
      rw [addr_succ l hj]
      have hmem := getD_mem hj
      have h1 : ¬ l.nodes.getD j 0 = l.B := fun h => hB (h ▸ hmem)
      have h2 : ¬ l.nodes.getD j 0 = l.E := fun h => hE (h ▸ hmem)
      rw [if_neg h1, if_neg h2, idxOf?_getD hasc hj]
    · subst h1
      rw [addr_end, if_neg (fun h => hBE h.symm), if_pos rfl]

/-! ### the interval walk and `find_pos` -/

/-- `i` is the insert index of `m` in `xs` -/
def Around (xs : List Nat) (m i : Nat) : Prop :=
  i ≤ xs.length ∧ (∀ j, j < i → xs.getD j 0 < m) ∧ (∀ j, i ≤ j → j < xs.length → m < xs.getD j 0)

theorem addrO_succ (l : OrdList) {j : Nat} (h : j < l.nodes.length) :
    addrO l l.nodes.toArray (some (j + 1)) = l.nodes.getD j 0 := by
  simp only [addrO, addrA_toArray]; exact addr_succ l h

theorem go_valid (l : OrdList) (hasc : Ascending l.nodes) (dbl : Bool) (m : Nat) (hm : m ∉ l.nodes) :
    ∀ (fuel p c : Nat), p < l.nodes.length → c < l.nodes.length → c - p < fuel →
      (∀ j, j < p → l.nodes.getD j 0 < m) → (∀ j, c < j → j < l.nodes.length → m < l.nodes.getD j 0) →
      ∃ i, OrdList.findPosInterval.go l l.nodes.toArray dbl m fuel (some (p + 1)) (some p) (some (c + 1)) (some (c + 2))
            = .pos i (i + 1) ∧ Around l.nodes m i := by
  intro fuel
  induction fuel with
  | zero => intro p c _ _ h; omega
  | succ fuel ih =>
    intro p c hp hc hf hlo hhi
    unfold OrdList.findPosInterval.go
    rw [addrO_succ l hp, addrO_succ l hc]
    have hpm : l.nodes.getD p 0 ≠ m := fun h => hm (h ▸ getD_mem hp)
    have hcm : l.nodes.getD c 0 ≠ m := fun h => hm (h ▸ getD_mem hc)
    by_cases h1 : l.nodes.getD p 0 > m
    · rw [if_pos h1]
      refine ⟨p, rfl, by omega, hlo, ?_⟩
      intro j hj hjn
      have := asc_getD_le hasc hj hjn
      omega
    · rw [if_neg h1]
      by_cases h2 : l.nodes.getD c 0 < m
      · rw [if_pos h2]
        refine ⟨c + 1, rfl, by omega, ?_, fun j hj hjn => hhi j (by omega) hjn⟩
        intro j hj
        have := asc_getD_le hasc (show j ≤ c by omega) hc
        omega
      · rw [if_neg h2]
        have h3 : (dbl && (l.nodes.getD p 0 == m || l.nodes.getD c 0 == m)) = false := by
          rw [beq_eq_false_iff_ne.mpr hpm, beq_eq_false_iff_ne.mpr hcm]; simp
        rw [h3]
        have hlt : l.nodes.getD p 0 < l.nodes.getD c 0 := by omega
        have hpc : p < c := asc_getD_lt_imp hasc hp hlt hc
        obtain ⟨c', rfl⟩ : ∃ c', c = c' + 1 := ⟨c - 1, by omega⟩
        simp only [List.size_toArray, iterNext_fwd (show p + 1 ≤ l.nodes.length by omega),
          iterNext_bwd (show c' + 1 + 1 ≤ l.nodes.length by omega)]
        rw [addrO_succ l hp, addrO_succ l hc]
        simp only [Bool.false_eq_true, if_false, if_pos hlt]
        apply ih (p + 1) c' (by omega) (by omega) (by omega)
        · intro j hj
          have := asc_getD_le hasc (show j ≤ p by omega) hp
          omega
        · intro j hj hjn
          have := asc_getD_le hasc (show c' + 1 ≤ j by omega) hjn
          omega


theorem findPos_valid' (l : OrdList) (hI : l.Inv) (dbl : Bool) (m : Nat) (hm : m ∉ l.nodes)
    (hmB : m + l.ns ≤ l.B ∨ l.E + 8 ≤ m) :
    ∃ i, l.findPos dbl m = .pos i (i + 1) ∧ Around l.nodes m i := by
  obtain ⟨i, hi, hldp, hld⟩ := hI.cursor
  obtain ⟨_, eldp⟩ := posOf_some hldp
  obtain ⟨_, eld⟩ := posOf_some hld
  have hasc := hI.asc
  have hpx := hI.proxies
  have hns := hI.nsPos
  have hmB := hmB
  unfold OrdList.findPos
  simp only [hld, hldp, List.size_toArray, addrA_toArray, OrdList.findPosInterval]
  by_cases hn : l.nodes.length = 0
  · simp only [hn, ↓reduceIte]
    have hE : l.addr (0 + 1) = l.E := by have := addr_end l; rwa [hn] at this
    rw [hE, addr_zero]
    have hnil : l.nodes = [] := List.eq_nil_of_length_eq_zero hn
    have hA : Around l.nodes m 0 := ⟨by omega, by intro j hj; omega, by intro j _ hj; omega⟩
    by_cases h1 : l.E > m
    · rw [if_pos h1]; exact ⟨0, rfl, hA⟩
    · rw [if_neg h1, if_pos (by omega)]; exact ⟨0, rfl, hA⟩
  · simp only [hn, ↓reduceIte]
    have hn1 : 0 < l.nodes.length := by omega
    have hnl : l.nodes.length - 1 < l.nodes.length := by omega
    have ha1 : l.addr 1 = l.nodes.getD 0 0 := addr_succ l hn1
    have han : l.addr l.nodes.length = l.nodes.getD (l.nodes.length - 1) 0 := by
      have := addr_succ l hnl
      rwa [show l.nodes.length - 1 + 1 = l.nodes.length by omega] at this
    rw [ha1, han]
    have hfm : l.nodes.getD 0 0 ≠ m := fun h => hm (h ▸ getD_mem hn1)
    have hlm : l.nodes.getD (l.nodes.length - 1) 0 ≠ m := fun h => hm (h ▸ getD_mem hnl)
    by_cases h1 : l.nodes.getD 0 0 > m
    · rw [if_pos h1]
      refine ⟨0, rfl, by omega, by intro j hj; omega, ?_⟩
      intro j _ hjn
      have := asc_getD_le hasc (Nat.zero_le j) hjn
      omega
    rw [if_neg h1]
    by_cases h2 : l.nodes.getD (l.nodes.length - 1) 0 < m
    · rw [if_pos h2]
      refine ⟨l.nodes.length, rfl, Nat.le_refl _, ?_, by intro j h1 h2; omega⟩
      intro j hj
      have := asc_getD_le hasc (show j ≤ l.nodes.length - 1 by omega) hnl
      omega
    rw [if_neg h2]
    by_cases h3 : (decide (l.ldp < m) && decide (m < l.ld)) = true
    · rw [if_pos h3]
      simp only [Bool.and_eq_true, decide_eq_true_eq] at h3
      have hi0 : i ≠ 0 := by
        intro h; subst h; rw [addr_succ l hn1] at eld; omega
      have hin : i ≠ l.nodes.length := by
        intro h; rw [h, han] at eldp; omega
      obtain ⟨i', rfl⟩ : ∃ i', i = i' + 1 := ⟨i - 1, by omega⟩
      rw [addr_succ l (show i' < l.nodes.length by omega)] at eldp
      rw [addr_succ l (show i' + 1 < l.nodes.length by omega)] at eld
      refine ⟨i' + 1, rfl, by omega, ?_, ?_⟩
      · intro j hj
        have := asc_getD_le hasc (show j ≤ i' by omega) (show i' < l.nodes.length by omega)
        omega
      · intro j hj hjn
        have := asc_getD_le hasc hj hjn
        omega
    rw [if_neg h3]
    by_cases h4 : (decide (i + 1 = l.nodes.length + 1) || decide (m < l.ld)) = true
    · rw [if_pos h4]
      simp only [Bool.or_eq_true, decide_eq_true_eq] at h4
      have hi0 : i ≠ 0 := by
        intro h; subst h; rw [addr_succ l hn1] at eld; omega
      obtain ⟨i', rfl⟩ : ∃ i', i = i' + 1 := ⟨i - 1, by omega⟩
      apply go_valid l hasc dbl m hm (l.nodes.length + 3) 0 i' hn1 (by omega) (by omega) (by intro j hj; omega)
      intro j hj hjn
      rcases h4 with h4 | h4
      · omega
      · rw [← eld, addr_succ l (show i' + 1 < l.nodes.length by omega)] at h4
        have := asc_getD_le hasc (show i' + 1 ≤ j by omega) hjn
        omega
    rw [if_neg h4]
    simp only [Bool.or_eq_true, decide_eq_true_eq, not_or] at h4
    have hin : i < l.nodes.length := by omega
    rw [addr_succ l hin] at eld
    have hldm : l.ld ≠ m := fun h => hm (by rw [← h, ← eld]; exact getD_mem hin)
    rw [if_pos (show m > l.ld by omega)]
    have := go_valid l hasc dbl m hm (l.nodes.length + 3) i (l.nodes.length - 1) hin hnl (by omega)
      (by intro j hj; have := asc_getD hasc hj hin; omega) (by intro j h1 h2; omega)
    rwa [show l.nodes.length - 1 + 2 = l.nodes.length + 1 by omega,
      show l.nodes.length - 1 + 1 = l.nodes.length by omega] at this

/-! ### double release -/

theorem go_double (l : OrdList) (hasc : Ascending l.nodes) (m : Nat) :
    ∀ (fuel p c k : Nat), p ≤ k → k ≤ c → c < l.nodes.length → c - p < fuel → l.nodes.getD k 0 = m →
      OrdList.findPosInterval.go l l.nodes.toArray true m fuel (some (p + 1)) (some p) (some (c + 1)) (some (c + 2))
        = .report := by
  intro fuel
  induction fuel with
  | zero => intro p c k _ _ _ h; omega
  | succ fuel ih =>
    intro p c k hpk hkc hc hf hk
    have hp : p < l.nodes.length := by omega
    have hkn : k < l.nodes.length := by omega
    unfold OrdList.findPosInterval.go
    rw [addrO_succ l hp, addrO_succ l hc]
    have h1 : ¬ l.nodes.getD p 0 > m := by
      have := asc_getD_le hasc hpk hkn; omega
    have h2 : ¬ l.nodes.getD c 0 < m := by
      have := asc_getD_le hasc hkc hc; omega
    rw [if_neg h1, if_neg h2]
    by_cases h3 : (true && (l.nodes.getD p 0 == m || l.nodes.getD c 0 == m)) = true
    · rw [if_pos h3]
    · rw [if_neg h3]
      simp only [Bool.true_and, Bool.or_eq_true, beq_iff_eq, not_or] at h3
      have hpk' : p < k := by
        rcases Nat.lt_or_eq_of_le hpk with h | h
        · exact h
        · subst h; exact absurd hk h3.1
      have hkc' : k < c := by
        rcases Nat.lt_or_eq_of_le hkc with h | h
        · exact h
        · subst h; exact absurd hk h3.2
      have hlt : l.nodes.getD p 0 < l.nodes.getD c 0 := asc_getD hasc (by omega) hc
      obtain ⟨c', rfl⟩ : ∃ c', c = c' + 1 := ⟨c - 1, by omega⟩
      simp only [List.size_toArray, iterNext_fwd (show p + 1 ≤ l.nodes.length by omega),
        iterNext_bwd (show c' + 1 + 1 ≤ l.nodes.length by omega)]
      rw [addrO_succ l hp, addrO_succ l hc]
      simp only [if_pos hlt]
      exact ih (p + 1) c' k (by omega) (by omega) (by omega) (by omega) hk

theorem findPos_double' (l : OrdList) (hI : l.Inv) (m : Nat) (hm : m ∈ l.nodes) :
    l.findPos true m = .report ∨ l.findPos true m = .unreachable := by
  obtain ⟨i, hi, hldp, hld⟩ := hI.cursor
  obtain ⟨_, eldp⟩ := posOf_some hldp
  obtain ⟨_, eld⟩ := posOf_some hld
  have hasc := hI.asc
  obtain ⟨k, hkn, hk⟩ := List.getElem_of_mem hm
  rw [← getD_lt hkn] at hk
  unfold OrdList.findPos
  simp only [hld, hldp, List.size_toArray, addrA_toArray, OrdList.findPosInterval]
  have hn : l.nodes.length ≠ 0 := by omega
  simp only [hn, ↓reduceIte]
  have hn1 : 0 < l.nodes.length := by omega
  have hnl : l.nodes.length - 1 < l.nodes.length := by omega
  have ha1 : l.addr 1 = l.nodes.getD 0 0 := addr_succ l hn1
  have han : l.addr l.nodes.length = l.nodes.getD (l.nodes.length - 1) 0 := by
    have := addr_succ l hnl
    rwa [show l.nodes.length - 1 + 1 = l.nodes.length by omega] at this
  rw [ha1, han]
  have h1 : ¬ l.nodes.getD 0 0 > m := by
    have := asc_getD_le hasc (Nat.zero_le k) hkn; omega
  have h2 : ¬ l.nodes.getD (l.nodes.length - 1) 0 < m := by
    have := asc_getD_le hasc (show k ≤ l.nodes.length - 1 by omega) hnl; omega
  rw [if_neg h1, if_neg h2]
  have h3 : ¬ (decide (l.ldp < m) && decide (m < l.ld)) = true := by
    simp only [Bool.and_eq_true, decide_eq_true_eq]
    rintro ⟨h3a, h3b⟩
    have hi0 : i ≠ 0 := by
      intro h; subst h; rw [addr_succ l hn1] at eld; omega
    have hin : i ≠ l.nodes.length := by
      intro h; rw [h, han] at eldp; omega
    obtain ⟨i', rfl⟩ : ∃ i', i = i' + 1 := ⟨i - 1, by omega⟩
    have hi' : i' < l.nodes.length := by omega
    have hi'' : i' + 1 < l.nodes.length := by omega
    rw [addr_succ l hi'] at eldp
    rw [addr_succ l hi''] at eld
    rw [← eldp, ← hk] at h3a
    rw [← eld, ← hk] at h3b
    have a := asc_getD_lt_imp hasc hi' h3a hkn
    have b := asc_getD_lt_imp hasc hkn h3b hi''
    omega
  rw [if_neg h3]
  by_cases h4 : (decide (i + 1 = l.nodes.length + 1) || decide (m < l.ld)) = true
  · rw [if_pos h4]
    simp only [Bool.or_eq_true, decide_eq_true_eq] at h4
    have hi0 : i ≠ 0 := by
      intro h; subst h; rw [addr_succ l hn1] at eld; omega
    obtain ⟨i', rfl⟩ : ∃ i', i = i' + 1 := ⟨i - 1, by omega⟩
    left
    apply go_double l hasc m (l.nodes.length + 3) 0 i' k (Nat.zero_le k) ?_ (by omega) (by omega) hk
    by_cases hin : i' + 1 = l.nodes.length
    · omega
    rcases h4 with h4 | h4
    · omega
    · have hi'' : i' + 1 < l.nodes.length := by omega
      rw [← eld, addr_succ l hi'', ← hk] at h4
      have := asc_getD_lt_imp hasc hkn h4 hi''
      omega
  rw [if_neg h4]
  simp only [Bool.or_eq_true, decide_eq_true_eq, not_or] at h4
  have hin : i < l.nodes.length := by omega
  rw [addr_succ l hin] at eld
  by_cases h5 : m > l.ld
  · rw [if_pos h5]
    left
    have hik : i ≤ k := by
      rw [← eld, ← hk] at h5
      have := asc_getD_lt_imp hasc hin h5 hkn
      omega
    have := go_double l hasc m (l.nodes.length + 3) i (l.nodes.length - 1) k hik (by omega) hnl (by omega) hk
    rwa [show l.nodes.length - 1 + 2 = l.nodes.length + 1 by omega,
      show l.nodes.length - 1 + 1 = l.nodes.length by omega] at this
  · rw [if_neg h5]; right; rfl


/-! ### insertion -/

theorem mem_insertAsc {m y : Nat} {xs : List Nat} : y ∈ insertAsc m xs ↔ y = m ∨ y ∈ xs := by
  induction xs with
  | nil => simp [insertAsc]
  | cons x xs ih =>
    unfold insertAsc
    split
    · simp
    · simp only [List.mem_cons, ih]
      constructor <;> rintro (h | h | h) <;> simp [h]

theorem length_insertAsc {m : Nat} {xs : List Nat} : (insertAsc m xs).length = xs.length + 1 := by
  induction xs with
  | nil => simp [insertAsc]
  | cons x xs ih =>
    unfold insertAsc
    split <;> simp [ih]

theorem asc_insertAsc {m : Nat} {xs : List Nat} (ha : Ascending xs) (hm : m ∉ xs) : Ascending (insertAsc m xs) := by
  induction xs with
  | nil => simp [insertAsc, Ascending]
  | cons x xs ih =>
    unfold Ascending at ha ih ⊢
    rw [List.pairwise_cons] at ha
    unfold insertAsc
    split
    · rename_i h
      rw [List.pairwise_cons, List.pairwise_cons]
      refine ⟨?_, ha⟩
      intro y hy
      rcases List.mem_cons.mp hy with rfl | hy
      · exact h
      · exact Nat.lt_trans h (ha.1 y hy)
    · rename_i h
      rw [List.pairwise_cons]
      refine ⟨?_, ih ha.2 (fun h => hm (List.mem_cons_of_mem _ h))⟩
      intro y hy
      rcases mem_insertAsc.mp hy with rfl | hy
      · have : y ≠ x := fun e => hm (e ▸ List.mem_cons_self)
        omega
      · exact ha.1 y hy

theorem splice_eq_insertAsc {m : Nat} {xs : List Nat} {i : Nat} (hA : Around xs m i) :
    xs.take i ++ [m] ++ xs.drop i = insertAsc m xs := by
  induction xs generalizing i with
  | nil => simp [insertAsc]
  | cons x xs ih =>
    obtain ⟨h1, h2, h3⟩ := hA
    cases i with
    | zero =>
      have := h3 0 (Nat.le_refl _) (by simp)
      simp [List.getD] at this
      simp [insertAsc, this]
    | succ i =>
      have := h2 0 (by omega)
      simp [List.getD] at this
      have hx : ¬ m < x := by omega
      simp only [insertAsc, if_neg hx, List.take_succ_cons, List.drop_succ_cons, List.cons_append]
      congr 1
      apply ih
      refine ⟨by simpa using h1, ?_, ?_⟩
      · intro j hj
        have := h2 (j + 1) (by omega)
        simpa [List.getD] using this
      · intro j hj hjn
        have := h3 (j + 1) (by omega) (by simpa using hjn)
        simpa [List.getD] using this


theorem getD_splice_lt {m : Nat} {xs : List Nat} {i j : Nat} (hi : i ≤ xs.length) (hj : j < i) :
    (xs.take i ++ [m] ++ xs.drop i).getD j 0 = xs.getD j 0 := by
  have h1 : j < (xs.take i).length := by simp; omega
  rw [List.append_assoc, getD_lt (by simp; omega), getD_lt (show j < xs.length by omega),
    List.getElem_append_left h1, List.getElem_take]

theorem getD_splice_eq {m : Nat} {xs : List Nat} {i : Nat} (hi : i ≤ xs.length) :
    (xs.take i ++ [m] ++ xs.drop i).getD i 0 = m := by
  have h1 : (xs.take i).length = i := by simp; omega
  rw [List.append_assoc, getD_lt (by simp; omega), List.getElem_append_right (by omega)]
  simp [h1]

theorem splice_inv (l l' : OrdList) (hI : l.Inv) (m i : Nat) (hA : Around l.nodes m i) (hm : m ∉ l.nodes)
    (hmB : m + l.ns ≤ l.B ∨ l.E + 8 ≤ m) (hm0 : 0 < m)
    (hns : l'.ns = l.ns) (hB : l'.B = l.B) (hE : l'.E = l.E) (hn : l'.nodes = l.spliceAt i [m])
    (hc : l'.cap = l.cap + 1) (hld : l'.ld = m) (hldp : l'.ldp = l.addr i) : l'.Inv := by
  have hsp : l'.nodes = insertAsc m l.nodes := by rw [hn]; exact splice_eq_insertAsc hA
  have hpx := hI.proxies
  have hnsP := hI.nsPos
  have hin := hA.1
  have hmB' : m ≠ l.B := by omega
  have hmE' : m ≠ l.E := by omega
  have hasc' : Ascending l'.nodes := by rw [hsp]; exact asc_insertAsc hI.asc hm
  have hBn : l'.B ∉ l'.nodes := by
    rw [hsp, hB, mem_insertAsc]; rintro (h | h)
    · exact hmB' h.symm
    · exact hI.notNode.1 h
  have hEn : l'.E ∉ l'.nodes := by
    rw [hsp, hE, mem_insertAsc]; rintro (h | h)
    · exact hmE' h.symm
    · exact hI.notNode.2 h
  have hlen : l'.nodes.length = l.nodes.length + 1 := by rw [hsp, length_insertAsc]
  refine ⟨hasc', by rw [hB, hE]; exact hpx, ⟨hBn, hEn⟩, ?_, by rw [hns]; exact hnsP, ?_, ?_, ?_⟩
  · intro a ha
    rw [hsp, mem_insertAsc] at ha
    rw [hns, hB, hE]
    rcases ha with rfl | ha
    · exact hmB
    · exact hI.apart a ha
  · intro a ha
    rw [hsp, mem_insertAsc] at ha
    rcases ha with rfl | ha
    · exact hm0
    · exact hI.nodePos a ha
  · rw [hc, hlen, hI.cap]
  · have hBE : l'.B ≠ l'.E := by rw [hB, hE]; omega
    refine ⟨i, by omega, ?_, ?_⟩
    · have h := posOf_addr hasc' hBn hEn hBE (k := i) (by omega)
      have e : l'.addr i = l'.ldp := by
        rw [hldp]
        cases i with
        | zero => rw [addr_zero, addr_zero, hB]
        | succ j =>
          rw [addr_succ l' (by omega), addr_succ l (by omega), hn]
          exact getD_splice_lt hin (by omega)
      rwa [e] at h
    · have h := posOf_addr hasc' hBn hEn hBE (k := i + 1) (by omega)
      have e : l'.addr (i + 1) = l'.ld := by
        rw [hld, addr_succ l' (by omega), hn]
        exact getD_splice_eq hin
      rwa [e] at h

/-- the assertion at the entry of `find_pos_interval` never fails for a valid release -/
theorem intervalAssertFails_valid (l : OrdList) (hI : l.Inv) (m : Nat) (hm : m ∉ l.nodes)
    (_hmB : m + l.ns ≤ l.B ∨ l.E + 8 ≤ m) : l.intervalAssertFails m = false := by
  obtain ⟨i, hi, hldp, hld⟩ := hI.cursor
  obtain ⟨_, eldp⟩ := posOf_some hldp
  obtain ⟨_, eld⟩ := posOf_some hld
  have hasc := hI.asc
  have hpx := hI.proxies
  have hns := hI.nsPos
  unfold OrdList.intervalAssertFails
  simp only [hld]
  by_cases hn : l.nodes.length = 0
  · simp only [hn, ↓reduceIte]
    have hE : l.addr (0 + 1) = l.E := by have := addr_end l; rwa [hn] at this
    rw [hE, addr_zero]
    by_cases h1 : l.E > m
    · rw [if_pos h1]
    · rw [if_neg h1, if_pos (by omega)]
  · simp only [hn, ↓reduceIte]
    have hn1 : 0 < l.nodes.length := by omega
    have hnl : l.nodes.length - 1 < l.nodes.length := by omega
    have ha1 : l.addr 1 = l.nodes.getD 0 0 := addr_succ l hn1
    have han : l.addr l.nodes.length = l.nodes.getD (l.nodes.length - 1) 0 := by
      have := addr_succ l hnl
      rwa [show l.nodes.length - 1 + 1 = l.nodes.length by omega] at this
    rw [ha1, han]
    have hfm : l.nodes.getD 0 0 ≠ m := fun h => hm (h ▸ getD_mem hn1)
    have hlm : l.nodes.getD (l.nodes.length - 1) 0 ≠ m := fun h => hm (h ▸ getD_mem hnl)
    by_cases h1 : l.nodes.getD 0 0 > m
    · rw [if_pos h1]
    rw [if_neg h1]
    by_cases h2 : l.nodes.getD (l.nodes.length - 1) 0 < m
    · rw [if_pos h2]
    rw [if_neg h2]
    by_cases h3 : (decide (l.ldp < m) && decide (m < l.ld)) = true
    · rw [if_pos h3]
    rw [if_neg h3]
    simp only [Bool.and_eq_true, decide_eq_true_eq, not_and] at h3
    by_cases h4 : (decide (i + 1 = l.nodes.length + 1) || decide (m < l.ld)) = true
    · rw [if_pos h4]
      simp only [Bool.or_eq_true, decide_eq_true_eq] at h4
      have hi0 : i ≠ 0 := by
        intro h; subst h; rw [addr_succ l hn1] at eld; omega
      obtain ⟨i', rfl⟩ : ∃ i', i = i' + 1 := ⟨i - 1, by omega⟩
      rw [addr_succ l (show i' < l.nodes.length by omega)] at eldp
      have hldpm : l.ldp ≠ m := fun h => hm (by rw [← h, ← eldp]; exact getD_mem (by omega))
      have hlt : m < l.ldp := by
        rcases h4 with h4 | h4
        · have : i' = l.nodes.length - 1 := by omega
          rw [this] at eldp; omega
        · have := h3; omega
      simp only [Bool.not_eq_eq_eq_not, Bool.not_false, Bool.and_eq_true, decide_eq_true_eq]
      exact ⟨by omega, hlt⟩
    rw [if_neg h4]
    simp only [Bool.or_eq_true, decide_eq_true_eq, not_or] at h4
    have hin : i < l.nodes.length := by omega
    rw [addr_succ l hin] at eld
    have hldm : l.ld ≠ m := fun h => hm (by rw [← h, ← eld]; exact getD_mem hin)
    rw [if_pos (show m > l.ld by omega)]
    simp only [Bool.not_eq_eq_eq_not, Bool.not_false, Bool.and_eq_true, decide_eq_true_eq]
    exact ⟨by omega, by omega⟩

theorem deallocate_valid' (cfg : Cfg) (l : OrdList) (hI : l.Inv) (m : Nat) (hm : m ∉ l.nodes)
    (hmB : m + l.ns ≤ l.B ∨ l.E + 8 ≤ m) (hm0 : 0 < m) :
    ∃ l', l.deallocate cfg m = .ok l' ∧ l'.nodes = insertAsc m l.nodes ∧ l'.cap = l.cap + 1 ∧ l'.ld = m ∧ l'.Inv := by
  obtain ⟨i, hfp, hA⟩ := findPos_valid' l hI cfg.dblDealloc m hm hmB
  unfold OrdList.deallocate
  rw [hfp, intervalAssertFails_valid l hI m hm hmB]
  simp only [Bool.and_false, Bool.false_eq_true, ne_eq, not_true_eq_false, if_false]
  exact ⟨_, rfl, splice_eq_insertAsc hA, rfl, rfl,
    splice_inv l _ hI m i hA hm hmB hm0 rfl rfl rfl rfl rfl rfl rfl⟩

/-! ### removal of the first node -/

theorem addr_inj {l : OrdList} (hasc : Ascending l.nodes) (hB : l.B ∉ l.nodes) (hE : l.E ∉ l.nodes)
    (hBE : l.B ≠ l.E) {j k : Nat} (hj : j ≤ l.nodes.length + 1) (hk : k ≤ l.nodes.length + 1)
    (h : l.addr j = l.addr k) : j = k := by
  have h1 := posOf_addr hasc hB hE hBE hj
  have h2 := posOf_addr hasc hB hE hBE hk
  rw [h, h2] at h1
  exact (Option.some.inj h1).symm

theorem addr_tail {l l' : OrdList} {x : Nat} {xs : List Nat} (hn : l.nodes = x :: xs) (hn' : l'.nodes = xs)
    (hE : l'.E = l.E) {k : Nat}
    (h1 : 1 ≤ k) (h2 : k ≤ l'.nodes.length + 1) : l.addr (k + 1) = l'.addr k := by
  subst hn'
  have hlen : l.nodes.length = l'.nodes.length + 1 := by rw [hn]; rfl
  rcases Nat.lt_or_eq_of_le h2 with h | h
  · obtain ⟨j, rfl⟩ : ∃ j, k = j + 1 := ⟨k - 1, by omega⟩
    rw [addr_succ l (by omega), addr_succ l' (by omega), hn]
    rfl
  · subst h
    rw [addr_end l', ← hlen, addr_end, hE]

theorem tail_inv (l l' : OrdList) (hI : l.Inv) (x : Nat) (xs : List Nat) (hn : l.nodes = x :: xs)
    (hn' : l'.nodes = xs) (hns : l'.ns = l.ns) (hB : l'.B = l.B) (hE : l'.E = l.E) (hc : l'.cap = l.cap - 1)
    (hcur : ∃ i, i ≤ l'.nodes.length ∧ l'.addr i = l'.ldp ∧ l'.addr (i + 1) = l'.ld) : l'.Inv := by
  subst hn'
  have hsub : ∀ a, a ∈ l'.nodes → a ∈ l.nodes := fun a ha => by rw [hn]; exact List.mem_cons_of_mem _ ha
  have hasc' : Ascending l'.nodes := by
    have := hI.asc; unfold Ascending at this ⊢; rw [hn, List.pairwise_cons] at this; exact this.2
  have hBn : l'.B ∉ l'.nodes := fun h => hI.notNode.1 (hB ▸ hsub _ h)
  have hEn : l'.E ∉ l'.nodes := fun h => hI.notNode.2 (hE ▸ hsub _ h)
  have hpx := hI.proxies
  have hBE : l'.B ≠ l'.E := by rw [hB, hE]; omega
  refine ⟨hasc', by rw [hB, hE]; exact hpx, ⟨hBn, hEn⟩, ?_, by rw [hns]; exact hI.nsPos, ?_, ?_, ?_⟩
  · intro a ha; rw [hns, hB, hE]; exact hI.apart a (hsub a ha)
  · intro a ha; exact hI.nodePos a (hsub a ha)
  · rw [hc, hI.cap, hn]; rfl
  · obtain ⟨i, hi, h1, h2⟩ := hcur
    refine ⟨i, hi, ?_, ?_⟩
    · rw [← h1]; exact posOf_addr hasc' hBn hEn hBE (by omega)
    · rw [← h2]; exact posOf_addr hasc' hBn hEn hBE (by omega)

theorem allocate_inv' (l : OrdList) (hI : l.Inv) (x : Nat) (xs : List Nat) (hn : l.nodes = x :: xs) :
    ∃ l', l.allocate = some (l', x) ∧ l'.nodes = xs ∧ l'.cap + 1 = l.cap ∧ l'.Inv := by
  obtain ⟨i, hi, hldp, hld⟩ := hI.cursor
  obtain ⟨_, eldp⟩ := posOf_some hldp
  obtain ⟨_, eld⟩ := posOf_some hld
  have hpx := hI.proxies
  have hBE : l.B ≠ l.E := by omega
  have hlen : l.nodes.length = xs.length + 1 := by rw [hn]; rfl
  have hcap : l.cap - 1 + 1 = l.cap := by rw [hI.cap, hlen]; rfl
  have hx : l.addr 1 = x := by rw [addr_succ l (by omega), hn]; rfl
  have hinj := @addr_inj l hI.asc hI.notNode.1 hI.notNode.2 hBE
  unfold OrdList.allocate
  simp only [hn]
  by_cases h1 : x = l.ld
  · rw [if_pos h1]
    refine ⟨_, rfl, rfl, hcap, ?_⟩
    refine tail_inv l _ hI x xs hn ?_ ?_ ?_ ?_ ?_ ?_ <;> (try rfl)
    have hi0 : i = 0 := by
      have := hinj (j := i + 1) (k := 1) (by omega) (by omega) (by rw [eld, hx, h1])
      omega
    subst hi0
    refine ⟨0, Nat.zero_le _, ?_, ?_⟩
    · rw [addr_zero]; rw [addr_zero] at eldp; exact eldp
    · cases xs with
      | nil => exact addr_end _
      | cons y ys => exact addr_succ _ (by simp)
  · rw [if_neg h1]
    by_cases h2 : x = l.ldp
    · rw [if_pos h2]
      refine ⟨_, rfl, rfl, hcap, ?_⟩
      refine tail_inv l _ hI x xs hn ?_ ?_ ?_ ?_ ?_ ?_ <;> (try rfl)
      have hi1 : i = 1 := hinj (by omega) (by omega) (by rw [eldp, hx, h2])
      subst hi1
      refine ⟨0, Nat.zero_le _, addr_zero _, ?_⟩
      rw [← eld]
      exact (addr_tail (l' := { l with nodes := xs, cap := l.cap - 1, ldp := l.B }) hn rfl rfl (k := 1)
        (Nat.le_refl _) (by simp)).symm
    · rw [if_neg h2]
      refine ⟨_, rfl, rfl, hcap, ?_⟩
      refine tail_inv l _ hI x xs hn ?_ ?_ ?_ ?_ ?_ ?_ <;> (try rfl)
      have hi0 : i ≠ 0 := by
        intro h; subst h; rw [hx] at eld; exact h1 eld
      have hi1 : i ≠ 1 := by
        intro h; subst h; rw [hx] at eldp; exact h2 eldp
      obtain ⟨j, rfl⟩ : ∃ j, i = j + 1 := ⟨i - 1, by omega⟩
      refine ⟨j, by show j ≤ xs.length; omega, ?_, ?_⟩
      · rw [← eldp]
        exact (addr_tail (l' := { l with nodes := xs, cap := l.cap - 1 }) hn rfl rfl (by omega) (by simp; omega)).symm
      · rw [← eld]
        exact (addr_tail (l' := { l with nodes := xs, cap := l.cap - 1 }) hn rfl rfl (by omega) (by simp; omega)).symm

/-! ### allocate then release -/

theorem insertAsc_front {x : Nat} {xs : List Nat} (ha : Ascending (x :: xs)) : insertAsc x xs = x :: xs := by
  cases xs with
  | nil => rfl
  | cons y ys =>
    unfold Ascending at ha
    rw [List.pairwise_cons] at ha
    have : x < y := ha.1 y List.mem_cons_self
    simp [insertAsc, this]

theorem allocate_deallocate_restores' (cfg : Cfg) (l : OrdList) (hI : l.Inv) (l1 : OrdList) (x : Nat)
    (h : l.allocate = some (l1, x)) :
    ∃ l2, l1.deallocate cfg x = .ok l2 ∧ l2.nodes = l.nodes ∧ l2.cap = l.cap := by
  cases hn : l.nodes with
  | nil => simp [OrdList.allocate, hn] at h
  | cons y xs =>
    obtain ⟨l', ha, hnodes, hcap, hI'⟩ := allocate_inv' l hI y xs hn
    rw [ha] at h
    cases h
    have hasc := hI.asc
    rw [hn] at hasc
    have hmem : x ∈ l.nodes := by rw [hn]; exact List.mem_cons_self
    have hx : x ∉ l1.nodes := by
      rw [hnodes]; intro hx
      unfold Ascending at hasc
      rw [List.pairwise_cons] at hasc
      exact Nat.lt_irrefl _ (hasc.1 x hx)
    have hns : l1.ns = l.ns ∧ l1.B = l.B ∧ l1.E = l.E := by
      unfold OrdList.allocate at ha
      simp only [hn] at ha
      have := (Prod.mk.inj (Option.some.inj ha)).1
      rw [← this]
      split
      · exact ⟨rfl, rfl, rfl⟩
      · split <;> exact ⟨rfl, rfl, rfl⟩
    obtain ⟨l2, hd, hn2, hc2, _, _⟩ := deallocate_valid' cfg l1 hI' x hx
      (by rw [hns.1, hns.2.1, hns.2.2]; exact hI.apart x hmem) (hI.nodePos x hmem)
    refine ⟨l2, hd, ?_, by omega⟩
    rw [hn2, hnodes, insertAsc_front hasc]

end MemVerif.Model
