import MemVerif.Model.StackRun
import MemVerif.Lemmas.StackArith
/-! Proofs behind `MemVerif.Props.C06` (statements there). -/
namespace MemVerif.Model

theorem scope_restores (cfg : Cfg) (e : EnvS) (s : MemStack) (hs : s.Inv) (k : Nat) (ops : List SOp)
    (hw : SOpsWf ops) (hf : cfg.fence ≤ 2 ^ 16) (hacq : ∀ b ∈ (runOp cfg e s k (.scope ops)).acquired, b.Wf) :
    let r := runOp cfg e s k (.scope ops)
    r.ok = true ∧ r.st.cur = s.cur ∧ r.st.arena.used = s.arena.used ∧
      r.st.arena.cached = s.arena.cached ++ r.acquired ∧ r.st.leak = s.leak ∧ r.st.Inv := by
  sorry

theorem replay_same (cfg : Cfg) (e e' : EnvS) (s : MemStack) (hs : s.Inv) (k k' : Nat)
    (ops : List SOp) (hw : SOpsWf ops) (hf : cfg.fence ≤ 2 ^ 16)
    (hacq : ∀ b ∈ (runOps cfg e s k ops).acquired, b.Wf)
    (hnofail : ∀ o ∈ (runOps cfg e s k ops).outs, o ≠ .throws .upstream) :
    let u := (runOp cfg e s k (.scope ops)).st
    (runOps cfg e' u k' ops).outs = (runOps cfg e s k ops).outs ∧ (runOps cfg e' u k' ops).acquired = [] := by
  sorry

theorem unwind_no_events (cfg : Cfg) (s : MemStack) (m : Marker) (hc : s.arena.isCached = true) :
    (s.unwindEv cfg m).2.2 = [] := by
  sorry

theorem marker_order (a b c : Marker) :
    a.lt a = false ∧ (a.lt b = true → b.lt c = true → a.lt c = true) ∧
      (a.lt b = true ∨ b.lt a = true ∨ (a.index = b.index ∧ a.top = b.top)) := by
  sorry

theorem marker_monotone (cfg : Cfg) (e : EnvS) (s : MemStack) (hs : s.Inv) (k : Nat) (ops : List SOp)
    (hw : SOpsWf ops) (hf : cfg.fence ≤ 2 ^ 16) (hacq : ∀ b ∈ (runOps cfg e s k ops).acquired, b.Wf) (m m' : Marker)
    (hm : s.top = some m) (hm' : (runOps cfg e s k ops).st.top = some m') : m.le m' = true := by
  sorry

end MemVerif.Model
