import MemVerif.Model.StackRun
import MemVerif.Lemmas.StackArith
import MemVerif.Lemmas.C06Mono
import MemVerif.Lemmas.C06Sim
import MemVerif.Lemmas.C06Cex
/-! Proofs behind `MemVerif.Props.C06`. The exact bookkeeping invariant is in `C06Strong`, the replay simulation in
`C06Sim`, and `C06Cex` holds the machine-checked counterexamples showing that the two extra hypotheses of
`scope_restores'` / `replay_same'` (no static block source; fewer than 2^64 blocks) cannot be dropped. -/
namespace MemVerif.Model

theorem unwind_no_events (cfg : Cfg) (s : MemStack) (m : Marker) (hc : s.arena.isCached = true) :
    (s.unwindEv cfg m).2.2 = [] := by
  obtain ⟨⟨src, ic, used, cached⟩, cur, leak⟩ := s
  simp only at hc
  subst hc
  rw [unwindEv_core]

theorem marker_order (a b c : Marker) :
    a.lt a = false ∧ (a.lt b = true → b.lt c = true → a.lt c = true) ∧
      (a.lt b = true ∨ b.lt a = true ∨ (a.index = b.index ∧ a.top = b.top)) := by
  refine ⟨?_, ?_, ?_⟩
  · simp [Marker.lt]
  · simp only [Marker.lt_iff]; omega
  · simp only [Marker.lt_iff]; omega

set_option linter.unusedVariables false in
theorem marker_monotone (cfg : Cfg) (e : EnvS) (s : MemStack) (hs : s.Inv) (k : Nat) (ops : List SOp)
    (hw : SOpsWf ops) (hf : cfg.fence ≤ 2 ^ 16) (hacq : ∀ b ∈ (runOps cfg e s k ops).acquired, b.Wf) (m m' : Marker)
    (hm : s.top = some m) (hm' : (runOps cfg e s k ops).st.top = some m') : m.le m' = true :=
  marker_monotone' cfg e s hs k ops m m' hm hm'

end MemVerif.Model
