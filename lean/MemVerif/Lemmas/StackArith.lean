import MemVerif.Model.Stack
import MemVerif.Props.C19
/-!
Bridges from the `BitVec 64` guards/arith used by the stack models to `Nat`.
-/
namespace MemVerif.Model
open MemVerif.Gen MemVerif.Bits MemVerif.Props.C19

theorem ofNat_toNat_lt {n : Nat} (h : n < 2 ^ 64) : (BitVec.ofNat 64 n).toNat = n := by
  simp [BitVec.toNat_ofNat, Nat.mod_eq_of_lt h]

theorem isPow_ofNat {k : Nat} (hk : k < 64) : IsPow (BitVec.ofNat 64 (2 ^ k)) k :=
  ⟨hk, ofNat_toNat_lt (two_pow_lt hk)⟩

/-- `alignOff` is the least adjustment: specification on naturals -/
theorem alignOff_spec (addr k : Nat) (hk : k < 64) (ha : addr < 2 ^ 64) :
    (addr + alignOff addr (2 ^ k)) % 2 ^ k = 0 ∧ alignOff addr (2 ^ k) < 2 ^ k := by
  have h := C19_align_offset_least (BitVec.ofNat 64 addr) (BitVec.ofNat 64 (2 ^ k)) k (isPow_ofNat hk)
  simp only [ofNat_toNat_lt ha] at h
  exact ⟨h.1, h.2.1⟩

theorem sub64_eq {a b : Nat} (hb : b ≤ a) (ha : a < 2 ^ 64) : sub64 a b = a - b := by
  unfold sub64
  rw [BitVec.toNat_sub, ofNat_toNat_lt ha, ofNat_toNat_lt (Nat.lt_of_le_of_lt hb ha)]
  omega

/-- the overflow-safe bounds check, on naturals -/
theorem fits_iff {f o s r : Nat} (hf : f < 2 ^ 64) (ho : o < 2 ^ 64) (hs : s < 2 ^ 64) (hr : r < 2 ^ 64)
    (hsum : f + o + f < 2 ^ 64) : fits f o s r = true ↔ f + o + s + f ≤ r := by
  unfold fits stackAllocationFits
  simp only [Bool.and_eq_true, decide_eq_true_eq]
  have e1 : ((BitVec.ofNat 64 f + BitVec.ofNat 64 o) + BitVec.ofNat 64 f).toNat = f + o + f := by
    rw [BitVec.toNat_add, BitVec.toNat_add, ofNat_toNat_lt hf, ofNat_toNat_lt ho]
    omega
  constructor
  · rintro ⟨h1, h2⟩
    have h1' : (BitVec.ofNat 64 f + BitVec.ofNat 64 o + BitVec.ofNat 64 f).toNat ≤ (BitVec.ofNat 64 r).toNat := h1
    have h2' : (BitVec.ofNat 64 s).toNat ≤
        (BitVec.ofNat 64 r - (BitVec.ofNat 64 f + BitVec.ofNat 64 o + BitVec.ofNat 64 f)).toNat := h2
    rw [e1, ofNat_toNat_lt hr] at h1'
    rw [BitVec.toNat_sub, e1, ofNat_toNat_lt hr, ofNat_toNat_lt hs] at h2'
    omega
  · intro h
    constructor
    · show (BitVec.ofNat 64 f + BitVec.ofNat 64 o + BitVec.ofNat 64 f).toNat ≤ (BitVec.ofNat 64 r).toNat
      rw [e1, ofNat_toNat_lt hr]; omega
    · show (BitVec.ofNat 64 s).toNat ≤
        (BitVec.ofNat 64 r - (BitVec.ofNat 64 f + BitVec.ofNat 64 o + BitVec.ofNat 64 f)).toNat
      rw [BitVec.toNat_sub, e1, ofNat_toNat_lt hr, ofNat_toNat_lt hs]; omega

/-- Specification of `fixed_memory_stack::allocate` for a power-of-two alignment: the returned pointer is
aligned, lies after a front fence above the old top, and `size` bytes plus the back fence end at the new
top, which stays inside `[cur, end]`. No hypothesis on `size`: a huge size is rejected, not wrapped (D20 fix). -/
theorem fixedAllocate_spec {cur end_ size k fence p c : Nat} (hk : k < 64)
    (hce : cur ≤ end_) (he : end_ < 2 ^ 64) (hs : size < 2 ^ 64) (hf : cur + fence + fence + 2 ^ k < 2 ^ 64)
    (h : fixedAllocate cur end_ size (2 ^ k) fence = some (p, c)) :
    p % 2 ^ k = 0 ∧ cur + fence ≤ p ∧ p < cur + fence + 2 ^ k ∧ c = p + size + fence ∧ c ≤ end_ := by
  unfold fixedAllocate at h
  have hp := two_pow_pos k
  split at h
  · exact absurd h (by simp)
  · simp only [fixedStackRejects, Bool.not_eq_eq_eq_not, Bool.not_true] at h
    split at h
    · exact absurd h (by simp)
    · rename_i hfit
      have hfit' : fits fence (alignOff (cur + fence) (2 ^ k)) size (sub64 end_ cur) = true := by
        simpa [fits] using hfit
      have hao := alignOff_spec (cur + fence) k hk (by omega)
      rw [sub64_eq hce he] at hfit'
      rw [fits_iff (by omega) (by omega) hs (by omega) (by omega)] at hfit'
      simp only [Option.some.injEq, Prod.mk.injEq] at h
      obtain ⟨h1, h2⟩ := h
      subst h1 h2
      refine ⟨hao.1, by omega, by omega, by omega, by omega⟩

/-- Conversely a request that fits is served (no spurious failure). -/
theorem fixedAllocate_complete {cur end_ size k fence : Nat} (hk : k < 64) (hc0 : cur ≠ 0)
    (hce : cur ≤ end_) (he : end_ < 2 ^ 64) (hs : size < 2 ^ 64) (hf : cur + fence + fence + 2 ^ k < 2 ^ 64)
    (hfit : fence + alignOff (cur + fence) (2 ^ k) + size + fence ≤ end_ - cur) :
    ∃ p c, fixedAllocate cur end_ size (2 ^ k) fence = some (p, c) := by
  unfold fixedAllocate
  have hnull : fixedStackNull (BitVec.ofNat 64 cur) = false := by
    unfold fixedStackNull
    simp only [beq_eq_false_iff_ne, ne_eq]
    intro h
    have := congrArg BitVec.toNat h
    rw [ofNat_toNat_lt (by omega)] at this
    simp at this; exact hc0 this
  have hao := alignOff_spec (cur + fence) k hk (by omega)
  have hp := two_pow_pos k
  have : fits fence (alignOff (cur + fence) (2 ^ k)) size (sub64 end_ cur) = true := by
    rw [sub64_eq hce he, fits_iff (by omega) (by omega) hs (by omega) (by omega)]; exact hfit
  have hrej : fixedStackRejects (BitVec.ofNat 64 fence) (BitVec.ofNat 64 (alignOff (cur + fence) (2 ^ k)))
      (BitVec.ofNat 64 size) (BitVec.ofNat 64 (sub64 end_ cur)) = false := by
    unfold fixedStackRejects; unfold fits at this; simp [this]
  simp [hnull, hrej]

end MemVerif.Model
