import MemVerif.Model.Pool
import MemVerif.Lemmas.StackArith
import MemVerif.Lemmas.C07
/-!
Helper lemmas for `MemVerif.Props.C18` (capacity figures are truthful).
Bridges from the generated `BitVec 64` formulas (`min_block_size`, `chunk_count`, `padded_chunk_size`) to `Nat`,
and the node counts of the executable list models.
-/
namespace MemVerif.Model
open MemVerif.Gen MemVerif.Bits

/-! ### generic -/

theorem blockNodes_length (mem ns k : Nat) : (blockNodes mem ns k).length = k := by
  induction k generalizing mem with
  | zero => rfl
  | succ k ih => simp [blockNodes, ih]

theorem intrusiveNodeSize_eq (ns : Nat) : intrusiveNodeSize ns = max ns 8 := by
  unfold intrusiveNodeSize
  have : C.free_min_element_size.toNat = 8 := by decide
  rw [this]
  by_cases h : ns > 8
  · simp [h]; omega
  · simp [h]; omega

theorem implOff_eq16 : implOff = 16 := by decide

theorem chunkOff_eq : chunkOff = 32 := by decide
theorem chunkMax_eq : chunkMax = 255 := by decide

/-! ### `free_memory_list::min_block_size` / `ordered_free_memory_list::min_block_size` -/

theorem freeListMinBlockSize_toNat (ns n : BitVec 64) (h : max ns.toNat 8 * n.toNat < 2 ^ 64) :
    (freeListMinBlockSize ns n).toNat = max ns.toNat 8 * n.toNat := by
  unfold freeListMinBlockSize
  have h8 : C.free_min_element_size = 8#64 := rfl
  rw [h8]
  by_cases hlt : ns < 8#64
  · have hlt' : ns.toNat < 8 := by simpa [BitVec.lt_def] using hlt
    have hm : max ns.toNat 8 = 8 := by omega
    rw [hm] at h ⊢
    simp only [hlt, decide_true, ↓reduceIte]
    rw [BitVec.toNat_mul]
    simp only [BitVec.toNat_ofNat]
    rw [Nat.mod_eq_of_lt (by decide : 8 < 2 ^ 64), Nat.mod_eq_of_lt h]
  · have hlt' : ¬ ns.toNat < 8 := by simpa [BitVec.lt_def] using hlt
    have hm : max ns.toNat 8 = ns.toNat := by omega
    rw [hm] at h ⊢
    simp only [hlt, decide_false, Bool.false_eq_true, ↓reduceIte]
    rw [BitVec.toNat_mul, Nat.mod_eq_of_lt h]

theorem orderedListMinBlockSize_eq (ns n : BitVec 64) :
    orderedListMinBlockSize ns n = freeListMinBlockSize ns n := rfl

/-- the number of nodes cut from a block of `min_block_size(ns, n)` bytes is exactly `n` -/
theorem minBlock_div (ns n : BitVec 64) (h : max ns.toNat 8 * n.toNat < 2 ^ 64) :
    (freeListMinBlockSize ns n).toNat / intrusiveNodeSize ns.toNat = n.toNat := by
  rw [freeListMinBlockSize_toNat ns n h, intrusiveNodeSize_eq]
  exact Nat.mul_div_cancel_left _ (by omega)

/-! ### `small_free_memory_list` -/

theorem smallChunkCount_toNat (n : BitVec 64) :
    (smallChunkCount n).toNat = n.toNat / 255 + (if n.toNat % 255 = 0 then 0 else 1) := by
  unfold smallChunkCount
  have hc : C.chunk_max_nodes = 255#64 := rfl
  rw [hc]
  have hn := n.isLt
  have hdiv : (n / 255#64).toNat = n.toNat / 255 := by
    rw [BitVec.toNat_udiv]; rfl
  have hmod : (n % 255#64).toNat = n.toNat % 255 := by
    rw [BitVec.toNat_umod]; rfl
  by_cases hz : n.toNat % 255 = 0
  · have : (n % 255#64) = 0#64 := BitVec.eq_of_toNat_eq (by rw [hmod, hz]; rfl)
    simp only [this, beq_self_eq_true, ↓reduceIte, hz]
    have e : BitVec.signExtend 64 (0#32) = 0#64 := by decide
    rw [e, BitVec.add_zero, hdiv]; rfl
  · have : (n % 255#64) ≠ 0#64 := by
      intro hc; apply hz; rw [← hmod, hc]; rfl
    have hb : ((n % 255#64) == 0#64) = false := by simpa using this
    simp only [hb, hz, Bool.false_eq_true, ↓reduceIte]
    have e : BitVec.signExtend 64 (1#32) = 1#64 := by decide
    rw [e, BitVec.toNat_add, hdiv]
    simp only [BitVec.toNat_ofNat]
    omega

/-- `chunk_count(n)` chunks of 255 nodes hold at least `n` nodes, and one chunk fewer would not -/
theorem smallChunkCount_spec (n : BitVec 64) :
    n.toNat ≤ 255 * (smallChunkCount n).toNat ∧ 255 * (smallChunkCount n).toNat < n.toNat + 255 := by
  rw [smallChunkCount_toNat]
  by_cases hz : n.toNat % 255 = 0 <;> simp only [hz, ↓reduceIte] <;> omega

theorem smallPaddedChunkSize_toNat (ns : BitVec 64) (h : 32 + 255 * ns.toNat + 7 < 2 ^ 64) :
    (smallPaddedChunkSize ns).toNat = (32 + 255 * ns.toNat + 7) / 8 * 8 := by
  unfold smallPaddedChunkSize
  have h1 : C.chunk_memory_offset = 32#64 := rfl
  have h2 : C.chunk_max_nodes = 255#64 := rfl
  have h3 : C.alignof_chunk_base = 8#64 := rfl
  rw [h1, h2, h3]
  have hm : (255#64 * ns).toNat = 255 * ns.toNat := by
    rw [BitVec.toNat_mul]; simp only [BitVec.toNat_ofNat]
    rw [Nat.mod_eq_of_lt (by decide : 255 < 2 ^ 64), Nat.mod_eq_of_lt (by omega)]
  have ha : (32#64 + 255#64 * ns).toNat = 32 + 255 * ns.toNat := by
    rw [BitVec.toNat_add, hm]; simp only [BitVec.toNat_ofNat]; omega
  have hb : (32#64 + 255#64 * ns + 8#64).toNat = 32 + 255 * ns.toNat + 8 := by
    rw [BitVec.toNat_add, ha]; simp only [BitVec.toNat_ofNat]; omega
  have hc : (32#64 + 255#64 * ns + 8#64 - 1#64).toNat = 32 + 255 * ns.toNat + 7 := by
    rw [BitVec.toNat_sub, hb]; simp only [BitVec.toNat_ofNat]; omega
  have hd : ((32#64 + 255#64 * ns + 8#64 - 1#64) / 8#64).toNat = (32 + 255 * ns.toNat + 7) / 8 := by
    rw [BitVec.toNat_udiv, hc]; rfl
  rw [BitVec.toNat_mul, hd]
  simp only [BitVec.toNat_ofNat]
  rw [Nat.mod_eq_of_lt (by decide : 8 < 2 ^ 64), Nat.mod_eq_of_lt (by omega)]

/-- the stride between chunks used by `insert` -/
def smallStride (ns : Nat) : Nat :=
  (chunkOff + ns * chunkMax) + alignOff (chunkOff + ns * chunkMax) C.alignof_chunk.toNat

/-- the stride is the chunk size rounded up to the chunk alignment -/
theorem smallStride_eq (ns : Nat) (h : 32 + 255 * ns < 2 ^ 64) :
    smallStride ns = (32 + 255 * ns + 7) / 8 * 8 := by
  unfold smallStride
  rw [chunkOff_eq, chunkMax_eq]
  have h8 : C.alignof_chunk.toNat = 2 ^ 3 := by decide
  rw [h8]
  have hs := alignOff_spec (32 + ns * 255) 3 (by decide) (by omega)
  generalize alignOff (32 + ns * 255) (2 ^ 3) = off at *
  have : (2 : Nat) ^ 3 = 8 := by decide
  rw [this] at hs
  omega

/-- `padded_chunk_size(ns)` (the repaired formula) is the stride of `insert` -/
theorem smallPaddedChunkSize_eq_stride (ns : BitVec 64) (h : 32 + 255 * ns.toNat + 7 < 2 ^ 64) :
    (smallPaddedChunkSize ns).toNat = smallStride ns.toNat := by
  rw [smallPaddedChunkSize_toNat ns h, smallStride_eq _ (by omega)]

theorem smallStride_pos (ns : Nat) : 0 < smallStride ns := by
  unfold smallStride; rw [chunkOff_eq]; omega

theorem smallStride_ge (ns : Nat) : 32 + ns * 255 ≤ smallStride ns := by
  unfold smallStride; rw [chunkOff_eq, chunkMax_eq]; omega

/-- `smallInsertChunks` written with `smallStride` -/
theorem smallInsertChunks_eq (ns mem size : Nat) :
    smallInsertChunks ns mem size =
      if size % smallStride ns ≥ chunkOff + ns then
        (((List.range (size / smallStride ns)).map fun i =>
            Chunk.make (mem + i * smallStride ns) (chunkOff + ns * chunkMax) ns) ++
          [Chunk.make (mem + size / smallStride ns * smallStride ns) (size % smallStride ns) ns],
         size / smallStride ns * chunkMax +
          (Chunk.make (mem + size / smallStride ns * smallStride ns) (size % smallStride ns) ns).noNodes)
      else
        (((List.range (size / smallStride ns)).map fun i =>
            Chunk.make (mem + i * smallStride ns) (chunkOff + ns * chunkMax) ns),
         size / smallStride ns * chunkMax) := rfl

/-- `insert` of an exact multiple of the stride: `k` full chunks, no remainder chunk -/
theorem smallInsertChunks_mul (ns mem k : Nat) :
    smallInsertChunks ns mem (k * smallStride ns) =
      ((List.range k).map fun i => Chunk.make (mem + i * smallStride ns) (chunkOff + ns * chunkMax) ns, k * chunkMax) := by
  have hp := smallStride_pos ns
  rw [smallInsertChunks_eq, Nat.mul_mod_left, Nat.mul_div_cancel _ hp]
  have : ¬ (0 ≥ chunkOff + ns) := by rw [chunkOff_eq]; omega
  rw [if_neg this]

/-- a chunk over a full chunk's bytes has 255 nodes -/
theorem Chunk.make_full (base ns : Nat) (h : 0 < ns) :
    (Chunk.make base (chunkOff + ns * chunkMax) ns).noNodes = 255 ∧
    (Chunk.make base (chunkOff + ns * chunkMax) ns).capacity = 255 ∧
    (Chunk.make base (chunkOff + ns * chunkMax) ns).free = List.range 255 := by
  unfold Chunk.make
  simp only
  have : (chunkOff + ns * chunkMax - chunkOff) / ns % 256 = 255 := by
    rw [Nat.add_sub_cancel_left, Nat.mul_div_cancel_left _ h, chunkMax_eq]
  rw [this]
  exact ⟨rfl, rfl, rfl⟩

theorem Chunk.make_inv (base total ns : Nat) :
    (Chunk.make base total ns).capacity = (Chunk.make base total ns).noNodes ∧
    (Chunk.make base total ns).free = List.range (Chunk.make base total ns).noNodes ∧
    (Chunk.make base total ns).noNodes < 256 := by
  unfold Chunk.make
  exact ⟨rfl, rfl, Nat.mod_lt _ (by decide)⟩

theorem sum_map_const {α} (l : List α) (f : α → Nat) (c : Nat) (h : ∀ x ∈ l, f x = c) :
    (l.map f).sum = l.length * c := by
  induction l with
  | nil => simp
  | cons x xs ih =>
    simp only [List.map_cons, List.sum_cons, List.length_cons]
    rw [ih (fun y hy => h y (List.mem_cons_of_mem _ hy)), h x (List.mem_cons_self ..), Nat.succ_mul]
    omega

/-- the reported number of new nodes is the total capacity of the chunks created (needs `ns ≥ 1`) -/
theorem smallInsertChunks_sum (ns mem size : Nat) (h : 0 < ns) :
    ((smallInsertChunks ns mem size).1.map Chunk.capacity).sum = (smallInsertChunks ns mem size).2 := by
  unfold smallInsertChunks
  simp only
  have hfull : ∀ (k stride : Nat),
      (((List.range k).map fun i => Chunk.make (mem + i * stride) (chunkOff + ns * chunkMax) ns).map Chunk.capacity).sum
        = k * chunkMax := by
    intro k stride
    rw [sum_map_const _ _ 255]
    · simp [chunkMax_eq]
    · intro c hc
      simp only [List.mem_map, List.mem_range] at hc
      obtain ⟨i, _, rfl⟩ := hc
      exact (Chunk.make_full _ ns h).2.1
  split
  · simp only [List.map_append, List.sum_append, List.map_cons, List.map_nil, List.sum_cons, List.sum_nil]
    rw [hfull, (Chunk.make_inv _ _ _).1]
    omega
  · exact hfull _ _

/-- every chunk created by `insert` is a fresh chunk: all its nodes are free -/
theorem smallInsertChunks_fresh (ns mem size : Nat) :
    ∀ c ∈ (smallInsertChunks ns mem size).1,
      c.capacity = c.noNodes ∧ c.free = List.range c.noNodes ∧ c.noNodes < 256 := by
  unfold smallInsertChunks
  simp only
  intro c hc
  split at hc
  · simp only [List.mem_append, List.mem_map, List.mem_range, List.mem_singleton] at hc
    rcases hc with ⟨i, _, rfl⟩ | rfl <;> exact Chunk.make_inv _ _ _
  · simp only [List.mem_map, List.mem_range] at hc
    obtain ⟨i, _, rfl⟩ := hc
    exact Chunk.make_inv _ _ _

theorem smallListMinBlockSize_toNat (ns n : BitVec 64) (h1 : 32 + 255 * ns.toNat + 7 < 2 ^ 64)
    (h2 : (smallChunkCount n).toNat * smallStride ns.toNat < 2 ^ 64) :
    (smallListMinBlockSize ns n).toNat = (smallChunkCount n).toNat * smallStride ns.toNat := by
  unfold smallListMinBlockSize
  rw [BitVec.toNat_mul, smallPaddedChunkSize_eq_stride ns h1, Nat.mod_eq_of_lt h2]

/-- the explicit bound `ns ≤ 2^32`, `n ≤ 2^24` excludes overflow of `min_block_size` -/
theorem small_noOverflow (ns n : BitVec 64) (hns : ns.toNat ≤ 2 ^ 32) (hn : n.toNat ≤ 2 ^ 24) :
    32 + 255 * ns.toNat + 7 < 2 ^ 64 ∧ (smallChunkCount n).toNat * smallStride ns.toNat < 2 ^ 64 := by
  have h1 : 32 + 255 * ns.toNat + 7 < 2 ^ 64 := by omega
  refine ⟨h1, ?_⟩
  have hs : smallStride ns.toNat ≤ 2 ^ 41 := by
    rw [smallStride_eq _ (by omega)]; omega
  have hc : (smallChunkCount n).toNat ≤ 2 ^ 17 := by
    have := (smallChunkCount_spec n).2; omega
  calc (smallChunkCount n).toNat * smallStride ns.toNat ≤ 2 ^ 17 * 2 ^ 41 := Nat.mul_le_mul hc hs
    _ < 2 ^ 64 := by decide

/-! ### arena / stack -/

theorem Blk.usable_size (base s : Nat) : (Blk.usable ⟨base, implOff + s⟩).size = s := by
  unfold Blk.usable; simp

theorem Blk.usable_base (base s : Nat) : (Blk.usable ⟨base, s⟩).base = base + 16 := by
  unfold Blk.usable; simp [implOff_eq16]

theorem implementationOffset_toNat : implementationOffset.toNat = 16 := by decide

end MemVerif.Model
