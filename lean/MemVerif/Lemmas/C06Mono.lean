import MemVerif.Lemmas.C06Base
/-! Robust monotonicity invariant of `memory_stack` histories; `marker_monotone`. -/
namespace MemVerif.Model

/-- robust monotonicity relation between a state and a later state of the same scope level -/
structure Mono (s r : MemStack) : Prop where
  cached : r.arena.isCached = true
  ext : ∃ extra, r.arena.used = extra ++ s.arena.used ∧ (extra = [] → s.cur ≤ r.cur)

theorem Mono.refl {s : MemStack} (h : s.arena.isCached = true) : Mono s s :=
  ⟨h, [], rfl, fun _ => Nat.le_refl _⟩

theorem Mono.trans {s t r : MemStack} (h1 : Mono s t) (h2 : Mono t r) : Mono s r := by
  obtain ⟨e1, hu1, hc1⟩ := h1.ext
  obtain ⟨e2, hu2, hc2⟩ := h2.ext
  refine ⟨h2.cached, e2 ++ e1, by rw [hu2, hu1, List.append_assoc], fun h => ?_⟩
  have h1' : e1 = [] := (List.append_eq_nil_iff.mp h).2
  have h2' : e2 = [] := (List.append_eq_nil_iff.mp h).1
  exact Nat.le_trans (hc1 h1') (hc2 h2')

theorem mono_alloc (cfg : Cfg) (s : MemStack) (hc : s.arena.isCached = true) (size align : Nat) (x : Option Nat) :
    Mono s (s.allocate cfg size align [x]).1 := by
  rw [allocate_eq]
  split
  · exact Mono.refl hc
  · exact ⟨hc, [], rfl, fun _ => by simp only [bumpCur]; omega⟩
  · have h := arena_alloc_robust s.arena x
    split
    · exact Mono.refl hc
    · rename_i a e ev env' heq
      rw [heq] at h
      exact ⟨by simp only [h.2, hc], [], h.1, fun _ => Nat.le_refl _⟩
    · rename_i a b ev env' heq
      rw [heq] at h
      obtain ⟨h1, blk, h2⟩ := h
      exact ⟨by simp only [h1, hc], [blk], h2, fun h => by simp at h⟩

theorem mono_try (cfg : Cfg) (s : MemStack) (hc : s.arena.isCached = true) (size align : Nat) :
    Mono s (s.tryAllocate cfg size align).1 := by
  unfold MemStack.tryAllocate
  split
  · exact Mono.refl hc
  · split
    · exact Mono.refl hc
    · rename_i p c heq
      refine ⟨hc, [], rfl, fun _ => ?_⟩
      show s.cur ≤ c
      unfold fixedAllocate at heq
      split at heq
      · simp at heq
      · simp only [] at heq
        split at heq
        · simp at heq
        · simp only [Option.some.injEq, Prod.mk.injEq] at heq
          omega

theorem mono_unwind (cfg : Cfg) (t r : MemStack) (m : Marker) (hm : t.top = some m) (h : Mono t r) :
    Mono t (r.unwind cfg m).1 := by
  obtain ⟨extra, hu, hcur⟩ := h.ext
  obtain ⟨h1, _, h2⟩ := unwind_robust cfg t r m hm h.cached extra hu hcur
  exact ⟨h1, h2⟩

mutual
theorem mono_op (cfg : Cfg) (e : EnvS) : ∀ (op : SOp) (s : MemStack) (k : Nat), s.arena.isCached = true →
    Mono s (runOp cfg e s k op).st
  | .alloc size align, s, k, hc => by
    simp only [runOp]
    exact mono_alloc cfg s hc size align (e k)
  | .tryAlloc size align, s, k, hc => by
    simp only [runOp]
    exact mono_try cfg s hc size align
  | .scope ops, s, k, hc => by
    simp only [runOp]
    split
    · exact Mono.refl hc
    · rename_i m hm
      exact mono_unwind cfg s _ m hm (mono_ops cfg e ops s k hc)
theorem mono_ops (cfg : Cfg) (e : EnvS) : ∀ (ops : List SOp) (s : MemStack) (k : Nat), s.arena.isCached = true →
    Mono s (runOps cfg e s k ops).st
  | [], s, k, hc => by
    simp only [runOps]
    exact Mono.refl hc
  | op :: ops, s, k, hc => by
    simp only [runOps]
    have h1 := mono_op cfg e op s k hc
    exact h1.trans (mono_ops cfg e ops _ _ h1.cached)
end

theorem marker_monotone' (cfg : Cfg) (e : EnvS) (s : MemStack) (hs : s.Inv) (k : Nat) (ops : List SOp)
    (m m' : Marker)
    (hm : s.top = some m) (hm' : (runOps cfg e s k ops).st.top = some m') : m.le m' = true := by
  have h := mono_ops cfg e ops s k hs.cached
  obtain ⟨extra, hu, hcur⟩ := h.ext
  obtain ⟨hne, hidx, htop, _⟩ := top_eq hm
  obtain ⟨_, hidx', htop', _⟩ := top_eq hm'
  rw [Marker.le_iff, hidx, hidx', htop, htop', hu, List.length_append]
  have hlen1 : s.arena.used.length ≥ 1 := by
    cases h : s.arena.used with
    | nil => exact absurd h hne
    | cons => simp
  by_cases h0 : extra = []
  · have := hcur h0
    subst h0
    simp; omega
  · have : extra.length ≠ 0 := fun h => h0 (List.eq_nil_of_length_eq_zero h)
    omega
end MemVerif.Model
