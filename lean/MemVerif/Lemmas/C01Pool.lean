import MemVerif.Lemmas.C01Inv
/-!
C01, pool level: every `memory_pool` operation preserves the invariant (`PInv`), the arena's used-block list only
grows, and the history theorem `GPool.run_inv`.
-/
namespace MemVerif.Model
open MemVerif.Gen

/-- the pool's list is an unordered free list of node size `ns` satisfying `ListInv` -/
def PInv (ns : Nat) (p : Pool) (live : List (Nat × Nat)) : Prop :=
  ∃ l, p.list = .free l ∧ l.ns = ns ∧ ListInv l p.arena.used live

/-- **The C01 invariant** of an instrumented pool -/
def GInv (g : GPool) : Prop := PInv g.p.nodeSize g.p g.live

/-- the used-block list is unchanged or has one more block on top -/
def Ext (u u' : List Blk) : Prop := u' = u ∨ ∃ b, u' = b :: u

theorem Ext.refl (u : List Blk) : Ext u u := Or.inl rfl
theorem Ext.suffix {u u' : List Blk} (h : Ext u u') : u <:+ u' := by
  rcases h with rfl | ⟨b, rfl⟩
  · exact List.suffix_refl _
  · exact List.suffix_cons _ _

/-! ### arena -/

theorem Arena.allocateBlock_ok {a a' : Arena} {env env' : List (Option Nat)} {ub : Blk} {ev : List UpEv}
    (h : a.allocateBlock env = .ok a' ub ev env') : ∃ b, a'.used = b :: a.used ∧ ub = b.usable := by
  unfold Arena.allocateBlock at h
  split at h
  · cases h; exact ⟨_, rfl, rfl⟩
  · cases hs : a.src.allocateBlock env <;> rw [hs] at h <;> cases h
    exact ⟨_, rfl, rfl⟩

theorem Arena.allocateBlock_fail {a a' : Arena} {env env' : List (Option Nat)} {e : Exn} {ev : List UpEv}
    (h : a.allocateBlock env = .fail a' e ev env') : a'.used = a.used := by
  unfold Arena.allocateBlock at h
  split at h
  · cases h
  · cases hs : a.src.allocateBlock env <;> rw [hs] at h <;> cases h
    rfl

/-! ### allocate_block -/

theorem Pool.allocateBlock_free (cfg : Cfg) (p : Pool) (env : List (Option Nat)) (l : FreeList)
    (hl : p.list = .free l) :
    p.allocateBlock cfg env =
      match p.arena.allocateBlock env with
      | .envMissing => ⟨p, .envMissing, []⟩
      | .fail a e ev _ => ⟨{ p with arena := a }, .throws e, ev⟩
      | .ok a b ev _ =>
        match l.insert b.base b.size with
        | some l' => ⟨{ p with arena := a, list := .free l' }, .done, ev⟩
        | none => ⟨{ p with arena := a }, .crash, ev⟩ := by
  unfold Pool.allocateBlock
  rw [hl]
  cases p.arena.allocateBlock env with
  | envMissing => rfl
  | fail a e ev env' => rfl
  | ok a b ev env' =>
    simp only [AnyList.insert]
    cases l.insert b.base b.size <;> rfl

theorem Pool.allocateBlock_ext (cfg : Cfg) (p : Pool) (env : List (Option Nat)) :
    Ext p.arena.used (p.allocateBlock cfg env).st.arena.used := by
  unfold Pool.allocateBlock
  cases h : p.arena.allocateBlock env with
  | envMissing => exact Ext.refl _
  | fail a e ev env' => exact Or.inl (Arena.allocateBlock_fail h)
  | ok a b ev env' =>
    obtain ⟨blk, h1, _⟩ := Arena.allocateBlock_ok h
    simp only
    cases p.list.insert cfg b.base b.size <;> exact Or.inr ⟨blk, h1⟩

theorem Pool.allocateBlock_inv {ns : Nat} {p : Pool} {live : List (Nat × Nat)} (cfg : Cfg) (env : List (Option Nat))
    (h : PInv ns p live) (hb : BlocksOk (p.allocateBlock cfg env).st.arena.used) :
    PInv ns (p.allocateBlock cfg env).st live ∧ (∀ a, (p.allocateBlock cfg env).out ≠ .ok a) := by
  obtain ⟨l, hl, hns, hI⟩ := h
  have hsub := (Pool.allocateBlock_ext cfg p env).suffix.subset
  rw [Pool.allocateBlock_free cfg p env l hl] at hb hsub ⊢
  cases h : p.arena.allocateBlock env with
  | envMissing => exact ⟨⟨l, hl, hns, hI⟩, by simp⟩
  | fail a e ev env' =>
    simp only [h] at hb hsub ⊢
    exact ⟨⟨l, hl, hns, hI.mono hb (fun b hb => hsub hb)⟩, by simp⟩
  | ok a b ev env' =>
    simp only [h] at hb hsub ⊢
    obtain ⟨blk, h1, rfl⟩ := Arena.allocateBlock_ok h
    cases hins : l.insert blk.usable.base blk.usable.size with
    | none =>
      simp only [hins] at hb hsub ⊢
      exact ⟨⟨l, hl, hns, hI.mono hb (fun b hb => hsub hb)⟩, by simp⟩
    | some l' =>
      simp only [hins] at hb hsub ⊢
      rw [h1] at hb
      obtain ⟨hI', hns'⟩ := hI.insert hb hins
      exact ⟨⟨l', rfl, hns'.trans hns, h1 ▸ hI'⟩, by simp⟩

/-! ### taking from / giving to the list, at pool level -/

theorem PInv.alloc {ns : Nat} {p : Pool} {live : List (Nat × Nat)} (h : PInv ns p live) {l : AnyList} {a bytes : Nat}
    (hb : bytes ≤ ns) (ha : p.list.allocate = some (l, a)) : PInv ns { p with list := l } ((a, bytes) :: live) := by
  obtain ⟨fl, hl, hns, hI⟩ := h
  rw [hl] at ha
  simp only [AnyList.allocate] at ha
  cases hal : fl.allocate with
  | none => simp [hal] at ha
  | some r =>
    obtain ⟨fl', x⟩ := r
    simp only [hal, Option.map_some, Option.some.injEq, Prod.mk.injEq] at ha
    obtain ⟨rfl, rfl⟩ := ha
    obtain ⟨hI', hns'⟩ := FreeList.allocate_inv hI (hns ▸ hb) hal
    exact ⟨fl', rfl, hns'.trans hns, hI'⟩

theorem PInv.allocBytes {ns : Nat} {p : Pool} {live : List (Nat × Nat)} (h : PInv ns p live) {l : AnyList}
    {a bytes : Nat} (ha : p.list.allocateBytes bytes = some (l, some a)) :
    PInv ns { p with list := l } ((a, bytes) :: live) := by
  obtain ⟨fl, hl, hns, hI⟩ := h
  rw [hl] at ha
  simp only [AnyList.allocateBytes] at ha
  cases hal : fl.allocateBytes bytes with
  | none => simp [hal] at ha
  | some r =>
    obtain ⟨fl', x⟩ := r
    simp only [hal, Option.map_some, Option.some.injEq, Prod.mk.injEq] at ha
    obtain ⟨rfl, rfl⟩ := ha
    obtain ⟨hI', hns'⟩ := FreeList.allocateBytes_inv hI hal
    exact ⟨fl', rfl, hns'.trans hns, hI'⟩

/-- postcondition of an allocation function: a returned address is entered in the ledger with `bytes` -/
def Post (ns : Nat) (live : List (Nat × Nat)) (bytes : Nat) (r : PRes Pool) : Prop :=
  match r.out with
  | .ok a => PInv ns r.st ((a, bytes) :: live)
  | _ => PInv ns r.st live

theorem Post.of_not_ok {ns : Nat} {live : List (Nat × Nat)} {bytes : Nat} {r : PRes Pool}
    (h : PInv ns r.st live) (hn : ∀ a, r.out ≠ .ok a) : Post ns live bytes r := by
  unfold Post
  split
  · rename_i a ha; exact absurd ha (hn a)
  · exact h

/-! ### allocate_node / try_allocate_node -/

theorem Pool.allocateNode_post {ns : Nat} {p : Pool} {live : List (Nat × Nat)} (cfg : Cfg) (env : List (Option Nat))
    (h : PInv ns p live) (hb : BlocksOk (p.allocateNode cfg env).st.arena.used) :
    Post ns live ns (p.allocateNode cfg env) := by
  unfold Pool.allocateNode at hb ⊢
  simp only at hb ⊢
  by_cases hemp : p.list.empty = true
  · simp only [hemp, if_true] at hb ⊢
    have hblk := Pool.allocateBlock_inv (ns := ns) (live := live) cfg env h
    generalize p.allocateBlock cfg env = r at hb hblk ⊢
    split
    · rename_i hdone
      simp only [hdone] at hb
      split
      · rename_i hnone
        simp only [hnone] at hb
        exact Post.of_not_ok (hblk hb).1 (by simp)
      · rename_i l a hal
        simp only [hal] at hb
        exact (hblk hb).1.alloc (Nat.le_refl _) hal
    · rename_i hnd
      split at hb
      · rename_i hdone; exact absurd hdone hnd
      · exact Post.of_not_ok (hblk hb).1 (hblk hb).2
  · simp only [hemp] at hb ⊢
    simp only [Bool.false_eq_true, if_false] at hb ⊢
    split
    · exact Post.of_not_ok h (by simp)
    · rename_i l a hal
      exact h.alloc (Nat.le_refl _) hal

theorem Pool.tryAllocateNode_post {ns : Nat} {p : Pool} {live : List (Nat × Nat)} (h : PInv ns p live) :
    Post ns live ns p.tryAllocateNode := by
  unfold Pool.tryAllocateNode
  split
  · exact Post.of_not_ok h (by simp)
  · split
    · exact Post.of_not_ok h (by simp)
    · rename_i l a hal
      exact h.alloc (Nat.le_refl _) hal

/-! ### arrays -/

theorem Pool.allocateArrayBytes_post {ns : Nat} {p : Pool} {live : List (Nat × Nat)} (cfg : Cfg) (bytes : Nat)
    (env : List (Option Nat)) (h : PInv ns p live) (hb : BlocksOk (p.allocateArrayBytes cfg bytes env).st.arena.used) :
    Post ns live bytes (p.allocateArrayBytes cfg bytes env) := by
  unfold Pool.allocateArrayBytes at hb ⊢
  simp only at hb ⊢
  have hf : ∀ l a, (if p.list.empty = true then some (p.list, none) else p.list.allocateBytes bytes) = some (l, some a) →
      p.list.allocateBytes bytes = some (l, some a) := by
    intro l a
    split
    · simp
    · exact id
  generalize (if p.list.empty = true then some (p.list, none) else p.list.allocateBytes bytes) = first at hb hf ⊢
  split
  · exact Post.of_not_ok h (by simp)
  · rename_i l a
    exact h.allocBytes (hf l a rfl)
  · simp only at hb
    have hblk := Pool.allocateBlock_inv (ns := ns) (live := live) cfg env h
    generalize p.allocateBlock cfg env = r at hb hblk ⊢
    split
    · rename_i hdone
      simp only [hdone] at hb
      split
      · rename_i hnone
        simp only [hnone] at hb
        exact Post.of_not_ok (hblk hb).1 (by simp)
      · rename_i l a hal
        simp only [hal] at hb
        exact (hblk hb).1.allocBytes hal
      · rename_i hal
        simp only [hal] at hb
        exact Post.of_not_ok (hblk hb).1 (by simp)
    · rename_i hnd
      split at hb
      · rename_i hdone; exact absurd hdone hnd
      · exact Post.of_not_ok (hblk hb).1 (hblk hb).2

theorem Pool.allocateArray_post {ns : Nat} {p : Pool} {live : List (Nat × Nat)} (cfg : Cfg) (n : Nat)
    (env : List (Option Nat)) (h : PInv ns p live) (hb : BlocksOk (p.allocateArray cfg n env).st.arena.used) :
    Post ns live (mul64 n ns) (p.allocateArray cfg n env) := by
  have hns : p.nodeSize = ns := by
    obtain ⟨l, hl, hns, _⟩ := h
    simp [Pool.nodeSize, hl, AnyList.nodeSize, hns]
  unfold Pool.allocateArray at hb ⊢
  simp only [hns] at hb ⊢
  generalize (if p.arrays = true then p.nextCapacity else 0) = supported at hb ⊢
  by_cases hle : mul64 n ns > supported
  · rw [if_pos hle] at hb ⊢
    exact Post.of_not_ok h (by simp)
  · rw [if_neg hle] at hb ⊢
    exact Pool.allocateArrayBytes_post cfg _ env h hb

theorem Pool.tryAllocateArrayBytes_post {ns : Nat} {p : Pool} {live : List (Nat × Nat)} (bytes : Nat)
    (h : PInv ns p live) : Post ns live bytes (p.tryAllocateArrayBytes bytes) := by
  unfold Pool.tryAllocateArrayBytes
  split
  · exact Post.of_not_ok h (by simp)
  · split
    · exact Post.of_not_ok h (by simp)
    · rename_i l a hal
      exact h.allocBytes hal
    · exact Post.of_not_ok h (by simp)

/-! ### releases -/

theorem Pool.deallocateNode_inv {ns : Nat} {p : Pool} {live : List (Nat × Nat)} (cfg : Cfg) (h : PInv ns p live)
    {i a b : Nat} (hi : live[i]? = some (a, b)) (hb : b ≤ ns) :
    PInv ns (p.deallocateNode cfg a).st (live.eraseIdx i) ∧ (p.deallocateNode cfg a).out = .done := by
  obtain ⟨l, hl, hns, hI⟩ := h
  unfold Pool.deallocateNode
  rw [hl]
  simp only [AnyList.deallocate, liftList]
  exact ⟨⟨_, rfl, hns, FreeList.deallocate_inv hI hi (hns ▸ hb)⟩, trivial⟩

theorem Pool.deallocateBytes_inv {ns : Nat} {p : Pool} {live : List (Nat × Nat)} (cfg : Cfg) (h : PInv ns p live)
    {i a b : Nat} (hi : live[i]? = some (a, b)) (hb : ns < b) :
    PInv ns (p.deallocateBytes cfg a b).st (live.eraseIdx i) ∧ (p.deallocateBytes cfg a b).out = .done := by
  obtain ⟨l, hl, hns, hI⟩ := h
  obtain ⟨l', hd, hI', hns'⟩ := FreeList.deallocateBytes_inv hI hi (hns ▸ hb)
  unfold Pool.deallocateBytes
  rw [hl]
  simp only [AnyList.deallocateBytes, hd, liftList]
  exact ⟨⟨_, rfl, hns'.trans hns, hI'⟩, trivial⟩

/-! ### the used-block list only grows (no invariant needed) -/

theorem Pool.allocateNode_ext (cfg : Cfg) (p : Pool) (env : List (Option Nat)) :
    Ext p.arena.used (p.allocateNode cfg env).st.arena.used := by
  unfold Pool.allocateNode
  simp only
  by_cases hemp : p.list.empty = true
  · simp only [hemp, if_true]
    have := Pool.allocateBlock_ext cfg p env
    generalize p.allocateBlock cfg env = r at this ⊢
    split
    · split <;> exact this
    · exact this
  · simp only [hemp]
    simp only [Bool.false_eq_true, if_false]
    split <;> exact Ext.refl _

theorem Pool.allocateArrayBytes_ext (cfg : Cfg) (p : Pool) (bytes : Nat) (env : List (Option Nat)) :
    Ext p.arena.used (p.allocateArrayBytes cfg bytes env).st.arena.used := by
  unfold Pool.allocateArrayBytes
  simp only
  split
  · exact Ext.refl _
  · exact Ext.refl _
  · have := Pool.allocateBlock_ext cfg p env
    generalize p.allocateBlock cfg env = r at this ⊢
    split
    · split <;> exact this
    · exact this

theorem Pool.allocateArray_ext (cfg : Cfg) (p : Pool) (n : Nat) (env : List (Option Nat)) :
    Ext p.arena.used (p.allocateArray cfg n env).st.arena.used := by
  unfold Pool.allocateArray
  simp only
  generalize (if p.arrays = true then p.nextCapacity else 0) = supported
  split
  · exact Ext.refl _
  · exact Pool.allocateArrayBytes_ext cfg p _ env

theorem Pool.tryAllocateNode_arena (p : Pool) : p.tryAllocateNode.st.arena = p.arena := by
  unfold Pool.tryAllocateNode
  split
  · rfl
  · split <;> rfl

theorem Pool.tryAllocateArrayBytes_arena (p : Pool) (bytes : Nat) :
    (p.tryAllocateArrayBytes bytes).st.arena = p.arena := by
  unfold Pool.tryAllocateArrayBytes
  split
  · rfl
  · split <;> rfl

theorem liftList_arena (p : Pool) (r : ListRes AnyList) : (liftList p r).st.arena = p.arena := by
  cases r <;> rfl

theorem GPool.step_ext (cfg : Cfg) (e : EnvS) (g : GPool) (k : Nat) (op : POp) :
    Ext g.p.arena.used (g.step cfg e k op).1.p.arena.used := by
  unfold GPool.step
  cases op with
  | allocNode => exact Pool.allocateNode_ext cfg g.p _
  | tryAllocNode => simp only [GPool.exec, Pool.tryAllocateNode_arena]; exact Ext.refl _
  | allocArray n => exact Pool.allocateArray_ext cfg g.p n _
  | tryAllocArray n => simp only [GPool.exec, Pool.tryAllocateArrayBytes_arena]; exact Ext.refl _
  | dealloc i =>
    simp only [GPool.exec]
    split
    · exact Ext.refl _
    · simp only
      split <;> (simp only [Pool.deallocateBytes, Pool.deallocateNode, liftList_arena]; exact Ext.refl _)

/-- **Monotonicity of the used-block list**: an uncached pool arena never releases a block before its destruction,
so every block in use at the start of a history is still in use at its end (as a suffix: newer blocks on top). -/
theorem GPool.run_used_suffix (cfg : Cfg) (e : EnvS) (ops : List POp) :
    ∀ (g : GPool) (k : Nat), g.p.arena.used <:+ (g.run cfg e k ops).1.p.arena.used := by
  induction ops with
  | nil => intro g k; exact List.suffix_refl _
  | cons op ops ih =>
    intro g k
    exact (GPool.step_ext cfg e g k op).suffix.trans (ih _ _)

/-! ### one step, a whole history -/

/-- contract of an operation: the byte count `n * node_size()` of an `allocate_array(n)` request is a `size_t`
value (the library computes it in `size_t` without an overflow check) -/
def POp.Fits (ns : Nat) : POp → Prop
  | .allocArray n => n * ns < 2 ^ 64
  | _ => True

instance (ns : Nat) (op : POp) : Decidable (op.Fits ns) := by
  cases op <;> unfold POp.Fits <;> exact inferInstance

theorem mul64_eq_of_lt {a b : Nat} (h : a * b < 2 ^ 64) : mul64 a b = a * b := by
  unfold mul64
  rw [BitVec.toNat_mul, BitVec.toNat_ofNat, BitVec.toNat_ofNat, ← Nat.mul_mod, Nat.mod_eq_of_lt h]

theorem Post.ledger {ns : Nat} {live : List (Nat × Nat)} {bytes : Nat} {r : PRes Pool} (h : Post ns live bytes r) :
    PInv ns r.st (match r.out with | .ok a => (a, bytes) :: live | _ => live) := by
  unfold Post at h
  cases hr : r.out <;> simp only [hr] at h ⊢ <;> exact h

theorem PInv.nodeSize {ns : Nat} {p : Pool} {live : List (Nat × Nat)} (h : PInv ns p live) : p.nodeSize = ns := by
  obtain ⟨l, hl, hns, _⟩ := h
  simp [Pool.nodeSize, hl, AnyList.nodeSize, hns]

theorem GPool.step_inv {ns : Nat} (cfg : Cfg) (e : EnvS) (g : GPool) (k : Nat) (op : POp)
    (h : PInv ns g.p g.live) (hf : op.Fits ns) (hb : BlocksOk (g.step cfg e k op).1.p.arena.used) :
    PInv ns (g.step cfg e k op).1.p (g.step cfg e k op).1.live := by
  have hns := h.nodeSize
  unfold GPool.step at hb ⊢
  cases op with
  | allocNode =>
    simp only [GPool.exec, GPool.ledger, hns] at hb ⊢
    exact (Pool.allocateNode_post cfg _ h hb).ledger
  | tryAllocNode =>
    simp only [GPool.exec, GPool.ledger, hns] at hb ⊢
    exact (Pool.tryAllocateNode_post h).ledger
  | allocArray n =>
    simp only [GPool.exec, GPool.ledger, hns] at hb ⊢
    have := (Pool.allocateArray_post cfg n _ h hb).ledger
    rwa [mul64_eq_of_lt hf] at this
  | tryAllocArray n =>
    simp only [GPool.exec, GPool.ledger, hns] at hb ⊢
    exact (Pool.tryAllocateArrayBytes_post _ h).ledger
  | dealloc i =>
    simp only [GPool.exec, GPool.ledger, hns] at hb ⊢
    cases hi : g.live[i]? with
    | none =>
      simp only
      rw [List.eraseIdx_of_length_le (by simpa using hi)]
      exact h
    | some ab =>
      obtain ⟨a, b⟩ := ab
      simp only
      by_cases hgt : b > ns
      · rw [if_pos hgt]
        exact (Pool.deallocateBytes_inv cfg h hi hgt).1
      · rw [if_neg hgt]
        exact (Pool.deallocateNode_inv cfg h hi (by omega)).1

theorem GPool.step_nodeSize {ns : Nat} {cfg : Cfg} {e : EnvS} {g : GPool} {k : Nat} {op : POp}
    (h : PInv ns (g.step cfg e k op).1.p (g.step cfg e k op).1.live) : (g.step cfg e k op).1.p.nodeSize = ns :=
  h.nodeSize

/-- **Preservation over a history.** The environment's part is the hypothesis on the *final* used-block list
(which, by `GPool.run_used_suffix`, contains every block the pool ever held during the history). -/
theorem GPool.run_inv {ns : Nat} (cfg : Cfg) (e : EnvS) (ops : List POp) :
    ∀ (g : GPool) (k : Nat), PInv ns g.p g.live → (∀ op ∈ ops, op.Fits ns) →
      BlocksOk (g.run cfg e k ops).1.p.arena.used →
      PInv ns (g.run cfg e k ops).1.p (g.run cfg e k ops).1.live := by
  induction ops with
  | nil => intro g k h _ _; exact h
  | cons op ops ih =>
    intro g k h hf hb
    have hstep := GPool.step_inv cfg e g k op h (hf op (by simp))
      (hb.suffix (GPool.run_used_suffix cfg e ops _ _))
    exact ih _ _ hstep (fun o ho => hf o (by simp [ho])) hb

theorem GPool.run_append (cfg : Cfg) (e : EnvS) (ops1 ops2 : List POp) :
    ∀ (g : GPool) (k : Nat), g.run cfg e k (ops1 ++ ops2) =
      (g.run cfg e k ops1).1.run cfg e (g.run cfg e k ops1).2 ops2 := by
  induction ops1 with
  | nil => intro g k; rfl
  | cons op ops ih => intro g k; exact ih _ _

/-- what EnvOk says when a block is acquired: it is well formed and disjoint from every block already in use -/
theorem BlocksOk_cons (b : Blk) (used : List Blk) :
    BlocksOk (b :: used) ↔ b.Wf ∧ (∀ c ∈ used, b.Disj c) ∧ BlocksOk used := by
  unfold BlocksOk
  simp only [List.mem_cons, forall_eq_or_imp, List.pairwise_cons]
  constructor
  · rintro ⟨⟨h1, h2⟩, h3, h4⟩; exact ⟨h1, h3, h2, h4⟩
  · rintro ⟨h1, h3, h2, h4⟩; exact ⟨⟨h1, h2⟩, h3, h4⟩

/-! ### construction -/

theorem intrusiveNodeSize_pos (ns : Nat) : 0 < intrusiveNodeSize ns := by
  unfold intrusiveNodeSize
  have : C.free_min_element_size.toNat = 8 := by decide
  rw [this]; split <;> omega

theorem intrusiveNodeSize_ge (ns : Nat) : ns ≤ intrusiveNodeSize ns ∧ 8 ≤ intrusiveNodeSize ns := by
  unfold intrusiveNodeSize
  have : C.free_min_element_size.toNat = 8 := by decide
  rw [this]; split <;> omega

theorem ListInv.new (nodeSize : Nat) : ListInv (FreeList.new nodeSize) [] [] :=
  { nsPos := intrusiveNodeSize_pos nodeSize
    cap := rfl
    blocks := ⟨by simp, List.Pairwise.nil⟩
    apart := List.Pairwise.nil
    freeIn := by intro x hx; cases hx
    liveIn := by intro x hx; cases hx }

/-- the constructor establishes the invariant (whatever its outcome), given a well-formed first block -/
theorem Pool.create_inv (cfg : Cfg) (src : Src) (nodeSize : Nat) (arrays : Bool) (env : List (Option Nat))
    (hb : BlocksOk (Pool.create cfg src (.free (FreeList.new nodeSize)) arrays env).st.arena.used) :
    PInv (intrusiveNodeSize nodeSize) (Pool.create cfg src (.free (FreeList.new nodeSize)) arrays env).st [] := by
  unfold Pool.create at hb ⊢
  exact (Pool.allocateBlock_inv cfg env ⟨FreeList.new nodeSize, rfl, rfl, ListInv.new nodeSize⟩ hb).1

/-! ### what the invariant says about bytes -/

/-- live byte ranges are pairwise disjoint -/
theorem ListInv.live_disjoint {l : FreeList} {used : List Blk} {live : List (Nat × Nat)} (h : ListInv l used live) :
    live.Pairwise fun r s => r.1 + r.2 ≤ s.1 ∨ s.1 + s.2 ≤ r.1 := by
  have h1 := (List.pairwise_append.mp h.apart).2.1
  unfold liveCells at h1
  have h2 := (List.pairwise_flatMap.mp h1).2
  refine h2.imp ?_
  intro r s hrs
  have := apart_runs h.nsPos (cellsOf_pos l.ns r.2 h.nsPos) (cellsOf_pos l.ns s.2 h.nsPos) hrs
  have hr := le_cellsOf_mul l.ns r.2 h.nsPos
  have hs := le_cellsOf_mul l.ns s.2 h.nsPos
  omega

/-- every live byte range lies in the usable part of one used block -/
theorem ListInv.live_inside {l : FreeList} {used : List Blk} {live : List (Nat × Nat)} (h : ListInv l used live) :
    ∀ r ∈ live, ∃ b ∈ used, b.usable.base ≤ r.1 ∧ r.1 + r.2 ≤ b.usable.base + b.usable.size := by
  intro r hr
  obtain ⟨b, hb, h1, h2⟩ := h.liveIn r hr
  have hw := h.blocks.1 b hb
  have := le_cellsOf_mul l.ns r.2 h.nsPos
  unfold Blk.Wf at hw
  refine ⟨b, hb, ?_⟩
  unfold Blk.usable
  simp only
  omega

/-- frame: a free cell (where the allocator keeps its link word) overlaps no live byte range -/
theorem ListInv.frame {l : FreeList} {used : List Blk} {live : List (Nat × Nat)} (h : ListInv l used live) :
    ∀ x ∈ l.nodes, ∀ r ∈ live, x + l.ns ≤ r.1 ∨ r.1 + r.2 ≤ x := by
  intro x hx r hr
  have h1 := (List.pairwise_append.mp h.apart).2.2 x hx
  have := apart_run (cellsOf_pos l.ns r.2 h.nsPos) (fun y hy => h1 y (List.mem_flatMap.mpr ⟨r, hr, hy⟩))
  have hr := le_cellsOf_mul l.ns r.2 h.nsPos
  omega

/-- free cells are pairwise disjoint and inside used blocks too -/
theorem ListInv.free_cells {l : FreeList} {used : List Blk} {live : List (Nat × Nat)} (h : ListInv l used live) :
    l.nodes.Pairwise (Apart l.ns) ∧
      ∀ x ∈ l.nodes, ∃ b ∈ used, b.usable.base ≤ x ∧ x + l.ns ≤ b.usable.base + b.usable.size := by
  refine ⟨(List.pairwise_append.mp h.apart).1, ?_⟩
  intro x hx
  obtain ⟨b, hb, h1, h2⟩ := h.freeIn x hx
  have hw := h.blocks.1 b hb
  unfold Blk.Wf at hw
  refine ⟨b, hb, ?_⟩
  unfold Blk.usable
  simp only
  omega

end MemVerif.Model
