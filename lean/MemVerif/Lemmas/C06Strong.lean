import MemVerif.Lemmas.C06Base
/-! Exact bookkeeping invariant of `memory_stack` histories (non-static source, fewer than 2^64 blocks). -/
namespace MemVerif.Model

structure Pre (s : MemStack) : Prop where
  ne : s.arena.used ≠ []
  cached : s.arena.isCached = true
  src : s.arena.src.NonStatic

/-- exact bookkeeping of a run from `s` with result `r` -/
structure Strong (s : MemStack) (r : RunRes) : Prop where
  ok : r.ok = true
  cached : r.st.arena.isCached = true
  leak : r.st.leak = s.leak
  src : SrcStep s.arena.src r.st.arena.src r.acquired.length
  ext : ∃ extra, r.st.arena.used = extra ++ s.arena.used ∧
      extra.reverse ++ r.st.arena.cached = s.arena.cached ++ r.acquired ∧ (extra = [] → s.cur ≤ r.st.cur)

theorem Strong.pre {s : MemStack} {r : RunRes} (hp : Pre s) (h : Strong s r) : Pre r.st := by
  obtain ⟨extra, hu, _, _⟩ := h.ext
  refine ⟨?_, h.cached, h.src.right⟩
  rw [hu]; simp [hp.ne]

theorem Strong.total {s : MemStack} {r : RunRes} (h : Strong s r) :
    r.st.arena.used.length + r.st.arena.cached.length =
      s.arena.used.length + s.arena.cached.length + r.acquired.length := by
  obtain ⟨extra, hu, hc, _⟩ := h.ext
  have h1 := congrArg List.length hu
  have h2 := congrArg List.length hc
  simp only [List.length_append, List.length_reverse] at h1 h2
  omega

theorem strong_nil (s : MemStack) (k : Nat) (hp : Pre s) :
    Strong s { st := s, k := k, outs := [], acquired := [], ok := true } :=
  ⟨rfl, hp.cached, rfl, SrcStep.refl hp.src, [], rfl, by simp, fun _ => Nat.le_refl _⟩

theorem strong_cons {s : MemStack} {r1 r2 : RunRes} (h1 : Strong s r1) (h2 : Strong r1.st r2) :
    Strong s { st := r2.st, k := r2.k, outs := r1.outs ++ r2.outs, acquired := r1.acquired ++ r2.acquired,
               ok := r1.ok && r2.ok } := by
  obtain ⟨e1, hu1, hc1, hm1⟩ := h1.ext
  obtain ⟨e2, hu2, hc2, hm2⟩ := h2.ext
  refine ⟨by simp [h1.ok, h2.ok], h2.cached, by simp [h2.leak, h1.leak], ?_, e2 ++ e1, ?_, ?_, ?_⟩
  · simp only [List.length_append]
    exact h1.src.trans h2.src
  · simp only []; rw [hu2, hu1, List.append_assoc]
  · simp only []
    rw [List.reverse_append, List.append_assoc, hc2, ← List.append_assoc, hc1, List.append_assoc]
  · intro h
    have h1' : e1 = [] := (List.append_eq_nil_iff.mp h).2
    have h2' : e2 = [] := (List.append_eq_nil_iff.mp h).1
    exact Nat.le_trans (hm1 h1') (hm2 h2')

theorem growDec_ne_none (cfg : Cfg) (cur : Nat) {used : List Blk} (h : used ≠ []) (size align : Nat) :
    growDec cfg cur used size align ≠ none := by
  obtain ⟨e, he⟩ := blkEnd_isSome h
  unfold growDec
  rw [he]
  split <;> simp

theorem newBlocks_one (n : Blk) (al : Nat) : newBlocks [.alloc n.size al (some n.base)] = [n] := by
  cases n; rfl

theorem strong_alloc (cfg : Cfg) (e : EnvS) (s : MemStack) (k : Nat) (hp : Pre s) (size align : Nat) :
    Strong s (runOp cfg e s k (.alloc size align)) := by
  simp only [runOp]
  rw [allocate_eq]
  have hg := growDec_ne_none cfg s.cur hp.ne size align
  obtain ⟨⟨src, ic, used, cached⟩, cur, leak⟩ := s
  have hc := hp.cached
  have hns := hp.src
  simp only at hc hns hg ⊢
  subst hc
  cases hgd : growDec cfg cur used size align with
  | none => exact absurd hgd hg
  | some g =>
    cases g with
    | false =>
      exact ⟨by simp, rfl, rfl, SrcStep.refl hns, [], rfl, by simp [newBlocks], fun _ => by simp [bumpCur]; omega⟩
    | true =>
      simp only []
      cases cached with
      | cons c cs =>
        rw [arena_alloc_cache]
        have := finishOut_ne cfg c.usable size align
        exact ⟨by simp [this], rfl, rfl, SrcStep.refl hns, [c], rfl, by simp [newBlocks], fun h => by simp at h⟩
      | nil =>
        rcases arena_alloc_exact src hns used (e k) with ⟨b, h⟩ | ⟨_, h⟩ | ⟨src', n, h, hst⟩
        · rw [h]
          exact ⟨by simp, rfl, rfl, SrcStep.refl hns, [], rfl, by simp [newBlocks], fun _ => Nat.le_refl _⟩
        · rw [h]
          exact ⟨by simp, rfl, rfl, SrcStep.refl hns, [], rfl, by simp [newBlocks], fun _ => Nat.le_refl _⟩
        · rw [h]
          have := finishOut_ne cfg n.usable size align
          exact ⟨by simp [this], rfl, rfl, by simpa [newBlocks_one] using hst, [n], rfl,
            by simp [newBlocks_one], fun h => by simp at h⟩

theorem try_cases (cfg : Cfg) (s : MemStack) (hne : s.arena.used ≠ []) (size align : Nat) :
    (s.tryAllocate cfg size align).2 ≠ .crash ∧ (s.tryAllocate cfg size align).1.arena = s.arena ∧
      (s.tryAllocate cfg size align).1.leak = s.leak ∧ s.cur ≤ (s.tryAllocate cfg size align).1.cur := by
  unfold MemStack.tryAllocate
  obtain ⟨en, he⟩ := blkEnd_isSome hne
  rw [blockEnd_eq, he]
  simp only []
  cases hfa : fixedAllocate s.cur en size align cfg.fence with
  | none => simp
  | some pc =>
    obtain ⟨p, c⟩ := pc
    refine ⟨by simp, rfl, rfl, ?_⟩
    show s.cur ≤ c
    unfold fixedAllocate at hfa
    split at hfa
    · simp at hfa
    · simp only [] at hfa
      split at hfa
      · simp at hfa
      · simp only [Option.some.injEq, Prod.mk.injEq] at hfa
        omega

theorem strong_try (cfg : Cfg) (e : EnvS) (s : MemStack) (k : Nat) (hp : Pre s) (size align : Nat) :
    Strong s (runOp cfg e s k (.tryAlloc size align)) := by
  simp only [runOp]
  obtain ⟨h1, h2, h3, h4⟩ := try_cases cfg s hp.ne size align
  refine ⟨by simp [h1], by simp only [h2]; exact hp.cached, h3, ?_, [], by simp only [h2]; rfl, by simp [h2],
    fun _ => h4⟩
  simp only [h2]
  exact SrcStep.refl hp.src

/-- exact effect of a whole marker scope -/
structure ScopeRes (s : MemStack) (r : RunRes) : Prop where
  ok : r.ok = true
  cur : r.st.cur = s.cur
  used : r.st.arena.used = s.arena.used
  cached : r.st.arena.cached = s.arena.cached ++ r.acquired
  leak : r.st.leak = s.leak
  isCached : r.st.arena.isCached = true
  src : SrcStep s.arena.src r.st.arena.src r.acquired.length

theorem ScopeRes.strong {s : MemStack} {r : RunRes} (h : ScopeRes s r) : Strong s r :=
  ⟨h.ok, h.isCached, h.leak, h.src, [], h.used, by simp [h.cached], fun _ => by rw [h.cur]; exact Nat.le_refl _⟩

theorem scope_of_inner (cfg : Cfg) (e : EnvS) (s : MemStack) (k : Nat) (ops : List SOp) (hp : Pre s)
    (hin : Strong s (runOps cfg e s k ops))
    (hlen : s.arena.used.length + s.arena.cached.length + (runOps cfg e s k ops).acquired.length < 2 ^ 64) :
    ScopeRes s (runOp cfg e s k (.scope ops)) ∧
      (runOp cfg e s k (.scope ops)).acquired = (runOps cfg e s k ops).acquired ∧
      (runOp cfg e s k (.scope ops)).outs = (runOps cfg e s k ops).outs := by
  obtain ⟨m, hm⟩ := top_of_ne hp.ne
  obtain ⟨extra, hu, hc, hmono⟩ := hin.ext
  have htot := hin.total
  have hue := unwind_exact cfg s (runOps cfg e s k ops).st m hm hin.cached extra hu hmono (by omega)
  simp only [runOp, hm, MemStack.unwind, hue]
  refine ⟨⟨by simp [hin.ok], rfl, rfl, ?_, hin.leak, hin.cached, hin.src⟩, trivial, trivial⟩
  exact hc

theorem scope_proj (cfg : Cfg) (e : EnvS) (s : MemStack) (k : Nat) (ops : List SOp) (hne : s.arena.used ≠ []) :
    (runOp cfg e s k (.scope ops)).acquired = (runOps cfg e s k ops).acquired ∧
    (runOp cfg e s k (.scope ops)).outs = (runOps cfg e s k ops).outs := by
  obtain ⟨m, hm⟩ := top_of_ne hne
  simp only [runOp, hm]
  exact ⟨trivial, trivial⟩

mutual
theorem strong_op (cfg : Cfg) (e : EnvS) : ∀ (op : SOp) (s : MemStack) (k : Nat), Pre s →
    s.arena.used.length + s.arena.cached.length + (runOp cfg e s k op).acquired.length < 2 ^ 64 →
    Strong s (runOp cfg e s k op)
  | .alloc size align, s, k, hp, _ => strong_alloc cfg e s k hp size align
  | .tryAlloc size align, s, k, hp, _ => strong_try cfg e s k hp size align
  | .scope ops, s, k, hp, hlen => by
    rw [(scope_proj cfg e s k ops hp.ne).1] at hlen
    have hin := strong_ops cfg e ops s k hp hlen
    exact (scope_of_inner cfg e s k ops hp hin hlen).1.strong
theorem strong_ops (cfg : Cfg) (e : EnvS) : ∀ (ops : List SOp) (s : MemStack) (k : Nat), Pre s →
    s.arena.used.length + s.arena.cached.length + (runOps cfg e s k ops).acquired.length < 2 ^ 64 →
    Strong s (runOps cfg e s k ops)
  | [], s, k, hp, _ => by
    simp only [runOps]
    exact strong_nil s k hp
  | op :: ops, s, k, hp, hlen => by
    simp only [runOps, List.length_append] at hlen ⊢
    have h1 := strong_op cfg e op s k hp (by omega)
    have h2 := strong_ops cfg e ops (runOp cfg e s k op).st (runOp cfg e s k op).k (h1.pre hp) (by rw [h1.total]; omega)
    exact strong_cons h1 h2
end

theorem scope_res (cfg : Cfg) (e : EnvS) (s : MemStack) (k : Nat) (ops : List SOp) (hp : Pre s)
    (hlen : s.arena.used.length + s.arena.cached.length + (runOps cfg e s k ops).acquired.length < 2 ^ 64) :
    ScopeRes s (runOp cfg e s k (.scope ops)) :=
  (scope_of_inner cfg e s k ops hp (strong_ops cfg e ops s k hp hlen) hlen).1

/-- `scope_restores` under the two extra hypotheses it needs (see the notes in `C06.lean`) -/
theorem scope_restores' (cfg : Cfg) (e : EnvS) (s : MemStack) (hs : s.Inv) (k : Nat) (ops : List SOp)
    (hacq : ∀ b ∈ (runOp cfg e s k (.scope ops)).acquired, b.Wf)
    (hsrc : ∀ c en b, s.arena.src ≠ .static_ c en b)
    (hlen : s.arena.used.length + s.arena.cached.length + (runOp cfg e s k (.scope ops)).acquired.length < 2 ^ 64) :
    let r := runOp cfg e s k (.scope ops)
    r.ok = true ∧ r.st.cur = s.cur ∧ r.st.arena.used = s.arena.used ∧
      r.st.arena.cached = s.arena.cached ++ r.acquired ∧ r.st.leak = s.leak ∧ r.st.Inv := by
  have hp : Pre s := ⟨hs.nonempty, hs.cached, by
    cases h : s.arena.src with
    | static_ c en b => exact absurd h (hsrc c en b)
    | _ => simp [Src.NonStatic]⟩
  rw [(scope_proj cfg e s k ops hp.ne).1] at hlen
  have h := scope_res cfg e s k ops hp hlen
  refine ⟨h.ok, h.cur, h.used, h.cached, h.leak, ?_, h.isCached, ?_, ?_, ?_⟩
  · rw [h.used]; exact hs.nonempty
  · rw [h.used]; exact hs.wfUsed
  · rw [h.cached]
    intro b hb
    rcases List.mem_append.mp hb with hb | hb
    · exact hs.wfCached b hb
    · exact hacq b hb
  · rw [h.used, h.cur]; exact hs.curIn
end MemVerif.Model
