import MemVerif.Lemmas.C04Coll
import MemVerif.Props.C02Pool
/-!
C02 for `memory_pool_collection` over the intrusive free lists, node operations: **every free cell and every live
node of a bucket is aligned to `alignment_for(node size of the bucket)`** — the alignment the collection's traits accept
for that size. Regions given to a bucket start at `max_alignment`-aligned addresses (`fixed_memory_stack::allocate`
with `max_alignment`, `align_offset` in `insert_rest`), cells are at multiples of the node size from there, and
`alignment_for(ns)` divides both `ns` and `max_alignment`.
-/
namespace MemVerif.Model
open MemVerif.Gen MemVerif.Props

/-- `alignment_for(ns)` -/
def alignOfNs (ns : Nat) : Nat := (alignmentFor (BitVec.ofNat 64 ns)).toNat

/-- an intrusive list with a sane node size whose free cells are all aligned for it -/
structure GridList (l : AnyList) : Prop where
  intr : l.Intr
  pos : 0 < l.nodeSize
  lt : l.nodeSize < 2 ^ 64
  cells : ∀ x ∈ l.cells, alignOfNs l.nodeSize ∣ x

theorem blockNodes_aligned {m ns k x : Nat} (h0 : 0 < ns) (hlt : ns < 2 ^ 64) (hm : 16 ∣ m) (hx : x ∈ blockNodes m ns k) :
    alignOfNs ns ∣ x := by
  obtain ⟨j, _, rfl⟩ := mem_blockNodes.mp hx
  obtain ⟨d1, d2⟩ := C02Pool.alignmentFor_dvd ns h0 hlt
  exact Nat.dvd_add (Nat.dvd_trans d2 hm) (Nat.dvd_mul_left_of_dvd d1 j)

theorem AnyList.insert_grid (cfg : Cfg) {l l' : AnyList} (hg : GridList l) {m s : Nat} (hm : 16 ∣ m)
    (h : l.insert cfg m s = .ok l') : GridList l' ∧ l'.nodeSize = l.nodeSize := by
  obtain ⟨hi, h0, hlt, hc⟩ := hg
  cases l with
  | small sl => exact absurd rfl (hi sl.P)
  | free fl =>
    by_cases hk : s / fl.ns = 0
    · simp [AnyList.insert, FreeList.insert, FreeList.insertImpl, hk] at h
    · simp only [AnyList.insert, FreeList.insert, FreeList.insertImpl] at h
      rw [if_neg hk] at h
      simp only [ListRes.ok.injEq] at h
      subst h
      refine ⟨⟨fun P => by simp [AnyList.obj], h0, hlt, ?_⟩, rfl⟩
      intro x hx
      simp only [AnyList.cells, List.mem_append] at hx
      rcases hx with hx | hx
      · exact blockNodes_aligned h0 hlt hm hx
      · exact hc x hx
  | ord ol =>
    simp only [AnyList.insert, OrdList.insert] at h
    split at h
    · rename_i x hx
      split at hx
      · rename_i l1 pa h1
        simp only [ListRes.ok.injEq] at hx h
        subst hx; subst h
        unfold OrdList.insertImpl at h1
        simp only at h1
        split at h1
        · cases h1
        · split at h1
          · cases h1
          · split at h1
            · split at h1
              · cases h1
              · simp only [ListRes.ok.injEq, Prod.mk.injEq] at h1
                obtain ⟨rfl, _⟩ := h1
                refine ⟨⟨fun P => by simp [AnyList.obj], h0, hlt, ?_⟩, rfl⟩
                intro x hx
                simp only [AnyList.cells] at hx
                have hx' := (spliceAt_perm ol _ _).subset hx
                rcases List.mem_append.mp hx' with hx' | hx'
                · exact blockNodes_aligned h0 hlt hm hx'
                · exact hc x hx'
            · cases h1
            · cases h1
            · cases h1
      · cases hx
      · cases hx
    · cases h
    · cases h

theorem OrdList.allocate_shape {ol l' : OrdList} {a : Nat} (h : ol.allocate = some (l', a)) :
    ol.nodes = a :: l'.nodes ∧ l'.ns = ol.ns := by
  unfold OrdList.allocate at h
  split at h
  · cases h
  · rename_i x xs hn
    simp only [Option.some.injEq, Prod.mk.injEq] at h
    obtain ⟨rfl, rfl⟩ := h
    constructor
    · rw [hn]
      split
      · rfl
      · split <;> rfl
    · split
      · rfl
      · split <;> rfl

theorem AnyList.allocate_grid {l l2 : AnyList} (hg : GridList l) {a : Nat} (h : l.allocate = some (l2, a)) :
    GridList l2 ∧ l2.nodeSize = l.nodeSize ∧ alignOfNs l.nodeSize ∣ a := by
  obtain ⟨hi, h0, hlt, hc⟩ := hg
  cases l with
  | small sl => exact absurd rfl (hi sl.P)
  | free fl =>
    simp only [AnyList.allocate, Option.map_eq_some_iff] at h
    obtain ⟨⟨l1, p⟩, h1, h2⟩ := h
    simp only [Prod.mk.injEq] at h2
    obtain ⟨rfl, rfl⟩ := h2
    unfold FreeList.allocate at h1
    split at h1
    · cases h1
    · rename_i x xs hn
      simp only [Option.some.injEq, Prod.mk.injEq] at h1
      obtain ⟨rfl, rfl⟩ := h1
      have hcx : ∀ y ∈ x :: xs, alignOfNs fl.ns ∣ y := by intro y hy; exact hc y (by simpa [AnyList.cells, hn] using hy)
      exact ⟨⟨fun P => by simp [AnyList.obj], h0, hlt, fun y hy => hcx y (List.mem_cons_of_mem _ hy)⟩, rfl,
        hcx x (List.mem_cons_self ..)⟩
  | ord ol =>
    simp only [AnyList.allocate, Option.map_eq_some_iff] at h
    obtain ⟨⟨l1, p⟩, h1, h2⟩ := h
    simp only [Prod.mk.injEq] at h2
    obtain ⟨rfl, rfl⟩ := h2
    obtain ⟨hn, hns⟩ := OrdList.allocate_shape h1
    simp only [AnyList.nodeSize, AnyList.cells] at h0 hlt hc ⊢
    have e1 : (AnyList.ord l1).nodeSize = l1.ns := rfl
    have e2 : (AnyList.ord l1).cells = l1.nodes := rfl
    refine ⟨⟨fun P => by simp [AnyList.obj], by rw [e1, hns]; exact h0, by rw [e1, hns]; exact hlt, ?_⟩, hns, ?_⟩
    · intro y hy
      rw [e1, hns]
      rw [e2] at hy
      exact hc y (by rw [hn]; exact List.mem_cons_of_mem _ hy)
    · exact hc p (by rw [hn]; exact List.mem_cons_self ..)

theorem AnyList.deallocate_grid (cfg : Cfg) {l l' : AnyList} (hg : GridList l) {a : Nat} (ha : alignOfNs l.nodeSize ∣ a)
    (h : l.deallocate cfg a = .ok l') : GridList l' ∧ l'.nodeSize = l.nodeSize := by
  obtain ⟨hi, h0, hlt, hc⟩ := hg
  cases l with
  | small sl => exact absurd rfl (hi sl.P)
  | free fl =>
    simp only [AnyList.deallocate, ListRes.ok.injEq] at h
    subst h
    refine ⟨⟨fun P => by simp [AnyList.obj], h0, hlt, ?_⟩, rfl⟩
    intro x hx
    simp only [AnyList.cells, FreeList.deallocate, List.mem_cons] at hx
    rcases hx with rfl | hx
    · exact ha
    · exact hc x hx
  | ord ol =>
    simp only [AnyList.deallocate] at h
    split at h
    · rename_i l1 h1
      simp only [ListRes.ok.injEq] at h
      subst h
      unfold OrdList.deallocate at h1
      split at h1
      · cases h1
      · split at h1
        · split at h1
          · cases h1
          · simp only [ListRes.ok.injEq] at h1
            subst h1
            refine ⟨⟨fun P => by simp [AnyList.obj], h0, hlt, ?_⟩, rfl⟩
            intro x hx
            simp only [AnyList.cells] at hx
            have hx' := (spliceAt_perm ol _ _).subset hx
            simp only [List.singleton_append, List.mem_cons] at hx'
            rcases hx' with rfl | hx'
            · exact ha
            · exact hc x hx'
        · cases h1
        · cases h1
        · cases h1
    · cases h
    · cases h

/-! ### the collection -/

/-- every bucket is a `GridList` -/
def Coll.GridOk (c : Coll) : Prop := ∀ l ∈ c.lists, GridList l

/-- the live nodes are aligned for their bucket -/
def Coll.LiveGrid (c : Coll) (live : List (Nat × Nat)) : Prop := ∀ as ∈ live, alignOfNs (c.nsOf as.2) ∣ as.1

/-- `c1` keeps the bucket key, the grid and the node size of every bucket -/
structure Keeps (c c1 : Coll) : Prop where
  ext : CExt c c1
  grid : c.GridOk → c1.GridOk
  ns : c.GridOk → ∀ s, c1.nsOf s = c.nsOf s

theorem Keeps.refl (c : Coll) : Keeps c c := ⟨CExt.refl c, id, fun _ _ => rfl⟩
theorem Keeps.trans {a b c : Coll} (h1 : Keeps a b) (h2 : Keeps b c) : Keeps a c :=
  ⟨h1.ext.trans h2.ext, fun h => h2.grid (h1.grid h), fun h s => (h2.ns (h1.grid h) s).trans (h1.ns h s)⟩

theorem Keeps.of_lists {c c1 : Coll} (hx : CExt c c1) (hl : c1.lists = c.lists) : Keeps c c1 := by
  refine ⟨hx, fun h => by unfold Coll.GridOk; rw [hl]; exact h, fun _ s => ?_⟩
  unfold Coll.nsOf
  rw [hx.listIndex, hl]

theorem Keeps.setList {c : Coll} {i : Nat} {l l' : AnyList} (hl : c.lists[i]? = some l)
    (h : GridList l → GridList l' ∧ l'.nodeSize = l.nodeSize) : Keeps c (c.setList i l') := by
  refine ⟨CExt.setList _ _ _, fun hg => ?_, fun hg s => ?_⟩
  · intro m hm
    unfold Coll.setList at hm
    rcases List.mem_or_eq_of_mem_set hm with h1 | h1
    · exact hg m h1
    · rw [h1]; exact (h (hg l (List.mem_of_getElem? hl))).1
  · exact Coll.setList_nsOf c i l l' hl (h (hg l (List.mem_of_getElem? hl))).2 s

theorem Keeps.withCur {c c1 : Coll} (h : Keeps c c1) (x : Nat) : Keeps c { c1 with cur := x } :=
  h.trans (Keeps.of_lists (CExt.cur _ _) rfl)

theorem Coll.insertRest_keeps (cfg : Cfg) {arr arrLen : Nat} {c : Coll} {live : List (Nat × Nat)}
    (hI : CInv arr arrLen c live) (i : Nat) {c1 : Coll} (h : c.insertRest cfg i = some c1) : Keeps c c1 := by
  obtain ⟨b0, rest, hu, hbe, t1, t2, t3, t4⟩ := hI.topFacts
  unfold Coll.insertRest at h
  rw [hbe] at h
  cases hl : c.lists[i]? with
  | none => simp [hl] at h
  | some l =>
    simp only [hl] at h
    split at h
    · cases h; exact Keeps.refl _
    · split at h
      · split at h
        · rename_i l' hins
          cases h
          have ha := (alignOff_spec c.cur 4 (by omega) (by omega)).1
          rw [← maxAlign_eq] at ha
          have h16 : 16 ∣ c.cur + alignOff c.cur maxAlign := by
            have : maxAlign = 16 := by decide
            rw [this] at ha ⊢
            exact Nat.dvd_of_mod_eq_zero ha
          exact (Keeps.setList hl (fun hg => AnyList.insert_grid cfg hg h16 hins)).withCur _
        · cases h
      · cases h; exact Keeps.refl _

theorem Coll.tryReserve_keeps (cfg : Cfg) {arr arrLen : Nat} {c : Coll} {live : List (Nat × Nat)}
    (hI : CInv arr arrLen c live) (hf : cfg.fence ≤ 2 ^ 32) (i : Nat) {cap : Nat} (hcap : cap < 2 ^ 64) {c1 : Coll}
    (h : c.tryReserve cfg i cap = some c1) : Keeps c c1 := by
  obtain ⟨b0, rest, hu, hbe, t1, t2, t3, t4⟩ := hI.topFacts
  unfold Coll.tryReserve at h
  rw [hbe] at h
  cases hl : c.lists[i]? with
  | none => simp [hl] at h
  | some l =>
    simp only [hl] at h
    cases hfa : fixedAllocate c.cur (b0.base + b0.size) cap maxAlign cfg.fence with
    | none => rw [hfa] at h; exact Coll.insertRest_keeps cfg hI i h
    | some pc =>
      obtain ⟨p, cur'⟩ := pc
      rw [hfa] at h
      simp only at h
      rw [maxAlign_eq] at hfa
      obtain ⟨f1, _, _, _, _⟩ := fixedAllocate_spec (k := 4) (by omega) t2 (by omega) hcap (by omega) hfa
      split at h
      · rename_i l' hins
        cases h
        exact (Keeps.setList hl (fun hg => AnyList.insert_grid cfg hg (Nat.dvd_of_mod_eq_zero f1) hins)).withCur _
      · cases h

/-- `reserve_memory`: the lists change only through `insert_rest`; a returned region is `max_alignment`-aligned -/
theorem Coll.reserve_keeps (cfg : Cfg) {arr arrLen : Nat} {c : Coll} {live : List (Nat × Nat)}
    (hI : CInv arr arrLen c live) (hf : cfg.fence ≤ 2 ^ 32) (i : Nat) {cap : Nat} (hcap : cap < 2 ^ 64) (env : List (Option Nat))
    (hb : BlocksOk (c.reserve cfg i cap env).1.st.arena.used) :
    Keeps c (c.reserve cfg i cap env).1.st ∧ ∀ mem, (c.reserve cfg i cap env).2 = some mem → 16 ∣ mem := by
  obtain ⟨b0, rest, hu, hbe, t1, t2, t3, t4⟩ := hI.topFacts
  unfold Coll.reserve at hb ⊢
  rw [hbe] at hb ⊢
  simp only at hb ⊢
  cases hfa : fixedAllocate c.cur (b0.base + b0.size) cap maxAlign cfg.fence with
  | some pc =>
    obtain ⟨p, cur'⟩ := pc
    simp only
    have hfa' := hfa
    rw [maxAlign_eq] at hfa'
    obtain ⟨f1, _, _, _, _⟩ := fixedAllocate_spec (k := 4) (by omega) t2 (by omega) hcap (by omega) hfa'
    exact ⟨Keeps.of_lists (CExt.cur _ _) rfl, fun mem hm => by cases hm; exact Nat.dvd_of_mod_eq_zero f1⟩
  | none =>
    simp only [hfa] at hb ⊢
    cases hir : c.insertRest cfg i with
    | none => exact ⟨Keeps.refl _, fun mem hm => by cases hm⟩
    | some c1 =>
      simp only [hir] at hb ⊢
      have k1 := Coll.insertRest_keeps cfg hI i hir
      have h1 := hI.insertRest_spec cfg hir
      cases ha : c1.arena.allocateBlock env with
      | envMissing => exact ⟨k1, fun mem hm => by cases hm⟩
      | fail a ex ev _ =>
        simp only
        refine ⟨k1.trans (Keeps.of_lists ⟨rfl, rfl, ?_⟩ rfl), fun mem hm => by cases hm⟩
        rw [show a.used = c1.arena.used from Arena.allocateBlock_fail ha]
        exact List.suffix_refl _
      | ok a b ev _ =>
        obtain ⟨blk, hua, rfl⟩ := Arena.allocateBlock_ok ha
        simp only [ha] at hb ⊢
        have hs : c1.arena.used <:+ a.used := by rw [hua]; exact List.suffix_cons _ _
        have hba : BlocksOk a.used := by
          cases hfa2 : fixedAllocate blk.usable.base (blk.usable.base + blk.usable.size) cap maxAlign cfg.fence <;>
            simp only [hfa2] at hb <;> exact hb
        have hw := hba.1 blk (by rw [hua]; simp)
        unfold Blk.Wf at hw
        have he : blk.usable.base + blk.usable.size = blk.base + blk.size := by unfold Blk.usable; simp only; omega
        have hbase : blk.usable.base = blk.base + implOff := rfl
        have hio := implOff_eq
        cases hfa2 : fixedAllocate blk.usable.base (blk.usable.base + blk.usable.size) cap maxAlign cfg.fence with
        | none => exact ⟨k1.trans (Keeps.of_lists ⟨rfl, rfl, hs⟩ rfl), fun mem hm => by cases hm⟩
        | some pc =>
          obtain ⟨p, cur'⟩ := pc
          simp only
          have hfa' := hfa2
          rw [maxAlign_eq, he] at hfa'
          obtain ⟨f1, _, _, _, _⟩ := fixedAllocate_spec (k := 4) (by omega) (by omega) (by omega) hcap (by omega) hfa'
          exact ⟨k1.trans (Keeps.of_lists ⟨rfl, rfl, hs⟩ rfl), fun mem hm => by cases hm; exact Nat.dvd_of_mod_eq_zero f1⟩

theorem Coll.refill_keeps (cfg : Cfg) {arr arrLen : Nat} {c : Coll} {live : List (Nat × Nat)}
    (hI : CInv arr arrLen c live) (hf : cfg.fence ≤ 2 ^ 32) (i : Nat) {dc : Nat} (hdc : dc < 2 ^ 64) (env : List (Option Nat))
    (hb : BlocksOk (c.refill cfg i dc env).st.arena.used) : Keeps c (c.refill cfg i dc env).st := by
  rw [Coll.refill_arena] at hb
  obtain ⟨h1, h2⟩ := Coll.reserve_keeps cfg hI hf i hdc env hb
  unfold Coll.refill
  split
  · rename_i r mem hres
    rw [hres] at h1 h2
    simp only at h1 h2
    split
    · rename_i l1 hl1
      split
      · rename_i l2 hins
        exact h1.trans (Keeps.setList hl1 (fun hg => AnyList.insert_grid cfg hg (h2 mem rfl) hins))
      · exact h1
      · exact h1
    · exact h1
  · rename_i r hres
    rw [hres] at h1
    exact h1

/-- the grid invariant of collection and ledger -/
def Coll.Grid (c : Coll) (live : List (Nat × Nat)) : Prop := c.GridOk ∧ c.LiveGrid live

theorem Keeps.gridOf {c c1 : Coll} (h : Keeps c c1) {live : List (Nat × Nat)} (hg : c.Grid live) : c1.Grid live :=
  ⟨h.grid hg.1, fun as has => by rw [h.ns hg.1]; exact hg.2 as has⟩

theorem Coll.takeNode_grid {c0 c : Coll} (hx : CExt c0 c) {live : List (Nat × Nat)} (hg : c.Grid live) (size : Nat)
    (ev : List UpEv) :
    (c.takeNode (c0.listIndex size) ev).st.Grid (ledgerAfter live size (c.takeNode (c0.listIndex size) ev).out) := by
  rw [← hx.listIndex size]
  unfold Coll.takeNode
  cases hl : c.lists[c.listIndex size]? with
  | none => exact hg
  | some l1 =>
    simp only
    cases hal : l1.allocate with
    | none => exact hg
    | some r =>
      obtain ⟨l2, a⟩ := r
      simp only [ledgerAfter]
      have hgl := hg.1 l1 (List.mem_of_getElem? hl)
      obtain ⟨g1, g2, g3⟩ := AnyList.allocate_grid hgl hal
      have hk : Keeps c (c.setList (c.listIndex size) l2) := Keeps.setList hl (fun _ => ⟨g1, g2⟩)
      refine ⟨hk.grid hg.1, ?_⟩
      intro as has
      rw [hk.ns hg.1]
      rcases List.mem_cons.mp has with rfl | has
      · have : c.nsOf size = l1.nodeSize := by unfold Coll.nsOf; rw [hl]; rfl
        simp only
        rw [this]; exact g3
      · exact hg.2 as has

theorem Coll.allocateNode_grid (cfg : Cfg) {arr arrLen : Nat} {c : Coll} {live : List (Nat × Nat)}
    (hI : CInv arr arrLen c live) (hg : c.Grid live) (hf : cfg.fence ≤ 2 ^ 32) (size : Nat) (env : List (Option Nat))
    (hb : BlocksOk (c.allocateNode cfg size env).st.arena.used) :
    (c.allocateNode cfg size env).st.Grid (ledgerAfter live size (c.allocateNode cfg size env).out) := by
  obtain ⟨b0, rest, hu, hbe, t1, t2, t3, t4⟩ := hI.topFacts
  unfold Coll.allocateNode at hb ⊢
  split
  · exact hg
  · rename_i hsz
    simp only [hsz, if_false] at hb
    cases hl : c.lists[c.listIndex size]? with
    | none => simp only [hl]; exact hg
    | some l =>
    cases hdc0 : c.defCapacity with
    | none => simp only [hl, hdc0]; exact hg
    | some dc0 =>
      simp only [hl, hdc0] at hb ⊢
      have hdc : growCapacity l 64 dc0 < 2 ^ 64 := by
        apply growCapacity_lt
        unfold Coll.defCapacity Arena.currentBlock at hdc0
        rw [hu] at hdc0
        simp only [List.head?_cons, Option.map_some] at hdc0
        split at hdc0
        · cases hdc0
        · cases hdc0
          have : (b0.usable.size / c.lists.length) ≤ b0.usable.size := Nat.div_le_self _ _
          unfold Blk.usable at this ⊢
          simp only at this ⊢
          omega
      by_cases hemp : l.empty
      · simp only [hemp, if_true] at hb ⊢
        cases hout : (c.refill cfg (c.listIndex size) (growCapacity l 64 dc0) env).out with
        | done =>
          simp only [hout] at hb ⊢
          rw [Coll.takeNode_arena] at hb
          have hk := Coll.refill_keeps cfg hI hf (c.listIndex size) hdc env hb
          exact Coll.takeNode_grid hk.ext (hk.gridOf hg) size _
        | ok a => exact absurd hout (Coll.refill_ne_ok cfg c _ _ env a)
        | _ =>
          simp only [hout] at hb ⊢
          exact (Coll.refill_keeps cfg hI hf (c.listIndex size) hdc env hb).gridOf hg
      · simp only [hemp, Bool.false_eq_true, if_false] at hb ⊢
        exact Coll.takeNode_grid (CExt.refl c) hg size []

theorem Coll.tryAllocateNode_grid (cfg : Cfg) {arr arrLen : Nat} {c : Coll} {live : List (Nat × Nat)}
    (hI : CInv arr arrLen c live) (hg : c.Grid live) (hf : cfg.fence ≤ 2 ^ 32) (size : Nat) :
    (c.tryAllocateNode cfg size).st.Grid (ledgerAfter live size (c.tryAllocateNode cfg size).out) := by
  obtain ⟨b0, rest, hu, hbe, t1, t2, t3, t4⟩ := hI.topFacts
  unfold Coll.tryAllocateNode
  split
  · exact hg
  · cases hl : c.lists[c.listIndex size]? with
    | none => simp only [hl]; exact hg
    | some l =>
    cases hdc0 : c.defCapacity with
    | none => simp only [hl, hdc0]; exact hg
    | some dc0 =>
      simp only [hl, hdc0]
      have hdc : growCapacity l 64 dc0 < 2 ^ 64 := by
        apply growCapacity_lt
        unfold Coll.defCapacity Arena.currentBlock at hdc0
        rw [hu] at hdc0
        simp only [List.head?_cons, Option.map_some] at hdc0
        split at hdc0
        · cases hdc0
        · cases hdc0
          have : (b0.usable.size / c.lists.length) ≤ b0.usable.size := Nat.div_le_self _ _
          unfold Blk.usable at this ⊢
          simp only at this ⊢
          omega
      have key : ∀ c1, Keeps c c1 →
          (match c1.lists[c.listIndex size]? with
              | some l1 => if l1.empty then (⟨c1, .null, []⟩ : PRes Coll)
                  else (match l1.allocate with
                    | some (l2, a) => ⟨c1.setList (c.listIndex size) l2, .ok a, []⟩
                    | none => ⟨c1, .crash, []⟩)
              | none => ⟨c1, .crash, []⟩).st.Grid
            (ledgerAfter live size
              (match c1.lists[c.listIndex size]? with
              | some l1 => if l1.empty then (⟨c1, .null, []⟩ : PRes Coll)
                  else (match l1.allocate with
                    | some (l2, a) => ⟨c1.setList (c.listIndex size) l2, .ok a, []⟩
                    | none => ⟨c1, .crash, []⟩)
              | none => ⟨c1, .crash, []⟩).out) := by
        intro c1 hk
        have hg1 := hk.gridOf hg
        have t := Coll.takeNode_grid hk.ext hg1 size []
        unfold Coll.takeNode at t
        cases hl1 : c1.lists[c.listIndex size]? with
        | none => exact hg1
        | some l1 =>
          simp only [hl1] at t ⊢
          split
          · exact hg1
          · exact t
      by_cases hemp : l.empty
      · simp only [hemp, if_true]
        cases htr : c.tryReserve cfg (c.listIndex size) (growCapacity l 64 dc0) with
        | none => exact hg
        | some c1 => exact key c1 (Coll.tryReserve_keeps cfg hI hf _ hdc htr)
      · simp only [hemp, Bool.false_eq_true, if_false]
        exact key c (Keeps.refl c)

theorem Coll.deallocateNode_grid (cfg : Cfg) {c : Coll} {live : List (Nat × Nat)} (hg : c.Grid live) {k a s : Nat}
    (hk : live[k]? = some (a, s)) : (c.deallocateNode cfg a s).st.Grid (live.eraseIdx k) := by
  have hsub : ∀ as ∈ live.eraseIdx k, as ∈ live := fun as has => (List.eraseIdx_sublist live k).subset has
  unfold Coll.deallocateNode
  simp only
  cases hl : c.lists[c.listIndex s]? with
  | none => exact ⟨hg.1, fun as has => hg.2 as (hsub as has)⟩
  | some l =>
    simp only
    cases hd : l.deallocate cfg a with
    | handler x => exact ⟨hg.1, fun as has => hg.2 as (hsub as has)⟩
    | crash => exact ⟨hg.1, fun as has => hg.2 as (hsub as has)⟩
    | ok l' =>
      simp only
      have ha : alignOfNs l.nodeSize ∣ a := by
        have := hg.2 (a, s) (List.mem_of_getElem? hk)
        have hns : c.nsOf s = l.nodeSize := by unfold Coll.nsOf; rw [hl]; rfl
        rwa [hns] at this
      have hkp : Keeps c (c.setList (c.listIndex s) l') :=
        Keeps.setList hl (fun hgl => AnyList.deallocate_grid cfg hgl ha hd)
      exact ⟨hkp.grid hg.1, fun as has => by rw [hkp.ns hg.1]; exact hg.2 as (hsub as has)⟩

/-! ### histories -/

theorem GColl.step_grid (cfg : Cfg) (e : EnvS) {arr arrLen : Nat} (g : GColl) (k : Nat) (op : COpn)
    (hI : CInv arr arrLen g.c g.live) (hg : g.c.Grid g.live) (hf : cfg.fence ≤ 2 ^ 32)
    (hb : BlocksOk (g.step cfg e k op).1.c.arena.used) :
    (g.step cfg e k op).1.c.Grid (g.step cfg e k op).1.live := by
  unfold GColl.step GColl.exec at hb ⊢
  cases op with
  | allocNode s =>
    simp only [GColl.ledger] at hb ⊢
    have := Coll.allocateNode_grid cfg hI hg hf s [e k] hb
    cases hout : (g.c.allocateNode cfg s [e k]).out <;> (rw [hout] at this; exact this)
  | tryAllocNode s =>
    simp only [GColl.ledger] at hb ⊢
    have := Coll.tryAllocateNode_grid cfg hI hg hf s
    cases hout : (g.c.tryAllocateNode cfg s).out <;> (rw [hout] at this; exact this)
  | dealloc i =>
    simp only [GColl.ledger] at hb ⊢
    cases hi : g.live[i]? with
    | none =>
      simp only
      rw [List.eraseIdx_of_length_le (by simpa using hi)]
      exact hg
    | some as =>
      obtain ⟨a, s⟩ := as
      simp only
      exact Coll.deallocateNode_grid cfg hg hi

theorem GColl.run_grid (cfg : Cfg) (e : EnvS) {arr arrLen : Nat} (hf : cfg.fence ≤ 2 ^ 32) (ops : List COpn) :
    ∀ (g : GColl) (k : Nat), CInv arr arrLen g.c g.live → g.c.Grid g.live → BlocksOk (g.run cfg e k ops).1.c.arena.used →
      (g.run cfg e k ops).1.c.Grid (g.run cfg e k ops).1.live := by
  induction ops with
  | nil => intro g k _ hg _; exact hg
  | cons op ops ih =>
    intro g k hI hg hb
    have hb' := hb.suffix (GColl.run_ext cfg e ops _ _).used
    exact ih _ _ (GColl.step_inv cfg e g k op hI hf hb') (GColl.step_grid cfg e g k op hI hg hf hb') hb

end MemVerif.Model
