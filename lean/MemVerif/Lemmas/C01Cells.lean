import MemVerif.Model.Lists
/-!
C01, list level: cells (`[x, x + ns)` for a node address `x`), runs of consecutive cells (`blockNodes`),
the array search of the intrusive lists, and the cell count `ceilNodes` used by `deallocate(ptr, n)`.
Pure facts about `List Nat`; no pool state.
-/
namespace MemVerif.Model

/-- the cells at `x` and `y` (both `ns` bytes) do not overlap -/
def Apart (ns x y : Nat) : Prop := x + ns ≤ y ∨ y + ns ≤ x

theorem Apart.symm {ns x y : Nat} (h : Apart ns x y) : Apart ns y x := Or.symm h

instance (ns x y : Nat) : Decidable (Apart ns x y) := by unfold Apart; exact inferInstance

/-- number of cells an allocation of `b` bytes occupies: one for a node, `ceil(b / ns)` for an array -/
def cellsOf (ns b : Nat) : Nat := if b ≤ ns then 1 else ceilNodes b ns

/-! ### `ceilNodes` -/

theorem le_ceilNodes_mul (b ns : Nat) (hns : 0 < ns) : b ≤ ceilNodes b ns * ns := by
  unfold ceilNodes
  have h1 := Nat.div_add_mod b ns
  have h2 := Nat.mod_lt b hns
  rw [Nat.add_mul]
  have h3 : b / ns * ns = ns * (b / ns) := Nat.mul_comm _ _
  split <;> omega

/-- `ceilNodes` is characterised by `(L-1)*ns < b ≤ L*ns` -/
theorem ceilNodes_unique {b ns L : Nat} (hns : 0 < ns) (h1 : (L - 1) * ns < b) (h2 : b ≤ L * ns) :
    ceilNodes b ns = L := by
  unfold ceilNodes
  have hd := Nat.div_add_mod b ns
  have hm := Nat.mod_lt b hns
  have hL : 0 < L := by
    rcases Nat.eq_zero_or_pos L with h | h
    · subst h; simp at h2; subst h2; simp at h1
    · exact h
  -- q = b / ns, r = b % ns
  generalize b / ns = q at *
  generalize b % ns = r at *
  have hc : q * ns = ns * q := Nat.mul_comm _ _
  by_cases hr : r = 0
  · simp only [hr, ne_eq, not_true_eq_false, ↓reduceIte, Nat.add_zero]
    subst hr
    -- (L-1)*ns < ns*q ≤ L*ns
    have a1 : L - 1 < q := by
      apply Nat.lt_of_mul_lt_mul_right (a := ns); omega
    have a2 : q ≤ L := by
      apply Nat.le_of_mul_le_mul_right (c := ns) _ hns; omega
    omega
  · simp only [ne_eq, hr, not_false_eq_true, ↓reduceIte]
    have a1 : q < L := by
      apply Nat.lt_of_mul_lt_mul_right (a := ns); omega
    have a2 : L - 1 < q + 1 := by
      apply Nat.lt_of_mul_lt_mul_right (a := ns)
      rw [Nat.add_mul]; omega
    omega

theorem cellsOf_pos (ns b : Nat) (hns : 0 < ns) : 0 < cellsOf ns b := by
  unfold cellsOf
  split
  · omega
  · have := le_ceilNodes_mul b ns hns
    rcases Nat.eq_zero_or_pos (ceilNodes b ns) with h | h
    · rw [h] at this; omega
    · exact h

/-- the bytes handed out fit in the cells they occupy -/
theorem le_cellsOf_mul (ns b : Nat) (hns : 0 < ns) : b ≤ cellsOf ns b * ns := by
  unfold cellsOf
  split
  · omega
  · exact le_ceilNodes_mul b ns hns

theorem cellsOf_node (ns : Nat) : cellsOf ns ns = 1 := by simp [cellsOf]

theorem cellsOf_mul (ns n : Nat) (hns : 0 < ns) (hn : 0 < n) : cellsOf ns (n * ns) = n := by
  unfold cellsOf
  split
  · rename_i h
    have : n * ns ≤ 1 * ns := by omega
    have := Nat.le_of_mul_le_mul_right this hns
    omega
  · apply ceilNodes_unique hns
    · apply Nat.mul_lt_mul_of_lt_of_le (by omega) (Nat.le_refl _) hns
    · exact Nat.le_refl _

/-! ### `blockNodes` -/

@[simp] theorem blockNodes_length (mem ns k : Nat) : (blockNodes mem ns k).length = k := by
  induction k generalizing mem with
  | zero => rfl
  | succ k ih => simp [blockNodes, ih]

theorem mem_blockNodes {mem ns k x : Nat} : x ∈ blockNodes mem ns k ↔ ∃ j, j < k ∧ x = mem + j * ns := by
  induction k generalizing mem with
  | zero => simp [blockNodes]
  | succ k ih =>
    simp only [blockNodes, List.mem_cons, ih]
    constructor
    · rintro (h | ⟨j, hj, h⟩)
      · exact ⟨0, by omega, by simp [h]⟩
      · exact ⟨j + 1, by omega, by rw [h, Nat.add_mul]; omega⟩
    · rintro ⟨j, hj, h⟩
      cases j with
      | zero => left; simpa using h
      | succ j => right; exact ⟨j, by omega, by rw [h, Nat.add_mul]; omega⟩

theorem blockNodes_succ_append (mem ns k : Nat) :
    blockNodes mem ns (k + 1) = blockNodes mem ns k ++ [mem + k * ns] := by
  induction k generalizing mem with
  | zero => simp [blockNodes]
  | succ k ih =>
    have e : mem + ns + k * ns = mem + (k + 1) * ns := by rw [Nat.add_mul]; omega
    rw [blockNodes, ih (mem + ns), e]
    rfl

theorem blockNodes_one (mem ns : Nat) : blockNodes mem ns 1 = [mem] := rfl

/-- the cells of a run do not overlap each other -/
theorem blockNodes_pairwise (mem ns k : Nat) : (blockNodes mem ns k).Pairwise (Apart ns) := by
  induction k generalizing mem with
  | zero => exact List.Pairwise.nil
  | succ k ih =>
    rw [blockNodes, List.pairwise_cons]
    refine ⟨?_, ih _⟩
    intro y hy
    obtain ⟨j, _, rfl⟩ := mem_blockNodes.mp hy
    unfold Apart; omega

/-- every cell of a run of `k` cells at `mem` lies in `[mem, mem + k*ns)` -/
theorem blockNodes_bounds {mem ns k x : Nat} (h : x ∈ blockNodes mem ns k) : mem ≤ x ∧ x + ns ≤ mem + k * ns := by
  obtain ⟨j, hj, rfl⟩ := mem_blockNodes.mp h
  refine ⟨by omega, ?_⟩
  have : (j + 1) * ns ≤ k * ns := Nat.mul_le_mul_right _ hj
  rw [Nat.add_mul] at this; omega

/-- a cell that is apart from every cell of a run is apart from the run's whole byte range -/
theorem apart_run {ns x a c : Nat} (hc : 0 < c) (h : ∀ y ∈ blockNodes a ns c, Apart ns x y) :
    x + ns ≤ a ∨ a + c * ns ≤ x := by
  induction c generalizing a with
  | zero => omega
  | succ c ih =>
    have h0 : Apart ns x a := h a (by simp [blockNodes])
    rcases Nat.eq_zero_or_pos c with hc0 | hc0
    · subst hc0; unfold Apart at h0; omega
    · have := ih (a := a + ns) hc0 (fun y hy => h y (by simp [blockNodes, hy]))
      unfold Apart at h0
      rw [Nat.add_mul]; omega

/-- two runs whose cells are pairwise apart have disjoint byte ranges -/
theorem apart_runs {ns a1 c1 a2 c2 : Nat} (hns : 0 < ns) (h1 : 0 < c1) (h2 : 0 < c2)
    (h : ∀ x ∈ blockNodes a1 ns c1, ∀ y ∈ blockNodes a2 ns c2, Apart ns x y) :
    a1 + c1 * ns ≤ a2 ∨ a2 + c2 * ns ≤ a1 := by
  induction c1 generalizing a1 with
  | zero => omega
  | succ c ih =>
    have h0 := apart_run h2 (h a1 (by simp [blockNodes]))
    have hp : 1 * ns ≤ c2 * ns := Nat.mul_le_mul_right _ h2
    rcases Nat.eq_zero_or_pos c with hc0 | hc0
    · subst hc0; omega
    · have := ih (a1 := a1 + ns) hc0 (fun x hx => h x (by simp [blockNodes, hx]))
      rw [Nat.add_mul]; omega

/-! ### the array search -/

/-- What `searchArrayGo` returns: the list splits as `A' ++ run ++ B` with `A'.length = s`, the run being `L`
address-consecutive cells, `L` the least count (≥ 2) whose bytes reach `need`. -/
theorem searchArrayGo_spec {ns need : Nat} (xs : List Nat) :
    ∀ (A : List Nat) (f len last idx start s L : Nat),
      1 ≤ len → last + ns = f + len * ns → len * ns < need → A.length = start →
      searchArrayGo ns need xs start len last idx = some (s, L) → idx = start + len →
      ∃ A' f' B, A ++ blockNodes f ns len ++ xs = A' ++ blockNodes f' ns L ++ B ∧ A'.length = s ∧
        (L - 1) * ns < need ∧ need ≤ L * ns ∧ 2 ≤ L := by
  induction xs with
  | nil => intro A f len last idx start s L _ _ _ _ h; simp [searchArrayGo] at h
  | cons x xs ih =>
    intro A f len last idx start s L hlen hlast hneed hA h hidx
    unfold searchArrayGo at h
    split at h
    · -- run broken: restart at `x`
      have hle : 1 * ns ≤ len * ns := Nat.mul_le_mul_right _ hlen
      have := ih (A ++ blockNodes f ns len) x 1 x (idx + 1) idx s L (Nat.le_refl _) (by omega)
        (by omega) (by simp [hA, hidx]) h rfl
      obtain ⟨A', f', B, e, r⟩ := this
      refine ⟨A', f', B, ?_, r⟩
      rw [← e, blockNodes_one]; simp
    · rename_i hx
      have hx' : x = f + len * ns := by omega
      split at h
      · -- accepted
        rename_i hacc
        simp only [Option.some.injEq, Prod.mk.injEq] at h
        obtain ⟨rfl, rfl⟩ := h
        refine ⟨A, f, xs, ?_, hA, by simpa using hneed, hacc, by omega⟩
        rw [blockNodes_succ_append, hx']; simp
      · rename_i hacc
        have := ih A f (len + 1) x (idx + 1) start s L (by omega) (by rw [Nat.add_mul]; omega)
          (by omega) hA h (by omega)
        obtain ⟨A', f', B, e, r⟩ := this
        refine ⟨A', f', B, ?_, r⟩
        rw [← e, blockNodes_succ_append, hx']; simp

/-- Specification of `searchArray` for an array request (`ns < need`): the list splits around a run of exactly
`ceilNodes need ns` address-consecutive cells that starts at index `s`. -/
theorem searchArray_spec {ns need : Nat} {nodes : List Nat} {s L : Nat} (hns : 0 < ns) (hneed : ns < need)
    (h : searchArray ns need nodes = some (s, L)) :
    ∃ A f B, nodes = A ++ blockNodes f ns L ++ B ∧ A.length = s ∧ L = ceilNodes need ns ∧ 2 ≤ L := by
  cases nodes with
  | nil => simp [searchArray] at h
  | cons x xs =>
    unfold searchArray at h
    have := searchArrayGo_spec xs [] x 1 x 1 0 s L (Nat.le_refl _) (by omega) (by omega) rfl h rfl
    obtain ⟨A, f, B, e, hA, h1, h2, h3⟩ := this
    refine ⟨A, f, B, ?_, hA, (ceilNodes_unique hns h1 h2).symm, h3⟩
    rw [← e]; simp [blockNodes_one]

/-- take/drop/index of a list split around a run -/
theorem split_run {A B : List Nat} {f ns L : Nat} (hL : 0 < L) :
    (A ++ blockNodes f ns L ++ B).take A.length = A ∧
    (A ++ blockNodes f ns L ++ B).drop (A.length + L) = B ∧
    (A ++ blockNodes f ns L ++ B)[A.length]? = some f := by
  refine ⟨?_, ?_, ?_⟩
  · rw [List.append_assoc, List.take_left']; rfl
  · have : (A ++ blockNodes f ns L).length = A.length + L := by simp
    rw [← this, List.drop_left']; rfl
  · rw [List.append_assoc, List.getElem?_append_right (Nat.le_refl _)]
    cases L with
    | zero => omega
    | succ L => simp [blockNodes]

end MemVerif.Model
