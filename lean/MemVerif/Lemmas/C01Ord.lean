import MemVerif.Lemmas.OrdRun
import MemVerif.Lemmas.C01Gen
/-!
C01 for the ordered free list: each list operation a pool performs, applied to cells that are *apart* from the free
cells (a fresh block, or the cells of a live allocation), succeeds, keeps `OrdList.Inv`, and changes the free cells
exactly as the generic cell invariant `CellInv` expects (`take` / `give` / `insertCells`).
-/
namespace MemVerif.Model

/-- the run `[m, m + k*ns)` neither contains nor overlaps a node of the list -/
def RunApart (l : OrdList) (m k : Nat) : Prop := ∀ y ∈ l.nodes, y + l.ns ≤ m ∨ m + k * l.ns ≤ y

/-- the run lies outside the two proxy words of the list object -/
def RunOut (l : OrdList) (m k : Nat) : Prop := m + k * l.ns ≤ l.B ∨ l.E + 8 ≤ m

theorem RunApart.notMem {l : OrdList} {m k : Nat} (h : RunApart l m k) (hk : 0 < k) (hns : 0 < l.ns) : m ∉ l.nodes := by
  intro hm
  have := h m hm
  have : 1 * l.ns ≤ k * l.ns := Nat.mul_le_mul_right _ hk
  omega

theorem RunOut.first {l : OrdList} {m k : Nat} (h : RunOut l m k) (hk : 0 < k) : m + l.ns ≤ l.B ∨ l.E + 8 ≤ m := by
  have : 1 * l.ns ≤ k * l.ns := Nat.mul_le_mul_right _ hk
  unfold RunOut at h
  omega

/-- `insert_impl(mem, size)` on a run that is apart from the list: the explicit result -/
theorem OrdList.insertImpl_spec (cfg : Cfg) (l : OrdList) (hI : l.Inv) (mem size : Nat) (hk : 0 < size / l.ns)
    (hrun : RunApart l mem (size / l.ns)) (hout : RunOut l mem (size / l.ns)) :
    ∃ i, Around l.nodes mem i ∧
      l.insertImpl cfg mem size =
        .ok ({ l with nodes := l.spliceAt i (blockNodes mem l.ns (size / l.ns)), cap := l.cap + size / l.ns,
                      ld := if l.addr i = l.ldp then mem else l.ld }, l.addr i) := by
  have hns : 0 < l.ns := by have := hI.nsPos; omega
  have hm := hrun.notMem hk hns
  have hmB := hout.first hk
  obtain ⟨i, hfp, hA⟩ := findPos_valid' l hI cfg.dblDealloc mem hm hmB
  refine ⟨i, hA, ?_⟩
  unfold OrdList.insertImpl
  simp only
  rw [if_neg (by omega), intervalAssertFails_valid l hI mem hm hmB]
  simp only [Bool.and_false, Bool.false_eq_true, if_false, hfp, ne_eq, not_true_eq_false]

/-- the spliced list is a permutation of run ++ old nodes -/
theorem spliceAt_perm (l : OrdList) (i : Nat) (R : List Nat) : (l.spliceAt i R).Perm (R ++ l.nodes) := by
  unfold OrdList.spliceAt
  have h1 : (l.nodes.take i ++ R ++ l.nodes.drop i).Perm (R ++ l.nodes.take i ++ l.nodes.drop i) :=
    List.Perm.append_right _ List.perm_append_comm
  rw [List.append_assoc R] at h1
  rwa [List.take_append_drop] at h1

/-- **Block insertion** (`insert(mem, size)`): succeeds, keeps the invariant, adds exactly the run's cells. -/
theorem OrdList.insert_run (cfg : Cfg) (l : OrdList) (hI : l.Inv) (mem size : Nat) (hk : 0 < size / l.ns)
    (hrun : RunApart l mem (size / l.ns)) (hout : RunOut l mem (size / l.ns)) (hm0 : 0 < mem) :
    ∃ l', l.insert cfg mem size = .ok l' ∧ l'.Inv ∧ l'.ns = l.ns ∧ l'.B = l.B ∧ l'.E = l.E ∧
      l'.nodes.Perm (blockNodes mem l.ns (size / l.ns) ++ l.nodes) := by
  obtain ⟨i, hA, hins⟩ := OrdList.insertImpl_spec cfg l hI mem size hk hrun hout
  unfold OrdList.insert
  rw [hins]
  refine ⟨_, rfl, ?_, rfl, rfl, rfl, spliceAt_perm l i _⟩
  refine splice_run_inv hI hk hA hrun hout hm0 rfl rfl rfl rfl rfl ?_
  by_cases h : l.addr i = l.ldp
  · exact Or.inl ⟨h.symm, if_pos h⟩
  · exact Or.inr ⟨rfl, if_neg h, h⟩

/-- **Array release** (`deallocate(ptr, n)`, `n > node_size`): the `ceilNodes n ns` cells come back. -/
theorem OrdList.deallocateBytes_run (cfg : Cfg) (l : OrdList) (hI : l.Inv) (p n : Nat) (hn : l.ns < n)
    (hrun : RunApart l p (ceilNodes n l.ns)) (hout : RunOut l p (ceilNodes n l.ns)) (hp0 : 0 < p) :
    ∃ l', l.deallocateBytes cfg p n = .ok l' ∧ l'.Inv ∧ l'.ns = l.ns ∧ l'.B = l.B ∧ l'.E = l.E ∧
      l'.nodes.Perm (blockNodes p l.ns (ceilNodes n l.ns) ++ l.nodes) := by
  have hns : 0 < l.ns := by have := hI.nsPos; omega
  have hdiv : ceilNodes n l.ns * l.ns / l.ns = ceilNodes n l.ns := Nat.mul_div_cancel _ hns
  have hk : 0 < ceilNodes n l.ns := by
    have := le_ceilNodes_mul n l.ns hns
    rcases Nat.eq_zero_or_pos (ceilNodes n l.ns) with h | h
    · rw [h] at this; omega
    · exact h
  obtain ⟨i, hA, hins⟩ := OrdList.insertImpl_spec cfg l hI p (ceilNodes n l.ns * l.ns)
    (by rw [hdiv]; exact hk) (by rw [hdiv]; exact hrun) (by rw [hdiv]; exact hout)
  rw [hdiv] at hins
  unfold OrdList.deallocateBytes
  rw [if_neg (by omega), hins]
  refine ⟨_, rfl, ?_, rfl, rfl, rfl, spliceAt_perm l i _⟩
  exact splice_run_inv hI hk hA hrun hout hp0 rfl rfl rfl rfl rfl (Or.inl ⟨rfl, rfl⟩)

/-- **Node release** (`deallocate(ptr)`). -/
theorem OrdList.deallocate_run (cfg : Cfg) (l : OrdList) (hI : l.Inv) (p : Nat)
    (hrun : RunApart l p 1) (hout : RunOut l p 1) (hp0 : 0 < p) :
    ∃ l', l.deallocate cfg p = .ok l' ∧ l'.Inv ∧ l'.ns = l.ns ∧ l'.B = l.B ∧ l'.E = l.E ∧
      l'.nodes.Perm (p :: l.nodes) := by
  have hns : 0 < l.ns := by have := hI.nsPos; omega
  have hm := hrun.notMem (by omega) hns
  have hmB := hout.first (by omega)
  obtain ⟨i, hfp, hA⟩ := findPos_valid' l hI cfg.dblDealloc p hm hmB
  unfold OrdList.deallocate
  rw [hfp, intervalAssertFails_valid l hI p hm hmB]
  simp only [Bool.and_false, Bool.false_eq_true, ne_eq, not_true_eq_false, if_false]
  refine ⟨_, rfl, ?_, rfl, rfl, rfl, ?_⟩
  · exact splice_inv l _ hI p i hA hm hmB hp0 rfl rfl rfl rfl rfl rfl rfl
  · exact spliceAt_perm l i [p]

/-! ### removals -/

/-- **`allocate()`**: the first node leaves the list. -/
theorem OrdList.allocate_run (l l' : OrdList) (hI : l.Inv) (x : Nat) (h : l.allocate = some (l', x)) :
    ∃ xs, l.nodes = x :: xs ∧ l'.nodes = xs ∧ l'.Inv ∧ l'.ns = l.ns ∧ l'.B = l.B ∧ l'.E = l.E := by
  cases hn : l.nodes with
  | nil => simp [OrdList.allocate, hn] at h
  | cons y xs =>
    obtain ⟨l1, ha, hnodes, _, hI1⟩ := allocate_inv' l hI y xs hn
    rw [ha] at h
    simp only [Option.some.injEq, Prod.mk.injEq] at h
    obtain ⟨rfl, rfl⟩ := h
    have hsame : l1.ns = l.ns ∧ l1.B = l.B ∧ l1.E = l.E := by
      unfold OrdList.allocate at ha
      simp only [hn] at ha
      have := (Prod.mk.inj (Option.some.inj ha)).1
      rw [← this]
      split
      · exact ⟨rfl, rfl, rfl⟩
      · split <;> exact ⟨rfl, rfl, rfl⟩
    exact ⟨xs, rfl, hnodes, hI1, hsame⟩

theorem getD_run_first {A B : List Nat} {f ns L : Nat} (hL : 0 < L) :
    (A ++ blockNodes f ns L ++ B).getD A.length 0 = f := by
  rw [List.getD_eq_getElem?_getD, (split_run (A := A) (B := B) (f := f) (ns := ns) hL).2.2]
  rfl

theorem blockNodes_getElem? {f ns L j : Nat} (hj : j < L) : (blockNodes f ns L)[j]? = some (f + j * ns) := by
  induction L generalizing f j with
  | zero => omega
  | succ L ih =>
    cases j with
    | zero => simp [blockNodes]
    | succ j =>
      simp only [blockNodes, List.getElem?_cons_succ]
      rw [ih (f := f + ns) (j := j) (by omega), Nat.add_mul]
      congr 1; omega

theorem getD_run_at {A B : List Nat} {f ns L j : Nat} (hj : j < L) :
    (A ++ blockNodes f ns L ++ B).getD (A.length + j) 0 = f + j * ns := by
  have h1 : (A ++ blockNodes f ns L ++ B)[A.length + j]? = some (f + j * ns) := by
    rw [List.append_assoc, List.getElem?_append_right (by omega)]
    have : A.length + j - A.length = j := by omega
    rw [this, List.getElem?_append_left (by rw [blockNodes_length]; exact hj)]
    exact blockNodes_getElem? hj
  rw [List.getD_eq_getElem?_getD, h1]
  rfl

/-- **`allocate(n)`, `n > node_size`**: a run of `ceilNodes n ns` consecutive cells leaves the list. -/
theorem OrdList.allocateBytes_run (l l' : OrdList) (hI : l.Inv) (n x : Nat) (hn : l.ns < n)
    (h : l.allocateBytes n = some (l', some x)) :
    ∃ A B, l.nodes = A ++ blockNodes x l.ns (ceilNodes n l.ns) ++ B ∧ l'.nodes = A ++ B ∧ l'.Inv ∧
      l'.ns = l.ns ∧ l'.B = l.B ∧ l'.E = l.E := by
  have hns : 0 < l.ns := by have := hI.nsPos; omega
  unfold OrdList.allocateBytes at h
  rw [if_neg (by omega)] at h
  split at h
  · simp at h
  · split at h
    · simp at h
    · rename_i start len hs
      obtain ⟨A, f, B, hnodes, hA, hL, h2⟩ := searchArray_spec hns hn hs
      subst hA
      have hA : A.length = A.length := rfl
      have hsp := split_run (A := A) (B := B) (f := f) (ns := l.ns) (L := len) (by omega)
      rw [← hnodes] at hsp
      have hfirst : l.nodes.getD A.length 0 = f := by
        rw [hnodes, ← hA]; exact getD_run_first (by omega)
      have hlast : l.nodes.getD (A.length + len - 1) 0 = f + (len - 1) * l.ns := by
        rw [hnodes, ← hA, show A.length + len - 1 = A.length + (len - 1) by omega]
        exact getD_run_at (by omega)
      simp only [Option.some.injEq, Prod.mk.injEq] at h
      obtain ⟨hl', hx⟩ := h
      rw [hfirst] at hx
      subst hx
      rw [hfirst, hlast, hsp.1, hsp.2.1] at hl'
      -- the relation between the list with the run (`l`) and without it
      have hlen : l.nodes.length = A.length + len + B.length := by
        rw [hnodes]; simp only [List.length_append, blockNodes_length]
      have hsame : l'.ns = l.ns ∧ l'.B = l.B ∧ l'.E = l.E ∧ l'.nodes = A ++ B ∧ l'.cap = l.cap - len := by
        rw [← hl']
        split
        · exact ⟨rfl, rfl, rfl, rfl, rfl⟩
        · split <;> exact ⟨rfl, rfl, rfl, rfl, rfl⟩
      obtain ⟨e1, e2, e3, e4, e5⟩ := hsame
      have hrel : RunRel l' l A (blockNodes f l.ns len) B := ⟨e2.symm, e3.symm, e4, hnodes⟩
      have hRlen : (blockNodes f l.ns len).length = len := blockNodes_length _ _ _
      have hbase : l'.Base := base_remove hrel hI.base e1 (by rw [hRlen]; exact e5)
      have hlen' : l'.nodes.length = A.length + B.length := by rw [e4]; simp
      -- addresses around the run, seen from the new list
      have hprev : l'.addr A.length = l.addr A.length := by
        rw [← hA]; exact (hrel.addr_low (Nat.le_refl _)).symm
      have hnext : l'.addr (A.length + 1) = l.addr (A.length + len + 1) := by
        have := hrel.addr_high (j := A.length + 1) (by omega) (by omega)
        rw [hRlen] at this
        rw [← this]; congr 1; omega
      refine ⟨A, B, by rw [hL] at hnodes; exact hnodes, e4, ?_, e1, e2, e3⟩
      apply hbase.inv
      -- the cursor
      obtain ⟨c, hc, hc1, hc2⟩ := hI.cursorAddr
      by_cases hin : f ≤ l.ld ∧ l.ld ≤ f + (len - 1) * l.ns
      · rw [if_pos hin] at hl'
        refine ⟨A.length, by omega, ?_, ?_⟩
        · rw [hprev, ← hl']
        · rw [hnext, ← hl']
      · rw [if_neg hin] at hl'
        by_cases hlp : l.ldp = f + (len - 1) * l.ns
        · rw [if_pos hlp] at hl'
          -- `ldp` is the last cell of the run: position `A.length + len`
          have hpos : l.addr (A.length + len) = l.ldp := by
            rw [hlp, show A.length + len = (A.length + len - 1) + 1 by omega, addr_succ l (by omega), hlast]
          have hBE : l.B ≠ l.E := by have := hI.proxies; omega
          have hcEq : c = A.length + len :=
            addr_inj hI.asc hI.notNode.1 hI.notNode.2 hBE (by omega) (by omega) (by rw [hc1, hpos])
          subst hcEq
          refine ⟨A.length, by omega, ?_, ?_⟩
          · rw [hprev, ← hl']
          · rw [hnext, ← hl']; exact hc2
        · rw [if_neg hlp] at hl'
          -- the cursor pair lies entirely before or entirely after the run
          have hnot : ¬ (A.length ≤ c ∧ c ≤ A.length + len) := by
            rintro ⟨h1, h2⟩
            rcases Nat.lt_or_eq_of_le h2 with h3 | h3
            · -- `ld` is a cell of the run
              apply hin
              have hcj : c + 1 = (A.length + (c - A.length)) + 1 := by omega
              rw [← hc2, hcj, addr_succ l (by omega), hnodes, ← hA, getD_run_at (by omega)]
              have : (c - A.length) * l.ns ≤ (len - 1) * l.ns := Nat.mul_le_mul_right _ (by omega)
              omega
            · apply hlp
              rw [← hc1, h3, show A.length + len = (A.length + len - 1) + 1 by omega, addr_succ l (by omega), hlast]
          have hld' : l'.ld = l.ld := by rw [← hl']
          have hldp' : l'.ldp = l.ldp := by rw [← hl']
          by_cases hlow : c + 1 ≤ A.length
          · refine ⟨c, by omega, ?_, ?_⟩
            · rw [hldp', ← hc1]; exact (hrel.addr_low (by omega)).symm
            · rw [hld', ← hc2]; exact (hrel.addr_low (by omega)).symm
          · have hhigh : A.length + len < c := by omega
            refine ⟨c - len, by omega, ?_, ?_⟩
            · rw [hldp', ← hc1]
              have := hrel.addr_high (j := c - len) (by omega) (by omega)
              rw [hRlen] at this
              rw [← this]; congr 1; omega
            · rw [hld', ← hc2]
              have := hrel.addr_high (j := c - len + 1) (by omega) (by omega)
              rw [hRlen] at this
              rw [← this]; congr 1; omega

end MemVerif.Model
