import MemVerif.Model.StackRun
import MemVerif.Lemmas.StackArith
/-! Basic facts for the C06 proofs: closed form of `deallocN` on a cached arena, marker order, `sub64`. -/
namespace MemVerif.Model

theorem deallocN_cached (cfg : Cfg) (src : Src) :
    ∀ (k : Nat) (used : List Blk) (cached : List Blk),
    Arena.deallocN cfg ⟨src, true, used, cached⟩ k =
      if k ≤ used.length then some (⟨src, true, used.drop k, (used.take k).reverse ++ cached⟩, []) else none
  | 0, used, cached => by simp [Arena.deallocN]
  | k + 1, [], cached => by simp [Arena.deallocN, Arena.deallocateBlock]
  | k + 1, b :: us, cached => by
    simp only [Arena.deallocN, Arena.deallocateBlock, if_true]
    rw [deallocN_cached cfg src k us (b :: cached)]
    by_cases h : k ≤ us.length <;> simp [h]

theorem Marker.lt_iff (a b : Marker) :
    a.lt b = true ↔ (a.index < b.index ∨ (a.index = b.index ∧ a.top < b.top)) := by
  unfold Marker.lt
  by_cases h : a.index = b.index
  · simp [h]
  · simp [h]

theorem Marker.le_iff (a b : Marker) :
    a.le b = true ↔ (a.index < b.index ∨ (a.index = b.index ∧ a.top ≤ b.top)) := by
  unfold Marker.le
  rw [Bool.not_eq_true', ← Bool.not_eq_true, Marker.lt_iff]
  omega

theorem sub64_le {a b : Nat} (h : b ≤ a) : sub64 a b ≤ a - b := by
  unfold sub64
  rw [BitVec.toNat_sub]
  simp only [BitVec.toNat_ofNat]
  omega

/-- end of the usable part of the top block -/
def blkEnd (used : List Blk) : Option Nat := (used.head?.map Blk.usable).map fun b => b.base + b.size

theorem blockEnd_eq (s : MemStack) : s.blockEnd = blkEnd s.arena.used := rfl

theorem blkEnd_isSome {used : List Blk} (h : used ≠ []) : ∃ e, blkEnd used = some e := by
  cases used with
  | nil => exact absurd rfl h
  | cons b us => exact ⟨_, rfl⟩

theorem top_eq {s : MemStack} {m : Marker} (h : s.top = some m) :
    s.arena.used ≠ [] ∧ m.index = s.arena.used.length - 1 ∧ m.top = s.cur ∧ blkEnd s.arena.used = some m.end_ := by
  unfold MemStack.top at h
  rw [blockEnd_eq] at h
  split at h
  · exact absurd h (by simp)
  · rename_i e he
    simp only [Option.some.injEq] at h
    subst h
    refine ⟨?_, rfl, rfl, he⟩
    intro h0; rw [h0] at he; simp [blkEnd] at he

theorem top_of_ne {s : MemStack} (h : s.arena.used ≠ []) : ∃ m, s.top = some m := by
  obtain ⟨e, he⟩ := blkEnd_isSome h
  unfold MemStack.top
  rw [blockEnd_eq, he]
  exact ⟨_, rfl⟩


/-- robust description of `unwind` to a marker taken at an earlier state `t` below the current one -/
theorem unwind_robust (cfg : Cfg) (t r : MemStack) (m : Marker) (hm : t.top = some m)
    (hc : r.arena.isCached = true) (extra : List Blk) (hu : r.arena.used = extra ++ t.arena.used)
    (hcur : extra = [] → t.cur ≤ r.cur) :
    (r.unwindEv cfg m).1.arena.isCached = true ∧ (r.unwindEv cfg m).1.leak = r.leak ∧
    ∃ e', (r.unwindEv cfg m).1.arena.used = e' ++ t.arena.used ∧ (e' = [] → t.cur ≤ (r.unwindEv cfg m).1.cur) := by
  obtain ⟨hne, hidx, htop, hend⟩ := top_eq hm
  obtain ⟨⟨src, ic, used, cached⟩, cur, leak⟩ := r
  simp only at hc hu hcur
  subst hc hu
  unfold MemStack.unwindEv
  simp only [deallocN_cached]
  split
  · exact ⟨rfl, rfl, extra, rfl, hcur⟩
  · split
    · exact ⟨rfl, rfl, extra, rfl, hcur⟩
    · split
      · exact ⟨rfl, rfl, extra, rfl, hcur⟩
      · split
        · -- k ≠ 0
          rename_i hk
          have hlen : t.arena.used.length ≥ 1 := by
            cases h : t.arena.used with
            | nil => exact absurd h hne
            | cons => simp
          have hkle : sub64 ((extra ++ t.arena.used).length - 1) m.index ≤ extra.length := by
            have := sub64_le (a := (extra ++ t.arena.used).length - 1) (b := m.index) (by
              rw [hidx, List.length_append]; omega)
            rw [hidx, List.length_append] at this
            rw [hidx, List.length_append]
            omega
          generalize sub64 ((extra ++ t.arena.used).length - 1) m.index = k at *
          have hk' : k ≤ (extra ++ t.arena.used).length := by rw [List.length_append]; omega
          simp only [hk', if_true]
          rw [List.drop_append_of_le_length hkle]
          have hend' : extra.drop k = [] →
              blkEnd (extra.drop k ++ t.arena.used) = some m.end_ := by
            intro h; rw [h]; exact hend
          split
          · exact ⟨rfl, rfl, _, rfl, fun h => by
              rename_i hnone
              rw [blockEnd_eq] at hnone
              simp only at hnone
              rw [hend' h] at hnone
              exact absurd hnone (by simp)⟩
          · rename_i e he
            rw [blockEnd_eq] at he
            simp only at he
            split
            · rename_i hchk
              refine ⟨rfl, rfl, _, rfl, fun h => ?_⟩
              rw [hend' h] at he
              simp only [Option.some.injEq] at he
              simp [he] at hchk
            · refine ⟨rfl, rfl, _, rfl, fun _ => ?_⟩
              show t.cur ≤ m.top
              omega
        · split
          · exact ⟨rfl, rfl, extra, rfl, hcur⟩
          · refine ⟨rfl, rfl, extra, rfl, fun _ => ?_⟩
            show t.cur ≤ m.top
            omega

theorem unwind_exact (cfg : Cfg) (t r : MemStack) (m : Marker) (hm : t.top = some m)
    (hc : r.arena.isCached = true) (extra : List Blk) (hu : r.arena.used = extra ++ t.arena.used)
    (hcur : extra = [] → t.cur ≤ r.cur) (hlen : r.arena.used.length ≤ 2 ^ 64) :
    r.unwindEv cfg m =
      ({ r with arena := { r.arena with used := t.arena.used, cached := extra.reverse ++ r.arena.cached },
                cur := t.cur }, .done, []) := by
  obtain ⟨hne, hidx, htop, hend⟩ := top_eq hm
  have hrne : r.arena.used ≠ [] := by rw [hu]; simp [hne]
  obtain ⟨mr, hmr⟩ := top_of_ne hrne
  obtain ⟨_, hridx, hrtop, hrend⟩ := top_eq hmr
  obtain ⟨⟨src, ic, used, cached⟩, cur, leak⟩ := r
  simp only at hc hu hcur hlen hridx hrtop hrend
  subst hc hu
  have hlen1 : t.arena.used.length ≥ 1 := by
    cases h : t.arena.used with
    | nil => exact absurd h hne
    | cons => simp
  rw [List.length_append] at hlen hridx
  have hk : sub64 ((extra ++ t.arena.used).length - 1) m.index = extra.length := by
    rw [List.length_append, sub64_eq (by omega) (by omega)]; omega
  have hle : m.le mr = true := by
    rw [Marker.le_iff]
    by_cases h : extra = []
    · have := hcur h
      subst h
      simp at hridx
      omega
    · have : extra.length ≠ 0 := by
        intro h0; exact h (List.eq_nil_of_length_eq_zero h0)
      omega
  unfold MemStack.unwindEv
  simp only [deallocN_cached, hmr, hk, hle]
  have h1 : m.index ≤ (extra ++ t.arena.used).length - 1 := by rw [List.length_append]; omega
  simp only [Bool.not_true, Bool.and_false, h1, decide_true]
  by_cases h : extra = []
  · have := hcur h
    subst h
    have h2 : cur ≥ m.top := by omega
    simp [htop, this]
  · have h0 : extra.length ≠ 0 := by
      intro h0; exact h (List.eq_nil_of_length_eq_zero h0)
    have h3 : extra.length ≤ (extra ++ t.arena.used).length := by rw [List.length_append]; omega
    simp only [h0, ne_eq, not_false_eq_true, if_true, h3, List.drop_left, List.take_left, blockEnd_eq, hend]
    simp [htop]

/-- the grow decision of `memory_stack::allocate`: depends on `cur` and the used blocks only -/
def growDec (cfg : Cfg) (cur : Nat) (used : List Blk) (size align : Nat) : Option Bool :=
  if cur = 0 then some true
  else match blkEnd used with
    | none => none
    | some e => some (!fits cfg.fence (alignOff (cur + cfg.fence) align) size (sub64 e cur))

def bumpCur (cfg : Cfg) (cur size align : Nat) : Nat :=
  cur + cfg.fence + alignOff (cur + cfg.fence) align + size + cfg.fence
def bumpPtr (cfg : Cfg) (cur align : Nat) : Nat :=
  cur + cfg.fence + alignOff (cur + cfg.fence) align

def finishCur (cfg : Cfg) (b : Blk) (size align : Nat) : Nat :=
  if neededSat cfg.fence (alignOff (b.base + cfg.fence) align) size > b.size then b.base
  else bumpCur cfg b.base size align
def finishOut (cfg : Cfg) (b : Blk) (size align : Nat) : Out :=
  if neededSat cfg.fence (alignOff (b.base + cfg.fence) align) size > b.size then .throws .badSize
  else .ok (bumpPtr cfg b.base align)

theorem allocate_eq (cfg : Cfg) (s : MemStack) (size align : Nat) (env : List (Option Nat)) :
    s.allocate cfg size align env =
      match growDec cfg s.cur s.arena.used size align with
      | none => (s, .crash, [])
      | some false => ({ s with cur := bumpCur cfg s.cur size align }, .ok (bumpPtr cfg s.cur align), [])
      | some true =>
        match s.arena.allocateBlock env with
        | .envMissing => (s, .envMissing, [])
        | .fail a e ev _ => ({ s with arena := a }, .throws e, ev)
        | .ok a b ev _ => ({ s with arena := a, cur := finishCur cfg b size align }, finishOut cfg b size align, ev) := by
  unfold MemStack.allocate growDec
  rw [blockEnd_eq]
  simp only [allocUnchecked, finishCur, finishOut, bumpCur, bumpPtr]
  have key : (match s.arena.allocateBlock env with
      | .envMissing => (s, Out.envMissing, ([] : List UpEv))
      | .fail a e ev _ => ({ s with arena := a }, .throws e, ev)
      | .ok a b ev _ =>
        if neededSat cfg.fence (alignOff (b.base + cfg.fence) align) size > b.size then
          ({ s with arena := a, cur := b.base }, .throws .badSize, ev)
        else
          ({ s with arena := a, cur := b.base + cfg.fence + alignOff (b.base + cfg.fence) align + size + cfg.fence },
            .ok (b.base + cfg.fence + alignOff (b.base + cfg.fence) align), ev)) =
      (match s.arena.allocateBlock env with
      | .envMissing => (s, .envMissing, [])
      | .fail a e ev _ => ({ s with arena := a }, .throws e, ev)
      | .ok a b ev _ =>
        ({ s with arena := a, cur := if neededSat cfg.fence (alignOff (b.base + cfg.fence) align) size > b.size then b.base
            else b.base + cfg.fence + alignOff (b.base + cfg.fence) align + size + cfg.fence },
          if neededSat cfg.fence (alignOff (b.base + cfg.fence) align) size > b.size then .throws .badSize
            else .ok (b.base + cfg.fence + alignOff (b.base + cfg.fence) align), ev)) := by
    cases s.arena.allocateBlock env with
    | envMissing => rfl
    | fail a e ev env' => rfl
    | ok a b ev env' =>
      simp only []
      split <;> rfl
  by_cases h0 : s.cur = 0
  · simp only [if_pos h0]
    exact key
  · simp only [if_neg h0]
    cases blkEnd s.arena.used with
    | none => rfl
    | some e =>
      simp only []
      cases (!fits cfg.fence (alignOff (s.cur + cfg.fence) align) size (sub64 e s.cur)) with
      | false => rfl
      | true => exact key

theorem finishOut_ne (cfg : Cfg) (b : Blk) (size align : Nat) :
    finishOut cfg b size align ≠ .crash ∧ finishOut cfg b size align ≠ .envMissing := by
  unfold finishOut; split <;> simp

/-- the part of `unwind` that does not depend on the source, the cache contents and the leak counter:
`(cur', used', blocks pushed on the cache, out)` -/
def unwindCore (cfg : Cfg) (cur : Nat) (used : List Blk) (m : Marker) : Nat × List Blk × List Blk × Out :=
  match blkEnd used with
  | none => (cur, used, [], .crash)
  | some e0 =>
    if cfg.assert && !(m.le ⟨used.length - 1, cur, e0⟩) then (cur, used, [], .handler "assert")
    else if cfg.ptrCheck && !(m.index ≤ used.length - 1) then (cur, used, [], .handler "invalid_pointer")
    else
      let k := sub64 (used.length - 1) m.index
      if k ≠ 0 then
        if k ≤ used.length then
          match blkEnd (used.drop k) with
          | none => (cur, used.drop k, (used.take k).reverse, .crash)
          | some e =>
            if cfg.ptrCheck && m.end_ ≠ e then (cur, used.drop k, (used.take k).reverse, .handler "invalid_pointer")
            else (m.top, used.drop k, (used.take k).reverse, .done)
        else (cur, used, [], .crash)
      else
        if cfg.ptrCheck && !(cur ≥ m.top) then (cur, used, [], .handler "invalid_pointer")
        else (m.top, used, [], .done)

theorem unwindEv_core (cfg : Cfg) (src : Src) (used cached : List Blk) (cur : Nat) (leak : Int) (m : Marker) :
    MemStack.unwindEv cfg ⟨⟨src, true, used, cached⟩, cur, leak⟩ m =
      (⟨⟨src, true, (unwindCore cfg cur used m).2.1, (unwindCore cfg cur used m).2.2.1 ++ cached⟩,
        (unwindCore cfg cur used m).1, leak⟩, (unwindCore cfg cur used m).2.2.2, []) := by
  unfold MemStack.unwindEv unwindCore MemStack.top
  simp only [deallocN_cached, blockEnd_eq]
  cases blkEnd used with
  | none => rfl
  | some e0 =>
    simp only []
    by_cases h1 : (cfg.assert && !(m.le ⟨used.length - 1, cur, e0⟩)) = true
    · simp only [if_pos h1, List.nil_append]
    · simp only [if_neg h1]
      by_cases h2 : (cfg.ptrCheck && !decide (m.index ≤ used.length - 1)) = true
      · simp only [if_pos h2, List.nil_append]
      · simp only [if_neg h2]
        by_cases h3 : sub64 (used.length - 1) m.index ≠ 0
        · simp only [if_pos h3]
          by_cases h4 : sub64 (used.length - 1) m.index ≤ used.length
          · simp only [if_pos h4]
            cases blkEnd (List.drop (sub64 (used.length - 1) m.index) used) with
            | none => rfl
            | some e =>
              simp only []
              by_cases h5 : (cfg.ptrCheck && decide (m.end_ ≠ e)) = true
              · simp only [if_pos h5]
              · simp only [if_neg h5]
          · simp only [if_neg h4, List.nil_append]
        · simp only [if_neg h3]
          by_cases h6 : (cfg.ptrCheck && !decide (cur ≥ m.top)) = true
          · simp only [if_pos h6, List.nil_append]
          · simp only [if_neg h6, List.nil_append]

def Src.NonStatic : Src → Prop
  | .static_ _ _ _ => False
  | _ => True

/-- how many more blocks a fixed source can hand out -/
def Src.cap : Src → Nat
  | .fixed b => if b = 0 then 0 else 1
  | _ => 0

/-- the source went from `a` to `b` while handing out `n` blocks -/
def SrcStep (a b : Src) (n : Nat) : Prop :=
  match a, b with
  | .growing _ _ _, .growing _ _ _ => True
  | .fixed x, .fixed y => (Src.fixed y).cap + n = (Src.fixed x).cap
  | _, _ => False

/-- replay relation on sources: the second run (source `b`) must not be able to hand out a block when the
first run (source `a`, with `n` blocks still to be acquired) cannot -/
def SrcSim (a b : Src) (n : Nat) : Prop :=
  match a with
  | .growing _ _ _ => True
  | .fixed x => ∃ y, b = .fixed y ∧ (Src.fixed y).cap + n ≤ (Src.fixed x).cap
  | .static_ _ _ _ => False

theorem SrcStep.refl {a : Src} (h : a.NonStatic) : SrcStep a a 0 := by
  cases a <;> simp_all [SrcStep, Src.NonStatic]

theorem SrcStep.trans {a b c : Src} {n m : Nat} (h1 : SrcStep a b n) (h2 : SrcStep b c m) : SrcStep a c (n + m) := by
  cases a <;> cases b <;> cases c <;> simp_all [SrcStep]
  omega

theorem SrcStep.right {a b : Src} {n : Nat} (h : SrcStep a b n) : b.NonStatic := by
  cases a <;> cases b <;> simp_all [SrcStep, Src.NonStatic]

theorem SrcStep.toSim {a b : Src} {n : Nat} (h : SrcStep a b n) : SrcSim a b n := by
  cases a <;> cases b <;> simp_all [SrcStep, SrcSim]

theorem SrcSim.step {a a' b : Src} {n : Nat} (h1 : SrcStep a a' 1) (h2 : SrcSim a b (n + 1)) : SrcSim a' b n := by
  cases a with
  | growing _ _ _ => cases a' <;> simp_all [SrcStep, SrcSim]
  | static_ _ _ _ => simp [SrcSim] at h2
  | fixed x =>
    cases a' with
    | growing _ _ _ => simp [SrcStep] at h1
    | static_ _ _ _ => simp [SrcStep] at h1
    | fixed x' =>
      simp only [SrcStep] at h1
      simp only [SrcSim] at h2 ⊢
      obtain ⟨y, hy, hle⟩ := h2
      exact ⟨y, hy, by omega⟩

theorem SrcSim.fixed0 {b : Src} {n : Nat} (h : SrcSim (.fixed 0) b n) : b = .fixed 0 ∧ n = 0 := by
  simp only [SrcSim, Src.cap] at h
  obtain ⟨y, rfl, hy⟩ := h
  by_cases hy0 : y = 0
  · subst hy0; simp at hy; simp [hy]
  · simp [hy0] at hy

theorem SrcSim.left {a b : Src} {n : Nat} (h : SrcSim a b n) : a.NonStatic := by
  cases a <;> simp_all [SrcSim, Src.NonStatic]

theorem arena_alloc_cache (src : Src) (used : List Blk) (c : Blk) (cs : List Blk) (env : List (Option Nat)) :
    Arena.allocateBlock ⟨src, true, used, c :: cs⟩ env = .ok ⟨src, true, c :: used, cs⟩ c.usable [] env := rfl

theorem arena_alloc_exact (src : Src) (hns : src.NonStatic) (used : List Blk) (x : Option Nat) :
    (∃ b, Arena.allocateBlock ⟨src, true, used, []⟩ [x] = .fail ⟨src, true, used, []⟩ .upstream [.alloc b maxAlign none] []) ∨
    (src = .fixed 0 ∧ Arena.allocateBlock ⟨src, true, used, []⟩ [x] = .fail ⟨src, true, used, []⟩ .oofm [] [x]) ∨
    (∃ src' n, Arena.allocateBlock ⟨src, true, used, []⟩ [x] =
        .ok ⟨src', true, n :: used, []⟩ n.usable [.alloc n.size maxAlign (some n.base)] [] ∧ SrcStep src src' 1) := by
  cases src with
  | static_ c e b => exact absurd hns (by simp [Src.NonStatic])
  | growing n d b =>
    cases x with
    | none => exact .inl ⟨b, rfl⟩
    | some a => exact .inr (.inr ⟨_, ⟨a, b⟩, rfl, by simp [SrcStep]⟩)
  | fixed b =>
    by_cases hb : b = 0
    · subst hb
      exact .inr (.inl ⟨rfl, rfl⟩)
    · cases x with
      | none =>
        refine .inl ⟨b, ?_⟩
        simp [Arena.allocateBlock, Src.allocateBlock, hb]
      | some a =>
        refine .inr (.inr ⟨.fixed 0, ⟨a, b⟩, ?_, ?_⟩)
        · simp [Arena.allocateBlock, Src.allocateBlock, hb]
        · simp [SrcStep, Src.cap, hb]

theorem arena_alloc_src (a : Arena) (h : a.isCached = false ∨ a.cached = []) (env : List (Option Nat)) :
    a.allocateBlock env =
      match a.src.allocateBlock env with
      | .envMissing => .envMissing
      | .fail s e ev env' => .fail { a with src := s } e ev env'
      | .ok s b ev env' => .ok { a with src := s, used := b :: a.used } b.usable ev env' := by
  obtain ⟨src, ic, used, cached⟩ := a
  simp only at h
  rcases h with h | h
  · subst h; rfl
  · subst h; cases ic <;> rfl

theorem arena_alloc_robust (a : Arena) (x : Option Nat) :
    match a.allocateBlock [x] with
    | .envMissing => False
    | .fail a' _ _ _ => a'.used = a.used ∧ a'.isCached = a.isCached
    | .ok a' _ _ _ => a'.isCached = a.isCached ∧ ∃ blk, a'.used = blk :: a.used := by
  by_cases h : a.isCached = false ∨ a.cached = []
  · rw [arena_alloc_src a h]
    cases hsrc : a.src with
    | growing n d b =>
      cases x <;> simp [Src.allocateBlock]
    | fixed b =>
      by_cases hb : b = 0
      · simp [Src.allocateBlock, hb]
      · cases x <;> simp [Src.allocateBlock, hb]
    | static_ c e b =>
      simp only [Src.allocateBlock]
      by_cases hx : Gen.staticBlockExhausted (BitVec.ofNat 64 c) (BitVec.ofNat 64 b) (BitVec.ofNat 64 e) = true
      · simp [hx]
      · simp [hx]
  · obtain ⟨src, ic, used, cached⟩ := a
    simp only [not_or, Bool.not_eq_false] at h
    obtain ⟨h1, h2⟩ := h
    subst h1
    cases cached with
    | nil => exact absurd rfl h2
    | cons c cs => simp [Arena.allocateBlock]
end MemVerif.Model
