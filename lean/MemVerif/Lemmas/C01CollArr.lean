import MemVerif.Lemmas.C01Coll
/-!
C01 for `memory_pool_collection` over the intrusive free lists, **array operations** (`allocate_array`,
`try_allocate_array`, `deallocate_array`) on top of `Lemmas/C01Coll.lean`.

The ledger stays a list of *cells*: an array of `k` cells served by the bucket of key `s` is entered as its `k` cell
entries `(a + t * ns, s)`, `t < k` (`arrEntries`), so the invariant `CInv` is unchanged; a release of the array removes
exactly those entries (`removeEntries`) and requires that the caller still holds all of them.
-/
namespace MemVerif.Model
open MemVerif.Gen

/-! ### list and interval facts -/

/-- an interval that is disjoint from each of `k ≥ 1` consecutive cells is disjoint from their span -/
theorem span_disjoint {a ns p len : Nat} (hlen : 0 < len) :
    ∀ k, (∀ t, t < k + 1 → p + len ≤ a + t * ns ∨ a + t * ns + ns ≤ p) → p + len ≤ a ∨ a + (k + 1) * ns ≤ p := by
  intro k
  induction k with
  | zero =>
    intro h
    have := h 0 (by omega)
    simp only [Nat.zero_mul, Nat.add_zero, Nat.zero_add, Nat.one_mul] at this ⊢
    exact this
  | succ k ih =>
    intro h
    rcases ih (fun t ht => h t (by omega)) with h1 | h1
    · exact Or.inl h1
    · have := h (k + 1) (by omega)
      rcases this with h2 | h2
      · omega
      · right
        have e : (k + 1 + 1) * ns = (k + 1) * ns + ns := by rw [Nat.add_mul, Nat.one_mul]
        omega

/-- `l` without the elements of `E` -/
def removeAllOf {α} [DecidableEq α] (l E : List α) : List α := l.filter (fun e => decide (e ∉ E))

theorem perm_filter_mem {α} [DecidableEq α] {l E : List α} (hl : l.Nodup) (hE : E.Nodup) (hsub : ∀ e ∈ E, e ∈ l) :
    l.Perm (E ++ removeAllOf l E) := by
  unfold removeAllOf
  rw [List.perm_ext_iff_of_nodup hl]
  · intro x
    simp only [List.mem_append, List.mem_filter, decide_eq_true_eq]
    constructor
    · intro hx
      by_cases hxe : x ∈ E
      · exact Or.inl hxe
      · exact Or.inr ⟨hx, hxe⟩
    · rintro (hx | ⟨hx, _⟩)
      · exact hsub x hx
      · exact hx
  · rw [List.nodup_append]
    refine ⟨hE, hl.sublist List.filter_sublist, ?_⟩
    intro x hx y hy hxy
    subst hxy
    simp only [List.mem_filter, decide_eq_true_eq] at hy
    exact hy.2 hx

/-! ### ledger entries of an array -/

/-- the `k` cell entries of an array at `a` in a bucket with nodes of `ns` bytes, requested with key `s` -/
def arrEntries (ns a s k : Nat) : List (Nat × Nat) := (blockNodes a ns k).map fun x => (x, s)

/-- the ledger without the cells of an array -/
def removeEntries (live E : List (Nat × Nat)) : List (Nat × Nat) := removeAllOf live E

theorem arrEntries_nodup (ns a s k : Nat) (hns : 0 < ns) : (arrEntries ns a s k).Nodup := by
  unfold arrEntries List.Nodup
  rw [List.pairwise_map]
  exact (blockNodes_pairwise a ns k).imp (fun {x y} hxy he => by
    have := (Prod.mk.inj he).1
    unfold Apart at hxy
    omega)

theorem liveRanges_arrEntries (c : Coll) (a s k : Nat) :
    liveRanges c (arrEntries (c.nsOf s) a s k) = (blockNodes a (c.nsOf s) k).map fun x => (x, c.nsOf s) := by
  unfold liveRanges arrEntries
  rw [List.map_map]
  rfl

theorem liveRanges_append (c : Coll) (l1 l2 : List (Nat × Nat)) :
    liveRanges c (l1 ++ l2) = liveRanges c l1 ++ liveRanges c l2 := List.map_append

/-- positive node size of the bucket of a live entry -/
theorem CInv.nsOf_pos {arr arrLen : Nat} {c : Coll} {live : List (Nat × Nat)} (h : CInv arr arrLen c live) {as : Nat × Nat}
    (has : as ∈ live) : 0 < c.nsOf as.2 := by
  obtain ⟨l, hl⟩ := h.liveOk as has
  unfold Coll.nsOf
  rw [hl]
  exact (h.lists _ l hl).2.2

/-- the live entries are pairwise different (their ranges are disjoint and non-empty) -/
theorem CInv.live_nodup {arr arrLen : Nat} {c : Coll} {live : List (Nat × Nat)} (h : CInv arr arrLen c live) : live.Nodup := by
  have hd := h.rinv.disj
  unfold collRanges at hd
  rw [List.pairwise_cons, List.pairwise_append] at hd
  have hl := hd.2.2.1
  unfold liveRanges at hl
  rw [List.pairwise_map] at hl
  unfold List.Nodup
  refine List.Pairwise.imp_of_mem ?_ hl
  intro x y hx _ hxy he
  subst he
  have := h.nsOf_pos hx
  unfold RDisj2 at hxy
  simp only at hxy
  omega

/-! ### taking a run of cells from a bucket -/

theorem CInv.popRun {arr arrLen : Nat} {c : Coll} {live : List (Nat × Nat)} (h : CInv arr arrLen c live) {s a n : Nat}
    {l l2 : AnyList} (hl : c.lists[c.listIndex s]? = some l) (hal : l.allocateBytes n = some (l2, some a)) :
    CInv arr arrLen (c.setList (c.listIndex s) l2) (arrEntries l.nodeSize a s (cellsOf l.nodeSize n) ++ live) := by
  obtain ⟨hint, hS, hpos⟩ := h.lists _ l hl
  obtain ⟨A, B, hc1, hc2, hsame, hS'⟩ := AnyList.allocateBytes_spec hS hpos hal
  have hS'' : l2.SInv c.arena.used [] := SInv_irrel _ [] (by intro P; rw [hsame.obj]; exact hint P) hS'
  obtain ⟨s1, s2, s3⟩ := h.setList_shape hl hsame hS''
  have hns : c.nsOf s = l.nodeSize := by unfold Coll.nsOf; rw [hl]; rfl
  refine ⟨h.blocks, h.top, s1, s2, ?_, ?_⟩
  · show RInv c.arena.used c.cur (collRanges arr arrLen (c.setList (c.listIndex s) l2) _)
    apply h.rinv.perm
    unfold collRanges
    refine List.Perm.cons _ ?_
    rw [liveRanges_setList c _ l l2 hl hsame.ns, liveRanges_append, ← hns, liveRanges_arrEntries, hns]
    obtain ⟨e1, e2⟩ := cellRanges_set c.lists (c.listIndex s) l l2 hl
    show (cellRanges (c.lists.set (c.listIndex s) l2) ++ _).Perm _
    rw [e1, e2]
    have h1 : listRanges l = A.map (fun x => (x, l.nodeSize)) ++ (blockNodes a l.nodeSize (cellsOf l.nodeSize n)).map (fun x => (x, l.nodeSize))
        ++ B.map (fun x => (x, l.nodeSize)) := by
      unfold listRanges; rw [hc1]; simp
    have h2 : listRanges l2 = A.map (fun x => (x, l.nodeSize)) ++ B.map (fun x => (x, l.nodeSize)) := by
      unfold listRanges; rw [hc2, hsame.ns]; simp
    rw [h1, h2]
    generalize cellRanges (List.take (c.listIndex s) c.lists) = X
    generalize cellRanges (List.drop (c.listIndex s + 1) c.lists) = Y
    generalize liveRanges c live = L
    generalize A.map (fun x => (x, l.nodeSize)) = A'
    generalize B.map (fun x => (x, l.nodeSize)) = B'
    generalize (blockNodes a l.nodeSize (cellsOf l.nodeSize n)).map (fun x => (x, l.nodeSize)) = R
    simp only [List.append_assoc]
    refine List.Perm.append_left _ (List.Perm.append_left _ ?_)
    -- B' ++ (Y ++ (R ++ L)) ~ R ++ (B' ++ (Y ++ L))
    have : (B' ++ (Y ++ (R ++ L))).Perm (R ++ (B' ++ (Y ++ L))) := by
      have t := List.perm_append_comm_assoc (B' ++ Y) R L
      simpa [List.append_assoc] using t
    exact this
  · intro as has
    rcases List.mem_append.mp has with has | has
    · unfold arrEntries at has
      obtain ⟨x, _, rfl⟩ := List.mem_map.mp has
      exact s3 s ⟨l, hl⟩
    · exact s3 as.2 (h.liveOk as has)

/-! ### giving an array back -/

theorem AnyList.deallocateBytes_node (cfg : Cfg) {l : AnyList} (hint : ∀ P, l.obj ≠ .small P) {p n : Nat} (hn : n ≤ l.nodeSize) :
    l.deallocateBytes cfg p n = l.deallocate cfg p := by
  cases l with
  | small sl => exact absurd rfl (hint sl.P)
  | free fl =>
    simp only [AnyList.nodeSize] at hn
    simp [AnyList.deallocateBytes, AnyList.deallocate, FreeList.deallocateBytes, hn]
  | ord ol =>
    simp only [AnyList.nodeSize] at hn
    simp [AnyList.deallocateBytes, AnyList.deallocate, OrdList.deallocateBytes, hn]

/-- **`deallocate_array(ptr, count, size)` of an array whose cells the caller still holds** -/
theorem Coll.deallocateArray_inv (cfg : Cfg) {arr arrLen : Nat} {c : Coll} {live : List (Nat × Nat)}
    (h : CInv arr arrLen c live) {a count s : Nat} {l : AnyList} (hl : c.lists[c.listIndex s]? = some l)
    (hsub : ∀ e ∈ arrEntries l.nodeSize a s (cellsOf l.nodeSize (mul64 count s)), e ∈ live) :
    (c.deallocateArray cfg a count s).out = .done ∧ (c.deallocateArray cfg a count s).ev = [] ∧
      CInv arr arrLen (c.deallocateArray cfg a count s).st
        (removeEntries live (arrEntries l.nodeSize a s (cellsOf l.nodeSize (mul64 count s)))) := by
  obtain ⟨hint, hS, hpos⟩ := h.lists _ l hl
  have hns : c.nsOf s = l.nodeSize := by unfold Coll.nsOf; rw [hl]; rfl
  generalize hk : cellsOf l.nodeSize (mul64 count s) = k at hsub ⊢
  generalize hE : arrEntries l.nodeSize a s k = E at hsub ⊢
  have hkpos : 0 < k := by rw [← hk]; exact cellsOf_pos _ _ hpos
  obtain ⟨k', rfl⟩ : ∃ k', k = k' + 1 := ⟨k - 1, by omega⟩
  -- every cell of the array is a live range of this bucket
  have hcell : ∀ t, t < k' + 1 → (a + t * l.nodeSize, l.nodeSize) ∈ liveRanges c live := by
    intro t ht
    have hm : (a + t * l.nodeSize, s) ∈ E := by
      rw [← hE]; unfold arrEntries
      exact List.mem_map.mpr ⟨_, mem_blockNodes.mpr ⟨t, ht, rfl⟩, rfl⟩
    unfold liveRanges
    exact List.mem_map.mpr ⟨_, hsub _ hm, by simp only [hns]⟩
  have hd := h.rinv.disj
  unfold collRanges at hd
  rw [List.pairwise_cons, List.pairwise_append] at hd
  obtain ⟨d1, d2, _, d4⟩ := hd
  -- the run is apart from the bucket's free cells
  have hap : l.CellsApart a (k' + 1) := by
    intro y hy
    have hyR : (y, l.nodeSize) ∈ cellRanges c.lists :=
      List.mem_flatMap.mpr ⟨l, List.mem_of_getElem? hl, List.mem_map.mpr ⟨y, hy, rfl⟩⟩
    apply span_disjoint hpos k'
    intro t ht
    have := d4 _ hyR _ (hcell t ht)
    unfold RDisj2 at this
    simp only at this
    omega
  have hout : AnyList.OutObj l.obj a ((k' + 1) * l.nodeSize) := by
    cases hobj : l.obj with
    | unordered => trivial
    | small P => exact absurd hobj (hint P)
    | ordered B =>
      obtain ⟨p1, p2⟩ := h.proxies _ l hl B hobj
      unfold AnyList.OutObj AnyList.ListObj.addr
      simp only
      have := span_disjoint (a := a) (ns := l.nodeSize) (p := B) (len := 16) (by omega) k' (by
        intro t ht
        have := d1 _ (List.mem_append_right _ (hcell t ht))
        unfold RDisj2 at this
        simp only at this
        omega)
      omega
  have ha0 : 0 < a := by
    have hm := hcell 0 (by omega)
    simp only [Nat.zero_mul, Nat.add_zero] at hm
    have hm' : (a, l.nodeSize) ∈ collRanges arr arrLen c live := by
      unfold collRanges
      exact List.mem_cons_of_mem _ (List.mem_append_right _ hm)
    obtain ⟨b, hb, hin⟩ := h.rinv.inside _ hm'
    have hw := h.blocks.1 b hb
    unfold Blk.Wf at hw
    unfold InBlk at hin
    simp only at hin
    omega
  -- the list operation
  have hop : ∃ l', l.deallocateBytes cfg a (mul64 count s) = .ok l' ∧
      l'.cells.Perm (blockNodes a l.nodeSize (k' + 1) ++ l.cells) ∧ AnyList.Same l l' ∧ l'.SInv c.arena.used [] := by
    by_cases hn : mul64 count s ≤ l.nodeSize
    · have hk1 : k' + 1 = 1 := by rw [← hk]; simp [cellsOf, hn]
      rw [AnyList.deallocateBytes_node cfg hint hn]
      obtain ⟨l', q1, q2, q3, q4⟩ := AnyList.deallocate_spec cfg (live := [(a, s)]) (i := 0) (b := s)
        (SInv_irrel [] [(a, s)] hint hS) rfl (by rw [hk1] at hap; exact hap)
        (by rw [hk1, Nat.one_mul] at hout; exact hout) ha0
      refine ⟨l', q1, ?_, q3, by simpa using q4⟩
      rw [hk1]
      simpa [blockNodes] using q2
    · have hn' : l.nodeSize < mul64 count s := by omega
      have hk2 : ceilNodes (mul64 count s) l.nodeSize = k' + 1 := by
        rw [← hk]; simp [cellsOf, hn]
      obtain ⟨l', q1, q2, q3, q4⟩ := AnyList.deallocateBytes_spec cfg (live := [(a, mul64 count s)]) (i := 0)
        (SInv_irrel [] [(a, mul64 count s)] hint hS) rfl hpos hn' (by rw [hk2]; exact hap) (by rw [hk2]; exact hout) ha0
      refine ⟨l', q1, by rw [hk2] at q2; exact q2, q3, by simpa using q4⟩
  obtain ⟨l', hd', hperm, hsame, hS'⟩ := hop
  unfold Coll.deallocateArray
  simp only [hl, hd']
  refine ⟨trivial, trivial, ?_⟩
  obtain ⟨s1, s2, s3⟩ := h.setList_shape hl hsame hS'
  have hsubset : ∀ as ∈ removeEntries live E, as ∈ live := fun as has => by
    unfold removeEntries removeAllOf at has; exact (List.mem_filter.mp has).1
  refine ⟨h.blocks, h.top, s1, s2, ?_, fun as has => s3 as.2 (h.liveOk as (hsubset as has))⟩
  show RInv c.arena.used c.cur (collRanges arr arrLen (c.setList (c.listIndex s) l') (removeEntries live E))
  apply h.rinv.perm
  unfold collRanges
  refine List.Perm.cons _ ?_
  rw [liveRanges_setList c _ l l' hl hsame.ns]
  obtain ⟨e1, e2⟩ := cellRanges_set c.lists (c.listIndex s) l l' hl
  show (cellRanges (c.lists.set (c.listIndex s) l') ++ _).Perm _
  rw [e1, e2]
  have hlr : (listRanges l').Perm ((blockNodes a l.nodeSize (k' + 1)).map (fun x => (x, l.nodeSize)) ++ listRanges l) := by
    unfold listRanges
    rw [hsame.ns, ← List.map_append]
    exact hperm.map _
  have hlive : (liveRanges c live).Perm ((blockNodes a l.nodeSize (k' + 1)).map (fun x => (x, l.nodeSize)) ++ liveRanges c (removeEntries live E)) := by
    have hp := perm_filter_mem h.live_nodup (by rw [← hE]; exact arrEntries_nodup _ _ _ _ hpos) hsub
    have := hp.map (fun as : Nat × Nat => (as.1, c.nsOf as.2))
    unfold liveRanges removeEntries
    rw [List.map_append] at this
    have hE2 : E.map (fun as : Nat × Nat => (as.1, c.nsOf as.2)) = (blockNodes a l.nodeSize (k' + 1)).map (fun x => (x, l.nodeSize)) := by
      rw [← hE]
      unfold arrEntries
      rw [List.map_map]
      apply List.map_congr_left
      intro x _
      simp only [Function.comp, hns]
    rw [hE2] at this
    exact this
  generalize cellRanges (List.take (c.listIndex s) c.lists) = X at *
  generalize cellRanges (List.drop (c.listIndex s + 1) c.lists) = Y at *
  generalize (blockNodes a l.nodeSize (k' + 1)).map (fun x => (x, l.nodeSize)) = R at *
  generalize liveRanges c (removeEntries live E) = L' at *
  have t1 : (X ++ listRanges l' ++ Y ++ L').Perm (X ++ (R ++ listRanges l) ++ Y ++ L') :=
    List.Perm.append_right _ (List.Perm.append_right _ (List.Perm.append_left _ hlr))
  have t2 : (X ++ listRanges l ++ Y ++ liveRanges c live).Perm (X ++ listRanges l ++ Y ++ (R ++ L')) :=
    List.Perm.append_left _ hlive
  have t3 : (X ++ (R ++ listRanges l) ++ Y ++ L').Perm (X ++ listRanges l ++ Y ++ (R ++ L')) := by
    simp only [List.append_assoc]
    refine List.Perm.append_left _ ?_
    have := List.perm_append_comm_assoc R (listRanges l ++ Y) L'
    simpa [List.append_assoc] using this
  exact t1.trans (t3.trans t2.symm)

end MemVerif.Model
