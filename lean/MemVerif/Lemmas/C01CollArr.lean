import MemVerif.Lemmas.C01Coll
import MemVerif.Model.CollRunA
/-!
C01 for `memory_pool_collection` over the intrusive free lists, **array operations** (`allocate_array`,
`try_allocate_array`, `deallocate_array`) on top of `Lemmas/C01Coll.lean`.

The ledger stays a list of *cells*: an array of `k` cells served by the bucket of key `s` is entered as its `k` cell
entries `(a + t * ns, s)`, `t < k` (`arrEntries`), so the invariant `CInv` is unchanged; a release of the array removes
exactly those entries (`removeEntries`) and requires that the caller still holds all of them.
-/
namespace MemVerif.Model
open MemVerif.Gen

/-! ### list and interval facts -/

/-- an interval that is disjoint from each of `k ≥ 1` consecutive cells is disjoint from their span -/
theorem span_disjoint {a ns p len : Nat} (hlen : 0 < len) :
    ∀ k, (∀ t, t < k + 1 → p + len ≤ a + t * ns ∨ a + t * ns + ns ≤ p) → p + len ≤ a ∨ a + (k + 1) * ns ≤ p := by
  intro k
  induction k with
  | zero =>
    intro h
    have := h 0 (by omega)
    simp only [Nat.zero_mul, Nat.add_zero, Nat.zero_add, Nat.one_mul] at this ⊢
    exact this
  | succ k ih =>
    intro h
    rcases ih (fun t ht => h t (by omega)) with h1 | h1
    · exact Or.inl h1
    · have := h (k + 1) (by omega)
      rcases this with h2 | h2
      · omega
      · right
        have e : (k + 1 + 1) * ns = (k + 1) * ns + ns := by rw [Nat.add_mul, Nat.one_mul]
        omega

theorem perm_filter_mem {α} [DecidableEq α] {l E : List α} (hl : l.Nodup) (hE : E.Nodup) (hsub : ∀ e ∈ E, e ∈ l) :
    l.Perm (E ++ removeAllOf l E) := by
  unfold removeAllOf
  rw [List.perm_ext_iff_of_nodup hl]
  · intro x
    simp only [List.mem_append, List.mem_filter, decide_eq_true_eq]
    constructor
    · intro hx
      by_cases hxe : x ∈ E
      · exact Or.inl hxe
      · exact Or.inr ⟨hx, hxe⟩
    · rintro (hx | ⟨hx, _⟩)
      · exact hsub x hx
      · exact hx
  · rw [List.nodup_append]
    refine ⟨hE, hl.sublist List.filter_sublist, ?_⟩
    intro x hx y hy hxy
    subst hxy
    simp only [List.mem_filter, decide_eq_true_eq] at hy
    exact hy.2 hx

/-! ### ledger entries of an array -/

theorem arrEntries_nodup (ns a s k : Nat) (hns : 0 < ns) : (arrEntries ns a s k).Nodup := by
  unfold arrEntries List.Nodup
  rw [List.pairwise_map]
  exact (blockNodes_pairwise a ns k).imp (fun {x y} hxy he => by
    have := (Prod.mk.inj he).1
    unfold Apart at hxy
    omega)

theorem liveRanges_arrEntries (c : Coll) (a s k : Nat) :
    liveRanges c (arrEntries (c.nsOf s) a s k) = (blockNodes a (c.nsOf s) k).map fun x => (x, c.nsOf s) := by
  unfold liveRanges arrEntries
  rw [List.map_map]
  rfl

theorem liveRanges_append (c : Coll) (l1 l2 : List (Nat × Nat)) :
    liveRanges c (l1 ++ l2) = liveRanges c l1 ++ liveRanges c l2 := List.map_append

/-- positive node size of the bucket of a live entry -/
theorem CInv.nsOf_pos {arr arrLen : Nat} {c : Coll} {live : List (Nat × Nat)} (h : CInv arr arrLen c live) {as : Nat × Nat}
    (has : as ∈ live) : 0 < c.nsOf as.2 := by
  obtain ⟨l, hl⟩ := h.liveOk as has
  unfold Coll.nsOf
  rw [hl]
  exact (h.lists _ l hl).2.2

/-- the live entries are pairwise different (their ranges are disjoint and non-empty) -/
theorem CInv.live_nodup {arr arrLen : Nat} {c : Coll} {live : List (Nat × Nat)} (h : CInv arr arrLen c live) : live.Nodup := by
  have hd := h.rinv.disj
  unfold collRanges at hd
  rw [List.pairwise_cons, List.pairwise_append] at hd
  have hl := hd.2.2.1
  unfold liveRanges at hl
  rw [List.pairwise_map] at hl
  unfold List.Nodup
  refine List.Pairwise.imp_of_mem ?_ hl
  intro x y hx _ hxy he
  subst he
  have := h.nsOf_pos hx
  unfold RDisj2 at hxy
  simp only at hxy
  omega

/-! ### taking a run of cells from a bucket -/

theorem CInv.popRun {arr arrLen : Nat} {c : Coll} {live : List (Nat × Nat)} (h : CInv arr arrLen c live) {s a n : Nat}
    {l l2 : AnyList} (hl : c.lists[c.listIndex s]? = some l) (hal : l.allocateBytes n = some (l2, some a)) :
    CInv arr arrLen (c.setList (c.listIndex s) l2) (arrEntries l.nodeSize a s (cellsOf l.nodeSize n) ++ live) := by
  obtain ⟨hint, hS, hpos⟩ := h.lists _ l hl
  obtain ⟨A, B, hc1, hc2, hsame, hS'⟩ := AnyList.allocateBytes_spec hS hpos hal
  have hS'' : l2.SInv c.arena.used [] := SInv_irrel _ [] (by intro P; rw [hsame.obj]; exact hint P) hS'
  obtain ⟨s1, s2, s3⟩ := h.setList_shape hl hsame hS''
  have hns : c.nsOf s = l.nodeSize := by unfold Coll.nsOf; rw [hl]; rfl
  refine ⟨h.blocks, h.top, s1, s2, ?_, ?_⟩
  · show RInv c.arena.used c.cur (collRanges arr arrLen (c.setList (c.listIndex s) l2) _)
    apply h.rinv.perm
    unfold collRanges
    refine List.Perm.cons _ ?_
    rw [liveRanges_setList c _ l l2 hl hsame.ns, liveRanges_append, ← hns, liveRanges_arrEntries, hns]
    obtain ⟨e1, e2⟩ := cellRanges_set c.lists (c.listIndex s) l l2 hl
    show (cellRanges (c.lists.set (c.listIndex s) l2) ++ _).Perm _
    rw [e1, e2]
    have h1 : listRanges l = A.map (fun x => (x, l.nodeSize)) ++ (blockNodes a l.nodeSize (cellsOf l.nodeSize n)).map (fun x => (x, l.nodeSize))
        ++ B.map (fun x => (x, l.nodeSize)) := by
      unfold listRanges; rw [hc1]; simp
    have h2 : listRanges l2 = A.map (fun x => (x, l.nodeSize)) ++ B.map (fun x => (x, l.nodeSize)) := by
      unfold listRanges; rw [hc2, hsame.ns]; simp
    rw [h1, h2]
    generalize cellRanges (List.take (c.listIndex s) c.lists) = X
    generalize cellRanges (List.drop (c.listIndex s + 1) c.lists) = Y
    generalize liveRanges c live = L
    generalize A.map (fun x => (x, l.nodeSize)) = A'
    generalize B.map (fun x => (x, l.nodeSize)) = B'
    generalize (blockNodes a l.nodeSize (cellsOf l.nodeSize n)).map (fun x => (x, l.nodeSize)) = R
    simp only [List.append_assoc]
    refine List.Perm.append_left _ (List.Perm.append_left _ ?_)
    -- B' ++ (Y ++ (R ++ L)) ~ R ++ (B' ++ (Y ++ L))
    have : (B' ++ (Y ++ (R ++ L))).Perm (R ++ (B' ++ (Y ++ L))) := by
      have t := List.perm_append_comm_assoc (B' ++ Y) R L
      simpa [List.append_assoc] using t
    exact this
  · intro as has
    rcases List.mem_append.mp has with has | has
    · unfold arrEntries at has
      obtain ⟨x, _, rfl⟩ := List.mem_map.mp has
      exact s3 s ⟨l, hl⟩
    · exact s3 as.2 (h.liveOk as has)

/-! ### giving an array back -/

theorem AnyList.deallocateBytes_node (cfg : Cfg) {l : AnyList} (hint : ∀ P, l.obj ≠ .small P) {p n : Nat} (hn : n ≤ l.nodeSize) :
    l.deallocateBytes cfg p n = l.deallocate cfg p := by
  cases l with
  | small sl => exact absurd rfl (hint sl.P)
  | free fl =>
    simp only [AnyList.nodeSize] at hn
    simp [AnyList.deallocateBytes, AnyList.deallocate, FreeList.deallocateBytes, hn]
  | ord ol =>
    simp only [AnyList.nodeSize] at hn
    simp [AnyList.deallocateBytes, AnyList.deallocate, OrdList.deallocateBytes, hn]

/-- the list-level part of `deallocate_array` of an array whose cells the caller still holds: the bucket's
`deallocate(ptr, n)` succeeds and adds exactly the array's cells -/
theorem CInv.arrayRelease_list (cfg : Cfg) {arr arrLen : Nat} {c : Coll} {live : List (Nat × Nat)}
    (h : CInv arr arrLen c live) {a count s : Nat} {l : AnyList} (hl : c.lists[c.listIndex s]? = some l)
    (hsub : ∀ e ∈ arrEntries l.nodeSize a s (cellsOf l.nodeSize (mul64 count s)), e ∈ live) :
    ∃ l', l.deallocateBytes cfg a (mul64 count s) = .ok l' ∧
      l'.cells.Perm (blockNodes a l.nodeSize (cellsOf l.nodeSize (mul64 count s)) ++ l.cells) ∧ AnyList.Same l l' ∧
      l'.SInv c.arena.used [] := by
  obtain ⟨hint, hS, hpos⟩ := h.lists _ l hl
  have hns : c.nsOf s = l.nodeSize := by unfold Coll.nsOf; rw [hl]; rfl
  generalize hk : cellsOf l.nodeSize (mul64 count s) = k at hsub ⊢
  generalize hE : arrEntries l.nodeSize a s k = E at hsub
  have hkpos : 0 < k := by rw [← hk]; exact cellsOf_pos _ _ hpos
  obtain ⟨k', rfl⟩ : ∃ k', k = k' + 1 := ⟨k - 1, by omega⟩
  -- every cell of the array is a live range of this bucket
  have hcell : ∀ t, t < k' + 1 → (a + t * l.nodeSize, l.nodeSize) ∈ liveRanges c live := by
    intro t ht
    have hm : (a + t * l.nodeSize, s) ∈ E := by
      rw [← hE]; unfold arrEntries
      exact List.mem_map.mpr ⟨_, mem_blockNodes.mpr ⟨t, ht, rfl⟩, rfl⟩
    unfold liveRanges
    exact List.mem_map.mpr ⟨_, hsub _ hm, by simp only [hns]⟩
  have hd := h.rinv.disj
  unfold collRanges at hd
  rw [List.pairwise_cons, List.pairwise_append] at hd
  obtain ⟨d1, d2, _, d4⟩ := hd
  -- the run is apart from the bucket's free cells
  have hap : l.CellsApart a (k' + 1) := by
    intro y hy
    have hyR : (y, l.nodeSize) ∈ cellRanges c.lists :=
      List.mem_flatMap.mpr ⟨l, List.mem_of_getElem? hl, List.mem_map.mpr ⟨y, hy, rfl⟩⟩
    apply span_disjoint hpos k'
    intro t ht
    have := d4 _ hyR _ (hcell t ht)
    unfold RDisj2 at this
    simp only at this
    omega
  have hout : AnyList.OutObj l.obj a ((k' + 1) * l.nodeSize) := by
    cases hobj : l.obj with
    | unordered => trivial
    | small P => exact absurd hobj (hint P)
    | ordered B =>
      obtain ⟨p1, p2⟩ := h.proxies _ l hl B hobj
      unfold AnyList.OutObj AnyList.ListObj.addr
      simp only
      have := span_disjoint (a := a) (ns := l.nodeSize) (p := B) (len := 16) (by omega) k' (by
        intro t ht
        have := d1 _ (List.mem_append_right _ (hcell t ht))
        unfold RDisj2 at this
        simp only at this
        omega)
      omega
  have ha0 : 0 < a := by
    have hm := hcell 0 (by omega)
    simp only [Nat.zero_mul, Nat.add_zero] at hm
    have hm' : (a, l.nodeSize) ∈ collRanges arr arrLen c live := by
      unfold collRanges
      exact List.mem_cons_of_mem _ (List.mem_append_right _ hm)
    obtain ⟨b, hb, hin⟩ := h.rinv.inside _ hm'
    have hw := h.blocks.1 b hb
    unfold Blk.Wf at hw
    unfold InBlk at hin
    simp only at hin
    omega
  -- the list operation
  by_cases hn : mul64 count s ≤ l.nodeSize
  · have hk1 : k' + 1 = 1 := by rw [← hk]; simp [cellsOf, hn]
    rw [AnyList.deallocateBytes_node cfg hint hn]
    obtain ⟨l', q1, q2, q3, q4⟩ := AnyList.deallocate_spec cfg (live := [(a, s)]) (i := 0) (b := s)
      (SInv_irrel [] [(a, s)] hint hS) rfl (by rw [hk1] at hap; exact hap)
      (by rw [hk1, Nat.one_mul] at hout; exact hout) ha0
    refine ⟨l', q1, ?_, q3, by simpa using q4⟩
    rw [hk1]
    simpa [blockNodes] using q2
  · have hn' : l.nodeSize < mul64 count s := by omega
    have hk2 : ceilNodes (mul64 count s) l.nodeSize = k' + 1 := by
      rw [← hk]; simp [cellsOf, hn]
    obtain ⟨l', q1, q2, q3, q4⟩ := AnyList.deallocateBytes_spec cfg (live := [(a, mul64 count s)]) (i := 0)
      (SInv_irrel [] [(a, mul64 count s)] hint hS) rfl hpos hn' (by rw [hk2]; exact hap) (by rw [hk2]; exact hout) ha0
    refine ⟨l', q1, by rw [hk2] at q2; exact q2, q3, by simpa using q4⟩

/-- **`deallocate_array(ptr, count, size)` of an array whose cells the caller still holds** -/
theorem Coll.deallocateArray_inv (cfg : Cfg) {arr arrLen : Nat} {c : Coll} {live : List (Nat × Nat)}
    (h : CInv arr arrLen c live) {a count s : Nat} {l : AnyList} (hl : c.lists[c.listIndex s]? = some l)
    (hsub : ∀ e ∈ arrEntries l.nodeSize a s (cellsOf l.nodeSize (mul64 count s)), e ∈ live) :
    (c.deallocateArray cfg a count s).out = .done ∧ (c.deallocateArray cfg a count s).ev = [] ∧
      CInv arr arrLen (c.deallocateArray cfg a count s).st
        (removeEntries live (arrEntries l.nodeSize a s (cellsOf l.nodeSize (mul64 count s)))) := by
  obtain ⟨hint, hS, hpos⟩ := h.lists _ l hl
  have hns : c.nsOf s = l.nodeSize := by unfold Coll.nsOf; rw [hl]; rfl
  have hop := h.arrayRelease_list cfg hl hsub
  generalize hk : cellsOf l.nodeSize (mul64 count s) = k at hsub hop ⊢
  generalize hE : arrEntries l.nodeSize a s k = E at hsub ⊢
  have hkpos : 0 < k := by rw [← hk]; exact cellsOf_pos _ _ hpos
  obtain ⟨k', rfl⟩ : ∃ k', k = k' + 1 := ⟨k - 1, by omega⟩
  obtain ⟨l', hd', hperm, hsame, hS'⟩ := hop
  unfold Coll.deallocateArray
  simp only [hl, hd']
  refine ⟨trivial, trivial, ?_⟩
  obtain ⟨s1, s2, s3⟩ := h.setList_shape hl hsame hS'
  have hsubset : ∀ as ∈ removeEntries live E, as ∈ live := fun as has => by
    unfold removeEntries removeAllOf at has; exact (List.mem_filter.mp has).1
  refine ⟨h.blocks, h.top, s1, s2, ?_, fun as has => s3 as.2 (h.liveOk as (hsubset as has))⟩
  show RInv c.arena.used c.cur (collRanges arr arrLen (c.setList (c.listIndex s) l') (removeEntries live E))
  apply h.rinv.perm
  unfold collRanges
  refine List.Perm.cons _ ?_
  rw [liveRanges_setList c _ l l' hl hsame.ns]
  obtain ⟨e1, e2⟩ := cellRanges_set c.lists (c.listIndex s) l l' hl
  show (cellRanges (c.lists.set (c.listIndex s) l') ++ _).Perm _
  rw [e1, e2]
  have hlr : (listRanges l').Perm ((blockNodes a l.nodeSize (k' + 1)).map (fun x => (x, l.nodeSize)) ++ listRanges l) := by
    unfold listRanges
    rw [hsame.ns, ← List.map_append]
    exact hperm.map _
  have hlive : (liveRanges c live).Perm ((blockNodes a l.nodeSize (k' + 1)).map (fun x => (x, l.nodeSize)) ++ liveRanges c (removeEntries live E)) := by
    have hp := perm_filter_mem h.live_nodup (by rw [← hE]; exact arrEntries_nodup _ _ _ _ hpos) hsub
    have := hp.map (fun as : Nat × Nat => (as.1, c.nsOf as.2))
    unfold liveRanges removeEntries
    rw [List.map_append] at this
    have hE2 : E.map (fun as : Nat × Nat => (as.1, c.nsOf as.2)) = (blockNodes a l.nodeSize (k' + 1)).map (fun x => (x, l.nodeSize)) := by
      rw [← hE]
      unfold arrEntries
      rw [List.map_map]
      apply List.map_congr_left
      intro x _
      simp only [Function.comp, hns]
    rw [hE2] at this
    exact this
  generalize cellRanges (List.take (c.listIndex s) c.lists) = X at *
  generalize cellRanges (List.drop (c.listIndex s + 1) c.lists) = Y at *
  generalize (blockNodes a l.nodeSize (k' + 1)).map (fun x => (x, l.nodeSize)) = R at *
  generalize liveRanges c (removeEntries live E) = L' at *
  have t1 : (X ++ listRanges l' ++ Y ++ L').Perm (X ++ (R ++ listRanges l) ++ Y ++ L') :=
    List.Perm.append_right _ (List.Perm.append_right _ (List.Perm.append_left _ hlr))
  have t2 : (X ++ listRanges l ++ Y ++ liveRanges c live).Perm (X ++ listRanges l ++ Y ++ (R ++ L')) :=
    List.Perm.append_left _ hlive
  have t3 : (X ++ (R ++ listRanges l) ++ Y ++ L').Perm (X ++ listRanges l ++ Y ++ (R ++ L')) := by
    simp only [List.append_assoc]
    refine List.Perm.append_left _ ?_
    have := List.perm_append_comm_assoc R (listRanges l ++ Y) L'
    simpa [List.append_assoc] using this
  exact t1.trans (t3.trans t2.symm)

/-! ### `allocate_array`, `try_allocate_array` -/

theorem Coll.setList_setList (c : Coll) (i : Nat) (l1 l2 : AnyList) : (c.setList i l1).setList i l2 = c.setList i l2 := by
  unfold Coll.setList
  simp only [List.set_set]

theorem Coll.nsOf_setList_self (c : Coll) {s : Nat} {l l' : AnyList} (hl : c.lists[c.listIndex s]? = some l)
    (hns : l'.nodeSize = l.nodeSize) :
    (((c.setList (c.listIndex s) l').lists[(c.setList (c.listIndex s) l').listIndex s]?).map AnyList.nodeSize).getD 0 = l.nodeSize := by
  have := Coll.setList_nsOf c _ l l' hl hns s
  unfold Coll.nsOf at this
  rw [this, hl]
  rfl

/-- a run is taken from bucket `listIndex size` of `c` (whose bucket key is that of `c0`): the ledger gets its cells -/
theorem CInv.takeRun {arr arrLen : Nat} {c0 c : Coll} {live : List (Nat × Nat)} (h : CInv arr arrLen c live) (hx : CExt c0 c)
    {count size a : Nat} {l1 l2 : AnyList} (hl1 : c.lists[c0.listIndex size]? = some l1)
    (hal : l1.allocateBytes (mul64 count size) = some (l2, some a)) :
    CInv arr arrLen (c.setList (c0.listIndex size) l2)
      (ledgerArr (c.setList (c0.listIndex size) l2) live count size (.ok a)) := by
  rw [← hx.listIndex size] at hl1 ⊢
  obtain ⟨_, hS, hpos⟩ := h.lists _ l1 hl1
  obtain ⟨_, _, _, _, hsame, _⟩ := AnyList.allocateBytes_spec hS hpos hal
  have := h.popRun hl1 hal
  unfold ledgerArr arrCells
  simp only
  rw [Coll.nsOf_setList_self c hl1 hsame.ns]
  exact this

theorem Coll.defCapacity_lt {arr arrLen : Nat} {c : Coll} {live : List (Nat × Nat)} (h : CInv arr arrLen c live) {dc0 : Nat}
    (hdc0 : c.defCapacity = some dc0) (l : AnyList) : growCapacity l 64 dc0 < 2 ^ 64 := by
  obtain ⟨b0, rest, hu, hbe, t1, t2, t3, t4⟩ := h.topFacts
  apply growCapacity_lt
  unfold Coll.defCapacity Arena.currentBlock at hdc0
  rw [hu] at hdc0
  simp only [List.head?_cons, Option.map_some] at hdc0
  split at hdc0
  · cases hdc0
  · cases hdc0
    have : (b0.usable.size / c.lists.length) ≤ b0.usable.size := Nat.div_le_self _ _
    unfold Blk.usable at this ⊢
    simp only at this ⊢
    omega

theorem mul64_lt (a b : Nat) : mul64 a b < 2 ^ 64 := by unfold mul64; exact BitVec.isLt _

theorem ledgerArr_not_ok (st : Coll) (live : List (Nat × Nat)) (count size : Nat) {out : Out} (h : ∀ a, out ≠ .ok a) :
    ledgerArr st live count size out = live := by
  cases out with
  | ok a => exact absurd rfl (h a)
  | _ => rfl

/-- **`allocate_array(count, size)`**: the invariant is kept in every outcome -/
theorem Coll.allocateArray_inv (cfg : Cfg) {arr arrLen : Nat} {c : Coll} {live : List (Nat × Nat)} (h : CInv arr arrLen c live)
    (hf : cfg.fence ≤ 2 ^ 32) (count size : Nat) (env : List (Option Nat))
    (hb : BlocksOk (c.allocateArray cfg count size env).st.arena.used) :
    CInv arr arrLen (c.allocateArray cfg count size env).st
      (ledgerArr (c.allocateArray cfg count size env).st live count size (c.allocateArray cfg count size env).out) := by
  unfold Coll.allocateArray at hb ⊢
  split
  · exact h
  · rename_i hsz
    simp only [hsz, if_false] at hb
    cases hl : c.lists[c.listIndex size]? with
    | none => simp only [hl]; exact h
    | some l =>
    cases hdc0 : c.defCapacity with
    | none => simp only [hl, hdc0]; exact h
    | some dc0 =>
      simp only [hl, hdc0] at hb ⊢
      have hdc := Coll.defCapacity_lt h hdc0 l
      -- the first attempt
      cases hfirst : (if l.empty = true then some (l, none) else l.allocateBytes (mul64 count size)) with
      | none => simp only [hfirst]; exact h
      | some r0 =>
        obtain ⟨l', oa⟩ := r0
        cases oa with
        | some a =>
          simp only [hfirst] at hb ⊢
          have hal : l.allocateBytes (mul64 count size) = some (l', some a) := by
            by_cases hemp : l.empty
            · simp [hemp] at hfirst
            · simpa [hemp] using hfirst
          exact h.takeRun (CExt.refl c) hl hal
        | none =>
          simp only [hfirst] at hb ⊢
          -- reserve the default capacity
          cases hres : c.reserve cfg (c.listIndex size) (growCapacity l 64 dc0) env with
          | mk r om =>
            have hx1 : CExt c r.st := by have := Coll.reserve_ext cfg c (c.listIndex size) (growCapacity l 64 dc0) env; rw [hres] at this; exact this
            have key1 : BlocksOk r.st.arena.used → CInv arr arrLen r.st live ∧ ∀ mem, om = some mem → RegionFree arr arrLen r.st live mem (growCapacity l 64 dc0) := by
              intro hbr
              have := h.reserve_spec cfg hf (c.listIndex size) hdc env (by rw [hres]; exact hbr)
              rw [hres] at this
              exact this
            have hne1 : ∀ a, r.out ≠ .ok a := by
              intro a
              have := Coll.reserve_ne_ok cfg c (c.listIndex size) (growCapacity l 64 dc0) env a
              rw [hres] at this; exact this
            simp only [hres] at hb ⊢
            cases om with
            | none =>
              simp only at hb ⊢
              rw [ledgerArr_not_ok _ _ _ _ hne1]
              exact (key1 hb).1
            | some mem =>
              simp only at hb ⊢
              cases hl1 : r.st.lists[c.listIndex size]? with
              | none => simp only [hl1] at hb ⊢; exact (key1 hb).1
              | some l1 =>
                simp only [hl1] at hb ⊢
                cases hins : l1.insert cfg mem (growCapacity l 64 dc0) with
                | handler k => simp only [hins] at hb ⊢; exact (key1 hb).1
                | crash => simp only [hins] at hb ⊢; exact (key1 hb).1
                | ok l2 =>
                  simp only [hins] at hb ⊢
                  -- second attempt on c2
                  have hc2 : BlocksOk r.st.arena.used → CInv arr arrLen (r.st.setList (c.listIndex size) l2) live := by
                    intro hbr
                    obtain ⟨k1, k2⟩ := key1 hbr
                    exact k1.insertFree cfg hl1 (k2 mem rfl) hins
                  have hx2 : CExt c (r.st.setList (c.listIndex size) l2) := hx1.trans (CExt.setList _ _ _)
                  have hl2 : (r.st.setList (c.listIndex size) l2).lists[c.listIndex size]? = some l2 := by
                    unfold Coll.setList
                    have hlt : c.listIndex size < r.st.lists.length := by
                      rcases Nat.lt_or_ge (c.listIndex size) r.st.lists.length with h' | h'
                      · exact h'
                      · rw [List.getElem?_eq_none h'] at hl1; cases hl1
                    simp [hlt]
                  cases hal2 : l2.allocateBytes (mul64 count size) with
                  | none => simp only [hal2] at hb ⊢; exact hc2 hb
                  | some r2 =>
                    obtain ⟨l3, oa2⟩ := r2
                    cases oa2 with
                    | some a =>
                      simp only [hal2] at hb ⊢
                      exact (hc2 hb).takeRun hx2 hl2 hal2
                    | none =>
                      simp only [hal2] at hb ⊢
                      -- the array gets its own reservation
                      by_cases hfit : mul64 (ceilNodes (mul64 count size) l2.nodeSize) l2.nodeSize >
                          add64 (sub64 (r.st.setList (c.listIndex size) l2).nextCapacity l2.alignment) 1
                      · simp only [hfit, if_true] at hb ⊢
                        exact hc2 hb
                      · simp only [hfit, if_false] at hb ⊢
                        generalize hasz : mul64 (ceilNodes (mul64 count size) l2.nodeSize) l2.nodeSize = asz at hb ⊢
                        generalize henv' : List.drop (List.filter (fun e => match e with | UpEv.alloc _ _ _ => true | _ => false) r.ev).length env = env' at hb ⊢
                        cases hres2 : (r.st.setList (c.listIndex size) l2).reserve cfg (c.listIndex size) asz env' with
                        | mk r2 om2 =>
                          have hx3 : CExt (r.st.setList (c.listIndex size) l2) r2.st := by
                            have := Coll.reserve_ext cfg (r.st.setList (c.listIndex size) l2) (c.listIndex size) asz env'
                            rw [hres2] at this; exact this
                          have hbr : BlocksOk r2.st.arena.used → BlocksOk r.st.arena.used := fun hb2 => hb2.suffix hx3.used
                          have key2 : BlocksOk r2.st.arena.used → CInv arr arrLen r2.st live ∧ ∀ mem, om2 = some mem → RegionFree arr arrLen r2.st live mem asz := by
                            intro hb2
                            have := (hc2 (hbr hb2)).reserve_spec cfg hf (c.listIndex size) (cap := asz) (by rw [← hasz]; exact mul64_lt _ _) env'
                              (by rw [hres2]; exact hb2)
                            rw [hres2] at this
                            exact this
                          have hne2 : ∀ a, r2.out ≠ .ok a := by
                            intro a
                            have := Coll.reserve_ne_ok cfg (r.st.setList (c.listIndex size) l2) (c.listIndex size) asz env' a
                            rw [hres2] at this; exact this
                          simp only [hres2] at hb ⊢
                          cases om2 with
                          | none =>
                            simp only at hb ⊢
                            rw [ledgerArr_not_ok _ _ _ _ hne2]
                            exact (key2 hb).1
                          | some mem2 =>
                            simp only at hb ⊢
                            cases hl4 : r2.st.lists[c.listIndex size]? with
                            | none => simp only [hl4] at hb ⊢; exact (key2 hb).1
                            | some l4 =>
                              simp only [hl4] at hb ⊢
                              cases hins2 : l4.insert cfg mem2 asz with
                              | handler k => simp only [hins2] at hb ⊢; exact (key2 hb).1
                              | crash => simp only [hins2] at hb ⊢; exact (key2 hb).1
                              | ok l5 =>
                                simp only [hins2] at hb ⊢
                                have hx5 : CExt c (r2.st.setList (c.listIndex size) l5) := (hx2.trans hx3).trans (CExt.setList _ _ _)
                                have hc5 : BlocksOk r2.st.arena.used → CInv arr arrLen (r2.st.setList (c.listIndex size) l5) live := by
                                  intro hb2
                                  obtain ⟨k1, k2⟩ := key2 hb2
                                  exact k1.insertFree cfg hl4 (k2 mem2 rfl) hins2
                                have hl5 : (r2.st.setList (c.listIndex size) l5).lists[c.listIndex size]? = some l5 := by
                                  unfold Coll.setList
                                  have hlt : c.listIndex size < r2.st.lists.length := by
                                    rcases Nat.lt_or_ge (c.listIndex size) r2.st.lists.length with h' | h'
                                    · exact h'
                                    · rw [List.getElem?_eq_none h'] at hl4; cases hl4
                                  simp [hlt]
                                cases hal5 : l5.allocateBytes (mul64 count size) with
                                | none => simp only [hal5] at hb ⊢; exact hc5 hb
                                | some r5 =>
                                  obtain ⟨l6, oa5⟩ := r5
                                  cases oa5 with
                                  | none => simp only [hal5] at hb ⊢; exact hc5 hb
                                  | some a =>
                                    simp only [hal5] at hb ⊢
                                    have := (hc5 hb).takeRun hx5 hl5 hal5
                                    rwa [Coll.setList_setList] at this

/-- **`try_allocate_array(count, size)`** -/
theorem Coll.tryAllocateArray_inv (cfg : Cfg) {arr arrLen : Nat} {c : Coll} {live : List (Nat × Nat)} (h : CInv arr arrLen c live)
    (hf : cfg.fence ≤ 2 ^ 32) (count size : Nat) :
    CInv arr arrLen (c.tryAllocateArray cfg count size).st
      (ledgerArr (c.tryAllocateArray cfg count size).st live count size (c.tryAllocateArray cfg count size).out) := by
  unfold Coll.tryAllocateArray
  split
  · exact h
  · cases hl : c.lists[c.listIndex size]? with
    | none => simp only [hl]; exact h
    | some l =>
    cases hdc0 : c.defCapacity with
    | none => simp only [hl, hdc0]; exact h
    | some dc0 =>
      simp only [hl, hdc0]
      have hdc := Coll.defCapacity_lt h hdc0 l
      have key : ∀ c1, CInv arr arrLen c1 live → CExt c c1 →
          CInv arr arrLen
            (match c1.lists[c.listIndex size]? with
              | some l1 => if l1.empty then (⟨c1, .null, []⟩ : PRes Coll)
                  else (match l1.allocateBytes (mul64 count size) with
                    | some (l2, some a) => ⟨c1.setList (c.listIndex size) l2, .ok a, []⟩
                    | some (_, none) => ⟨c1, .null, []⟩
                    | none => ⟨c1, .crash, []⟩)
              | none => ⟨c1, .crash, []⟩).st
            (ledgerArr
              (match c1.lists[c.listIndex size]? with
              | some l1 => if l1.empty then (⟨c1, .null, []⟩ : PRes Coll)
                  else (match l1.allocateBytes (mul64 count size) with
                    | some (l2, some a) => ⟨c1.setList (c.listIndex size) l2, .ok a, []⟩
                    | some (_, none) => ⟨c1, .null, []⟩
                    | none => ⟨c1, .crash, []⟩)
              | none => ⟨c1, .crash, []⟩).st live count size
              (match c1.lists[c.listIndex size]? with
              | some l1 => if l1.empty then (⟨c1, .null, []⟩ : PRes Coll)
                  else (match l1.allocateBytes (mul64 count size) with
                    | some (l2, some a) => ⟨c1.setList (c.listIndex size) l2, .ok a, []⟩
                    | some (_, none) => ⟨c1, .null, []⟩
                    | none => ⟨c1, .crash, []⟩)
              | none => ⟨c1, .crash, []⟩).out) := by
        intro c1 h1 hx
        cases hl1 : c1.lists[c.listIndex size]? with
        | none => exact h1
        | some l1 =>
          simp only
          split
          · exact h1
          · cases hal : l1.allocateBytes (mul64 count size) with
            | none => exact h1
            | some r =>
              obtain ⟨l2, oa⟩ := r
              cases oa with
              | none => exact h1
              | some a => exact h1.takeRun hx hl1 hal
      by_cases hemp : l.empty
      · simp only [hemp, if_true]
        cases htr : c.tryReserve cfg (c.listIndex size) (growCapacity l 64 dc0) with
        | none => exact h
        | some c1 => exact key c1 (h.tryReserve_spec cfg hf hdc htr) (Coll.tryReserve_ext cfg c _ _ htr).1
      · simp only [hemp, Bool.false_eq_true, if_false]
        exact key c h (CExt.refl c)

/-! ### histories with node and array operations -/

theorem Coll.takeRun_ext (c : Coll) (i : Nat) (l : AnyList) : CExt c (c.setList i l) := CExt.setList _ _ _

theorem Coll.reserve_ext' {cfg : Cfg} {c : Coll} {i cap : Nat} {env : List (Option Nat)} {r : PRes Coll} {om : Option Nat}
    (h : c.reserve cfg i cap env = (r, om)) : CExt c r.st := by
  have := Coll.reserve_ext cfg c i cap env
  rw [h] at this
  exact this

theorem Coll.allocateArray_ext (cfg : Cfg) (c : Coll) (count size : Nat) (env : List (Option Nat)) :
    CExt c (c.allocateArray cfg count size env).st := by
  unfold Coll.allocateArray
  split
  · exact CExt.refl _
  · cases hl : c.lists[c.listIndex size]? with
    | none => simp only [hl]; exact CExt.refl _
    | some l =>
    cases hdc0 : c.defCapacity with
    | none => simp only [hl, hdc0]; exact CExt.refl _
    | some dc0 =>
      simp only [hl, hdc0]
      split
      · exact CExt.refl _
      · exact CExt.setList _ _ _
      · split
        · rename_i r hres; exact Coll.reserve_ext' hres
        · rename_i r mem hres
          have hx1 := Coll.reserve_ext' hres
          split
          · exact hx1
          · split
            · exact hx1
            · exact hx1
            · rename_i l1 _ l2 _
              have hx2 : CExt c (r.st.setList (c.listIndex size) l2) := hx1.trans (CExt.setList _ _ _)
              split
              · exact hx2
              · exact hx2.trans (CExt.setList _ _ _)
              · split
                · exact hx2
                · split
                  · rename_i r2 hres2
                    have hx3 : CExt (r.st.setList (c.listIndex size) l2) r2.st := Coll.reserve_ext' hres2
                    exact hx2.trans hx3
                  · rename_i r2 mem2 hres2
                    have hx3 := hx2.trans (Coll.reserve_ext' hres2)
                    split
                    · exact hx3
                    · split
                      · exact hx3
                      · exact hx3
                      · split
                        · exact hx3.trans (CExt.setList _ _ _)
                        · exact hx3.trans (CExt.setList _ _ _)

theorem Coll.tryAllocateArray_ext (cfg : Cfg) (c : Coll) (count size : Nat) : CExt c (c.tryAllocateArray cfg count size).st := by
  unfold Coll.tryAllocateArray
  split
  · exact CExt.refl _
  · cases hl : c.lists[c.listIndex size]? with
    | none => simp only [hl]; exact CExt.refl _
    | some l =>
    cases hdc0 : c.defCapacity with
    | none => simp only [hl, hdc0]; exact CExt.refl _
    | some dc0 =>
      simp only [hl, hdc0]
      have key : ∀ c1, CExt c c1 → CExt c
            (match c1.lists[c.listIndex size]? with
              | some l1 => if l1.empty then (⟨c1, .null, []⟩ : PRes Coll)
                  else (match l1.allocateBytes (mul64 count size) with
                    | some (l2, some a) => ⟨c1.setList (c.listIndex size) l2, .ok a, []⟩
                    | some (_, none) => ⟨c1, .null, []⟩
                    | none => ⟨c1, .crash, []⟩)
              | none => ⟨c1, .crash, []⟩).st := by
        intro c1 hx
        split
        · split
          · exact hx
          · split
            · exact hx.trans (CExt.setList _ _ _)
            · exact hx
            · exact hx
        · exact hx
      by_cases hemp : l.empty
      · simp only [hemp, if_true]
        cases htr : c.tryReserve cfg (c.listIndex size) (growCapacity l 64 dc0) with
        | none => exact CExt.refl _
        | some c1 => exact key c1 (Coll.tryReserve_ext cfg c _ _ htr).1
      · simp only [hemp, Bool.false_eq_true, if_false]
        exact key c (CExt.refl c)

theorem Coll.deallocateArray_ext (cfg : Cfg) (c : Coll) (a count size : Nat) : CExt c (c.deallocateArray cfg a count size).st := by
  unfold Coll.deallocateArray
  simp only
  split
  · exact CExt.refl _
  · split
    · exact CExt.setList _ _ _
    · exact CExt.refl _
    · exact CExt.refl _

theorem Coll.reserveOp_ext (cfg : Cfg) (c : Coll) (size capacity : Nat) (env : List (Option Nat)) :
    CExt c (c.reserveOp cfg size capacity env).st := by
  unfold Coll.reserveOp
  simp only
  split
  · exact CExt.refl _
  · exact Coll.refill_ext cfg c _ _ env

/-- **`reserve(size, capacity)`** (with the D34 repair): the invariant is kept in every outcome, the ledger is untouched -/
theorem Coll.reserveOp_inv (cfg : Cfg) {arr arrLen : Nat} {c : Coll} {live : List (Nat × Nat)} (h : CInv arr arrLen c live)
    (hf : cfg.fence ≤ 2 ^ 32) (size : Nat) {capacity : Nat} (hcap : capacity < 2 ^ 64) (env : List (Option Nat))
    (hb : BlocksOk (c.reserveOp cfg size capacity env).st.arena.used) :
    CInv arr arrLen (c.reserveOp cfg size capacity env).st live := by
  unfold Coll.reserveOp at hb ⊢
  simp only at hb ⊢
  cases hl : c.lists[c.listIndex size]? with
  | none => exact h
  | some l =>
    simp only [hl] at hb ⊢
    exact h.refill cfg hf _ (growCapacity_lt l 64 capacity hcap) env hb

theorem GCollA.step_ext (cfg : Cfg) (e : EnvS) (g : GCollA) (k : Nat) (op : COpA) : CExt g.c (g.step cfg e k op).1.c := by
  unfold GCollA.step
  cases op with
  | node op => exact GColl.step_ext cfg e ⟨g.c, g.live⟩ k op
  | allocArray count size => exact Coll.allocateArray_ext cfg g.c count size _
  | tryAllocArray count size => exact Coll.tryAllocateArray_ext cfg g.c count size
  | reserve size capacity => exact Coll.reserveOp_ext cfg g.c size capacity _
  | deallocArray j =>
    simp only
    split
    · exact CExt.refl _
    · split
      · exact CExt.refl _
      · split
        · exact Coll.deallocateArray_ext cfg g.c _ _ _
        · exact CExt.refl _

theorem GCollA.run_ext (cfg : Cfg) (e : EnvS) (ops : List COpA) : ∀ (g : GCollA) (k : Nat), CExt g.c (g.run cfg e k ops).1.c := by
  induction ops with
  | nil => intro g k; exact CExt.refl _
  | cons op ops ih => intro g k; exact (GCollA.step_ext cfg e g k op).trans (ih _ _)

/-- contract of an operation: the capacity passed to `reserve` is a `size_t` value -/
def COpA.Fits : COpA → Prop
  | .reserve _ capacity => capacity < 2 ^ 64
  | _ => True

theorem GCollA.step_inv (cfg : Cfg) (e : EnvS) {arr arrLen : Nat} (g : GCollA) (k : Nat) (op : COpA) (hfit : op.Fits)
    (h : CInv arr arrLen g.c g.live) (hf : cfg.fence ≤ 2 ^ 32) (hb : BlocksOk (g.step cfg e k op).1.c.arena.used) :
    CInv arr arrLen (g.step cfg e k op).1.c (g.step cfg e k op).1.live := by
  unfold GCollA.step at hb ⊢
  cases op with
  | node op => exact GColl.step_inv cfg e ⟨g.c, g.live⟩ k op h hf hb
  | allocArray count size => exact Coll.allocateArray_inv cfg h hf count size _ hb
  | tryAllocArray count size => exact Coll.tryAllocateArray_inv cfg h hf count size
  | reserve size capacity => exact Coll.reserveOp_inv cfg h hf size hfit _ hb
  | deallocArray j =>
    simp only at hb ⊢
    cases hj : g.arrs[j]? with
    | none => exact h
    | some acs =>
      obtain ⟨a, count, size⟩ := acs
      simp only
      cases hl : g.c.lists[g.c.listIndex size]? with
      | none => exact h
      | some l =>
        simp only
        split
        · rename_i hall
          have hsub : ∀ x ∈ arrEntries l.nodeSize a size (arrCells l.nodeSize count size), x ∈ g.live := by
            intro x hx
            have := List.all_eq_true.mp hall x hx
            simpa using this
          exact (Coll.deallocateArray_inv cfg h hl hsub).2.2
        · exact h

/-- **Preservation over a history of node and array operations** on a collection over intrusive lists -/
theorem GCollA.run_inv (cfg : Cfg) (e : EnvS) {arr arrLen : Nat} (hf : cfg.fence ≤ 2 ^ 32) (ops : List COpA) :
    ∀ (g : GCollA) (k : Nat), (∀ op ∈ ops, op.Fits) → CInv arr arrLen g.c g.live → BlocksOk (g.run cfg e k ops).1.c.arena.used →
      CInv arr arrLen (g.run cfg e k ops).1.c (g.run cfg e k ops).1.live := by
  induction ops with
  | nil => intro g k _ h _; exact h
  | cons op ops ih =>
    intro g k hfit h hb
    have hstep := GCollA.step_inv cfg e g k op (hfit op (by simp)) h hf (hb.suffix (GCollA.run_ext cfg e ops _ _).used)
    exact ih _ _ (fun o ho => hfit o (by simp [ho])) hstep hb

end MemVerif.Model
