import MemVerif.Model.ListInv
import MemVerif.Lemmas.OrdListBase
/-! Correctness of the ordered free list's position search (`find_pos`, `find_pos_interval`). Statements are used by
`MemVerif.Props.C16` and `MemVerif.Props.C04`. -/
namespace MemVerif.Model

/-- **Valid releases are never reported and find the right place**: for a list satisfying the invariant and an address
`m` that is not on the list (and is not one of the proxy words), `find_pos` returns the adjacent pair of positions
around `m`, in every configuration (double-free checking on or off). -/
theorem findPos_valid (l : OrdList) (hI : l.Inv) (dbl : Bool) (m : Nat) (hm : m ∉ l.nodes)
    (hmB : m + l.ns ≤ l.B ∨ l.E + 8 ≤ m) (hm0 : 0 < m) :
    ∃ i, i ≤ l.nodes.length ∧ l.findPos dbl m = .pos i (i + 1) ∧
      (∀ j, j < i → l.nodes.getD j 0 < m) ∧ (∀ j, i ≤ j → j < l.nodes.length → m < l.nodes.getD j 0) := by
  have _ := hm0  -- (the search itself never needs `0 < m`)
  obtain ⟨i, h, hA⟩ := findPos_valid' l hI dbl m hm hmB
  exact ⟨i, hA.1, h, hA.2.1, hA.2.2⟩

/-- **Double release is stopped**: with double-free checking on, releasing an address that is already on the list never
yields a position: it is reported, or the search ends in the internal unreachable path (which aborts the program). -/
theorem findPos_double (l : OrdList) (hI : l.Inv) (m : Nat) (hm : m ∈ l.nodes) :
    l.findPos true m = .report ∨ l.findPos true m = .unreachable := by
  exact findPos_double' l hI m hm

/-- `deallocate` of a valid node inserts it in address order, updates the cursor, and keeps the invariant. -/
theorem deallocate_valid (cfg : Cfg) (l : OrdList) (hI : l.Inv) (m : Nat) (hm : m ∉ l.nodes)
    (hmB : m + l.ns ≤ l.B ∨ l.E + 8 ≤ m) (hm0 : 0 < m) :
    ∃ l', l.deallocate cfg m = .ok l' ∧ l'.nodes = insertAsc m l.nodes ∧ l'.cap = l.cap + 1 ∧ l'.ld = m ∧ l'.Inv := by
  exact deallocate_valid' cfg l hI m hm hmB hm0

/-- `allocate()` removes the first (lowest) node and keeps the invariant. -/
theorem allocate_inv (l : OrdList) (hI : l.Inv) (x : Nat) (xs : List Nat) (hn : l.nodes = x :: xs) :
    ∃ l', l.allocate = some (l', x) ∧ l'.nodes = xs ∧ l'.cap + 1 = l.cap ∧ l'.Inv := by
  exact allocate_inv' l hI x xs hn

/-- **Release restores** (C04): allocating a node and releasing it again gives back exactly the same node sequence. -/
theorem allocate_deallocate_restores (cfg : Cfg) (l : OrdList) (hI : l.Inv) (l1 : OrdList) (x : Nat)
    (h : l.allocate = some (l1, x)) :
    ∃ l2, l1.deallocate cfg x = .ok l2 ∧ l2.nodes = l.nodes ∧ l2.cap = l.cap := by
  exact allocate_deallocate_restores' cfg l hI l1 x h

end MemVerif.Model
