import MemVerif.Lemmas.C18
/-!
Helper lemmas for `MemVerif.Props.C04Lists`: the array search of the intrusive lists, the chunk bookkeeping of the
small list.
-/
namespace MemVerif.Model
open MemVerif.Gen

/-! ### `blockNodes` -/

theorem blockNodes_snoc (a ns k : Nat) : blockNodes a ns (k + 1) = blockNodes a ns k ++ [a + k * ns] := by
  induction k generalizing a with
  | zero => simp [blockNodes]
  | succ k ih =>
    rw [blockNodes, ih (a + ns)]
    simp only [blockNodes, List.cons_append, List.cons.injEq, true_and, List.append_cancel_left_eq,
      List.cons.injEq, and_true]
    rw [Nat.succ_mul]; omega

/-! ### array search -/

/-- what a successful array search returns: a run of exactly `len ≥ 2` address-consecutive nodes starting at list index
`start`, whose byte size reaches `need` while one node fewer would not -/
structure RunAt (ns need : Nat) (full : List Nat) (start len : Nat) (a : Nat) (pfx sfx : List Nat) : Prop where
  split : full = pfx ++ blockNodes a ns len ++ sfx
  start : pfx.length = start
  two : 2 ≤ len
  enough : need ≤ len * ns
  tight : (len - 1) * ns < need

theorem searchArrayGo_specL (ns need : Nat) (hns : ns < need) (xs : List Nat) :
    ∀ (pfx0 : List Nat) (a len' last start idx s l : Nat),
      pfx0.length = start → idx = start + (len' + 1) → last = a + len' * ns → (len' + 1) * ns < need →
      searchArrayGo ns need xs start (len' + 1) last idx = some (s, l) →
      ∃ a' pfx sfx, RunAt ns need (pfx0 ++ blockNodes a ns (len' + 1) ++ xs) s l a' pfx sfx := by
  induction xs with
  | nil => intro pfx0 a len' last start idx s l _ _ _ _ h; simp [searchArrayGo] at h
  | cons x xs ih =>
    intro pfx0 a len' last start idx s l hst hidx hlast hlt h
    unfold searchArrayGo at h
    by_cases h1 : last + ns ≠ x
    · rw [if_pos h1] at h
      have := ih (pfx0 ++ blockNodes a ns (len' + 1)) x 0 x idx (idx + 1) s l
        (by simp [blockNodes_length, hst, hidx]) rfl (by simp) (by simpa using hns) h
      obtain ⟨a', pfx, sfx, hr⟩ := this
      refine ⟨a', pfx, sfx, ?_⟩
      have e : pfx0 ++ blockNodes a ns (len' + 1) ++ x :: xs =
          pfx0 ++ blockNodes a ns (len' + 1) ++ blockNodes x ns (0 + 1) ++ xs := by
        simp [blockNodes]
      rw [e]; exact hr
    · rw [if_neg h1] at h
      have hx : x = a + (len' + 1) * ns := by
        have : last + ns = x := Decidable.of_not_not h1
        rw [← this, hlast, Nat.succ_mul]; omega
      have e : pfx0 ++ blockNodes a ns (len' + 1) ++ x :: xs =
          pfx0 ++ blockNodes a ns (len' + 1 + 1) ++ xs := by
        rw [blockNodes_snoc a ns (len' + 1), hx]; simp
      by_cases h2 : (len' + 1 + 1) * ns ≥ need
      · rw [if_pos h2] at h
        simp only [Option.some.injEq, Prod.mk.injEq] at h
        obtain ⟨rfl, rfl⟩ := h
        refine ⟨a, pfx0, xs, ⟨e, hst, by omega, h2, ?_⟩⟩
        simpa using hlt
      · rw [if_neg h2] at h
        have := ih pfx0 a (len' + 1) x start (idx + 1) s l hst (by omega) hx (by omega) h
        obtain ⟨a', pfx, sfx, hr⟩ := this
        exact ⟨a', pfx, sfx, by rw [e]; exact hr⟩

/-- specification of `list_search_array`: a successful search (for `need > ns`) splits the list around the run found -/
theorem searchArray_specL (ns need : Nat) (hns : ns < need) (full : List Nat) (s l : Nat)
    (h : searchArray ns need full = some (s, l)) :
    ∃ a pfx sfx, RunAt ns need full s l a pfx sfx := by
  cases full with
  | nil => simp [searchArray] at h
  | cons x xs =>
    unfold searchArray at h
    have := searchArrayGo_specL ns need hns xs [] x 0 x 0 1 s l rfl rfl (by simp) (by simpa using hns) h
    simpa [blockNodes] using this

/-- the bounds of the result -/
theorem searchArray_bounds (ns need : Nat) (hns : ns < need) (full : List Nat) (s l : Nat)
    (h : searchArray ns need full = some (s, l)) : s + l ≤ full.length ∧ 1 ≤ l := by
  obtain ⟨a, pfx, sfx, hr⟩ := searchArray_specL ns need hns full s l h
  have := congrArg List.length hr.split
  simp only [List.length_append, blockNodes_length] at this
  have h1 := hr.start
  have h2 := hr.two
  omega

/-- a run that is just long enough has exactly `ceil(need / ns)` nodes -/
theorem run_len_eq_ceilNodes (ns need len : Nat) (hns : 0 < ns) (h1 : need ≤ len * ns) (h2 : (len - 1) * ns < need) :
    len = ceilNodes need ns := by
  unfold ceilNodes
  have hdm := Nat.div_add_mod need ns
  have hml := Nat.mod_lt need hns
  -- q := need / ns, r := need % ns
  generalize need / ns = q at *
  generalize need % ns = r at *
  have hq : ns * q = q * ns := Nat.mul_comm _ _
  by_cases hr : r = 0
  · simp only [hr, ne_eq, not_true_eq_false, ↓reduceIte, Nat.add_zero]
    -- need = q * ns ; (len-1)*ns < q*ns ≤ len*ns
    have ha : q ≤ len := by
      apply Nat.le_of_mul_le_mul_right (c := ns) _ hns; omega
    have hb : len - 1 < q := by
      apply Nat.lt_of_mul_lt_mul_right (a := ns); omega
    omega
  · simp only [hr, ne_eq, not_false_eq_true, ↓reduceIte]
    -- q*ns < need < (q+1)*ns
    have ha : q < len := by
      apply Nat.lt_of_mul_lt_mul_right (a := ns); omega
    have hb : len - 1 < q + 1 := by
      apply Nat.lt_of_mul_lt_mul_right (a := ns); rw [Nat.succ_mul]; omega
    omega

theorem ceilNodes_mul_div (need ns : Nat) (hns : 0 < ns) : ceilNodes need ns * ns / ns = ceilNodes need ns :=
  Nat.mul_div_cancel _ hns

/-! ### list helpers -/

theorem take_append_len {α} (p q : List α) (n : Nat) (h : p.length = n) : (p ++ q).take n = p := by
  subst h; simp

theorem drop_append_len {α} (p q : List α) (n : Nat) (h : p.length = n) : (p ++ q).drop n = q := by
  subst h; simp

theorem takeWhile_append_drop {α} (p : α → Bool) (l : List α) :
    l.takeWhile p ++ l.drop (l.takeWhile p).length = l := by
  induction l with
  | nil => simp
  | cons x xs ih =>
    by_cases h : p x
    · simp [h, ih]
    · simp [h]

/-- replacing one element changes the sum of `f` by the difference -/
theorem sum_map_set {α} (f : α → Nat) (l : List α) (i : Nat) (c c' : α) (h : l[i]? = some c) :
    ((l.set i c').map f).sum + f c = (l.map f).sum + f c' := by
  induction l generalizing i with
  | nil => simp at h
  | cons x xs ih =>
    cases i with
    | zero =>
      simp only [List.getElem?_cons_zero, Option.some.injEq] at h
      subst h
      simp only [List.set_cons_zero, List.map_cons, List.sum_cons]; omega
    | succ i =>
      simp only [List.getElem?_cons_succ] at h
      have := ih i h
      simp only [List.set_cons_succ, List.map_cons, List.sum_cons]; omega

theorem mem_of_getElem? {α} (l : List α) (i : Nat) (c : α) (h : l[i]? = some c) : c ∈ l :=
  List.mem_of_getElem? h

/-! ### small list: shapes of the operations -/

theorem insertSorted_split (cs new : List Chunk) :
    ∃ before rest, cs = before ++ rest ∧ insertSorted cs new = before ++ new ++ rest := by
  cases new with
  | nil => exact ⟨cs, [], by simp, by simp [insertSorted]⟩
  | cons b bs =>
    exact ⟨_, _, (takeWhile_append_drop (fun c => decide (c.base < b.base)) cs).symm, rfl⟩

theorem insertSorted_sum (f : Chunk → Nat) (cs new : List Chunk) :
    ((insertSorted cs new).map f).sum = (cs.map f).sum + (new.map f).sum := by
  obtain ⟨before, rest, rfl, h⟩ := insertSorted_split cs new
  rw [h]
  simp only [List.map_append, List.sum_append]
  omega

theorem insertSorted_mem (cs new : List Chunk) (c : Chunk) :
    c ∈ insertSorted cs new ↔ c ∈ cs ∨ c ∈ new := by
  obtain ⟨before, rest, rfl, h⟩ := insertSorted_split cs new
  rw [h]
  simp only [List.mem_append]
  constructor
  · rintro ((h | h) | h)
    · exact Or.inl (Or.inl h)
    · exact Or.inr h
    · exact Or.inl (Or.inr h)
  · rintro ((h | h) | h)
    · exact Or.inl (Or.inl h)
    · exact Or.inr h
    · exact Or.inl (Or.inr h)

/-- state after `allocate()` took the head `idx` of the free chain `idx :: rest` of chunk `c` at index `i` -/
def SmallList.allocResult (l : SmallList) (i : Nat) (c : Chunk) (rest : List Nat) : SmallList :=
  { l with chunks := l.chunks.set i { c with capacity := c.capacity - 1, free := rest },
           cap := l.cap - 1, allocChunk := c.base }

theorem allocate_shape (l l' : SmallList) (p : Nat) (h : l.allocate = some (l', p)) :
    ∃ i c idx rest, l.chunks[i]? = some c ∧ c.free = idx :: rest ∧ l' = l.allocResult i c rest := by
  unfold SmallList.allocate at h
  split at h
  · exact absurd h (by simp)
  · exact absurd h (by simp)
  · rename_i i _
    split at h
    · exact absurd h (by simp)
    · rename_i c hc
      split at h
      · exact absurd h (by simp)
      · rename_i idx rest hfree
        simp only [Option.some.injEq, Prod.mk.injEq] at h
        exact ⟨i, c, idx, rest, hc, hfree, h.1.symm⟩

theorem findChunkRange_go_fromAt (l : SmallList) (p m : Nat) :
    ∀ fuel f b j, SmallList.findChunkRange.go l p m fuel f b = .found j → l.fromAt j p = true := by
  intro fuel
  induction fuel with
  | zero => intro f b j h; simp [SmallList.findChunkRange.go] at h
  | succ fuel ih =>
    intro f b j h
    unfold SmallList.findChunkRange.go at h
    split at h
    · rename_i hf
      simp only [ChunkSearch.found.injEq] at h; subst h; exact hf
    · split at h
      · rename_i hb
        simp only [ChunkSearch.found.injEq] at h; subst h; exact hb
      · simp only at h
        split at h
        · exact absurd h (by simp)
        · exact ih _ _ _ h

/-- the two-cursor search **terminates**: started inside the ring it never runs out of fuel (each round moves the
forward cursor one position further and the loop ends at the latest when that cursor reaches the proxy) -/
theorem findChunkRange_go_terminates (l : SmallList) (p m : Nat) (_hm : 0 < m) :
    ∀ fuel f b, f < m → m - f < fuel → SmallList.findChunkRange.go l p m fuel f b ≠ .hang := by
  intro fuel
  induction fuel with
  | zero => intro f b _ h; omega
  | succ fuel ih =>
    intro f b hf hfuel
    unfold SmallList.findChunkRange.go
    split
    · simp
    · split
      · simp
      · simp only
        split
        · simp
        · rename_i hcond
          have hf' : (f + 1) % m ≠ 0 := by
            intro h0; apply hcond; simp [h0]
          have hlt : f + 1 < m := by
            rcases Nat.lt_or_ge (f + 1) m with h | h
            · exact h
            · have : f + 1 = m := by omega
              rw [this, Nat.mod_self] at hf'; exact absurd rfl hf'
          rw [Nat.mod_eq_of_lt hlt]
          exact ih _ _ hlt (by omega)

/-- `find_chunk_impl(node)` only ever answers with a chunk whose node area contains the pointer -/
theorem findChunk_fromAt (l : SmallList) (p j : Nat) (h : l.findChunk p = .found j) : l.fromAt j p = true := by
  unfold SmallList.findChunk at h
  simp only at h
  split at h
  · rename_i d a _ _
    split at h
    · rename_i hd
      simp only [ChunkSearch.found.injEq] at h; subst h; exact hd
    · split at h
      · rename_i ha
        simp only [ChunkSearch.found.injEq] at h; subst h; exact ha
      · split at h
        · exact findChunkRange_go_fromAt _ _ _ _ _ _ _ h
        · split at h
          · exact findChunkRange_go_fromAt _ _ _ _ _ _ _ h
          · exact absurd h (by simp)
  · exact absurd h (by simp)

/-- `find_chunk_impl(node)` terminates in every state -/
theorem findChunk_terminates (l : SmallList) (p : Nat) : l.findChunk p ≠ .hang := by
  unfold SmallList.findChunk
  simp only
  split
  · split
    · simp
    · split
      · simp
      · split
        · unfold SmallList.findChunkRange
          exact findChunkRange_go_terminates l p _ (by omega) _ _ _ (Nat.mod_lt _ (by omega)) (by omega)
        · split
          · unfold SmallList.findChunkRange
            exact findChunkRange_go_terminates l p _ (by omega) _ _ _ (Nat.mod_lt _ (by omega)) (by omega)
          · simp
  · simp

theorem fromAt_succ (l : SmallList) (i p : Nat) (c : Chunk) (hc : l.chunks[i]? = some c)
    (h : l.fromAt (i + 1) p = true) : c.base + chunkOff ≤ p ∧ p < c.base + chunkOff + c.noNodes * l.ns := by
  unfold SmallList.fromAt at h
  simp only [Nat.add_one_ne_zero, ↓reduceIte, Nat.add_sub_cancel, hc, decide_eq_true_eq] at h
  exact h

/-- a `deallocate` that returns normally pushed the node index onto the free chain of a chunk whose node area
contains `p`; with both checks on, that index was not on the chain before -/
theorem deallocate_shape (cfg : Cfg) (l l' : SmallList) (p : Nat) (h : l.deallocate cfg p = .ok l') :
    ∃ i c, l.chunks[i]? = some c ∧ (c.base + chunkOff ≤ p ∧ p < c.base + chunkOff + c.noNodes * l.ns) ∧
      l' = l.deallocResult i c p ∧
      (cfg.ptrCheck = true → cfg.dblDealloc = true → (p - (c.base + chunkOff)) / l.ns ∉ c.free) := by
  unfold SmallList.deallocate at h
  split at h
  · exact absurd h (by simp)
  · exact absurd h (by simp)
  · split at h <;> exact absurd h (by simp)
  · exact absurd h (by simp)
  · rename_i i hfind
    have hfrom := findChunk_fromAt l p (i + 1) hfind
    split at h
    · exact absurd h (by simp)
    · rename_i c hc
      simp only at h
      split at h
      · exact absurd h (by simp)
      · split at h
        · exact absurd h (by simp)
        · rename_i hchk
          simp only [ListRes.ok.injEq] at h
          refine ⟨i, c, hc, fromAt_succ l i p c hc hfrom, h.symm, ?_⟩
          intro h1 h2
          simpa [h1, h2] using hchk

/-! ### pigeonhole -/

/-- a duplicate-free list of naturals below `n` has at most `n` entries -/
theorem nodup_bounded_length (n : Nat) (l : List Nat) (hnd : l.Nodup) (hb : ∀ i ∈ l, i < n) : l.length ≤ n := by
  have := List.Nodup.length_le_of_subset (l₂ := List.range n) hnd (fun i hi => List.mem_range.2 (hb i hi))
  simpa using this

end MemVerif.Model
