import MemVerif.Model.Pool
/-!
The capacity loop of `memory_pool_collection::def_capacity(pool)` (D31 repair): Nat characterisation of the translated
`usable_size` functions and the bound on the number of rounds.
-/
namespace MemVerif.Lemmas
open MemVerif.Model MemVerif.Gen

theorem smallUsable_nat (ns cap : Nat) (hn : ns < 2^32) (hc : cap < 2^40) :
    (smallListUsableSize (BitVec.ofNat 64 ns) (BitVec.ofNat 64 cap)).toNat =
      (cap / (32 + ns * 255)) * 255 * ns + (if cap % (32 + ns * 255) > 32 then cap % (32 + ns * 255) - 32 else 0) := by
  have hoff : C.chunk_memory_offset.toNat = 32 := rfl
  have hmax : C.chunk_max_nodes.toNat = 255 := rfl
  have hns : (BitVec.ofNat 64 ns).toNat = ns := by simp only [BitVec.toNat_ofNat]; omega
  have hcap : (BitVec.ofNat 64 cap).toNat = cap := by simp only [BitVec.toNat_ofNat]; omega
  have hT : (C.chunk_memory_offset + BitVec.ofNat 64 ns * C.chunk_max_nodes).toNat = 32 + ns * 255 := by
    simp only [BitVec.toNat_add, BitVec.toNat_mul, hoff, hmax, hns]
    omega
  have hq : cap / (32 + ns * 255) * 255 * ns ≤ cap := by
    have h1 : cap / (32 + ns * 255) * (32 + ns * 255) ≤ cap := Nat.div_mul_le_self _ _
    have h2 : cap / (32 + ns * 255) * 255 * ns ≤ cap / (32 + ns * 255) * (32 + ns * 255) := by
      rw [Nat.mul_assoc]; apply Nat.mul_le_mul_left; rw [Nat.mul_comm]; omega
    omega
  have hr : cap % (32 + ns * 255) < 32 + ns * 255 := Nat.mod_lt _ (by omega)
  have hr2 : cap % (32 + ns * 255) ≤ cap := Nat.mod_le _ _
  unfold smallListUsableSize
  simp only []
  generalize hTT : C.chunk_memory_offset + BitVec.ofNat 64 ns * C.chunk_max_nodes = T at hT
  have hrem : (BitVec.ofNat 64 cap % T).toNat = cap % (32 + ns * 255) := by
    rw [BitVec.toNat_umod, hcap, hT]
  have hdiv : (BitVec.ofNat 64 cap / T).toNat = cap / (32 + ns * 255) := by
    rw [BitVec.toNat_udiv, hcap, hT]
  by_cases h : cap % (32 + ns * 255) > 32
  · have hd : decide ((BitVec.ofNat 64 cap % T) > C.chunk_memory_offset) = true := by
      simp only [decide_eq_true_eq, gt_iff_lt, BitVec.lt_def, hrem, hoff]
      omega
    rw [hd]
    simp only [↓reduceIte, h, BitVec.toNat_add, BitVec.toNat_mul, BitVec.toNat_sub, hrem, hdiv, hoff, hmax, hns]
    have h3 : cap / (32 + ns * 255) * 255 ≤ cap / (32 + ns * 255) * 255 * ns ∨ ns = 0 := by
      rcases Nat.eq_zero_or_pos ns with h0 | h0
      · right; exact h0
      · left; exact Nat.le_mul_of_pos_right _ h0
    rcases h3 with h3 | h3
    · rw [Nat.mod_eq_of_lt (a := cap / (32 + ns * 255) * 255) (by omega)]
      rw [Nat.mod_eq_of_lt (a := cap / (32 + ns * 255) * 255 * ns) (by omega)]
      omega
    · subst h3; simp; omega
  · have hd : decide ((BitVec.ofNat 64 cap % T) > C.chunk_memory_offset) = false := by
      simp only [decide_eq_false_iff_not, gt_iff_lt, BitVec.lt_def, hrem, hoff]
      omega
    rw [hd]
    simp only [Bool.false_eq_true, ↓reduceIte, h, BitVec.toNat_add, BitVec.toNat_mul, hdiv, hmax, hns, BitVec.toNat_ofNat]
    rcases Nat.eq_zero_or_pos ns with h0 | h0
    · subst h0; simp
    · have h3 : cap / (32 + ns * 255) * 255 ≤ cap / (32 + ns * 255) * 255 * ns := Nat.le_mul_of_pos_right _ h0
      rw [Nat.mod_eq_of_lt (a := cap / (32 + ns * 255) * 255) (by omega)]
      rw [Nat.mod_eq_of_lt (a := cap / (32 + ns * 255) * 255 * ns) (by omega)]
      omega

/-- usable size of the small list in the three zones the capacity loop passes through -/
theorem smallUsable_low (ns cap : Nat) (hn : ns < 2^32) (h0 : 0 < ns) (hc : cap ≤ 32) :
    (smallListUsableSize (BitVec.ofNat 64 ns) (BitVec.ofNat 64 cap)).toNat = 0 := by
  rw [smallUsable_nat ns cap hn (by omega)]
  have : cap < 32 + ns * 255 := by omega
  rw [Nat.div_eq_of_lt this, Nat.mod_eq_of_lt this]
  simp; omega

theorem smallUsable_mid (ns cap : Nat) (hn : ns < 2^32) (hc : 32 < cap) (hc2 : cap < 32 + ns * 255) :
    (smallListUsableSize (BitVec.ofNat 64 ns) (BitVec.ofNat 64 cap)).toNat = cap - 32 := by
  rw [smallUsable_nat ns cap hn (by omega)]
  rw [Nat.div_eq_of_lt hc2, Nat.mod_eq_of_lt hc2]
  simp [hc]

theorem smallUsable_high (ns cap : Nat) (hn : ns < 2^32) (hc : cap < 2^40) (hc2 : 32 + ns * 255 ≤ cap) :
    ns ≤ (smallListUsableSize (BitVec.ofNat 64 ns) (BitVec.ofNat 64 cap)).toNat := by
  rw [smallUsable_nat ns cap hn hc]
  have : 1 ≤ cap / (32 + ns * 255) := (Nat.one_le_div_iff (by omega)).2 hc2
  have h2 : 1 * 255 * ns ≤ cap / (32 + ns * 255) * 255 * ns :=
    Nat.mul_le_mul_right _ (Nat.mul_le_mul_right _ this)
  omega

theorem growCapacity_succ (l : AnyList) (fuel cap : Nat) :
    growCapacity l (fuel + 1) cap =
      if l.usableSize cap < l.nodeSize then growCapacity l fuel (add64 cap (l.nodeSize - l.usableSize cap)) else cap := rfl

/-- **The capacity loop of `def_capacity(pool)` terminates within its fuel with room for one node** (small node list):
from any default capacity, the result lets the list insert at least one node, so `insert` is never asked to build a
list of zero chunks (D31). -/
theorem growCapacity_enough_small (l : SmallList) (hn : l.ns < 2^32) (h0 : 0 < l.ns) :
    ∀ (fuel cap : Nat), cap < 2^39 → 35 ≤ fuel + min cap 33 →
      l.ns ≤ (AnyList.small l).usableSize (growCapacity (.small l) fuel cap) ∧ growCapacity (.small l) fuel cap < 2^40 := by
  have hU : ∀ cap, (AnyList.small l).usableSize cap =
      (smallListUsableSize (BitVec.ofNat 64 l.ns) (BitVec.ofNat 64 cap)).toNat := fun _ => rfl
  have hN : (AnyList.small l).nodeSize = l.ns := rfl
  intro fuel
  induction fuel with
  | zero => intro cap _ h; omega
  | succ fuel ih =>
    intro cap hc hf
    rw [growCapacity_succ, hN]
    by_cases hlow : cap ≤ 32
    · have hu : (AnyList.small l).usableSize cap = 0 := by rw [hU]; exact smallUsable_low l.ns cap hn h0 hlow
      rw [hu, if_pos h0, Nat.sub_zero]
      have ha : add64 cap l.ns = cap + l.ns := by
        unfold add64; simp only [BitVec.toNat_add, BitVec.toNat_ofNat]; omega
      rw [ha]
      exact ih (cap + l.ns) (by omega) (by omega)
    · by_cases hmid : cap < 32 + l.ns * 255
      · have hu : (AnyList.small l).usableSize cap = cap - 32 := by
          rw [hU]; exact smallUsable_mid l.ns cap hn (by omega) hmid
        rw [hu]
        by_cases hfit : cap - 32 < l.ns
        · rw [if_pos hfit]
          have ha : add64 cap (l.ns - (cap - 32)) = l.ns + 32 := by
            unfold add64; simp only [BitVec.toNat_add, BitVec.toNat_ofNat]; omega
          rw [ha]
          obtain ⟨f', rfl⟩ : ∃ f', fuel = f' + 1 := ⟨fuel - 1, by omega⟩
          have hu2 : (AnyList.small l).usableSize (l.ns + 32) = l.ns + 32 - 32 := by
            rw [hU]; exact smallUsable_mid l.ns (l.ns + 32) hn (by omega) (by omega)
          rw [growCapacity_succ, hN, hu2, if_neg (by omega), hu2]
          omega
        · rw [if_neg hfit, hu]
          omega
      · have hh := smallUsable_high l.ns cap hn (by omega) (by omega)
        rw [← hU] at hh
        rw [if_neg (by omega)]
        exact ⟨hh, by omega⟩

/-- in particular from every default capacity with the model's fuel of 64 rounds -/
theorem growCapacity_64_small (l : SmallList) (hn : l.ns < 2^32) (h0 : 0 < l.ns) (cap : Nat) (hc : cap < 2^39) :
    l.ns ≤ (AnyList.small l).usableSize (growCapacity (.small l) 64 cap) :=
  (growCapacity_enough_small l hn h0 64 cap hc (by omega)).1

/-- the ordinary lists: one round is enough (`usable_size` rounds down to whole nodes) -/
theorem growCapacity_enough_free (l : FreeList) (hn : l.ns < 2^32) (h0 : 0 < l.ns) (fuel cap : Nat) (hc : cap < 2^39)
    (hf : 2 ≤ fuel) :
    l.ns ≤ (AnyList.free l).usableSize (growCapacity (.free l) fuel cap) := by
  have hU : ∀ c, c < 2^40 → (AnyList.free l).usableSize c = c / l.ns * l.ns := by
    intro c hc
    show (freeListUsableSize (BitVec.ofNat 64 l.ns) (BitVec.ofNat 64 c)).toNat = _
    unfold freeListUsableSize
    have h1 : c / l.ns * l.ns ≤ c := Nat.div_mul_le_self _ _
    simp only [BitVec.toNat_mul, BitVec.toNat_udiv, BitVec.toNat_ofNat]
    rw [Nat.mod_eq_of_lt (a := c) (by omega), Nat.mod_eq_of_lt (a := l.ns) (by omega)]
    exact Nat.mod_eq_of_lt (by omega)
  have hN : (AnyList.free l).nodeSize = l.ns := rfl
  obtain ⟨f1, rfl⟩ : ∃ f1, fuel = f1 + 1 + 1 := ⟨fuel - 2, by omega⟩
  rw [growCapacity_succ, hN, hU cap (by omega)]
  by_cases hlt : cap / l.ns * l.ns < l.ns
  · rw [if_pos hlt]
    have hz : cap / l.ns = 0 := by
      rcases Nat.eq_zero_or_pos (cap / l.ns) with h | h
      · exact h
      · have := Nat.mul_le_mul_right l.ns h; omega
    have hcl : cap < l.ns := by
      rcases Nat.lt_or_ge cap l.ns with h | h
      · exact h
      · have := (Nat.one_le_div_iff h0).2 h; omega
    rw [hz, Nat.zero_mul, Nat.sub_zero]
    have ha : add64 cap l.ns = cap + l.ns := by
      unfold add64; simp only [BitVec.toNat_add, BitVec.toNat_ofNat]; omega
    rw [ha, growCapacity_succ, hN, hU (cap + l.ns) (by omega)]
    have h1 : 1 ≤ (cap + l.ns) / l.ns := (Nat.one_le_div_iff h0).2 (by omega)
    have h2 : 1 * l.ns ≤ (cap + l.ns) / l.ns * l.ns := Nat.mul_le_mul_right _ h1
    rw [if_neg (by omega), hU (cap + l.ns) (by omega)]
    omega
  · rw [if_neg hlt, hU cap (by omega)]
    omega
end MemVerif.Lemmas
