import MemVerif.Lemmas.C06Strong
import MemVerif.Lemmas.C01Inv
/-!
C01 for `memory_stack`: placement invariant `SQ` of the live allocations (inside used blocks, below the top pointer in
the current block, pairwise apart) and its preservation by `allocate`, `try_allocate` and whole marker scopes.
-/
namespace MemVerif.Model
open MemVerif.Gen


/-- two byte ranges `(address, length)` do not overlap -/
def RDisj (a b : Nat × Nat) : Prop := a.1 + a.2 ≤ b.1 ∨ b.1 + b.2 ≤ a.1

theorem RDisj.symm {a b : Nat × Nat} (h : RDisj a b) : RDisj b a := Or.symm h

/-- placement of the live allocations of a `memory_stack` (a function of the top pointer and the used blocks only):
every live range lies in the usable part of a used block, those in the current block end at or below the top pointer,
and the ranges are pairwise apart -/
structure SQ (cur : Nat) (used : List Blk) (live : List (Nat × Nat)) : Prop where
  curIn : ∀ b, used.head? = some b → b.base + implOff ≤ cur ∧ cur ≤ b.base + b.size
  inside : ∀ r ∈ live, ∃ b ∈ used, b.base + implOff ≤ r.1 ∧ r.1 + r.2 ≤ b.base + b.size ∧
      (used.head? = some b → r.1 + r.2 ≤ cur)
  apart : live.Pairwise RDisj

/-- a bump inside the current block: the new range starts at or above the old top and ends at or below the new -/
theorem SQ.bump {cur : Nat} {b : Blk} {rest : List Blk} {live : List (Nat × Nat)} (h : SQ cur (b :: rest) live)
    (hb : BlocksOk (b :: rest)) {p n c' : Nat} (h1 : cur ≤ p) (h2 : p + n ≤ c') (h3 : c' ≤ b.base + b.size) :
    SQ c' (b :: rest) ((p, n) :: live) := by
  have hc := h.curIn b rfl
  refine ⟨?_, ?_, ?_⟩
  · intro b' hb'
    simp only [List.head?_cons, Option.some.injEq] at hb'
    subst hb'
    omega
  · intro r hr
    rcases List.mem_cons.mp hr with rfl | hr
    · exact ⟨b, by simp, by simp only; omega, by simp only; omega, fun _ => by simp only; omega⟩
    · obtain ⟨b', hb', i1, i2, i3⟩ := h.inside r hr
      exact ⟨b', hb', i1, i2, fun hh => by have := i3 hh; omega⟩
  · refine List.pairwise_cons.mpr ⟨?_, h.apart⟩
    intro r hr
    obtain ⟨b', hb', i1, i2, i3⟩ := h.inside r hr
    rcases pairwise_mem_or Blk.Disj.symm hb.2 hb' (List.mem_cons_self) with heq | hd
    · subst heq
      have := i3 rfl
      right; simp only; omega
    · unfold Blk.Disj at hd
      unfold RDisj; simp only
      omega

/-- a new block becomes the current one -/
theorem SQ.push {cur : Nat} {nb : Blk} {used : List Blk} {live : List (Nat × Nat)} (h : SQ cur used live)
    (hb : BlocksOk (nb :: used)) {c' : Nat} (h1 : nb.base + implOff ≤ c') (h2 : c' ≤ nb.base + nb.size) :
    SQ c' (nb :: used) live := by
  refine ⟨?_, ?_, h.apart⟩
  · intro b' hb'
    simp only [List.head?_cons, Option.some.injEq] at hb'
    subst hb'
    exact ⟨h1, h2⟩
  · intro r hr
    obtain ⟨b', hb', i1, i2, _⟩ := h.inside r hr
    refine ⟨b', List.mem_cons_of_mem _ hb', i1, i2, fun hh => ?_⟩
    simp only [List.head?_cons, Option.some.injEq] at hh
    subst hh
    have hd := (List.pairwise_cons.mp hb.2).1 _ hb'
    have hw := hb.1 nb (List.mem_cons_self)
    unfold Blk.Disj at hd
    unfold Blk.Wf at hw
    rw [implOff_eq] at hw
    omega


theorem alignOff_lt {addr k : Nat} (hk : k < 64) (ha : addr < 2 ^ 64) : alignOff addr (2 ^ k) < 2 ^ k :=
  (alignOff_spec addr k hk ha).2

theorem two_pow_lt48 {k : Nat} (hk : k < 48) : 2 ^ k < 2 ^ 48 := Nat.pow_lt_pow_right (by omega) hk

/-- no growth: the request fits between the top pointer and the end of the current block -/
theorem noGrow_fits (cfg : Cfg) {cur : Nat} {b : Blk} {rest : List Blk} {size k : Nat} (hk : k < 48)
    (hsz : size < 2 ^ 64) (hf : cfg.fence ≤ 2 ^ 16) (hw : b.Wf) (h1 : b.base + implOff ≤ cur) (h2 : cur ≤ b.base + b.size)
    (hg : growDec cfg cur (b :: rest) size (2 ^ k) = some false) :
    bumpCur cfg cur size (2 ^ k) ≤ b.base + b.size := by
  unfold Blk.Wf at hw
  rw [implOff_eq] at hw h1
  unfold growDec at hg
  have he : blkEnd (b :: rest) = some (b.base + b.size) := by
    simp only [blkEnd, List.head?_cons, Option.map_some, Blk.usable, implOff_eq]
    congr 1; omega
  rw [he] at hg
  have hc0 : cur ≠ 0 := by omega
  simp only [if_neg hc0, Option.some.injEq, Bool.not_eq_false'] at hg
  have hoff := alignOff_lt (addr := cur + cfg.fence) (k := k) (by omega) (by omega)
  have hp := two_pow_lt48 hk
  rw [sub64_eq h2 (by omega)] at hg
  have := (fits_iff (f := cfg.fence) (o := alignOff (cur + cfg.fence) (2 ^ k)) (s := size)
    (r := b.base + b.size - cur) (by omega) (by omega) hsz (by omega) (by omega)).1 hg
  unfold bumpCur
  omega


theorem add64_eq {a b : Nat} (h : a + b < 2 ^ 64) : add64 a b = a + b := by
  unfold add64
  simp only [BitVec.toNat_add, BitVec.toNat_ofNat]
  omega

/-- `needed` as `memory_stack::allocate` computes it does not exceed the block: the true sum fits -/
theorem neededSat_le {f o s bs : Nat} (hf : f ≤ 2 ^ 16) (ho : o < 2 ^ 48) (hs : s < 2 ^ 64) (hbs : bs ≤ 2 ^ 62)
    (h : ¬ neededSat f o s > bs) : f + o + s + f ≤ bs := by
  unfold neededSat at h
  have e1 : add64 f o = f + o := add64_eq (by omega)
  rw [e1] at h
  by_cases hT : f + o + s + f < 2 ^ 64
  · have e2 : add64 (f + o) s = f + o + s := add64_eq (by omega)
    have e3 : add64 (f + o + s) f = f + o + s + f := add64_eq hT
    rw [e2, e3] at h
    simp only at h
    split at h <;> omega
  · exfalso
    by_cases hT2 : f + o + s < 2 ^ 64
    · have e2 : add64 (f + o) s = f + o + s := add64_eq hT2
      rw [e2] at h
      have e3 : add64 (f + o + s) f = f + o + s + f - 2 ^ 64 := by
        unfold add64
        simp only [BitVec.toNat_add, BitVec.toNat_ofNat]
        omega
      rw [e3] at h
      simp only at h
      unfold two64 at h
      split at h <;> omega
    · have e2 : add64 (f + o) s = f + o + s - 2 ^ 64 := by
        unfold add64
        simp only [BitVec.toNat_add, BitVec.toNat_ofNat]
        omega
      rw [e2] at h
      have e3 : add64 (f + o + s - 2 ^ 64) f = f + o + s - 2 ^ 64 + f := add64_eq (by omega)
      rw [e3] at h
      simp only at h
      unfold two64 at h
      split at h <;> omega

/-- growth: what `allocate` does with the new block `ub` (usable part) -/
theorem finish_cases (cfg : Cfg) (ub : Blk) {size k : Nat} (hk : k < 48) (hsz : size < 2 ^ 64) (hf : cfg.fence ≤ 2 ^ 16)
    (hub : ub.base + ub.size ≤ 2 ^ 62) :
    (finishOut cfg ub size (2 ^ k) = .throws .badSize ∧ finishCur cfg ub size (2 ^ k) = ub.base) ∨
    (finishOut cfg ub size (2 ^ k) = .ok (bumpPtr cfg ub.base (2 ^ k)) ∧
      finishCur cfg ub size (2 ^ k) = bumpCur cfg ub.base size (2 ^ k) ∧
      bumpCur cfg ub.base size (2 ^ k) ≤ ub.base + ub.size) := by
  unfold finishOut finishCur
  by_cases h : neededSat cfg.fence (alignOff (ub.base + cfg.fence) (2 ^ k)) size > ub.size
  · left; simp [h]
  · right
    simp only [if_neg h, true_and]
    have hoff := alignOff_lt (addr := ub.base + cfg.fence) (k := k) (by omega) (by omega)
    have hp : 2 ^ k < 2 ^ 48 := Nat.pow_lt_pow_right (by omega) hk
    have := neededSat_le hf (by omega) hsz (by omega) h
    unfold bumpCur
    omega

/-! ### one operation -/

/-- the caller's ledger after a request of `size` bytes with outcome `out` -/
def liveAfter (live : List (Nat × Nat)) (size : Nat) : Out → List (Nat × Nat)
  | .ok p => (p, size) :: live
  | _ => live

theorem usable_end {c : Blk} (hw : c.Wf) : c.usable.base + c.usable.size = c.base + c.size := by
  unfold Blk.Wf at hw
  simp only [Blk.usable]
  omega

/-- a new block `c` is entered by `allocate`: both outcomes keep the placement invariant -/
theorem sq_enter (cfg : Cfg) {cur : Nat} {c : Blk} {used : List Blk} {live : List (Nat × Nat)} (hq : SQ cur used live)
    (hb : BlocksOk (c :: used)) {size k : Nat} (hk : k < 48) (hsz : size < 2 ^ 64) (hf : cfg.fence ≤ 2 ^ 16) :
    SQ (finishCur cfg c.usable size (2 ^ k)) (c :: used) (liveAfter live size (finishOut cfg c.usable size (2 ^ k))) := by
  have hw := hb.1 c List.mem_cons_self
  have hue := usable_end hw
  have hw' := hw
  unfold Blk.Wf at hw'
  have hpush : SQ (c.base + implOff) (c :: used) live := hq.push hb (Nat.le_refl _) (by omega)
  rcases finish_cases cfg c.usable hk hsz hf (by omega) with ⟨h1, h2⟩ | ⟨h1, h2, h3⟩
  · rw [h1, h2]
    exact hpush
  · rw [h1, h2]
    simp only [liveAfter]
    refine hpush.bump hb (p := bumpPtr cfg c.usable.base (2 ^ k)) (n := size) ?_ ?_ (by omega)
    · unfold bumpPtr; simp only [Blk.usable]; omega
    · unfold bumpPtr bumpCur; omega

theorem sq_alloc (cfg : Cfg) (s : MemStack) (hp : Pre s) {size k : Nat} (hk : k < 48) (hsz : size < 2 ^ 64)
    (hf : cfg.fence ≤ 2 ^ 16) (x : Option Nat) (live : List (Nat × Nat)) (hq : SQ s.cur s.arena.used live)
    (hb : BlocksOk (s.allocate cfg size (2 ^ k) [x]).1.arena.used) :
    SQ (s.allocate cfg size (2 ^ k) [x]).1.cur (s.allocate cfg size (2 ^ k) [x]).1.arena.used
      (liveAfter live size (s.allocate cfg size (2 ^ k) [x]).2.1) := by
  rw [allocate_eq] at hb ⊢
  have hg := growDec_ne_none cfg s.cur hp.ne size (2 ^ k)
  obtain ⟨⟨src, ic, used, cached⟩, cur, leak⟩ := s
  have hc := hp.cached
  have hns := hp.src
  have hne := hp.ne
  simp only at hc hns hg hq hne hb ⊢
  subst hc
  cases hgd : growDec cfg cur used size (2 ^ k) with
  | none => exact absurd hgd hg
  | some g =>
    rw [hgd] at hb
    cases g with
    | false =>
      simp only [liveAfter] at hb ⊢
      cases used with
      | nil => exact absurd rfl hne
      | cons b rest =>
        have hcur := hq.curIn b rfl
        have hfit := noGrow_fits cfg hk hsz hf (hb.1 b List.mem_cons_self) hcur.1 hcur.2 hgd
        refine hq.bump hb (p := bumpPtr cfg cur (2 ^ k)) (n := size) ?_ ?_ hfit
        · unfold bumpPtr; omega
        · unfold bumpPtr bumpCur; omega
    | true =>
      simp only [] at hb ⊢
      cases cached with
      | cons c cs =>
        rw [arena_alloc_cache] at hb ⊢
        simp only at hb ⊢
        exact sq_enter cfg hq hb hk hsz hf
      | nil =>
        rcases arena_alloc_exact src hns used x with ⟨b, h⟩ | ⟨_, h⟩ | ⟨src', n, h, _⟩
        · rw [h]; simpa only [liveAfter] using hq
        · rw [h]; simpa only [liveAfter] using hq
        · rw [h] at hb ⊢
          simp only at hb ⊢
          exact sq_enter cfg hq hb hk hsz hf

theorem sq_try (cfg : Cfg) (s : MemStack) (hp : Pre s) {size k : Nat} (hk : k < 48) (hsz : size < 2 ^ 64)
    (hf : cfg.fence ≤ 2 ^ 16) (live : List (Nat × Nat)) (hq : SQ s.cur s.arena.used live)
    (hb : BlocksOk s.arena.used) :
    SQ (s.tryAllocate cfg size (2 ^ k)).1.cur (s.tryAllocate cfg size (2 ^ k)).1.arena.used
      (liveAfter live size (s.tryAllocate cfg size (2 ^ k)).2) := by
  unfold MemStack.tryAllocate
  rw [blockEnd_eq]
  cases hu : s.arena.used with
  | nil => exact absurd hu hp.ne
  | cons b rest =>
    rw [hu] at hq hb
    have hw := hb.1 b List.mem_cons_self
    have hcur := hq.curIn b rfl
    have hue := usable_end hw
    have he : blkEnd (b :: rest) = some (b.base + b.size) := by
      simp only [blkEnd, List.head?_cons, Option.map_some, hue]
    rw [he]
    simp only
    unfold Blk.Wf at hw
    have hp2 : 2 ^ k < 2 ^ 48 := Nat.pow_lt_pow_right (by omega) hk
    cases hfa : fixedAllocate s.cur (b.base + b.size) size (2 ^ k) cfg.fence with
    | none => simpa only [liveAfter, hu] using hq
    | some pc =>
      obtain ⟨p, c⟩ := pc
      obtain ⟨_, h1, _, h3, h4⟩ := fixedAllocate_spec (k := k) (by omega) hcur.2 (by omega) hsz (by omega) hfa
      simp only [liveAfter, hu]
      exact hq.bump hb (by omega) (by omega) h4

/-! ### whole histories -/

theorem BlocksOk.perm {l l' : List Blk} (h : BlocksOk l) (p : l.Perm l') : BlocksOk l' :=
  ⟨fun b hb => h.1 b (p.mem_iff.mpr hb), (List.Perm.pairwise_iff Blk.Disj.symm p).mp h.2⟩

theorem BlocksOk.sublist {l l' : List Blk} (h : BlocksOk l') (hs : l.Sublist l') : BlocksOk l :=
  ⟨fun b hb => h.1 b (hs.subset hb), h.2.sublist hs⟩

/-- the blocks a stack owns (used and cached) after a run are those it owned before plus the acquired ones -/
theorem Strong.owned_perm {s : MemStack} {r : RunRes} (h : Strong s r) :
    (r.st.arena.used ++ r.st.arena.cached).Perm (s.arena.used ++ s.arena.cached ++ r.acquired) := by
  obtain ⟨extra, hu, hc, _⟩ := h.ext
  rw [hu, List.append_assoc s.arena.used, ← hc]
  -- extra ++ used ++ cached' ~ used ++ (extra.reverse ++ cached')
  have h1 : (extra ++ s.arena.used ++ r.st.arena.cached).Perm (s.arena.used ++ extra ++ r.st.arena.cached) :=
    List.Perm.append_right _ List.perm_append_comm
  have h2 : (s.arena.used ++ extra ++ r.st.arena.cached).Perm (s.arena.used ++ extra.reverse ++ r.st.arena.cached) :=
    List.Perm.append_right _ (List.Perm.append_left _ (List.reverse_perm extra).symm)
  rw [← List.append_assoc]
  exact h1.trans h2

/-- the ledger of allocations handed out at the top level of a history (marker scopes hand theirs back) -/
def liveStep (live : List (Nat × Nat)) : SOp → List Out → List (Nat × Nat)
  | .alloc size _, [out] => liveAfter live size out
  | .tryAlloc size _, [out] => liveAfter live size out
  | _, _ => live

def topLive (cfg : Cfg) (e : EnvS) : MemStack → Nat → List (Nat × Nat) → List SOp → List (Nat × Nat)
  | _, _, live, [] => live
  | s, k, live, op :: ops =>
    let r := runOp cfg e s k op
    topLive cfg e r.st r.k (liveStep live op r.outs) ops

theorem sq_ops (cfg : Cfg) (e : EnvS) (hf : cfg.fence ≤ 2 ^ 16) :
    ∀ (ops : List SOp) (s : MemStack) (k : Nat) (live : List (Nat × Nat)), Pre s → SOpsWf ops →
      s.arena.used.length + s.arena.cached.length + (runOps cfg e s k ops).acquired.length < 2 ^ 64 →
      BlocksOk (s.arena.used ++ s.arena.cached ++ (runOps cfg e s k ops).acquired) →
      SQ s.cur s.arena.used live →
      SQ (runOps cfg e s k ops).st.cur (runOps cfg e s k ops).st.arena.used (topLive cfg e s k live ops)
  | [], s, k, live, _, _, _, _, hq => by simpa only [runOps, topLive] using hq
  | op :: ops, s, k, live, hp, hw, hlen, hb, hq => by
    simp only [runOps, topLive, List.length_append] at hlen hb ⊢
    have hw1 : SOpWf op := by simp only [SOpsWf] at hw; exact hw.1
    have hw2 : SOpsWf ops := by simp only [SOpsWf] at hw; exact hw.2
    have hst := strong_op cfg e op s k hp (by omega)
    have hpre := hst.pre hp
    have hperm := hst.owned_perm
    have htot := hst.total
    -- blocks owned after the first operation, together with what the rest acquires
    have hb1 : BlocksOk ((runOp cfg e s k op).st.arena.used ++ (runOp cfg e s k op).st.arena.cached ++
        (runOps cfg e (runOp cfg e s k op).st (runOp cfg e s k op).k ops).acquired) := by
      refine hb.perm ?_
      rw [← List.append_assoc]
      exact (List.Perm.append_right _ hperm).symm
    have hbu : BlocksOk (runOp cfg e s k op).st.arena.used :=
      hb1.sublist ((List.sublist_append_left _ _).trans (List.sublist_append_left _ _))
    have hbs : BlocksOk s.arena.used :=
      hb.sublist ((List.sublist_append_left _ _).trans (List.sublist_append_left _ _))
    have hq1 : SQ (runOp cfg e s k op).st.cur (runOp cfg e s k op).st.arena.used
        (liveStep live op (runOp cfg e s k op).outs) := by
      cases op with
      | alloc size align =>
        simp only [SOpWf] at hw1
        obtain ⟨hsz, kk, hk, rfl⟩ := hw1
        simp only [runOp, liveStep] at hbu ⊢
        exact sq_alloc cfg s hp hk hsz hf (e k) live hq hbu
      | tryAlloc size align =>
        simp only [SOpWf] at hw1
        obtain ⟨hsz, kk, hk, rfl⟩ := hw1
        simp only [runOp, liveStep]
        exact sq_try cfg s hp hk hsz hf live hq hbs
      | scope inner =>
        have hlen' := hlen
        rw [(scope_proj cfg e s k inner hp.ne).1] at hlen'
        have hsr := scope_res cfg e s k inner hp (by omega)
        rw [hsr.cur, hsr.used]
        simpa only [liveStep] using hq
    exact sq_ops cfg e hf ops _ _ _ hpre hw2 (by omega) hb1 hq1

end MemVerif.Model
