import MemVerif.Lemmas.OrdList
import MemVerif.Lemmas.C01Cells
/-!
Ordered free list, runs of cells: the invariant `OrdList.Inv` is preserved when a run of address-consecutive cells
is spliced into the list at the position `find_pos` returns (`insert_impl`: a new block, or an array that is
released) and when a contiguous segment of the list is removed (`allocate(n)`), with the cursor updates of the code.
-/
namespace MemVerif.Model

/-! ### positions through the extended sequence `B :: nodes ++ [E]` -/

def OrdList.ext (l : OrdList) : List Nat := l.B :: l.nodes ++ [l.E]

theorem addr_eq_ext (l : OrdList) {i : Nat} (h : i ≤ l.nodes.length + 1) : l.addr i = l.ext.getD i 0 := by
  unfold OrdList.ext
  rcases Nat.eq_zero_or_pos i with h0 | h0
  · subst h0; rw [addr_zero]; rfl
  · obtain ⟨j, rfl⟩ : ∃ j, i = j + 1 := ⟨i - 1, by omega⟩
    rcases Nat.lt_or_eq_of_le h with h1 | h1
    · have hj : j < l.nodes.length := by omega
      rw [addr_succ l hj]
      simp only [List.cons_append, List.getD_cons_succ]
      rw [List.getD_eq_getElem?_getD, List.getD_eq_getElem?_getD, List.getElem?_append_left hj]
    · have hj : j = l.nodes.length := by omega
      subst hj
      rw [addr_end]
      simp only [List.cons_append, List.getD_cons_succ]
      rw [List.getD_eq_getElem?_getD, List.getElem?_append_right (Nat.le_refl _)]
      simp

theorem getD_ins_lt {P R S : List Nat} {j : Nat} (h : j < P.length) :
    (P ++ R ++ S).getD j 0 = (P ++ S).getD j 0 := by
  rw [List.getD_eq_getElem?_getD, List.getD_eq_getElem?_getD, List.append_assoc,
    List.getElem?_append_left h, List.getElem?_append_left h]

theorem getD_ins_ge {P R S : List Nat} {j : Nat} (h : P.length ≤ j) :
    (P ++ R ++ S).getD (j + R.length) 0 = (P ++ S).getD j 0 := by
  rw [List.getD_eq_getElem?_getD, List.getD_eq_getElem?_getD, List.append_assoc,
    List.getElem?_append_right (by omega), List.getElem?_append_right (by omega),
    List.getElem?_append_right h]
  congr 2
  omega

/-- two lists with the same proxies, one with the run `R` after the first `s` nodes, the other without -/
structure RunRel (l l' : OrdList) (A R B' : List Nat) : Prop where
  hB : l'.B = l.B
  hE : l'.E = l.E
  without : l.nodes = A ++ B'
  with_ : l'.nodes = A ++ R ++ B'

namespace RunRel
variable {l l' : OrdList} {A R B' : List Nat}

theorem ext_without (h : RunRel l l' A R B') : l.ext = (l.B :: A) ++ (B' ++ [l.E]) := by
  unfold OrdList.ext; rw [h.without]; simp

theorem ext_with (h : RunRel l l' A R B') : l'.ext = (l.B :: A) ++ R ++ (B' ++ [l.E]) := by
  unfold OrdList.ext; rw [h.with_, h.hB, h.hE]; simp

theorem len (h : RunRel l l' A R B') : l'.nodes.length = l.nodes.length + R.length := by
  rw [h.with_, h.without]; simp; omega

theorem lenA (h : RunRel l l' A R B') : A.length ≤ l.nodes.length := by
  rw [h.without]; simp

/-- positions up to `|A|` have the same address in both lists -/
theorem addr_low (h : RunRel l l' A R B') {j : Nat} (hj : j ≤ A.length) : l'.addr j = l.addr j := by
  have hl := h.len; have hA := h.lenA
  rw [addr_eq_ext l' (by omega), addr_eq_ext l (by omega), h.ext_with, h.ext_without]
  exact getD_ins_lt (by simp; omega)

/-- positions above `|A|` are shifted by `|R|` -/
theorem addr_high (h : RunRel l l' A R B') {j : Nat} (hj : A.length < j) (hj' : j ≤ l.nodes.length + 1) :
    l'.addr (j + R.length) = l.addr j := by
  have hl := h.len
  rw [addr_eq_ext l' (by omega), addr_eq_ext l (by omega), h.ext_with, h.ext_without]
  exact getD_ins_ge (by simp; omega)

/-- the first cell of the run sits at position `|A| + 1` of the list that has it -/
theorem addr_first (h : RunRel l l' A R B') {m : Nat} {R' : List Nat} (hR : R = m :: R') :
    l'.addr (A.length + 1) = m := by
  have hl := h.len; have hA := h.lenA
  have : 0 < R.length := by rw [hR]; simp
  rw [addr_eq_ext l' (by omega), h.ext_with, hR]
  rw [List.getD_eq_getElem?_getD, List.append_assoc, List.getElem?_append_right (by simp)]
  simp

end RunRel

/-! ### the invariant without its cursor part -/

/-- everything `OrdList.Inv` says except the cursor -/
structure OrdList.Base (l : OrdList) : Prop where
  asc : Ascending l.nodes
  proxies : l.E = l.B + 8 ∧ 0 < l.B
  notNode : l.B ∉ l.nodes ∧ l.E ∉ l.nodes
  apart : ∀ a ∈ l.nodes, a + l.ns ≤ l.B ∨ l.E + 8 ≤ a
  nsPos : 8 ≤ l.ns
  nodePos : ∀ a ∈ l.nodes, 0 < a
  cap : l.cap = l.nodes.length

theorem OrdList.Inv.base {l : OrdList} (h : l.Inv) : l.Base :=
  ⟨h.asc, h.proxies, h.notNode, h.apart, h.nsPos, h.nodePos, h.cap⟩

/-- a cursor given by a pair of adjacent positions completes the invariant -/
theorem OrdList.Base.inv {l : OrdList} (h : l.Base)
    (hcur : ∃ j, j ≤ l.nodes.length ∧ l.addr j = l.ldp ∧ l.addr (j + 1) = l.ld) : l.Inv := by
  obtain ⟨j, hj, h1, h2⟩ := hcur
  have hBE : l.B ≠ l.E := by have := h.proxies; omega
  refine ⟨h.asc, h.proxies, h.notNode, h.apart, h.nsPos, h.nodePos, h.cap, j, hj, ?_, ?_⟩
  · rw [← h1]; exact posOf_addr h.asc h.notNode.1 h.notNode.2 hBE (by omega)
  · rw [← h2]; exact posOf_addr h.asc h.notNode.1 h.notNode.2 hBE (by omega)

/-- the cursor of a list that satisfies the invariant, as positions -/
theorem OrdList.Inv.cursorAddr {l : OrdList} (h : l.Inv) :
    ∃ j, j ≤ l.nodes.length ∧ l.addr j = l.ldp ∧ l.addr (j + 1) = l.ld := by
  obtain ⟨i, hi, h1, h2⟩ := h.cursor
  exact ⟨i, hi, (posOf_some h1).2, (posOf_some h2).2⟩

/-- removing a segment keeps the base invariant -/
theorem base_remove {l l' : OrdList} {A R B' : List Nat} (hr : RunRel l' l A R B') (h : l.Base)
    (hns : l'.ns = l.ns) (hc : l'.cap = l.cap - R.length) : l'.Base := by
  have hsub : ∀ a, a ∈ l'.nodes → a ∈ l.nodes := by
    intro a ha; rw [hr.without] at ha; rw [hr.with_]
    rcases List.mem_append.mp ha with ha | ha <;> simp [ha]
  have hsl : l'.nodes.Sublist l.nodes := by
    rw [hr.without, hr.with_, List.append_assoc]
    exact List.Sublist.append_left (List.sublist_append_right _ _) _
  refine ⟨h.asc.sublist hsl, by rw [← hr.hB, ← hr.hE]; exact h.proxies, ?_, ?_, by rw [hns]; exact h.nsPos, ?_, ?_⟩
  · exact ⟨fun hh => h.notNode.1 (hr.hB ▸ hsub _ (hr.hB ▸ hh)), fun hh => h.notNode.2 (hr.hE ▸ hsub _ (hr.hE ▸ hh))⟩
  · intro a ha; rw [hns, ← hr.hB, ← hr.hE]; exact h.apart a (hsub a ha)
  · intro a ha; exact h.nodePos a (hsub a ha)
  · rw [hc, h.cap, hr.with_, hr.without]; simp; omega

/-! ### splicing a run in -/

theorem asc_blockNodes (m ns k : Nat) (hns : 0 < ns) : Ascending (blockNodes m ns k) := by
  induction k generalizing m with
  | zero => exact List.Pairwise.nil
  | succ k ih =>
    unfold Ascending at ih ⊢
    simp only [blockNodes, List.pairwise_cons]
    refine ⟨?_, ih _⟩
    intro y hy
    have := blockNodes_bounds hy
    omega

theorem around_take {xs : List Nat} {m i : Nat} (hA : Around xs m i) : ∀ y ∈ xs.take i, y < m := by
  intro y hy
  obtain ⟨j, hj, rfl⟩ := List.getElem_of_mem hy
  have hl : (xs.take i).length = min i xs.length := List.length_take
  have := hA.2.1 j (by omega)
  rw [List.getElem_take]
  rw [getD_lt (by omega)] at this
  exact this

theorem around_drop {xs : List Nat} {m i : Nat} (hA : Around xs m i) : ∀ y ∈ xs.drop i, m < y := by
  intro y hy
  obtain ⟨j, hj, rfl⟩ := List.getElem_of_mem hy
  have hl : (xs.drop i).length = xs.length - i := List.length_drop
  have := hA.2.2 (i + j) (by omega) (by omega)
  rw [List.getElem_drop]
  rw [getD_lt (by omega)] at this
  exact this

/-- splicing the run `blockNodes m ns k` in at the insert position of `m` keeps the base invariant -/
theorem base_splice {l l' : OrdList} (h : l.Base) {m k i : Nat} (_hk : 0 < k) (hA : Around l.nodes m i)
    (hrun : ∀ y ∈ l.nodes, y + l.ns ≤ m ∨ m + k * l.ns ≤ y)
    (hmB : m + k * l.ns ≤ l.B ∨ l.E + 8 ≤ m) (hm0 : 0 < m)
    (hns : l'.ns = l.ns) (hB : l'.B = l.B) (hE : l'.E = l.E)
    (hn : l'.nodes = l.spliceAt i (blockNodes m l.ns k)) (hc : l'.cap = l.cap + k) :
    l'.Base ∧ RunRel l l' (l.nodes.take i) (blockNodes m l.ns k) (l.nodes.drop i) := by
  have hnsP := h.nsPos
  have hrel : RunRel l l' (l.nodes.take i) (blockNodes m l.ns k) (l.nodes.drop i) :=
    ⟨hB, hE, (List.take_append_drop i l.nodes).symm, hn⟩
  have hmemOld : ∀ y, y ∈ l.nodes ↔ y ∈ l.nodes.take i ∨ y ∈ l.nodes.drop i := by
    intro y
    conv => lhs; rw [← List.take_append_drop i l.nodes]
    exact List.mem_append
  have hmem : ∀ y, y ∈ l'.nodes ↔ y ∈ blockNodes m l.ns k ∨ y ∈ l.nodes := by
    intro y
    rw [hn, OrdList.spliceAt, hmemOld]
    simp only [List.mem_append]
    constructor
    · rintro ((h1 | h1) | h1)
      · exact Or.inr (Or.inl h1)
      · exact Or.inl h1
      · exact Or.inr (Or.inr h1)
    · rintro (h1 | h1 | h1)
      · exact Or.inl (Or.inr h1)
      · exact Or.inl (Or.inl h1)
      · exact Or.inr h1
  have hcell : ∀ y ∈ blockNodes m l.ns k, m ≤ y ∧ y + l.ns ≤ m + k * l.ns := fun y hy => blockNodes_bounds hy
  refine ⟨⟨?_, by rw [hB, hE]; exact h.proxies, ⟨?_, ?_⟩, ?_, by rw [hns]; exact hnsP, ?_, ?_⟩, hrel⟩
  · -- ascending
    rw [hn, OrdList.spliceAt]
    unfold Ascending
    rw [List.pairwise_append, List.pairwise_append]
    have hasc := h.asc
    unfold Ascending at hasc
    rw [← List.take_append_drop i l.nodes, List.pairwise_append] at hasc
    refine ⟨⟨hasc.1, asc_blockNodes _ _ _ (by omega), ?_⟩, hasc.2.1, ?_⟩
    · intro x hx y hy
      have := around_take hA x hx
      have := hcell y hy
      omega
    · intro x hx y hy
      have hyd := around_drop hA y hy
      rcases List.mem_append.mp hx with hx | hx
      · exact hasc.2.2 x hx y hy
      · have := hcell x hx
        have := hrun y ((hmemOld y).mpr (Or.inr hy))
        omega
  · rw [hB, hmem]; rintro (h1 | h1)
    · have := hcell _ h1; have := h.proxies; omega
    · exact h.notNode.1 h1
  · rw [hE, hmem]; rintro (h1 | h1)
    · have := hcell _ h1; have := h.proxies; omega
    · exact h.notNode.2 h1
  · intro a ha
    rw [hns, hB, hE]
    rcases (hmem a).mp ha with h1 | h1
    · have := hcell _ h1; omega
    · exact h.apart a h1
  · intro a ha
    rcases (hmem a).mp ha with h1 | h1
    · have := hcell _ h1; omega
    · exact h.nodePos a h1
  · rw [hc, h.cap, hn, OrdList.spliceAt]; simp
    have := hA.1
    omega

/-- **Splicing a run in** (`insert_impl` and its two callers): with the cursor either set to the run
(`ldp = prev`, `ld = first cell`) or left alone when the run did not go between the cursor pair, the invariant holds. -/
theorem splice_run_inv {l l' : OrdList} (hI : l.Inv) {m k i : Nat} (hk : 0 < k) (hA : Around l.nodes m i)
    (hrun : ∀ y ∈ l.nodes, y + l.ns ≤ m ∨ m + k * l.ns ≤ y)
    (hmB : m + k * l.ns ≤ l.B ∨ l.E + 8 ≤ m) (hm0 : 0 < m)
    (hns : l'.ns = l.ns) (hB : l'.B = l.B) (hE : l'.E = l.E)
    (hn : l'.nodes = l.spliceAt i (blockNodes m l.ns k)) (hc : l'.cap = l.cap + k)
    (hcur : (l'.ldp = l.addr i ∧ l'.ld = m) ∨ (l'.ldp = l.ldp ∧ l'.ld = l.ld ∧ l.addr i ≠ l.ldp)) : l'.Inv := by
  obtain ⟨hbase, hrel⟩ := base_splice hI.base hk hA hrun hmB hm0 hns hB hE hn hc
  have hi := hA.1
  have hlenA : (l.nodes.take i).length = i := by simp; omega
  have hlen := hrel.len
  have hRlen : (blockNodes m l.ns k).length = k := blockNodes_length _ _ _
  apply hbase.inv
  rcases hcur with ⟨h1, h2⟩ | ⟨h1, h2, h3⟩
  · refine ⟨i, by omega, ?_, ?_⟩
    · rw [h1]; exact hrel.addr_low (by omega)
    · rw [h2]
      obtain ⟨k', rfl⟩ : ∃ k', k = k' + 1 := ⟨k - 1, by omega⟩
      have := hrel.addr_first (m := m) (R' := blockNodes (m + l.ns) l.ns k') rfl
      rwa [hlenA] at this
  · obtain ⟨c, hc', hc1, hc2⟩ := hI.cursorAddr
    have hne : c ≠ i := by intro hci; subst hci; exact h3 hc1
    rcases Nat.lt_or_gt_of_ne hne with hlt | hgt
    · refine ⟨c, by omega, ?_, ?_⟩
      · rw [h1, ← hc1]; exact hrel.addr_low (by omega)
      · rw [h2, ← hc2]; exact hrel.addr_low (by omega)
    · refine ⟨c + k, by omega, ?_, ?_⟩
      · rw [h1, ← hc1]
        have := hrel.addr_high (j := c) (by omega) (by omega)
        rwa [hRlen] at this
      · rw [h2, ← hc2]
        have := hrel.addr_high (j := c + 1) (by omega) (by omega)
        rw [hRlen] at this
        rwa [show c + k + 1 = c + 1 + k by omega]

end MemVerif.Model
