import MemVerif.Lemmas.C01Any
import MemVerif.Lemmas.C01Pool
/-!
C01, pool level, for **all three free lists** (`memory_pool<node_pool>` in every configuration — unordered in
release builds, ordered when double-deallocation checking is on —, `memory_pool<array_pool>`, always ordered, and
`memory_pool<small_node_pool>`): every `memory_pool` operation preserves `PInvG`, and the history theorem
`GPool.run_invG`.

Compared with `C01Pool.lean` (unordered list only) the invariant is stated over the list's *cells* (`CellInv`,
order-independent) plus the list's own structural invariant (`AnyList.SInv`; for the ordered list `OrdList.Inv`:
sorted, cursor pair adjacent, ...). The environment has one more obligation for the ordered list: its two proxy nodes
live inside the pool object, and that object must not lie inside a memory block the pool obtains (`ObjOut`).
-/
namespace MemVerif.Model
open MemVerif.Gen

/-- the list object's proxy words `[B, B + 16)` lie outside every block in use -/
def ObjOut (o : AnyList.ListObj) (used : List Blk) : Prop :=
  match o.addr with
  | none => True
  | some B => ∀ b ∈ used, B + 16 ≤ b.base ∨ b.base + b.size ≤ B

instance (o : AnyList.ListObj) (used : List Blk) : Decidable (ObjOut o used) := by
  unfold ObjOut; cases o.addr <;> exact inferInstance

theorem ObjOut.suffix {o : AnyList.ListObj} {u u' : List Blk} (h : ObjOut o u') (hs : u <:+ u') : ObjOut o u := by
  unfold ObjOut at h ⊢
  cases ha : o.addr with
  | none => trivial
  | some B => rw [ha] at h; exact fun b hb => h b (hs.subset hb)

/-- the environment's obligations on a used-block list (EnvOk) -/
def EnvOkG (o : AnyList.ListObj) (used : List Blk) : Prop := BlocksOk used ∧ ObjOut o used

instance (o : AnyList.ListObj) (used : List Blk) : Decidable (EnvOkG o used) := by unfold EnvOkG; exact inferInstance

theorem EnvOkG.suffix {o : AnyList.ListObj} {u u' : List Blk} (h : EnvOkG o u') (hs : u <:+ u') : EnvOkG o u :=
  ⟨h.1.suffix hs, h.2.suffix hs⟩

/-- the cells the blocks in use were cut into by the pool's list -/
def cellsOfBlocks (l : AnyList) (used : List Blk) : List Nat := used.flatMap l.blockCells

@[simp] theorem cellsOfBlocks_cons (l : AnyList) (b : Blk) (used : List Blk) :
    cellsOfBlocks l (b :: used) = l.blockCells b ++ cellsOfBlocks l used := by
  simp [cellsOfBlocks]

theorem cellsOfBlocks_same {l l' : AnyList} (h : AnyList.Same l l') (used : List Blk) :
    cellsOfBlocks l' used = cellsOfBlocks l used := by
  unfold cellsOfBlocks
  congr 1
  funext b
  exact h.blk b

/-- intrusive lists: `usable size / node size` cells from the start of each usable part -/
def blockCellList (ns : Nat) (used : List Blk) : List Nat :=
  used.flatMap fun b => blockNodes b.usable.base ns (b.usable.size / ns)

/-- … and their number -/
def blockCells (ns : Nat) (used : List Blk) : Nat := (used.map fun b => b.usable.size / ns).sum

theorem blockCellList_length (ns : Nat) (used : List Blk) : (blockCellList ns used).length = blockCells ns used := by
  induction used with
  | nil => rfl
  | cons b used ih => simp [blockCellList, blockCells] at ih ⊢; try omega

theorem cellsOfBlocks_intrusive (l : AnyList) (used : List Blk) (h : ∀ P, l.obj ≠ .small P) :
    cellsOfBlocks l used = blockCellList l.nodeSize used := by
  cases l with
  | free fl => rfl
  | ord ol => rfl
  | small sl => exact absurd rfl (h sl.P)

theorem liveCells_length_cons (ns : Nat) (a b : Nat) (live : List (Nat × Nat)) :
    (liveCells ns ((a, b) :: live)).length = cellsOf ns b + (liveCells ns live).length := by
  simp [liveCells_cons]

theorem liveCells_length_erase {ns : Nat} {live : List (Nat × Nat)} {i a b : Nat} (h : live[i]? = some (a, b)) :
    (liveCells ns live).length = cellsOf ns b + (liveCells ns (live.eraseIdx i)).length := by
  have := (liveCells_erase (ns := ns) h).length_eq
  simpa using this

/-- **The C01 invariant of a pool (any of the three list types)**: node size `ns`, list object `o`. -/
structure PInvG (ns : Nat) (o : AnyList.ListObj) (p : Pool) (live : List (Nat × Nat)) : Prop where
  nsEq : p.list.nodeSize = ns
  objEq : p.list.obj = o
  sinv : p.list.SInv p.arena.used live
  cell : CellInv ns p.list.cells p.arena.used live
  /-- **conservation**: free cells + cells of live allocations are, as a multiset, exactly the cells the blocks in use
  were cut into (every cell of every block is either free or part of exactly one live allocation) -/
  conserve : (p.list.cells ++ liveCells ns live).Perm (cellsOfBlocks p.list p.arena.used)

/-- **exact accounting** -/
theorem PInvG.full {ns : Nat} {o : AnyList.ListObj} {p : Pool} {live : List (Nat × Nat)} (h : PInvG ns o p live) :
    p.list.cells.length + (liveCells ns live).length = (cellsOfBlocks p.list p.arena.used).length := by
  have := h.conserve.length_eq
  simpa using this

/-- a range inside the usable part of a used block lies outside the list object -/
theorem outObj_of_inBlk {o : AnyList.ListObj} {used : List Blk} (ho : ObjOut o used) {b : Blk} (hb : b ∈ used)
    {a len : Nat} (hi : InBlk b a len) : AnyList.OutObj o a len := by
  unfold ObjOut at ho
  unfold AnyList.OutObj
  cases ha : o.addr with
  | none => trivial
  | some B =>
    rw [ha] at ho
    have := ho b hb
    unfold InBlk at hi
    rw [implOff_eq] at hi
    simp only
    omega

/-! ### allocate_block -/

theorem Pool.allocateBlock_invG {ns : Nat} {o : AnyList.ListObj} {p : Pool} {live : List (Nat × Nat)} (cfg : Cfg)
    (env : List (Option Nat)) (h : PInvG ns o p live) (hb : EnvOkG o (p.allocateBlock cfg env).st.arena.used) :
    PInvG ns o (p.allocateBlock cfg env).st live ∧ (∀ a, (p.allocateBlock cfg env).out ≠ .ok a) := by
  have hsub := (Pool.allocateBlock_ext cfg p env).suffix.subset
  have hnsP := h.cell.nsPos
  unfold Pool.allocateBlock at hb hsub ⊢
  cases harena : p.arena.allocateBlock env with
  | envMissing => exact ⟨h, by simp⟩
  | fail a e ev env' =>
    simp only [harena] at hb hsub ⊢
    have hu := Arena.allocateBlock_fail harena
    refine ⟨⟨h.nsEq, h.objEq, ?_, h.cell.mono hb.1 (fun b hb => hsub hb), ?_⟩, by simp⟩
    · show p.list.SInv a.used live; rw [hu]; exact h.sinv
    · show List.Perm _ (cellsOfBlocks p.list a.used); rw [hu]; exact h.conserve
  | ok a ub ev env' =>
    simp only [harena] at hb hsub ⊢
    obtain ⟨blk, h1, rfl⟩ := Arena.allocateBlock_ok harena
    have hbu : EnvOkG o (blk :: p.arena.used) := by
      cases hins : p.list.insert cfg blk.usable.base blk.usable.size <;> simp only [hins] at hb <;> rw [h1] at hb <;> exact hb
    have hbw := hbu.1.1 blk (by simp)
    unfold Blk.Wf at hbw
    have hdiv := Nat.div_mul_le_self blk.usable.size ns
    have hus : blk.usable.base = blk.base + 16 ∧ blk.usable.size = blk.size - 16 := by
      unfold Blk.usable; rw [implOff_eq]; exact ⟨rfl, rfl⟩
    rw [implOff_eq] at hbw
    -- the new block's cells are apart from the old cells
    have hap : p.list.CellsApart blk.usable.base (blk.usable.size / p.list.nodeSize) := by
      intro y hy
      rw [h.nsEq]
      obtain ⟨c, hc, hy1, hy2⟩ := h.cell.freeIn y hy
      have hd : blk.Disj c := (List.pairwise_cons.mp hbu.1.2).1 c hc
      unfold Blk.Disj at hd
      rw [implOff_eq] at hy1
      omega
    have hout : AnyList.OutObj p.list.obj blk.usable.base blk.usable.size := by
      rw [h.objEq]
      refine outObj_of_inBlk hbu.2 (b := blk) (by simp) ?_
      unfold InBlk; rw [implOff_eq]; omega
    have hblk := AnyList.insert_block cfg (blk := blk) h.sinv (by rw [h.nsEq]; exact hnsP) hbu.1 hap hout
    have hspec := AnyList.blockCells_spec p.list (by rw [h.nsEq]; exact hnsP) blk
    rw [h.nsEq] at hspec
    rcases hblk with ⟨l', hins, hperm, hsame, hsinv⟩ | ⟨hz, hno⟩
    · simp only [hins]
      refine ⟨⟨hsame.ns.trans h.nsEq, hsame.obj.trans h.objEq, ?_, ?_, ?_⟩, by simp⟩
      · show l'.SInv a.used live; rw [h1]; exact hsinv
      · show CellInv ns l'.cells a.used live
        rw [h1]
        exact h.cell.insertCells hbu.1 hspec.1 hspec.2 hperm
      · show (l'.cells ++ liveCells ns live).Perm (cellsOfBlocks l' a.used)
        rw [h1, cellsOfBlocks_same hsame, cellsOfBlocks_cons]
        refine (List.Perm.append_right _ hperm).trans ?_
        rw [List.append_assoc]
        exact List.Perm.append_left _ h.conserve
    · -- a block too small for one cell is pushed without contributing any
      have key : PInvG ns o { p with arena := a } live := by
        refine ⟨h.nsEq, h.objEq, ?_, ?_, ?_⟩
        · show p.list.SInv a.used live; rw [h1]; exact h.sinv.mono (by simp +contextual)
        · show CellInv ns p.list.cells a.used live; rw [h1]; exact h.cell.mono hbu.1 (by simp +contextual)
        · show List.Perm _ (cellsOfBlocks p.list a.used); rw [h1, cellsOfBlocks_cons, hz]; exact h.conserve
      cases hins : p.list.insert cfg blk.usable.base blk.usable.size with
      | handler k => exact ⟨key, by simp⟩
      | crash => exact ⟨key, by simp⟩
      | ok l' => exact absurd hins (hno l')

/-! ### taking from / giving to the list, at pool level -/

theorem PInvG.alloc {ns : Nat} {o : AnyList.ListObj} {p : Pool} {live : List (Nat × Nat)} (h : PInvG ns o p live)
    {l : AnyList} {a bytes : Nat} (hb : bytes ≤ ns) (ha : p.list.allocate = some (l, a)) :
    PInvG ns o { p with list := l } ((a, bytes) :: live) := by
  obtain ⟨A, B, h1, h2, hsame, hsinv⟩ := AnyList.allocate_spec (bytes := bytes) h.sinv (by rw [h.nsEq]; exact hb) ha
  have hc : cellsOf ns bytes = 1 := by simp [cellsOf, hb]
  refine ⟨hsame.ns.trans h.nsEq, hsame.obj.trans h.objEq, hsinv, ?_, ?_⟩
  · exact h.cell.take (A := A) (B := B) (f := a) (bytes := bytes) (by rw [hc, blockNodes_one, h1]) h2
  · show (l.cells ++ liveCells ns ((a, bytes) :: live)).Perm (cellsOfBlocks l p.arena.used)
    rw [cellsOfBlocks_same hsame]
    refine List.Perm.trans ?_ h.conserve
    rw [liveCells_cons, hc, blockNodes_one, h2, h1]
    exact perm_take A B [a] (liveCells ns live)

theorem PInvG.allocBytes {ns : Nat} {o : AnyList.ListObj} {p : Pool} {live : List (Nat × Nat)} (h : PInvG ns o p live)
    {l : AnyList} {a bytes : Nat} (ha : p.list.allocateBytes bytes = some (l, some a)) :
    PInvG ns o { p with list := l } ((a, bytes) :: live) := by
  obtain ⟨A, B, h1, h2, hsame, hsinv⟩ := AnyList.allocateBytes_spec h.sinv (by rw [h.nsEq]; exact h.cell.nsPos) ha
  rw [h.nsEq] at h1
  refine ⟨hsame.ns.trans h.nsEq, hsame.obj.trans h.objEq, hsinv, h.cell.take h1 h2, ?_⟩
  show (l.cells ++ liveCells ns ((a, bytes) :: live)).Perm (cellsOfBlocks l p.arena.used)
  rw [cellsOfBlocks_same hsame]
  refine List.Perm.trans ?_ h.conserve
  rw [liveCells_cons, h2, h1]
  exact perm_take A B _ (liveCells ns live)

/-- postcondition of an allocation function: a returned address is entered in the ledger with `bytes` -/
def PostG (ns : Nat) (o : AnyList.ListObj) (live : List (Nat × Nat)) (bytes : Nat) (r : PRes Pool) : Prop :=
  match r.out with
  | .ok a => PInvG ns o r.st ((a, bytes) :: live)
  | _ => PInvG ns o r.st live

theorem PostG.of_not_ok {ns : Nat} {o : AnyList.ListObj} {live : List (Nat × Nat)} {bytes : Nat} {r : PRes Pool}
    (h : PInvG ns o r.st live) (hn : ∀ a, r.out ≠ .ok a) : PostG ns o live bytes r := by
  unfold PostG
  split
  · rename_i a ha; exact absurd ha (hn a)
  · exact h

theorem PostG.ledger {ns : Nat} {o : AnyList.ListObj} {live : List (Nat × Nat)} {bytes : Nat} {r : PRes Pool}
    (h : PostG ns o live bytes r) :
    PInvG ns o r.st (match r.out with | .ok a => (a, bytes) :: live | _ => live) := by
  unfold PostG at h
  cases hr : r.out <;> simp only [hr] at h ⊢ <;> exact h

/-! ### allocate_node / try_allocate_node -/

theorem Pool.allocateNode_postG {ns : Nat} {o : AnyList.ListObj} {p : Pool} {live : List (Nat × Nat)} (cfg : Cfg)
    (env : List (Option Nat)) (h : PInvG ns o p live) (hb : EnvOkG o (p.allocateNode cfg env).st.arena.used) :
    PostG ns o live ns (p.allocateNode cfg env) := by
  unfold Pool.allocateNode at hb ⊢
  simp only at hb ⊢
  by_cases hemp : p.list.empty = true
  · simp only [hemp, if_true] at hb ⊢
    have hblk := Pool.allocateBlock_invG (ns := ns) (o := o) (live := live) cfg env h
    generalize p.allocateBlock cfg env = r at hb hblk ⊢
    split
    · rename_i hdone
      simp only [hdone] at hb
      split
      · rename_i hnone
        simp only [hnone] at hb
        exact PostG.of_not_ok (hblk hb).1 (by simp)
      · rename_i l a hal
        simp only [hal] at hb
        exact (hblk hb).1.alloc (Nat.le_refl _) hal
    · rename_i hnd
      split at hb
      · rename_i hdone; exact absurd hdone hnd
      · exact PostG.of_not_ok (hblk hb).1 (hblk hb).2
  · simp only [hemp] at hb ⊢
    simp only [Bool.false_eq_true, if_false] at hb ⊢
    split
    · exact PostG.of_not_ok h (by simp)
    · rename_i l a hal
      exact h.alloc (Nat.le_refl _) hal

theorem Pool.tryAllocateNode_postG {ns : Nat} {o : AnyList.ListObj} {p : Pool} {live : List (Nat × Nat)}
    (h : PInvG ns o p live) : PostG ns o live ns p.tryAllocateNode := by
  unfold Pool.tryAllocateNode
  split
  · exact PostG.of_not_ok h (by simp)
  · split
    · exact PostG.of_not_ok h (by simp)
    · rename_i l a hal
      exact h.alloc (Nat.le_refl _) hal

/-! ### arrays -/

theorem Pool.allocateArrayBytes_postG {ns : Nat} {o : AnyList.ListObj} {p : Pool} {live : List (Nat × Nat)} (cfg : Cfg)
    (bytes : Nat) (env : List (Option Nat)) (h : PInvG ns o p live)
    (hb : EnvOkG o (p.allocateArrayBytes cfg bytes env).st.arena.used) :
    PostG ns o live bytes (p.allocateArrayBytes cfg bytes env) := by
  unfold Pool.allocateArrayBytes at hb ⊢
  simp only at hb ⊢
  have hf : ∀ l a, (if p.list.empty = true then some (p.list, none) else p.list.allocateBytes bytes) = some (l, some a) →
      p.list.allocateBytes bytes = some (l, some a) := by
    intro l a
    split
    · simp
    · exact id
  generalize (if p.list.empty = true then some (p.list, none) else p.list.allocateBytes bytes) = first at hb hf ⊢
  split
  · exact PostG.of_not_ok h (by simp)
  · rename_i l a
    exact h.allocBytes (hf l a rfl)
  · simp only at hb
    have hblk := Pool.allocateBlock_invG (ns := ns) (o := o) (live := live) cfg env h
    generalize p.allocateBlock cfg env = r at hb hblk ⊢
    split
    · rename_i hdone
      simp only [hdone] at hb
      split
      · rename_i hnone
        simp only [hnone] at hb
        exact PostG.of_not_ok (hblk hb).1 (by simp)
      · rename_i l a hal
        simp only [hal] at hb
        exact (hblk hb).1.allocBytes hal
      · rename_i hal
        simp only [hal] at hb
        exact PostG.of_not_ok (hblk hb).1 (by simp)
    · rename_i hnd
      split at hb
      · rename_i hdone; exact absurd hdone hnd
      · exact PostG.of_not_ok (hblk hb).1 (hblk hb).2

theorem PInvG.nodeSize {ns : Nat} {o : AnyList.ListObj} {p : Pool} {live : List (Nat × Nat)} (h : PInvG ns o p live) :
    p.nodeSize = ns := h.nsEq

theorem Pool.allocateArray_postG {ns : Nat} {o : AnyList.ListObj} {p : Pool} {live : List (Nat × Nat)} (cfg : Cfg)
    (n : Nat) (env : List (Option Nat)) (h : PInvG ns o p live)
    (hb : EnvOkG o (p.allocateArray cfg n env).st.arena.used) :
    PostG ns o live (mul64 n ns) (p.allocateArray cfg n env) := by
  have hns : p.nodeSize = ns := h.nodeSize
  unfold Pool.allocateArray at hb ⊢
  simp only [hns] at hb ⊢
  generalize (if p.arrays = true then p.nextCapacity else 0) = supported at hb ⊢
  by_cases hle : mul64 n ns > supported
  · rw [if_pos hle] at hb ⊢
    exact PostG.of_not_ok h (by simp)
  · rw [if_neg hle] at hb ⊢
    exact Pool.allocateArrayBytes_postG cfg _ env h hb

theorem Pool.tryAllocateArrayBytes_postG {ns : Nat} {o : AnyList.ListObj} {p : Pool} {live : List (Nat × Nat)}
    (bytes : Nat) (h : PInvG ns o p live) : PostG ns o live bytes (p.tryAllocateArrayBytes bytes) := by
  unfold Pool.tryAllocateArrayBytes
  split
  · exact PostG.of_not_ok h (by simp)
  · split
    · exact PostG.of_not_ok h (by simp)
    · rename_i l a hal
      exact h.allocBytes hal
    · exact PostG.of_not_ok h (by simp)

/-- cells that come back: `cells' ~ R ++ cells` and `L ~ R ++ L'` give `cells' ++ L' ~ cells ++ L` -/
theorem give_perm {cells cells' R L L' : List Nat} (h1 : cells'.Perm (R ++ cells)) (h2 : L.Perm (R ++ L')) :
    (cells' ++ L').Perm (cells ++ L) := by
  refine (List.Perm.append_right _ h1).trans ?_
  refine List.Perm.trans ?_ (List.Perm.append_left _ h2.symm)
  rw [List.append_assoc]
  exact List.perm_append_comm_assoc R cells L'

/-! ### releases -/

/-- facts about the `i`-th live allocation needed by the list's release functions -/
theorem PInvG.liveFacts {ns : Nat} {o : AnyList.ListObj} {p : Pool} {live : List (Nat × Nat)} (h : PInvG ns o p live)
    (ho : ObjOut o p.arena.used) {i a b : Nat} (hi : live[i]? = some (a, b)) :
    p.list.CellsApart a (cellsOf ns b) ∧ AnyList.OutObj p.list.obj a (cellsOf ns b * ns) ∧ 0 < a := by
  have hmem : (a, b) ∈ live := List.mem_of_getElem? hi
  obtain ⟨blk, hblk, hin⟩ := h.cell.liveIn (a, b) hmem
  refine ⟨?_, ?_, ?_⟩
  · intro y hy
    rw [h.nsEq]
    exact h.cell.live_apart hmem y hy
  · rw [h.objEq]; exact outObj_of_inBlk ho hblk hin
  · unfold InBlk at hin; rw [implOff_eq] at hin; simp only at hin; omega

theorem Pool.deallocateNode_invG {ns : Nat} {o : AnyList.ListObj} {p : Pool} {live : List (Nat × Nat)} (cfg : Cfg)
    (h : PInvG ns o p live) (ho : ObjOut o p.arena.used) {i a b : Nat} (hi : live[i]? = some (a, b)) (hb : b ≤ ns) :
    PInvG ns o (p.deallocateNode cfg a).st (live.eraseIdx i) ∧ (p.deallocateNode cfg a).out = .done := by
  have hc : cellsOf ns b = 1 := by simp [cellsOf, hb]
  obtain ⟨hap, hout, ha0⟩ := h.liveFacts ho hi
  rw [hc] at hap hout
  obtain ⟨l', hd, hperm, hsame, hsinv⟩ := AnyList.deallocate_spec cfg h.sinv hi hap (by rw [h.nsEq]; simpa using hout) ha0
  unfold Pool.deallocateNode
  rw [hd]
  simp only [liftList]
  refine ⟨⟨hsame.ns.trans h.nsEq, hsame.obj.trans h.objEq, hsinv, ?_, ?_⟩, trivial⟩
  · exact h.cell.give hi (by rw [hc, blockNodes_one]; exact hperm)
  · show (l'.cells ++ liveCells ns (live.eraseIdx i)).Perm (cellsOfBlocks l' p.arena.used)
    rw [cellsOfBlocks_same hsame]
    refine List.Perm.trans ?_ h.conserve
    have he := liveCells_erase (ns := ns) hi
    rw [hc, blockNodes_one] at he
    exact give_perm hperm he

theorem Pool.deallocateBytes_invG {ns : Nat} {o : AnyList.ListObj} {p : Pool} {live : List (Nat × Nat)} (cfg : Cfg)
    (h : PInvG ns o p live) (ho : ObjOut o p.arena.used) {i a b : Nat} (hi : live[i]? = some (a, b)) (hb : ns < b) :
    PInvG ns o (p.deallocateBytes cfg a b).st (live.eraseIdx i) ∧ (p.deallocateBytes cfg a b).out = .done := by
  have hc : cellsOf ns b = ceilNodes b ns := by simp [cellsOf]; omega
  obtain ⟨hap, hout, ha0⟩ := h.liveFacts ho hi
  rw [hc] at hap hout
  obtain ⟨l', hd, hperm, hsame, hsinv⟩ := AnyList.deallocateBytes_spec cfg (n := b) h.sinv hi
    (by rw [h.nsEq]; exact h.cell.nsPos) (by rw [h.nsEq]; exact hb) (by rw [h.nsEq]; exact hap) (by rw [h.nsEq]; exact hout) ha0
  unfold Pool.deallocateBytes
  rw [hd]
  simp only [liftList]
  rw [h.nsEq] at hperm
  refine ⟨⟨hsame.ns.trans h.nsEq, hsame.obj.trans h.objEq, hsinv, ?_, ?_⟩, trivial⟩
  · exact h.cell.give hi (by rw [hc]; exact hperm)
  · show (l'.cells ++ liveCells ns (live.eraseIdx i)).Perm (cellsOfBlocks l' p.arena.used)
    rw [cellsOfBlocks_same hsame]
    refine List.Perm.trans ?_ h.conserve
    have he := liveCells_erase (ns := ns) hi
    rw [hc] at he
    exact give_perm hperm he

/-! ### one step, a whole history -/

theorem GPool.step_invG {ns : Nat} {o : AnyList.ListObj} (cfg : Cfg) (e : EnvS) (g : GPool) (k : Nat) (op : POp)
    (h : PInvG ns o g.p g.live) (hf : op.Fits ns) (hb : EnvOkG o (g.step cfg e k op).1.p.arena.used) :
    PInvG ns o (g.step cfg e k op).1.p (g.step cfg e k op).1.live := by
  have hns := h.nodeSize
  have ho : ObjOut o g.p.arena.used := hb.2.suffix (GPool.step_ext cfg e g k op).suffix
  unfold GPool.step at hb ⊢
  cases op with
  | allocNode =>
    simp only [GPool.exec, GPool.ledger, hns] at hb ⊢
    exact (Pool.allocateNode_postG cfg _ h hb).ledger
  | tryAllocNode =>
    simp only [GPool.exec, GPool.ledger, hns] at hb ⊢
    exact (Pool.tryAllocateNode_postG h).ledger
  | allocArray n =>
    simp only [GPool.exec, GPool.ledger, hns] at hb ⊢
    have := (Pool.allocateArray_postG cfg n _ h hb).ledger
    rwa [mul64_eq_of_lt hf] at this
  | tryAllocArray n =>
    simp only [GPool.exec, GPool.ledger, hns] at hb ⊢
    exact (Pool.tryAllocateArrayBytes_postG _ h).ledger
  | dealloc i =>
    simp only [GPool.exec, GPool.ledger, hns] at hb ⊢
    cases hi : g.live[i]? with
    | none =>
      simp only
      rw [List.eraseIdx_of_length_le (by simpa using hi)]
      exact h
    | some ab =>
      obtain ⟨a, b⟩ := ab
      simp only
      by_cases hgt : b > ns
      · rw [if_pos hgt]
        exact (Pool.deallocateBytes_invG cfg h ho hi hgt).1
      · rw [if_neg hgt]
        exact (Pool.deallocateNode_invG cfg h ho hi (by omega)).1

/-- **Preservation over a history**, for a pool over either intrusive list. The environment's part is the
hypothesis on the *final* used-block list (which contains every block the pool ever held). -/
theorem GPool.run_invG {ns : Nat} {o : AnyList.ListObj} (cfg : Cfg) (e : EnvS) (ops : List POp) :
    ∀ (g : GPool) (k : Nat), PInvG ns o g.p g.live → (∀ op ∈ ops, op.Fits ns) →
      EnvOkG o (g.run cfg e k ops).1.p.arena.used →
      PInvG ns o (g.run cfg e k ops).1.p (g.run cfg e k ops).1.live := by
  induction ops with
  | nil => intro g k h _ _; exact h
  | cons op ops ih =>
    intro g k h hf hb
    have hstep := GPool.step_invG cfg e g k op h (hf op (by simp))
      (hb.suffix (GPool.run_used_suffix cfg e ops _ _))
    exact ih _ _ hstep (fun o ho => hf o (by simp [ho])) hb

/-! ### construction -/

theorem OrdList.new_inv (nodeSize B : Nat) (hB : 0 < B) : (OrdList.new nodeSize B (B + 8)).Inv := by
  have hge := intrusiveNodeSize_ge nodeSize
  refine ⟨List.Pairwise.nil, ⟨rfl, hB⟩, ⟨by simp [OrdList.new], by simp [OrdList.new]⟩, ?_, hge.2, ?_, rfl, ?_⟩
  · intro a ha; simp [OrdList.new] at ha
  · intro a ha; simp [OrdList.new] at ha
  · refine ⟨0, Nat.le_refl _, ?_, ?_⟩
    · simp [OrdList.posOf, OrdList.new]
    · simp [OrdList.posOf, OrdList.new]

/-- an empty small list is well formed -/
theorem SmallList.new_ok (nodeSize P : Nat) (hns : 0 < nodeSize) : SmallOk (SmallList.new nodeSize P) [] [] := by
  refine ⟨Props.C04Lists.C04_small_new nodeSize P, ⟨?_, ⟨0, by simp [SmallList.posOf, SmallList.new]⟩,
    ⟨0, by simp [SmallList.posOf, SmallList.new]⟩, ?_⟩, hns, ?_, ?_⟩
  · intro i j ci cj hi; simp [SmallList.new] at hi
  · intro c hc; simp [SmallList.new] at hc
  · intro c hc; simp [SmallList.new] at hc
  · intro ab hab; cases hab

/-- a fresh, empty list satisfies the invariant on an arena without blocks -/
theorem PInvG.fresh (src : Src) (l : AnyList) (arrays : Bool) (hS : l.SInv [] []) (hc : l.cells = []) (hpos : 0 < l.nodeSize) :
    PInvG l.nodeSize l.obj { arena := { src := src, isCached := false }, list := l, arrays := arrays } [] :=
  ⟨rfl, rfl, hS,
    { nsPos := hpos
      blocks := ⟨by simp, List.Pairwise.nil⟩
      apart := by simp [hc]
      freeIn := by intro x hx; simp [hc] at hx
      liveIn := by intro x hx; cases hx },
    by simp [hc, cellsOfBlocks]⟩

/-- the constructor establishes the invariant (whatever its outcome) -/
theorem Pool.create_invG (cfg : Cfg) (src : Src) (l : AnyList) (arrays : Bool) (env : List (Option Nat))
    (hS : l.SInv [] []) (hc : l.cells = []) (hpos : 0 < l.nodeSize)
    (hb : EnvOkG l.obj (Pool.create cfg src l arrays env).st.arena.used) :
    PInvG l.nodeSize l.obj (Pool.create cfg src l arrays env).st [] := by
  unfold Pool.create at hb ⊢
  exact (Pool.allocateBlock_invG cfg env (PInvG.fresh src l arrays hS hc hpos) hb).1

end MemVerif.Model
