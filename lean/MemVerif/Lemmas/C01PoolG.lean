import MemVerif.Lemmas.C01Any
import MemVerif.Lemmas.C01Pool
/-!
C01, pool level, for **both intrusive free lists** (`memory_pool<node_pool>` in every configuration — unordered in
release builds, ordered when double-deallocation checking is on — and `memory_pool<array_pool>`, always ordered):
every `memory_pool` operation preserves `PInvG`, and the history theorem `GPool.run_invG`.

Compared with `C01Pool.lean` (unordered list only) the invariant is stated over the list's *cells* (`CellInv`,
order-independent) plus the list's own structural invariant (`AnyList.SInv`; for the ordered list `OrdList.Inv`:
sorted, cursor pair adjacent, ...). The environment has one more obligation for the ordered list: its two proxy nodes
live inside the pool object, and that object must not lie inside a memory block the pool obtains (`ObjOut`).
-/
namespace MemVerif.Model
open MemVerif.Gen

/-- the list object's proxy words `[B, B + 16)` lie outside every block in use -/
def ObjOut (o : Option Nat) (used : List Blk) : Prop :=
  match o with
  | none => True
  | some B => ∀ b ∈ used, B + 16 ≤ b.base ∨ b.base + b.size ≤ B

instance (o : Option Nat) (used : List Blk) : Decidable (ObjOut o used) := by
  unfold ObjOut; cases o <;> exact inferInstance

theorem ObjOut.suffix {o : Option Nat} {u u' : List Blk} (h : ObjOut o u') (hs : u <:+ u') : ObjOut o u := by
  cases o with
  | none => trivial
  | some B => exact fun b hb => h b (hs.subset hb)

/-- the environment's obligations on a used-block list (EnvOk) -/
def EnvOkG (o : Option Nat) (used : List Blk) : Prop := BlocksOk used ∧ ObjOut o used

instance (o : Option Nat) (used : List Blk) : Decidable (EnvOkG o used) := by unfold EnvOkG; exact inferInstance

theorem EnvOkG.suffix {o : Option Nat} {u u' : List Blk} (h : EnvOkG o u') (hs : u <:+ u') : EnvOkG o u :=
  ⟨h.1.suffix hs, h.2.suffix hs⟩

/-- number of cells the blocks in use were cut into (`usable size / node size` each) -/
def blockCells (ns : Nat) (used : List Blk) : Nat := (used.map fun b => b.usable.size / ns).sum

/-- the cells the blocks in use were cut into: `usable size / node size` cells from the start of each usable part -/
def blockCellList (ns : Nat) (used : List Blk) : List Nat :=
  used.flatMap fun b => blockNodes b.usable.base ns (b.usable.size / ns)

@[simp] theorem blockCellList_cons (ns : Nat) (b : Blk) (used : List Blk) :
    blockCellList ns (b :: used) = blockNodes b.usable.base ns (b.usable.size / ns) ++ blockCellList ns used := by
  simp [blockCellList]

@[simp] theorem blockCells_cons (ns : Nat) (b : Blk) (used : List Blk) :
    blockCells ns (b :: used) = b.usable.size / ns + blockCells ns used := by simp [blockCells]

theorem liveCells_length_cons (ns : Nat) (a b : Nat) (live : List (Nat × Nat)) :
    (liveCells ns ((a, b) :: live)).length = cellsOf ns b + (liveCells ns live).length := by
  simp [liveCells_cons]

theorem liveCells_length_erase {ns : Nat} {live : List (Nat × Nat)} {i a b : Nat} (h : live[i]? = some (a, b)) :
    (liveCells ns live).length = cellsOf ns b + (liveCells ns (live.eraseIdx i)).length := by
  have := (liveCells_erase (ns := ns) h).length_eq
  simpa using this

/-- **The C01 invariant of a pool over an intrusive list**: node size `ns`, list object `o`. -/
structure PInvG (ns : Nat) (o : Option Nat) (p : Pool) (live : List (Nat × Nat)) : Prop where
  nsEq : p.list.nodeSize = ns
  objEq : p.list.obj = o
  sinv : p.list.SInv
  cell : CellInv ns p.list.cells p.arena.used live
  /-- **exact accounting**: every cell of every block in use is either free or part of a live allocation -/
  full : p.list.cells.length + (liveCells ns live).length = blockCells ns p.arena.used
  /-- **conservation**: free cells + cells of live allocations are, as a multiset, exactly the cells the blocks in use
  were cut into -/
  conserve : (p.list.cells ++ liveCells ns live).Perm (blockCellList ns p.arena.used)

/-- a range inside the usable part of a used block lies outside the list object -/
theorem outObj_of_inBlk {o : Option Nat} {used : List Blk} (ho : ObjOut o used) {b : Blk} (hb : b ∈ used)
    {a len : Nat} (hi : InBlk b a len) : AnyList.OutObj o a len := by
  cases o with
  | none => trivial
  | some B =>
    have := ho b hb
    unfold InBlk at hi
    rw [implOff_eq] at hi
    unfold AnyList.OutObj
    simp only
    omega

/-! ### allocate_block -/

theorem Pool.allocateBlock_invG {ns : Nat} {o : Option Nat} {p : Pool} {live : List (Nat × Nat)} (cfg : Cfg)
    (env : List (Option Nat)) (h : PInvG ns o p live) (hb : EnvOkG o (p.allocateBlock cfg env).st.arena.used) :
    PInvG ns o (p.allocateBlock cfg env).st live ∧ (∀ a, (p.allocateBlock cfg env).out ≠ .ok a) := by
  have hsub := (Pool.allocateBlock_ext cfg p env).suffix.subset
  have hnsP := h.cell.nsPos
  unfold Pool.allocateBlock at hb hsub ⊢
  cases harena : p.arena.allocateBlock env with
  | envMissing => exact ⟨h, by simp⟩
  | fail a e ev env' =>
    simp only [harena] at hb hsub ⊢
    have hu := Arena.allocateBlock_fail harena
    exact ⟨⟨h.nsEq, h.objEq, h.sinv, h.cell.mono hb.1 (fun b hb => hsub hb), by show _ = blockCells ns a.used; rw [hu]; exact h.full,
      by show List.Perm _ (blockCellList ns a.used); rw [hu]; exact h.conserve⟩, by simp⟩
  | ok a ub ev env' =>
    simp only [harena] at hb hsub ⊢
    obtain ⟨blk, h1, rfl⟩ := Arena.allocateBlock_ok harena
    have hbu : EnvOkG o (blk :: p.arena.used) := by
      cases hins : p.list.insert cfg blk.usable.base blk.usable.size <;> simp only [hins] at hb <;> rw [h1] at hb <;> exact hb
    have hbw := hbu.1.1 blk (by simp)
    unfold Blk.Wf at hbw
    have hdiv := Nat.div_mul_le_self blk.usable.size ns
    have hus : blk.usable.base = blk.base + 16 ∧ blk.usable.size = blk.size - 16 := by
      unfold Blk.usable; rw [implOff_eq]; exact ⟨rfl, rfl⟩
    rw [implOff_eq] at hbw
    -- the new block's cells are apart from the old cells
    have hap : p.list.CellsApart blk.usable.base (blk.usable.size / p.list.nodeSize) := by
      intro y hy
      rw [h.nsEq]
      obtain ⟨c, hc, hy1, hy2⟩ := h.cell.freeIn y hy
      have hd : blk.Disj c := (List.pairwise_cons.mp hbu.1.2).1 c hc
      unfold Blk.Disj at hd
      rw [implOff_eq] at hy1
      omega
    have hout : AnyList.OutObj p.list.obj blk.usable.base (blk.usable.size / p.list.nodeSize * p.list.nodeSize) := by
      rw [h.nsEq, h.objEq]
      refine outObj_of_inBlk hbu.2 (b := blk) (by simp) ?_
      unfold InBlk; rw [implOff_eq]; omega
    have htot := AnyList.insert_total cfg (mem := blk.usable.base) (size := blk.usable.size) h.sinv
      (by rw [h.nsEq]; exact hnsP) hap hout (by omega)
    rw [h.nsEq] at htot
    -- a block too small for one node is pushed without contributing a cell
    have hzero : blk.usable.size / ns = 0 → ∀ r : PRes Pool, r.st = { p with arena := a } → (∀ x, r.out ≠ .ok x) →
        PInvG ns o r.st live ∧ (∀ x, r.out ≠ .ok x) := by
      intro hz r hr hno
      rw [hr]
      exact ⟨⟨h.nsEq, h.objEq, h.sinv, by show CellInv ns p.list.cells a.used live; rw [h1]; exact h.cell.mono hbu.1 (by simp +contextual),
        by show _ = blockCells ns a.used; rw [h1, blockCells_cons, hz, Nat.zero_add]; exact h.full,
        by show List.Perm _ (blockCellList ns a.used); rw [h1, blockCellList_cons, hz]; exact h.conserve⟩, hno⟩
    cases hins : p.list.insert cfg blk.usable.base blk.usable.size with
    | handler k =>
      rcases htot with ⟨l', hl'⟩ | hz
      · rw [hins] at hl'; cases hl'
      · exact hzero hz _ rfl (by simp)
    | crash =>
      rcases htot with ⟨l', hl'⟩ | hz
      · rw [hins] at hl'; cases hl'
      · exact hzero hz _ rfl (by simp)
    | ok l' =>
      obtain ⟨hperm, hsame⟩ := AnyList.insert_spec cfg h.sinv (by rw [h.nsEq]; exact hnsP) hap hout (by omega) hins
      rw [h.nsEq] at hperm
      refine ⟨⟨hsame.ns.trans h.nsEq, hsame.obj.trans h.objEq, hsame.sinv, ?_, ?_, ?_⟩, by simp⟩
      · show CellInv ns l'.cells a.used live
        rw [h1]
        exact h.cell.insertCells hbu.1 (blockNodes_pairwise _ _ _)
          (CellInv.blockNodes_in (Nat.le_refl _) (Nat.le_refl _)) hperm
      · show l'.cells.length + _ = blockCells ns a.used
        rw [h1, blockCells_cons, hperm.length_eq, List.length_append, blockNodes_length, ← h.full]
        omega
      · show (l'.cells ++ liveCells ns live).Perm (blockCellList ns a.used)
        rw [h1, blockCellList_cons]
        refine (List.Perm.append_right _ hperm).trans ?_
        rw [List.append_assoc]
        exact List.Perm.append_left _ h.conserve

/-! ### taking from / giving to the list, at pool level -/

theorem PInvG.alloc {ns : Nat} {o : Option Nat} {p : Pool} {live : List (Nat × Nat)} (h : PInvG ns o p live)
    {l : AnyList} {a bytes : Nat} (hb : bytes ≤ ns) (ha : p.list.allocate = some (l, a)) :
    PInvG ns o { p with list := l } ((a, bytes) :: live) := by
  obtain ⟨B, h1, h2, hsame⟩ := AnyList.allocate_spec h.sinv ha
  have hc : cellsOf ns bytes = 1 := by simp [cellsOf, hb]
  refine ⟨hsame.ns.trans h.nsEq, hsame.obj.trans h.objEq, hsame.sinv, ?_, ?_, ?_⟩
  · exact h.cell.take (A := []) (B := B) (f := a) (bytes := bytes) (by rw [hc, blockNodes_one, h1]; rfl) (by rw [h2]; rfl)
  · show l.cells.length + _ = _
    rw [liveCells_length_cons, hc, h2, ← h.full, h1]
    simp only [List.length_cons]; omega
  · show (l.cells ++ liveCells ns ((a, bytes) :: live)).Perm _
    refine List.Perm.trans ?_ h.conserve
    rw [liveCells_cons, hc, blockNodes_one, h2, h1]
    exact (perm_take [] B [a] (liveCells ns live))

theorem PInvG.allocBytes {ns : Nat} {o : Option Nat} {p : Pool} {live : List (Nat × Nat)} (h : PInvG ns o p live)
    {l : AnyList} {a bytes : Nat} (ha : p.list.allocateBytes bytes = some (l, some a)) :
    PInvG ns o { p with list := l } ((a, bytes) :: live) := by
  obtain ⟨A, B, h1, h2, hsame⟩ := AnyList.allocateBytes_spec h.sinv (by rw [h.nsEq]; exact h.cell.nsPos) ha
  rw [h.nsEq] at h1
  refine ⟨hsame.ns.trans h.nsEq, hsame.obj.trans h.objEq, hsame.sinv, h.cell.take h1 h2, ?_, ?_⟩
  · show l.cells.length + _ = _
    rw [liveCells_length_cons, h2, ← h.full, h1]
    simp only [List.length_append, blockNodes_length]; omega
  · show (l.cells ++ liveCells ns ((a, bytes) :: live)).Perm _
    refine List.Perm.trans ?_ h.conserve
    rw [liveCells_cons, h2, h1]
    exact perm_take A B _ (liveCells ns live)

/-- postcondition of an allocation function: a returned address is entered in the ledger with `bytes` -/
def PostG (ns : Nat) (o : Option Nat) (live : List (Nat × Nat)) (bytes : Nat) (r : PRes Pool) : Prop :=
  match r.out with
  | .ok a => PInvG ns o r.st ((a, bytes) :: live)
  | _ => PInvG ns o r.st live

theorem PostG.of_not_ok {ns : Nat} {o : Option Nat} {live : List (Nat × Nat)} {bytes : Nat} {r : PRes Pool}
    (h : PInvG ns o r.st live) (hn : ∀ a, r.out ≠ .ok a) : PostG ns o live bytes r := by
  unfold PostG
  split
  · rename_i a ha; exact absurd ha (hn a)
  · exact h

theorem PostG.ledger {ns : Nat} {o : Option Nat} {live : List (Nat × Nat)} {bytes : Nat} {r : PRes Pool}
    (h : PostG ns o live bytes r) :
    PInvG ns o r.st (match r.out with | .ok a => (a, bytes) :: live | _ => live) := by
  unfold PostG at h
  cases hr : r.out <;> simp only [hr] at h ⊢ <;> exact h

/-! ### allocate_node / try_allocate_node -/

theorem Pool.allocateNode_postG {ns : Nat} {o : Option Nat} {p : Pool} {live : List (Nat × Nat)} (cfg : Cfg)
    (env : List (Option Nat)) (h : PInvG ns o p live) (hb : EnvOkG o (p.allocateNode cfg env).st.arena.used) :
    PostG ns o live ns (p.allocateNode cfg env) := by
  unfold Pool.allocateNode at hb ⊢
  simp only at hb ⊢
  by_cases hemp : p.list.empty = true
  · simp only [hemp, if_true] at hb ⊢
    have hblk := Pool.allocateBlock_invG (ns := ns) (o := o) (live := live) cfg env h
    generalize p.allocateBlock cfg env = r at hb hblk ⊢
    split
    · rename_i hdone
      simp only [hdone] at hb
      split
      · rename_i hnone
        simp only [hnone] at hb
        exact PostG.of_not_ok (hblk hb).1 (by simp)
      · rename_i l a hal
        simp only [hal] at hb
        exact (hblk hb).1.alloc (Nat.le_refl _) hal
    · rename_i hnd
      split at hb
      · rename_i hdone; exact absurd hdone hnd
      · exact PostG.of_not_ok (hblk hb).1 (hblk hb).2
  · simp only [hemp] at hb ⊢
    simp only [Bool.false_eq_true, if_false] at hb ⊢
    split
    · exact PostG.of_not_ok h (by simp)
    · rename_i l a hal
      exact h.alloc (Nat.le_refl _) hal

theorem Pool.tryAllocateNode_postG {ns : Nat} {o : Option Nat} {p : Pool} {live : List (Nat × Nat)}
    (h : PInvG ns o p live) : PostG ns o live ns p.tryAllocateNode := by
  unfold Pool.tryAllocateNode
  split
  · exact PostG.of_not_ok h (by simp)
  · split
    · exact PostG.of_not_ok h (by simp)
    · rename_i l a hal
      exact h.alloc (Nat.le_refl _) hal

/-! ### arrays -/

theorem Pool.allocateArrayBytes_postG {ns : Nat} {o : Option Nat} {p : Pool} {live : List (Nat × Nat)} (cfg : Cfg)
    (bytes : Nat) (env : List (Option Nat)) (h : PInvG ns o p live)
    (hb : EnvOkG o (p.allocateArrayBytes cfg bytes env).st.arena.used) :
    PostG ns o live bytes (p.allocateArrayBytes cfg bytes env) := by
  unfold Pool.allocateArrayBytes at hb ⊢
  simp only at hb ⊢
  have hf : ∀ l a, (if p.list.empty = true then some (p.list, none) else p.list.allocateBytes bytes) = some (l, some a) →
      p.list.allocateBytes bytes = some (l, some a) := by
    intro l a
    split
    · simp
    · exact id
  generalize (if p.list.empty = true then some (p.list, none) else p.list.allocateBytes bytes) = first at hb hf ⊢
  split
  · exact PostG.of_not_ok h (by simp)
  · rename_i l a
    exact h.allocBytes (hf l a rfl)
  · simp only at hb
    have hblk := Pool.allocateBlock_invG (ns := ns) (o := o) (live := live) cfg env h
    generalize p.allocateBlock cfg env = r at hb hblk ⊢
    split
    · rename_i hdone
      simp only [hdone] at hb
      split
      · rename_i hnone
        simp only [hnone] at hb
        exact PostG.of_not_ok (hblk hb).1 (by simp)
      · rename_i l a hal
        simp only [hal] at hb
        exact (hblk hb).1.allocBytes hal
      · rename_i hal
        simp only [hal] at hb
        exact PostG.of_not_ok (hblk hb).1 (by simp)
    · rename_i hnd
      split at hb
      · rename_i hdone; exact absurd hdone hnd
      · exact PostG.of_not_ok (hblk hb).1 (hblk hb).2

theorem PInvG.nodeSize {ns : Nat} {o : Option Nat} {p : Pool} {live : List (Nat × Nat)} (h : PInvG ns o p live) :
    p.nodeSize = ns := h.nsEq

theorem Pool.allocateArray_postG {ns : Nat} {o : Option Nat} {p : Pool} {live : List (Nat × Nat)} (cfg : Cfg)
    (n : Nat) (env : List (Option Nat)) (h : PInvG ns o p live)
    (hb : EnvOkG o (p.allocateArray cfg n env).st.arena.used) :
    PostG ns o live (mul64 n ns) (p.allocateArray cfg n env) := by
  have hns : p.nodeSize = ns := h.nodeSize
  unfold Pool.allocateArray at hb ⊢
  simp only [hns] at hb ⊢
  generalize (if p.arrays = true then p.nextCapacity else 0) = supported at hb ⊢
  by_cases hle : mul64 n ns > supported
  · rw [if_pos hle] at hb ⊢
    exact PostG.of_not_ok h (by simp)
  · rw [if_neg hle] at hb ⊢
    exact Pool.allocateArrayBytes_postG cfg _ env h hb

theorem Pool.tryAllocateArrayBytes_postG {ns : Nat} {o : Option Nat} {p : Pool} {live : List (Nat × Nat)}
    (bytes : Nat) (h : PInvG ns o p live) : PostG ns o live bytes (p.tryAllocateArrayBytes bytes) := by
  unfold Pool.tryAllocateArrayBytes
  split
  · exact PostG.of_not_ok h (by simp)
  · split
    · exact PostG.of_not_ok h (by simp)
    · rename_i l a hal
      exact h.allocBytes hal
    · exact PostG.of_not_ok h (by simp)

/-- cells that come back: `cells' ~ R ++ cells` and `L ~ R ++ L'` give `cells' ++ L' ~ cells ++ L` -/
theorem give_perm {cells cells' R L L' : List Nat} (h1 : cells'.Perm (R ++ cells)) (h2 : L.Perm (R ++ L')) :
    (cells' ++ L').Perm (cells ++ L) := by
  refine (List.Perm.append_right _ h1).trans ?_
  refine List.Perm.trans ?_ (List.Perm.append_left _ h2.symm)
  rw [List.append_assoc]
  exact List.perm_append_comm_assoc R cells L'

/-! ### releases -/

/-- facts about the `i`-th live allocation needed by the list's release functions -/
theorem PInvG.liveFacts {ns : Nat} {o : Option Nat} {p : Pool} {live : List (Nat × Nat)} (h : PInvG ns o p live)
    (ho : ObjOut o p.arena.used) {i a b : Nat} (hi : live[i]? = some (a, b)) :
    p.list.CellsApart a (cellsOf ns b) ∧ AnyList.OutObj p.list.obj a (cellsOf ns b * ns) ∧ 0 < a := by
  have hmem : (a, b) ∈ live := List.mem_of_getElem? hi
  obtain ⟨blk, hblk, hin⟩ := h.cell.liveIn (a, b) hmem
  refine ⟨?_, ?_, ?_⟩
  · intro y hy
    rw [h.nsEq]
    exact h.cell.live_apart hmem y hy
  · rw [h.objEq]; exact outObj_of_inBlk ho hblk hin
  · unfold InBlk at hin; rw [implOff_eq] at hin; simp only at hin; omega

theorem Pool.deallocateNode_invG {ns : Nat} {o : Option Nat} {p : Pool} {live : List (Nat × Nat)} (cfg : Cfg)
    (h : PInvG ns o p live) (ho : ObjOut o p.arena.used) {i a b : Nat} (hi : live[i]? = some (a, b)) (hb : b ≤ ns) :
    PInvG ns o (p.deallocateNode cfg a).st (live.eraseIdx i) ∧ (p.deallocateNode cfg a).out = .done := by
  have hc : cellsOf ns b = 1 := by simp [cellsOf, hb]
  obtain ⟨hap, hout, ha0⟩ := h.liveFacts ho hi
  rw [hc] at hap hout
  obtain ⟨l', hd, hperm, hsame⟩ := AnyList.deallocate_spec cfg h.sinv hap (by rw [h.nsEq]; simpa using hout) ha0
  unfold Pool.deallocateNode
  rw [hd]
  simp only [liftList]
  refine ⟨⟨hsame.ns.trans h.nsEq, hsame.obj.trans h.objEq, hsame.sinv, ?_, ?_, ?_⟩, trivial⟩
  · exact h.cell.give hi (by rw [hc, blockNodes_one]; exact hperm)
  · show l'.cells.length + _ = _
    have := liveCells_length_erase (ns := ns) hi
    rw [hperm.length_eq, ← h.full, this, hc]
    simp only [List.length_cons]; omega
  · show (l'.cells ++ liveCells ns (live.eraseIdx i)).Perm _
    refine List.Perm.trans ?_ h.conserve
    have he := liveCells_erase (ns := ns) hi
    rw [hc, blockNodes_one] at he
    exact give_perm hperm he

theorem Pool.deallocateBytes_invG {ns : Nat} {o : Option Nat} {p : Pool} {live : List (Nat × Nat)} (cfg : Cfg)
    (h : PInvG ns o p live) (ho : ObjOut o p.arena.used) {i a b : Nat} (hi : live[i]? = some (a, b)) (hb : ns < b) :
    PInvG ns o (p.deallocateBytes cfg a b).st (live.eraseIdx i) ∧ (p.deallocateBytes cfg a b).out = .done := by
  have hc : cellsOf ns b = ceilNodes b ns := by simp [cellsOf]; omega
  obtain ⟨hap, hout, ha0⟩ := h.liveFacts ho hi
  rw [hc] at hap hout
  obtain ⟨l', hd, hperm, hsame⟩ := AnyList.deallocateBytes_spec cfg (n := b) h.sinv (by rw [h.nsEq]; exact h.cell.nsPos)
    (by rw [h.nsEq]; exact hb) (by rw [h.nsEq]; exact hap) (by rw [h.nsEq]; exact hout) ha0
  unfold Pool.deallocateBytes
  rw [hd]
  simp only [liftList]
  refine ⟨⟨hsame.ns.trans h.nsEq, hsame.obj.trans h.objEq, hsame.sinv, ?_, ?_, ?_⟩, trivial⟩
  · rw [h.nsEq] at hperm
    exact h.cell.give hi (by rw [hc]; exact hperm)
  · show l'.cells.length + _ = _
    rw [h.nsEq] at hperm
    have := liveCells_length_erase (ns := ns) hi
    rw [hperm.length_eq, ← h.full, this, hc]
    simp only [List.length_append, blockNodes_length]; omega
  · show (l'.cells ++ liveCells ns (live.eraseIdx i)).Perm _
    refine List.Perm.trans ?_ h.conserve
    rw [h.nsEq] at hperm
    have he := liveCells_erase (ns := ns) hi
    rw [hc] at he
    exact give_perm hperm he

/-! ### one step, a whole history -/

theorem GPool.step_invG {ns : Nat} {o : Option Nat} (cfg : Cfg) (e : EnvS) (g : GPool) (k : Nat) (op : POp)
    (h : PInvG ns o g.p g.live) (hf : op.Fits ns) (hb : EnvOkG o (g.step cfg e k op).1.p.arena.used) :
    PInvG ns o (g.step cfg e k op).1.p (g.step cfg e k op).1.live := by
  have hns := h.nodeSize
  have ho : ObjOut o g.p.arena.used := hb.2.suffix (GPool.step_ext cfg e g k op).suffix
  unfold GPool.step at hb ⊢
  cases op with
  | allocNode =>
    simp only [GPool.exec, GPool.ledger, hns] at hb ⊢
    exact (Pool.allocateNode_postG cfg _ h hb).ledger
  | tryAllocNode =>
    simp only [GPool.exec, GPool.ledger, hns] at hb ⊢
    exact (Pool.tryAllocateNode_postG h).ledger
  | allocArray n =>
    simp only [GPool.exec, GPool.ledger, hns] at hb ⊢
    have := (Pool.allocateArray_postG cfg n _ h hb).ledger
    rwa [mul64_eq_of_lt hf] at this
  | tryAllocArray n =>
    simp only [GPool.exec, GPool.ledger, hns] at hb ⊢
    exact (Pool.tryAllocateArrayBytes_postG _ h).ledger
  | dealloc i =>
    simp only [GPool.exec, GPool.ledger, hns] at hb ⊢
    cases hi : g.live[i]? with
    | none =>
      simp only
      rw [List.eraseIdx_of_length_le (by simpa using hi)]
      exact h
    | some ab =>
      obtain ⟨a, b⟩ := ab
      simp only
      by_cases hgt : b > ns
      · rw [if_pos hgt]
        exact (Pool.deallocateBytes_invG cfg h ho hi hgt).1
      · rw [if_neg hgt]
        exact (Pool.deallocateNode_invG cfg h ho hi (by omega)).1

/-- **Preservation over a history**, for a pool over either intrusive list. The environment's part is the
hypothesis on the *final* used-block list (which contains every block the pool ever held). -/
theorem GPool.run_invG {ns : Nat} {o : Option Nat} (cfg : Cfg) (e : EnvS) (ops : List POp) :
    ∀ (g : GPool) (k : Nat), PInvG ns o g.p g.live → (∀ op ∈ ops, op.Fits ns) →
      EnvOkG o (g.run cfg e k ops).1.p.arena.used →
      PInvG ns o (g.run cfg e k ops).1.p (g.run cfg e k ops).1.live := by
  induction ops with
  | nil => intro g k h _ _; exact h
  | cons op ops ih =>
    intro g k h hf hb
    have hstep := GPool.step_invG cfg e g k op h (hf op (by simp))
      (hb.suffix (GPool.run_used_suffix cfg e ops _ _))
    exact ih _ _ hstep (fun o ho => hf o (by simp [ho])) hb

/-! ### construction -/

theorem OrdList.new_inv (nodeSize B : Nat) (hB : 0 < B) : (OrdList.new nodeSize B (B + 8)).Inv := by
  have hge := intrusiveNodeSize_ge nodeSize
  refine ⟨List.Pairwise.nil, ⟨rfl, hB⟩, ⟨by simp [OrdList.new], by simp [OrdList.new]⟩, ?_, hge.2, ?_, rfl, ?_⟩
  · intro a ha; simp [OrdList.new] at ha
  · intro a ha; simp [OrdList.new] at ha
  · refine ⟨0, Nat.le_refl _, ?_, ?_⟩
    · simp [OrdList.posOf, OrdList.new]
    · simp [OrdList.posOf, OrdList.new]

/-- a fresh, empty list satisfies the invariant on an arena without blocks -/
theorem PInvG.fresh (src : Src) (l : AnyList) (arrays : Bool) (hS : l.SInv) (hc : l.cells = []) (hpos : 0 < l.nodeSize) :
    PInvG l.nodeSize l.obj { arena := { src := src, isCached := false }, list := l, arrays := arrays } [] :=
  ⟨rfl, rfl, hS,
    { nsPos := hpos
      blocks := ⟨by simp, List.Pairwise.nil⟩
      apart := by simp [hc]
      freeIn := by intro x hx; simp [hc] at hx
      liveIn := by intro x hx; cases hx },
    by simp [hc, blockCells], by simp [hc, blockCellList]⟩

/-- the constructor establishes the invariant (whatever its outcome) -/
theorem Pool.create_invG (cfg : Cfg) (src : Src) (l : AnyList) (arrays : Bool) (env : List (Option Nat))
    (hS : l.SInv) (hc : l.cells = []) (hpos : 0 < l.nodeSize)
    (hb : EnvOkG l.obj (Pool.create cfg src l arrays env).st.arena.used) :
    PInvG l.nodeSize l.obj (Pool.create cfg src l arrays env).st [] := by
  unfold Pool.create at hb ⊢
  exact (Pool.allocateBlock_invG cfg env (PInvG.fresh src l arrays hS hc hpos) hb).1

end MemVerif.Model
