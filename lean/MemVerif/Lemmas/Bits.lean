/-
Bridge lemmas between `BitVec 64` mask arithmetic and `Nat` arithmetic (no `bv_decide`).
-/
namespace MemVerif.Bits

theorem two_pow_lt {k : Nat} (hk : k < 64) : 2 ^ k < 2 ^ 64 :=
  Nat.pow_lt_pow_right (by decide) hk

theorem two_pow_pos (k : Nat) : 0 < 2 ^ k := Nat.two_pow_pos k

/-- `a` is the 64-bit power of two `2^k`. -/
def IsPow (a : BitVec 64) (k : Nat) : Prop := k < 64 ∧ a.toNat = 2 ^ k

theorem IsPow.lt {a : BitVec 64} {k : Nat} (h : IsPow a k) : k < 64 := h.1
theorem IsPow.toNat {a : BitVec 64} {k : Nat} (h : IsPow a k) : a.toNat = 2 ^ k := h.2

theorem isPow_shift (k : Nat) (hk : k < 64) : IsPow (1#64 <<< k) k := by
  refine ⟨hk, ?_⟩
  rw [BitVec.toNat_shiftLeft]
  simp only [BitVec.toNat_ofNat]
  have := two_pow_lt hk
  rw [Nat.shiftLeft_eq, Nat.mod_eq_of_lt (by decide : 1 < 2 ^ 64), Nat.one_mul, Nat.mod_eq_of_lt this]

theorem toNat_sub_one {a : BitVec 64} {k : Nat} (h : IsPow a k) : (a - 1#64).toNat = 2 ^ k - 1 := by
  have hp := two_pow_pos k
  have hl := two_pow_lt h.1
  rw [BitVec.toNat_sub, h.2]
  simp only [BitVec.toNat_ofNat]
  omega

/-- `x & (a-1) = x mod 2^k` -/
theorem toNat_and_mask {a : BitVec 64} {k : Nat} (h : IsPow a k) (x : BitVec 64) :
    (x &&& (a - 1#64)).toNat = x.toNat % 2 ^ k := by
  rw [BitVec.toNat_and, toNat_sub_one h, Nat.and_two_pow_sub_one_eq_mod]

/-- `x & ~(a-1) = x - x mod 2^k` -/
theorem toNat_and_not_mask {a : BitVec 64} {k : Nat} (h : IsPow a k) (x : BitVec 64) :
    (x &&& ~~~(a - 1#64)).toNat = x.toNat - x.toNat % 2 ^ k := by
  have h3 := toNat_and_mask h x
  generalize (a - 1#64) = m at *
  have hdisj : (x &&& ~~~m) &&& (x &&& m) = 0#64 := by
    ext i hi
    simp only [BitVec.getElem_and, BitVec.getElem_not, BitVec.getElem_zero]
    cases x[i] <;> cases m[i] <;> rfl
  have hsplit : x = (x &&& ~~~m) + (x &&& m) := by
    rw [BitVec.add_eq_or_of_and_eq_zero _ _ hdisj]
    ext i hi
    simp only [BitVec.getElem_and, BitVec.getElem_not, BitVec.getElem_or]
    cases x[i] <;> cases m[i] <;> rfl
  have h2 := BitVec.toNat_add_of_and_eq_zero hdisj
  have h4 : x.toNat = (x &&& ~~~m).toNat + (x &&& m).toNat := by
    rw [← h2, ← hsplit]
  have := Nat.mod_le x.toNat (2 ^ k)
  omega

end MemVerif.Bits
