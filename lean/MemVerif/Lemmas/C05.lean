import MemVerif.Model.ArenaRun
/-! Proofs behind `MemVerif.Props.C05` (statements there). -/
namespace MemVerif.Model

theorem lifo_balanced (cfg : Cfg) (e : EnvS) (src : Src) (hsrc : src.isUpstream = true) (cached : Bool)
    (ops : List AOp) :
    let a0 : Arena := { src := src, isCached := cached }
    let r := a0.runOps cfg e 0 ops
    ledger [] (r.2.2 ++ (r.1.destroy cfg).2.1) = some [] := by
  sorry

theorem acquisition_order (cfg : Cfg) (e : EnvS) (src : Src) (hsrc : src.isUpstream = true) (cached : Bool)
    (ops : List AOp) :
    let a0 : Arena := { src := src, isCached := cached }
    let r := a0.runOps cfg e 0 ops
    ledger [] r.2.2 = some (r.1.cached.reverse ++ r.1.used) := by
  sorry

theorem cache_first (a : Arena) (c : Blk) (cs : List Blk) (env : List (Option Nat))
    (hc : a.isCached = true) (hcs : a.cached = c :: cs) :
    ∃ a', a.allocateBlock env = .ok a' c.usable [] env ∧ a'.used = c :: a.used ∧ a'.cached = cs ∧ a'.src = a.src := by
  sorry

theorem failure_keeps_blocks (a : Arena) (env : List (Option Nat)) (a' : Arena) (ex : Exn) (ev : List UpEv)
    (env' : List (Option Nat)) (h : a.allocateBlock env = .fail a' ex ev env') :
    a'.used = a.used ∧ a'.cached = a.cached ∧ a'.src = a.src ∧ newBlocks ev = [] := by
  sorry

theorem moved_from_inert (cfg : Cfg) (a : Arena) : (a.movedFrom.destroy cfg).2.1 = [] := by
  sorry

end MemVerif.Model
