import MemVerif.Model.ArenaRun
/-! Proofs behind `MemVerif.Props.C05` (statements there). -/
namespace MemVerif.Model

/-! ### ledger -/

theorem ledger_append (st : List Blk) (e1 e2 : List UpEv) :
    ledger st (e1 ++ e2) = (ledger st e1).bind (fun st' => ledger st' e2) := by
  induction e1 generalizing st with
  | nil => simp [ledger]
  | cons ev evs ih =>
    cases ev with
    | alloc s al r =>
      cases r with
      | none => simp only [List.cons_append, ledger]; exact ih st
      | some a => simp only [List.cons_append, ledger]; exact ih _
    | dealloc a s al =>
      cases st with
      | nil => simp [ledger]
      | cons b st =>
        simp only [List.cons_append, ledger]
        split
        · exact ih st
        · simp

theorem ledger_append_of_eq {st st' : List Blk} {e1 : List UpEv} (h : ledger st e1 = some st')
    (e2 : List UpEv) : ledger st (e1 ++ e2) = ledger st' e2 := by
  rw [ledger_append, h]; rfl

/-! ### sources -/

theorem Src.deallocateBlock_upstream (cfg : Cfg) (s : Src) (b : Blk) (hs : s.isUpstream = true) :
    (s.deallocateBlock cfg b).1.isUpstream = true ∧
      (s.deallocateBlock cfg b).2.1 = [.dealloc b.base b.size maxAlign] := by
  cases s with
  | growing n d bs => simp [Src.deallocateBlock, Src.isUpstream]
  | fixed bs => simp [Src.deallocateBlock, Src.isUpstream]
  | static_ c e bs => simp [Src.isUpstream] at hs

theorem releaseAll_upstream (cfg : Cfg) (s : Src) (bs rest : List Blk) (hs : s.isUpstream = true) :
    (releaseAll cfg s bs).1.isUpstream = true ∧
      ledger (bs ++ rest) (releaseAll cfg s bs).2.1 = some rest := by
  induction bs generalizing s with
  | nil => simp [releaseAll, ledger, hs]
  | cons b bs ih =>
    obtain ⟨h1, h2⟩ := Src.deallocateBlock_upstream cfg s b hs
    obtain ⟨h3, h4⟩ := ih (s.deallocateBlock cfg b).1 h1
    simp only [releaseAll]
    refine ⟨h3, ?_⟩
    rw [h2]
    simp only [List.cons_append, List.nil_append, ledger]
    simp [h4]

/-- what the source does on an upstream allocation request -/
theorem Src.allocateBlock_fail (s : Src) (env : List (Option Nat)) (s' : Src) (ex : Exn) (ev : List UpEv)
    (env' : List (Option Nat)) (h : s.allocateBlock env = .fail s' ex ev env') :
    s' = s ∧ newBlocks ev = [] ∧ ∀ st, ledger st ev = some st := by
  cases s with
  | growing n d bs =>
    match env, h with
    | [], h => simp [Src.allocateBlock] at h
    | none :: _, h =>
      simp only [Src.allocateBlock, SrcRes.fail.injEq] at h
      obtain ⟨h1, _, h3, _⟩ := h
      subst h1 h3
      exact ⟨rfl, rfl, fun _ => rfl⟩
    | some _ :: _, h => simp [Src.allocateBlock] at h
  | fixed bs =>
    by_cases hb : bs = 0
    · simp only [Src.allocateBlock, hb, ne_eq, not_true_eq_false, if_false, SrcRes.fail.injEq] at h
      obtain ⟨h1, _, h3, _⟩ := h
      subst h1 h3
      exact ⟨by rw [hb], rfl, fun _ => rfl⟩
    · match env, h with
      | [], h => simp [Src.allocateBlock, hb] at h
      | none :: _, h =>
        simp only [Src.allocateBlock, ne_eq, hb, not_false_eq_true, if_true, SrcRes.fail.injEq] at h
        obtain ⟨h1, _, h3, _⟩ := h
        subst h1 h3
        exact ⟨rfl, rfl, fun _ => rfl⟩
      | some _ :: _, h => simp [Src.allocateBlock, hb] at h
  | static_ c e bs =>
    simp only [Src.allocateBlock] at h
    split at h
    · simp only [SrcRes.fail.injEq] at h
      obtain ⟨h1, _, h3, _⟩ := h
      subst h1 h3
      exact ⟨rfl, rfl, fun _ => rfl⟩
    · simp at h

theorem Src.allocateBlock_ok (s : Src) (env : List (Option Nat)) (s' : Src) (b : Blk) (ev : List UpEv)
    (env' : List (Option Nat)) (hs : s.isUpstream = true) (h : s.allocateBlock env = .ok s' b ev env') :
    s'.isUpstream = true ∧ ∀ st, ledger st ev = some (b :: st) := by
  cases s with
  | growing n d bs =>
    match env, h with
    | [], h => simp [Src.allocateBlock] at h
    | none :: _, h => simp [Src.allocateBlock] at h
    | some _ :: _, h =>
      simp only [Src.allocateBlock, SrcRes.ok.injEq] at h
      obtain ⟨h1, h2, h3, _⟩ := h
      subst h1 h2 h3
      exact ⟨rfl, fun _ => rfl⟩
  | fixed bs =>
    by_cases hb : bs = 0
    · simp [Src.allocateBlock, hb] at h
    · match env, h with
      | [], h => simp [Src.allocateBlock, hb] at h
      | none :: _, h => simp [Src.allocateBlock, hb] at h
      | some _ :: _, h =>
        simp only [Src.allocateBlock, ne_eq, hb, not_false_eq_true, if_true, SrcRes.ok.injEq] at h
        obtain ⟨h1, h2, h3, _⟩ := h
        subst h1 h2 h3
        exact ⟨rfl, fun _ => rfl⟩
  | static_ c e bs => simp [Src.isUpstream] at hs

/-! ### arena invariant -/

/-- upstream source; an uncached arena never has anything in its cache -/
def Arena.UpInv (a : Arena) : Prop :=
  a.src.isUpstream = true ∧ (a.isCached = false → a.cached = [])

/-- a step from `a` to `a'` emitting `ev` keeps the invariant and the ledger in sync -/
def Arena.Sync (a a' : Arena) (ev : List UpEv) : Prop :=
  a'.UpInv ∧ ledger (a.cached.reverse ++ a.used) ev = some (a'.cached.reverse ++ a'.used)

theorem Arena.Sync.refl (a : Arena) (h : a.UpInv) : a.Sync a [] := ⟨h, rfl⟩

/-- the source is only asked when the cache is empty -/
theorem Arena.allocateBlock_src (a : Arena) (h : a.UpInv)
    (hne : ∀ c cs, a.isCached = true → a.cached = c :: cs → False) : a.cached = [] := by
  cases hic : a.isCached with
  | false => exact h.2 hic
  | true =>
    cases hcc : a.cached with
    | nil => rfl
    | cons c cs => exact absurd hcc (hne c cs hic)

theorem Arena.allocateBlock_ok_inv (a : Arena) (env : List (Option Nat)) (h : a.UpInv)
    (a' : Arena) (x : Blk) (ev : List UpEv) (env' : List (Option Nat))
    (heq : a.allocateBlock env = .ok a' x ev env') : a.Sync a' ev := by
  obtain ⟨hs, hc⟩ := h
  unfold Arena.allocateBlock at heq
  split at heq
  · rename_i c cs hic hcc
    simp only [ArenaRes.ok.injEq] at heq
    obtain ⟨h1, _, h3, _⟩ := heq
    subst h1 h3
    refine ⟨⟨hs, fun h => by simp [hic] at h⟩, ?_⟩
    simp [hcc, ledger]
  · rename_i hne
    have hnil := Arena.allocateBlock_src a ⟨hs, hc⟩ hne
    split at heq
    · simp at heq
    · simp at heq
    · rename_i s b ev0 env0 hsrc
      simp only [ArenaRes.ok.injEq] at heq
      obtain ⟨h1, _, h3, _⟩ := heq
      subst h1 h3
      obtain ⟨h5, h6⟩ := Src.allocateBlock_ok a.src env s b ev0 env0 hs hsrc
      refine ⟨⟨h5, hc⟩, ?_⟩
      simp only [hnil, List.reverse_nil, List.nil_append]
      exact h6 _

theorem Arena.allocateBlock_fail_eq (a : Arena) (env : List (Option Nat))
    (a' : Arena) (ex : Exn) (ev : List UpEv) (env' : List (Option Nat))
    (heq : a.allocateBlock env = .fail a' ex ev env') :
    a' = a ∧ newBlocks ev = [] ∧ ∀ st, ledger st ev = some st := by
  unfold Arena.allocateBlock at heq
  split at heq
  · simp at heq
  · split at heq
    · simp at heq
    · rename_i s e0 ev0 env0 hsrc
      simp only [ArenaRes.fail.injEq] at heq
      obtain ⟨h1, _, h3, _⟩ := heq
      obtain ⟨h5, h6, h7⟩ := Src.allocateBlock_fail a.src env s e0 ev0 env0 hsrc
      subst h1 h3 h5
      exact ⟨rfl, h6, h7⟩
    · simp at heq

theorem Arena.shrinkToFit_inv (cfg : Cfg) (a : Arena) (h : a.UpInv) :
    (a.shrinkToFit cfg).1.UpInv ∧ (a.shrinkToFit cfg).1.cached = [] ∧
      (a.shrinkToFit cfg).1.used = a.used ∧
      ledger (a.cached.reverse ++ a.used) (a.shrinkToFit cfg).2.1 = some a.used := by
  obtain ⟨hs, _⟩ := h
  obtain ⟨h1, h2⟩ := releaseAll_upstream cfg a.src a.cached.reverse a.used hs
  exact ⟨⟨h1, fun _ => rfl⟩, rfl, rfl, h2⟩

theorem Arena.deallocateBlock_inv (cfg : Cfg) (a : Arena) (h : a.UpInv)
    (a' : Arena) (ev : List UpEv) (chk : Option String)
    (heq : a.deallocateBlock cfg = some (a', ev, chk)) : a.Sync a' ev := by
  obtain ⟨hs, hc⟩ := h
  unfold Arena.deallocateBlock at heq
  split at heq
  · simp at heq
  · rename_i b us hu
    cases hic : a.isCached with
    | true =>
      simp only [hic, if_true, Option.some.injEq, Prod.mk.injEq] at heq
      obtain ⟨h1, h2, _⟩ := heq
      subst h1 h2
      refine ⟨⟨hs, fun h => by simp at h⟩, ?_⟩
      simp [hu, ledger]
    | false =>
      obtain ⟨h1, h2⟩ := Src.deallocateBlock_upstream cfg a.src b hs
      have hnil := hc hic
      simp only [hic, Bool.false_eq_true, if_false, Option.some.injEq, Prod.mk.injEq] at heq
      obtain ⟨h3, h4, _⟩ := heq
      subst h3 h4
      refine ⟨⟨h1, fun _ => hnil⟩, ?_⟩
      rw [h2]
      simp [hnil, hu, ledger]

theorem Arena.stepOp_inv (cfg : Cfg) (e : EnvS) (a : Arena) (k : Nat) (op : AOp) (h : a.UpInv) :
    a.Sync (a.stepOp cfg e k op).1 (a.stepOp cfg e k op).2.2 := by
  cases op with
  | alloc =>
    simp only [Arena.stepOp]
    split
    · rename_i a' x ev env' heq
      exact Arena.allocateBlock_ok_inv a _ h a' x ev env' heq
    · rename_i a' ex ev env' heq
      obtain ⟨h1, _, h3⟩ := Arena.allocateBlock_fail_eq a _ a' ex ev env' heq
      subst h1
      exact ⟨h, h3 _⟩
    · exact Arena.Sync.refl a h
  | dealloc =>
    simp only [Arena.stepOp]
    split
    · rename_i a' ev chk heq
      exact Arena.deallocateBlock_inv cfg a h a' ev chk heq
    · exact Arena.Sync.refl a h
  | shrink =>
    obtain ⟨h1, h2, h3, h4⟩ := Arena.shrinkToFit_inv cfg a h
    simp only [Arena.stepOp]
    refine ⟨h1, ?_⟩
    rw [h4, h2, h3]; rfl

theorem Arena.runOps_inv (cfg : Cfg) (e : EnvS) (a : Arena) (k : Nat) (ops : List AOp) (h : a.UpInv) :
    (a.runOps cfg e k ops).1.UpInv ∧
      ledger (a.cached.reverse ++ a.used) (a.runOps cfg e k ops).2.2 =
        some ((a.runOps cfg e k ops).1.cached.reverse ++ (a.runOps cfg e k ops).1.used) := by
  induction ops generalizing a k with
  | nil => exact ⟨h, by simp [Arena.runOps, ledger]⟩
  | cons op ops ih =>
    obtain ⟨h1, h2⟩ := Arena.stepOp_inv cfg e a k op h
    obtain ⟨h3, h4⟩ := ih (a.stepOp cfg e k op).1 (a.stepOp cfg e k op).2.1 h1
    simp only [Arena.runOps]
    refine ⟨h3, ?_⟩
    rw [ledger_append_of_eq h2]
    exact h4

theorem Arena.destroy_ledger (cfg : Cfg) (a : Arena) (h : a.UpInv) :
    ledger (a.cached.reverse ++ a.used) (a.destroy cfg).2.1 = some [] := by
  obtain ⟨h1, _, h3, h4⟩ := Arena.shrinkToFit_inv cfg a h
  obtain ⟨_, h6⟩ := releaseAll_upstream cfg (a.shrinkToFit cfg).1.src (a.shrinkToFit cfg).1.used [] h1.1
  simp only [Arena.destroy]
  rw [ledger_append_of_eq h4]
  rw [h3, List.append_nil] at h6
  rw [h3]
  exact h6

/-! ### the C05 statements -/

theorem acquisition_order (cfg : Cfg) (e : EnvS) (src : Src) (hsrc : src.isUpstream = true) (cached : Bool)
    (ops : List AOp) :
    let a0 : Arena := { src := src, isCached := cached }
    let r := a0.runOps cfg e 0 ops
    ledger [] r.2.2 = some (r.1.cached.reverse ++ r.1.used) := by
  intro a0 r
  have h0 : a0.UpInv := ⟨hsrc, fun _ => rfl⟩
  exact (Arena.runOps_inv cfg e a0 0 ops h0).2

theorem lifo_balanced (cfg : Cfg) (e : EnvS) (src : Src) (hsrc : src.isUpstream = true) (cached : Bool)
    (ops : List AOp) :
    let a0 : Arena := { src := src, isCached := cached }
    let r := a0.runOps cfg e 0 ops
    ledger [] (r.2.2 ++ (r.1.destroy cfg).2.1) = some [] := by
  intro a0 r
  have h0 : a0.UpInv := ⟨hsrc, fun _ => rfl⟩
  obtain ⟨h1, h2⟩ := Arena.runOps_inv cfg e a0 0 ops h0
  have h2' : ledger [] r.2.2 = some (r.1.cached.reverse ++ r.1.used) := h2
  rw [ledger_append_of_eq h2']
  exact Arena.destroy_ledger cfg r.1 h1

theorem cache_first (a : Arena) (c : Blk) (cs : List Blk) (env : List (Option Nat))
    (hc : a.isCached = true) (hcs : a.cached = c :: cs) :
    ∃ a', a.allocateBlock env = .ok a' c.usable [] env ∧ a'.used = c :: a.used ∧ a'.cached = cs ∧ a'.src = a.src := by
  refine ⟨{ a with used := c :: a.used, cached := cs }, ?_, rfl, rfl, rfl⟩
  unfold Arena.allocateBlock
  rw [hc, hcs]

theorem failure_keeps_blocks (a : Arena) (env : List (Option Nat)) (a' : Arena) (ex : Exn) (ev : List UpEv)
    (env' : List (Option Nat)) (h : a.allocateBlock env = .fail a' ex ev env') :
    a'.used = a.used ∧ a'.cached = a.cached ∧ a'.src = a.src ∧ newBlocks ev = [] := by
  obtain ⟨h1, h2, _⟩ := Arena.allocateBlock_fail_eq a env a' ex ev env' h
  subst h1
  exact ⟨rfl, rfl, rfl, h2⟩

theorem moved_from_inert (cfg : Cfg) (a : Arena) : (a.movedFrom.destroy cfg).2.1 = [] := by
  simp [Arena.movedFrom, Arena.destroy, Arena.shrinkToFit, releaseAll]

end MemVerif.Model
