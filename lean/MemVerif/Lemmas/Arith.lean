import MemVerif.Gen.Arith
import MemVerif.Lemmas.Bits
/-
Helper lemmas about the *generated* arithmetic (`MemVerif.Gen`), bridging to `Nat`.
-/
namespace MemVerif.Arith
open MemVerif.Gen MemVerif.Bits

/-- lowest set bit: `x & ~(x-1)`, for `x = 2^j * (2q+1)` it is `2^j`. -/
theorem lowbit_toNat (x : BitVec 64) (j q : Nat) (hx : x.toNat = 2 ^ j * (2 * q + 1)) :
    (x &&& ~~~(x - 1#64)).toNat = 2 ^ j := by
  have hxlt := x.isLt
  have hjpos := two_pow_pos j
  have hj : j < 64 := by
    apply Decidable.byContradiction; intro hc
    have : 2 ^ 64 ≤ 2 ^ j := Nat.pow_le_pow_right (by decide) (by omega)
    have : 2 ^ j ≤ 2 ^ j * (2 * q + 1) := Nat.le_mul_of_pos_right _ (by omega)
    omega
  have hx1 : (x - 1#64).toNat = 2 ^ j * (2 * q) + (2 ^ j - 1) := by
    have hx' : x.toNat = 2 ^ j * (2 * q) + 2 ^ j := by rw [hx, Nat.mul_add, Nat.mul_one]
    have h1 : (1 : Nat) % 2 ^ 64 = 1 := by decide
    have hlt' : 2 ^ j * (2 * q) + 2 ^ j < 2 ^ 64 := by rw [← hx']; exact hxlt
    rw [BitVec.toNat_sub]; simp only [BitVec.toNat_ofNat]
    rw [hx', h1]
    generalize 2 ^ j * (2 * q) = B at *
    generalize 2 ^ j = A at *
    omega
  apply Nat.eq_of_testBit_eq
  intro i
  have e0 : 2 ^ 64 - 1 - (x - 1#64).toNat = 2 ^ 64 - ((x - 1#64).toNat + 1) := by omega
  rw [BitVec.toNat_and, Nat.testBit_and, BitVec.toNat_not, e0, Nat.testBit_two_pow_sub_succ (x - 1#64).isLt,
    hx1, hx, Nat.testBit_two_pow_mul_add _ (by omega : 2 ^ j - 1 < 2 ^ j), Nat.testBit_two_pow_sub_one,
    Nat.testBit_two_pow]
  have e : 2 ^ j * (2 * q + 1) = 2 ^ j * (2 * q + 1) + 0 := by omega
  rw [e, Nat.testBit_two_pow_mul_add _ hjpos]
  by_cases h1 : i < j
  · simp [h1]; omega
  · simp only [h1, ↓reduceIte]
    by_cases h2 : i = j
    · subst h2; simp [hj, Nat.testBit_zero]
    · have : i - j = (i - j - 1) + 1 := by omega
      rw [this, Nat.testBit_succ, Nat.testBit_succ]
      have e1 : (2 * q + 1) / 2 = q := by omega
      have e2 : (2 * q) / 2 = q := by omega
      rw [e1, e2]
      have : (j = i) = False := by simp; omega
      simp [this]
      cases q.testBit (i - j - 1) <;> simp

/-- every positive number is `2^j * odd` -/
theorem exists_pow_odd (n : Nat) (hn : 0 < n) : ∃ j q, n = 2 ^ j * (2 * q + 1) := by
  induction n using Nat.strongRecOn with
  | _ n ih =>
    by_cases h : n % 2 = 1
    · exact ⟨0, n / 2, by omega⟩
    · have hlt : n / 2 < n := by omega
      obtain ⟨j, q, hq⟩ := ih (n / 2) hlt (by omega)
      refine ⟨j + 1, q, ?_⟩
      have : n = 2 * (n / 2) := by omega
      rw [this, hq, Nat.pow_succ]
      rw [Nat.mul_comm (2 ^ j) 2, Nat.mul_assoc]

end MemVerif.Arith

namespace MemVerif.Arith
open MemVerif.Gen MemVerif.Bits

/-- `x & (x-1) = x - lowbit x` -/
theorem and_pred_toNat (x : BitVec 64) (j q : Nat) (hx : x.toNat = 2 ^ j * (2 * q + 1)) :
    (x &&& (x - 1#64)).toNat = x.toNat - 2 ^ j := by
  have hl := lowbit_toNat x j q hx
  generalize (x - 1#64) = m at *
  have hdisj : (x &&& ~~~m) &&& (x &&& m) = 0#64 := by
    ext i hi
    simp only [BitVec.getElem_and, BitVec.getElem_not, BitVec.getElem_zero]
    cases x[i] <;> cases m[i] <;> rfl
  have hsplit : x = (x &&& ~~~m) + (x &&& m) := by
    rw [BitVec.add_eq_or_of_and_eq_zero _ _ hdisj]
    ext i hi
    simp only [BitVec.getElem_and, BitVec.getElem_not, BitVec.getElem_or]
    cases x[i] <;> cases m[i] <;> rfl
  have h2 := BitVec.toNat_add_of_and_eq_zero hdisj
  have h4 : x.toNat = (x &&& ~~~m).toNat + (x &&& m).toNat := by rw [← h2, ← hsplit]
  omega

theorem isPowerOfTwo_iff (x : BitVec 64) (hx : x ≠ 0#64) :
    isPowerOfTwo x = true ↔ ∃ k, x.toNat = 2 ^ k := by
  have hpos : 0 < x.toNat := by
    apply Nat.pos_of_ne_zero; intro h; apply hx; exact BitVec.eq_of_toNat_eq (by simpa using h)
  obtain ⟨j, q, hjq⟩ := exists_pow_odd x.toNat hpos
  have ha := and_pred_toNat x j q hjq
  unfold isPowerOfTwo
  constructor
  · intro h
    have h0 : (x &&& (x - 1#64)) = 0#64 := by simpa using h
    rw [h0] at ha
    simp only [BitVec.toNat_ofNat, Nat.zero_mod] at ha
    have hle : 2 ^ j ≤ x.toNat := by
      rw [hjq]; exact Nat.le_mul_of_pos_right _ (by omega)
    exact ⟨j, by omega⟩
  · rintro ⟨k, hk⟩
    -- 2^k = 2^j * (2q+1) forces q = 0
    have hq : q = 0 := by
      apply Decidable.byContradiction; intro hq
      rw [hk] at hjq
      by_cases hkj : k ≤ j
      · have : 2 ^ k ≤ 2 ^ j := Nat.pow_le_pow_right (by decide) hkj
        have : 2 ^ j * (2 * q + 1) ≥ 2 ^ j * 3 := Nat.mul_le_mul_left _ (by omega)
        have := two_pow_pos j
        omega
      · have hk' : k = j + (k - j - 1) + 1 := by omega
        rw [hk', Nat.pow_succ, Nat.pow_add] at hjq
        have := Nat.eq_of_mul_eq_mul_left (two_pow_pos j) (by rw [← hjq, Nat.mul_assoc] : 2 ^ j * (2 ^ (k - j - 1) * 2) = 2 ^ j * (2 * q + 1))
        omega
    subst hq
    have : x.toNat = 2 ^ j := by rw [hjq]; omega
    have h0 : (x &&& (x - 1#64)).toNat = 0 := by omega
    have : (x &&& (x - 1#64)) = 0#64 := BitVec.eq_of_toNat_eq (by simpa using h0)
    simp [this]

end MemVerif.Arith
