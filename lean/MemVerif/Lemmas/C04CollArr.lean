import MemVerif.Lemmas.C01CollArr
import MemVerif.Lemmas.C04Coll
/-!
C04 for `memory_pool_collection` over the intrusive free lists, **node and array operations**: for every bucket, free
cells + cells the caller holds (nodes and the cells of arrays — the ledger of `Model/CollRunA.lean` is a list of cells)
never decrease over a history; an array request served from the list and every release keep it exactly.
-/
namespace MemVerif.Model
open MemVerif.Gen

theorem Coll.liveAt_append (c : Coll) (l1 l2 : List (Nat × Nat)) (j : Nat) :
    c.liveAt (l1 ++ l2) j = c.liveAt l1 j + c.liveAt l2 j := by
  unfold Coll.liveAt
  rw [List.filter_append, List.length_append]

theorem Coll.liveAt_arrEntries (c : Coll) (ns a s k j : Nat) :
    c.liveAt (arrEntries ns a s k) j = if c.listIndex s = j then k else 0 := by
  unfold Coll.liveAt arrEntries
  rw [List.filter_map]
  by_cases h : c.listIndex s = j
  · simp only [h, Function.comp_def, beq_self_eq_true, List.length_map]
    rw [List.filter_eq_self.mpr (fun _ _ => rfl), blockNodes_length]
    simp
  · simp [h, Function.comp_def]

/-- a run taken from bucket `listIndex size`: the measure of every bucket is unchanged -/
theorem CInv.takeRun_measure {arr arrLen : Nat} {c0 c : Coll} {live : List (Nat × Nat)} (h : CInv arr arrLen c live) (hx : CExt c0 c)
    {count size a : Nat} {l1 l2 : AnyList} (hl1 : c.lists[c0.listIndex size]? = some l1)
    (hal : l1.allocateBytes (mul64 count size) = some (l2, some a)) (j : Nat) :
    (c.setList (c0.listIndex size) l2).measure (ledgerArr (c.setList (c0.listIndex size) l2) live count size (.ok a)) j
      = c.measure live j := by
  rw [← hx.listIndex size] at hl1 ⊢
  obtain ⟨_, hS, hpos⟩ := h.lists _ l1 hl1
  obtain ⟨A, B, hc1, hc2, hsame, _⟩ := AnyList.allocateBytes_spec hS hpos hal
  unfold ledgerArr arrCells
  simp only
  rw [Coll.nsOf_setList_self c hl1 hsame.ns]
  unfold Coll.measure
  rw [Coll.cellsAt_setList c hl1, Coll.liveAt_ext (CExt.setList c _ l2), Coll.liveAt_append, Coll.liveAt_arrEntries]
  have hlen : l1.cells.length = l2.cells.length + cellsOf l1.nodeSize (mul64 count size) := by
    rw [hc1, hc2]; simp [blockNodes_length]; omega
  by_cases hj : j = c.listIndex size
  · subst hj
    rw [Coll.cellsAt_eq c hl1]
    simp
    omega
  · have : ¬ c.listIndex size = j := fun h => hj h.symm
    simp [hj, this]

/-- `deallocate_array` of an array the caller holds: the measure of every bucket is unchanged -/
theorem Coll.deallocateArray_measure (cfg : Cfg) {arr arrLen : Nat} {c : Coll} {live : List (Nat × Nat)}
    (h : CInv arr arrLen c live) {a count s : Nat} {l : AnyList} (hl : c.lists[c.listIndex s]? = some l)
    (hsub : ∀ e ∈ arrEntries l.nodeSize a s (cellsOf l.nodeSize (mul64 count s)), e ∈ live) (j : Nat) :
    (c.deallocateArray cfg a count s).st.measure
        (removeEntries live (arrEntries l.nodeSize a s (cellsOf l.nodeSize (mul64 count s)))) j = c.measure live j := by
  obtain ⟨_, _, hpos⟩ := h.lists _ l hl
  obtain ⟨l', hd, hperm, hsame, _⟩ := h.arrayRelease_list cfg hl hsub
  unfold Coll.deallocateArray
  simp only [hl, hd]
  unfold Coll.measure
  rw [Coll.cellsAt_setList c hl, Coll.liveAt_ext (CExt.setList c _ l')]
  have hp := perm_filter_mem h.live_nodup (arrEntries_nodup _ a s (cellsOf l.nodeSize (mul64 count s)) hpos) hsub
  have hlive : c.liveAt live j = c.liveAt (arrEntries l.nodeSize a s (cellsOf l.nodeSize (mul64 count s))) j
      + c.liveAt (removeEntries live (arrEntries l.nodeSize a s (cellsOf l.nodeSize (mul64 count s)))) j := by
    rw [← Coll.liveAt_append]
    unfold Coll.liveAt
    exact (hp.filter _).length_eq
  rw [hlive, Coll.liveAt_arrEntries]
  have hlen := hperm.length_eq
  rw [List.length_append, blockNodes_length] at hlen
  by_cases hj : j = c.listIndex s
  · subst hj
    rw [Coll.cellsAt_eq c hl]
    simp
    omega
  · have : ¬ c.listIndex s = j := fun h => hj h.symm
    simp [hj, this]

/-- `allocate_array`: free cells + held cells of every bucket do not decrease -/
theorem Coll.allocateArray_measure (cfg : Cfg) {arr arrLen : Nat} {c : Coll} {live : List (Nat × Nat)} (h : CInv arr arrLen c live)
    (hi : c.AllIntr) (hf : cfg.fence ≤ 2 ^ 32) (count size : Nat) (env : List (Option Nat))
    (hb : BlocksOk (c.allocateArray cfg count size env).st.arena.used) (j : Nat) :
    (c.allocateArray cfg count size env).st.AllIntr ∧
    c.measure live j ≤ (c.allocateArray cfg count size env).st.measure
      (ledgerArr (c.allocateArray cfg count size env).st live count size (c.allocateArray cfg count size env).out) j := by
  -- every intermediate state is reached from `c` by steps that keep or raise every bucket (`Grow`), the final `takeRun` keeps
  -- the measure exactly; the invariant needed for `takeRun` comes from `Coll.allocateArray_inv`'s pieces
  unfold Coll.allocateArray at hb ⊢
  split
  · exact ⟨hi, Nat.le_refl _⟩
  · rename_i hsz
    simp only [hsz, if_false] at hb
    cases hl : c.lists[c.listIndex size]? with
    | none => simp only [hl]; exact ⟨hi, Nat.le_refl _⟩
    | some l =>
    cases hdc0 : c.defCapacity with
    | none => simp only [hl, hdc0]; exact ⟨hi, Nat.le_refl _⟩
    | some dc0 =>
      simp only [hl, hdc0] at hb ⊢
      have hdc := Coll.defCapacity_lt h hdc0 l
      have intr_set : ∀ (st : Coll) (l1 l2 : AnyList) (a : Nat), st.AllIntr → st.lists[c.listIndex size]? = some l1 →
          l1.allocateBytes (mul64 count size) = some (l2, some a) → (st.setList (c.listIndex size) l2).AllIntr := by
        intro st l1 l2 a hst hl1 hal
        apply Coll.allIntr_setList hst
        have hi1 := hst l1 (List.mem_of_getElem? hl1)
        intro P
        cases l1 with
        | small sl => exact absurd rfl (hi1 sl.P)
        | free fl =>
          simp only [AnyList.allocateBytes, Option.map_eq_some_iff] at hal
          obtain ⟨⟨x, y⟩, _, hxy⟩ := hal
          simp only [Prod.mk.injEq] at hxy
          rw [← hxy.1]; simp [AnyList.obj]
        | ord ol =>
          simp only [AnyList.allocateBytes, Option.map_eq_some_iff] at hal
          obtain ⟨⟨x, y⟩, _, hxy⟩ := hal
          simp only [Prod.mk.injEq] at hxy
          rw [← hxy.1]; simp [AnyList.obj]
      cases hfirst : (if l.empty = true then some (l, none) else l.allocateBytes (mul64 count size)) with
      | none => simp only [hfirst]; exact ⟨hi, Nat.le_refl _⟩
      | some r0 =>
        obtain ⟨l', oa⟩ := r0
        cases oa with
        | some a =>
          simp only [hfirst] at hb ⊢
          have hal : l.allocateBytes (mul64 count size) = some (l', some a) := by
            by_cases hemp : l.empty
            · simp [hemp] at hfirst
            · simpa [hemp] using hfirst
          exact ⟨intr_set c l l' a hi hl hal, Nat.le_of_eq (h.takeRun_measure (CExt.refl c) hl hal j).symm⟩
        | none =>
          simp only [hfirst] at hb ⊢
          cases hres : c.reserve cfg (c.listIndex size) (growCapacity l 64 dc0) env with
          | mk r om =>
            have hx1 : CExt c r.st := Coll.reserve_ext' hres
            have hg1 : Grow c r.st := by have := Coll.reserve_grow cfg c (c.listIndex size) (growCapacity l 64 dc0) env; rw [hres] at this; exact this
            have key1 : BlocksOk r.st.arena.used → CInv arr arrLen r.st live ∧ ∀ mem, om = some mem → RegionFree arr arrLen r.st live mem (growCapacity l 64 dc0) := by
              intro hbr
              have := h.reserve_spec cfg hf (c.listIndex size) hdc env (by rw [hres]; exact hbr)
              rw [hres] at this
              exact this
            have hne1 : ∀ a, r.out ≠ .ok a := by
              intro a
              have := Coll.reserve_ne_ok cfg c (c.listIndex size) (growCapacity l 64 dc0) env a
              rw [hres] at this; exact this
            have m1 := hg1.measure hi live j
            simp only [hres] at hb ⊢
            cases om with
            | none =>
              simp only at hb ⊢
              rw [ledgerArr_not_ok _ _ _ _ hne1]
              exact ⟨hg1.intr hi, m1⟩
            | some mem =>
              simp only at hb ⊢
              cases hl1 : r.st.lists[c.listIndex size]? with
              | none => simp only [hl1] at hb ⊢; exact ⟨hg1.intr hi, m1⟩
              | some l1 =>
                simp only [hl1] at hb ⊢
                cases hins : l1.insert cfg mem (growCapacity l 64 dc0) with
                | handler k => simp only [hins] at hb ⊢; exact ⟨hg1.intr hi, m1⟩
                | crash => simp only [hins] at hb ⊢; exact ⟨hg1.intr hi, m1⟩
                | ok l2 =>
                  simp only [hins] at hb ⊢
                  have hg2 : Grow c (r.st.setList (c.listIndex size) l2) :=
                    hg1.trans (Grow.setList hl1 (fun hi1 => by have := AnyList.insert_len cfg hi1 hins; exact ⟨by rw [this.1]; exact Nat.le_add_right _ _, this.2⟩))
                  have m2 := hg2.measure hi live j
                  have hc2 : BlocksOk r.st.arena.used → CInv arr arrLen (r.st.setList (c.listIndex size) l2) live := by
                    intro hbr
                    obtain ⟨k1, k2⟩ := key1 hbr
                    exact k1.insertFree cfg hl1 (k2 mem rfl) hins
                  have hl2 : (r.st.setList (c.listIndex size) l2).lists[c.listIndex size]? = some l2 := by
                    unfold Coll.setList
                    have hlt : c.listIndex size < r.st.lists.length := by
                      rcases Nat.lt_or_ge (c.listIndex size) r.st.lists.length with h' | h'
                      · exact h'
                      · rw [List.getElem?_eq_none h'] at hl1; cases hl1
                    simp [hlt]
                  cases hal2 : l2.allocateBytes (mul64 count size) with
                  | none => simp only [hal2] at hb ⊢; exact ⟨hg2.intr hi, m2⟩
                  | some r2 =>
                    obtain ⟨l3, oa2⟩ := r2
                    cases oa2 with
                    | some a =>
                      simp only [hal2] at hb ⊢
                      refine ⟨intr_set _ l2 l3 a (hg2.intr hi) hl2 hal2, ?_⟩
                      rw [(hc2 hb).takeRun_measure hg2.ext hl2 hal2 j]
                      exact m2
                    | none =>
                      simp only [hal2] at hb ⊢
                      by_cases hfit : mul64 (ceilNodes (mul64 count size) l2.nodeSize) l2.nodeSize >
                          add64 (sub64 (r.st.setList (c.listIndex size) l2).nextCapacity l2.alignment) 1
                      · simp only [hfit, if_true] at hb ⊢
                        exact ⟨hg2.intr hi, m2⟩
                      · simp only [hfit, if_false] at hb ⊢
                        generalize hasz : mul64 (ceilNodes (mul64 count size) l2.nodeSize) l2.nodeSize = asz at hb ⊢
                        generalize henv' : List.drop (List.filter (fun e => match e with | UpEv.alloc _ _ _ => true | _ => false) r.ev).length env = env' at hb ⊢
                        cases hres2 : (r.st.setList (c.listIndex size) l2).reserve cfg (c.listIndex size) asz env' with
                        | mk r2 om2 =>
                          have hx3 : CExt (r.st.setList (c.listIndex size) l2) r2.st := Coll.reserve_ext' hres2
                          have hg3 : Grow c r2.st := by
                            have := Coll.reserve_grow cfg (r.st.setList (c.listIndex size) l2) (c.listIndex size) asz env'
                            rw [hres2] at this; exact hg2.trans this
                          have m3 := hg3.measure hi live j
                          have hbr : BlocksOk r2.st.arena.used → BlocksOk r.st.arena.used := fun hb2 => hb2.suffix hx3.used
                          have key2 : BlocksOk r2.st.arena.used → CInv arr arrLen r2.st live ∧ ∀ mem, om2 = some mem → RegionFree arr arrLen r2.st live mem asz := by
                            intro hb2
                            have := (hc2 (hbr hb2)).reserve_spec cfg hf (c.listIndex size) (cap := asz) (by rw [← hasz]; exact mul64_lt _ _) env'
                              (by rw [hres2]; exact hb2)
                            rw [hres2] at this
                            exact this
                          have hne2 : ∀ a, r2.out ≠ .ok a := by
                            intro a
                            have := Coll.reserve_ne_ok cfg (r.st.setList (c.listIndex size) l2) (c.listIndex size) asz env' a
                            rw [hres2] at this; exact this
                          simp only [hres2] at hb ⊢
                          cases om2 with
                          | none =>
                            simp only at hb ⊢
                            rw [ledgerArr_not_ok _ _ _ _ hne2]
                            exact ⟨hg3.intr hi, m3⟩
                          | some mem2 =>
                            simp only at hb ⊢
                            cases hl4 : r2.st.lists[c.listIndex size]? with
                            | none => simp only [hl4] at hb ⊢; exact ⟨hg3.intr hi, m3⟩
                            | some l4 =>
                              simp only [hl4] at hb ⊢
                              cases hins2 : l4.insert cfg mem2 asz with
                              | handler k => simp only [hins2] at hb ⊢; exact ⟨hg3.intr hi, m3⟩
                              | crash => simp only [hins2] at hb ⊢; exact ⟨hg3.intr hi, m3⟩
                              | ok l5 =>
                                simp only [hins2] at hb ⊢
                                have hg5 : Grow c (r2.st.setList (c.listIndex size) l5) :=
                                  hg3.trans (Grow.setList hl4 (fun hi1 => by have := AnyList.insert_len cfg hi1 hins2; exact ⟨by rw [this.1]; exact Nat.le_add_right _ _, this.2⟩))
                                have m5 := hg5.measure hi live j
                                have hc5 : BlocksOk r2.st.arena.used → CInv arr arrLen (r2.st.setList (c.listIndex size) l5) live := by
                                  intro hb2
                                  obtain ⟨k1, k2⟩ := key2 hb2
                                  exact k1.insertFree cfg hl4 (k2 mem2 rfl) hins2
                                have hl5 : (r2.st.setList (c.listIndex size) l5).lists[c.listIndex size]? = some l5 := by
                                  unfold Coll.setList
                                  have hlt : c.listIndex size < r2.st.lists.length := by
                                    rcases Nat.lt_or_ge (c.listIndex size) r2.st.lists.length with h' | h'
                                    · exact h'
                                    · rw [List.getElem?_eq_none h'] at hl4; cases hl4
                                  simp [hlt]
                                cases hal5 : l5.allocateBytes (mul64 count size) with
                                | none => simp only [hal5] at hb ⊢; exact ⟨hg5.intr hi, m5⟩
                                | some r5 =>
                                  obtain ⟨l6, oa5⟩ := r5
                                  cases oa5 with
                                  | none => simp only [hal5] at hb ⊢; exact ⟨hg5.intr hi, m5⟩
                                  | some a =>
                                    simp only [hal5] at hb ⊢
                                    have t1 := intr_set _ l5 l6 a (hg5.intr hi) hl5 hal5
                                    have t2 := (hc5 hb).takeRun_measure hg5.ext hl5 hal5 j
                                    rw [Coll.setList_setList] at t1 t2
                                    exact ⟨t1, by rw [t2]; exact m5⟩

theorem AnyList.allocateBytes_intr {l l2 : AnyList} {n a : Nat} (hi : l.Intr) (hal : l.allocateBytes n = some (l2, some a)) : l2.Intr := by
  intro P
  cases l with
  | small sl => exact absurd rfl (hi sl.P)
  | free fl =>
    simp only [AnyList.allocateBytes, Option.map_eq_some_iff] at hal
    obtain ⟨⟨x, y⟩, _, hxy⟩ := hal
    simp only [Prod.mk.injEq] at hxy
    rw [← hxy.1]; simp [AnyList.obj]
  | ord ol =>
    simp only [AnyList.allocateBytes, Option.map_eq_some_iff] at hal
    obtain ⟨⟨x, y⟩, _, hxy⟩ := hal
    simp only [Prod.mk.injEq] at hxy
    rw [← hxy.1]; simp [AnyList.obj]

theorem Coll.tryAllocateArray_measure (cfg : Cfg) {arr arrLen : Nat} {c : Coll} {live : List (Nat × Nat)} (h : CInv arr arrLen c live)
    (hi : c.AllIntr) (hf : cfg.fence ≤ 2 ^ 32) (count size : Nat) (j : Nat) :
    (c.tryAllocateArray cfg count size).st.AllIntr ∧
    c.measure live j ≤ (c.tryAllocateArray cfg count size).st.measure
      (ledgerArr (c.tryAllocateArray cfg count size).st live count size (c.tryAllocateArray cfg count size).out) j := by
  unfold Coll.tryAllocateArray
  split
  · exact ⟨hi, Nat.le_refl _⟩
  · cases hl : c.lists[c.listIndex size]? with
    | none => simp only [hl]; exact ⟨hi, Nat.le_refl _⟩
    | some l =>
    cases hdc0 : c.defCapacity with
    | none => simp only [hl, hdc0]; exact ⟨hi, Nat.le_refl _⟩
    | some dc0 =>
      simp only [hl, hdc0]
      have hdc := Coll.defCapacity_lt h hdc0 l
      have key : ∀ c1, CInv arr arrLen c1 live → Grow c c1 →
          (match c1.lists[c.listIndex size]? with
              | some l1 => if l1.empty then (⟨c1, .null, []⟩ : PRes Coll)
                  else (match l1.allocateBytes (mul64 count size) with
                    | some (l2, some a) => ⟨c1.setList (c.listIndex size) l2, .ok a, []⟩
                    | some (_, none) => ⟨c1, .null, []⟩
                    | none => ⟨c1, .crash, []⟩)
              | none => ⟨c1, .crash, []⟩).st.AllIntr ∧
          c.measure live j ≤
            (match c1.lists[c.listIndex size]? with
              | some l1 => if l1.empty then (⟨c1, .null, []⟩ : PRes Coll)
                  else (match l1.allocateBytes (mul64 count size) with
                    | some (l2, some a) => ⟨c1.setList (c.listIndex size) l2, .ok a, []⟩
                    | some (_, none) => ⟨c1, .null, []⟩
                    | none => ⟨c1, .crash, []⟩)
              | none => ⟨c1, .crash, []⟩).st.measure
            (ledgerArr
              (match c1.lists[c.listIndex size]? with
              | some l1 => if l1.empty then (⟨c1, .null, []⟩ : PRes Coll)
                  else (match l1.allocateBytes (mul64 count size) with
                    | some (l2, some a) => ⟨c1.setList (c.listIndex size) l2, .ok a, []⟩
                    | some (_, none) => ⟨c1, .null, []⟩
                    | none => ⟨c1, .crash, []⟩)
              | none => ⟨c1, .crash, []⟩).st live count size
              (match c1.lists[c.listIndex size]? with
              | some l1 => if l1.empty then (⟨c1, .null, []⟩ : PRes Coll)
                  else (match l1.allocateBytes (mul64 count size) with
                    | some (l2, some a) => ⟨c1.setList (c.listIndex size) l2, .ok a, []⟩
                    | some (_, none) => ⟨c1, .null, []⟩
                    | none => ⟨c1, .crash, []⟩)
              | none => ⟨c1, .crash, []⟩).out) j := by
        intro c1 h1 hg
        have hm := hg.measure hi live j
        have hi1 := hg.intr hi
        cases hl1 : c1.lists[c.listIndex size]? with
        | none => exact ⟨hi1, hm⟩
        | some l1 =>
          simp only
          split
          · exact ⟨hi1, hm⟩
          · cases hal : l1.allocateBytes (mul64 count size) with
            | none => exact ⟨hi1, hm⟩
            | some r =>
              obtain ⟨l2, oa⟩ := r
              cases oa with
              | none => exact ⟨hi1, hm⟩
              | some a =>
                refine ⟨Coll.allIntr_setList hi1 _ (AnyList.allocateBytes_intr (hi1 l1 (List.mem_of_getElem? hl1)) hal), ?_⟩
                have := h1.takeRun_measure hg.ext hl1 hal j
                exact Nat.le_trans hm (Nat.le_of_eq this.symm)
      by_cases hemp : l.empty
      · simp only [hemp, if_true]
        cases htr : c.tryReserve cfg (c.listIndex size) (growCapacity l 64 dc0) with
        | none => exact ⟨hi, Nat.le_refl _⟩
        | some c1 => exact key c1 (h.tryReserve_spec cfg hf hdc htr) (Coll.tryReserve_grow cfg c _ _ htr)
      · simp only [hemp, Bool.false_eq_true, if_false]
        exact key c h (Grow.refl c)

/-- `reserve(size, capacity)`: no bucket loses a cell; when it succeeds the bucket of `size` gains at least one -/
theorem Coll.reserveOp_grow (cfg : Cfg) (c : Coll) (size capacity : Nat) (env : List (Option Nat)) :
    Grow c (c.reserveOp cfg size capacity env).st := by
  unfold Coll.reserveOp
  simp only
  split
  · exact Grow.refl _
  · exact Coll.refill_grow cfg c _ _ env

theorem Coll.refill_gains (cfg : Cfg) (c : Coll) (hi : c.AllIntr) (i dc : Nat) (env : List (Option Nat))
    (hd : (c.refill cfg i dc env).out = .done) : c.cellsAt i + 1 ≤ (c.refill cfg i dc env).st.cellsAt i := by
  have hg := Coll.reserve_grow cfg c i dc env
  unfold Coll.refill at hd ⊢
  split
  · rename_i r mem hres
    rw [hres] at hg
    simp only [hres] at hd
    cases hl1 : r.st.lists[i]? with
    | none => simp [hl1] at hd
    | some l1 =>
      simp only [hl1] at hd ⊢
      cases hins : l1.insert cfg mem dc with
      | handler k => simp [hins] at hd
      | crash => simp [hins] at hd
      | ok l2 =>
        simp only
        have hi1 := hg.intr hi l1 (List.mem_of_getElem? hl1)
        have hlen := (AnyList.insert_len cfg hi1 hins).1
        -- an accepted insert adds at least one cell (zero cells is the undefined case of the code: crash)
        have hk : 0 < dc / l1.nodeSize := by
          rcases Nat.eq_zero_or_pos (dc / l1.nodeSize) with h0 | h0
          · exfalso
            cases l1 with
            | small sl => exact absurd rfl (hi1 sl.P)
            | free fl => simp [AnyList.insert, FreeList.insert, FreeList.insertImpl, AnyList.nodeSize] at hins h0; simp [h0] at hins
            | ord ol => simp [AnyList.insert, OrdList.insert, OrdList.insertImpl, AnyList.nodeSize] at hins h0; simp [h0] at hins
          · exact h0
        rw [Coll.cellsAt_setList r.st hl1, if_pos rfl, hlen]
        have := hg.cells hi i
        rw [Coll.cellsAt_eq r.st hl1] at this
        omega
  · rename_i r hres
    simp only [hres] at hd
    have := Coll.reserve_ne_ok cfg c i dc env
    -- without a reserved block `reserve_memory` did not finish: its outcome is not `done`
    unfold Coll.reserve at hres
    split at hres
    · simp only [Prod.mk.injEq] at hres; rw [← hres.1] at hd; simp at hd
    · split at hres
      · simp at hres
      · split at hres
        · simp only [Prod.mk.injEq] at hres; rw [← hres.1] at hd; simp at hd
        · split at hres
          · simp only [Prod.mk.injEq] at hres; rw [← hres.1] at hd; simp at hd
          · simp only [Prod.mk.injEq] at hres; rw [← hres.1] at hd; simp at hd
          · simp only at hres
            split at hres
            · simp at hres
            · simp only [Prod.mk.injEq] at hres; rw [← hres.1] at hd; simp at hd

/-! ### histories -/

theorem GCollA.step_measure (cfg : Cfg) (e : EnvS) {arr arrLen : Nat} (g : GCollA) (k : Nat) (op : COpA) (hi : g.c.AllIntr)
    (hI : CInv arr arrLen g.c g.live) (hf : cfg.fence ≤ 2 ^ 32) (hb : BlocksOk (g.step cfg e k op).1.c.arena.used) (j : Nat) :
    (g.step cfg e k op).1.c.AllIntr ∧ g.c.measure g.live j ≤ (g.step cfg e k op).1.c.measure (g.step cfg e k op).1.live j := by
  unfold GCollA.step at hb ⊢
  cases op with
  | reserve size capacity =>
    have hg := Coll.reserveOp_grow cfg g.c size capacity [e k]
    exact ⟨hg.intr hi, hg.measure hi g.live j⟩
  | node op => exact GColl.step_measure cfg e ⟨g.c, g.live⟩ k op hi hI j
  | allocArray count size => exact Coll.allocateArray_measure cfg hI hi hf count size _ hb j
  | tryAllocArray count size => exact Coll.tryAllocateArray_measure cfg hI hi hf count size j
  | deallocArray jj =>
    simp only at hb ⊢
    cases hj : g.arrs[jj]? with
    | none => exact ⟨hi, Nat.le_refl _⟩
    | some acs =>
      obtain ⟨a, count, size⟩ := acs
      simp only
      cases hl : g.c.lists[g.c.listIndex size]? with
      | none => exact ⟨hi, Nat.le_refl _⟩
      | some l =>
        simp only
        split
        · rename_i hall
          have hsub : ∀ x ∈ arrEntries l.nodeSize a size (arrCells l.nodeSize count size), x ∈ g.live := by
            intro x hx
            have := List.all_eq_true.mp hall x hx
            simpa using this
          refine ⟨?_, Nat.le_of_eq (Coll.deallocateArray_measure cfg hI hl hsub j).symm⟩
          obtain ⟨l', hd, _, hsame, _⟩ := hI.arrayRelease_list cfg hl hsub
          unfold Coll.deallocateArray
          simp only [hl, hd]
          apply Coll.allIntr_setList hi
          intro P; rw [hsame.obj]; exact hi l (List.mem_of_getElem? hl) P
        · exact ⟨hi, Nat.le_refl _⟩

/-- **no bucket loses a cell over a history of node and array operations** -/
theorem GCollA.run_measure (cfg : Cfg) (e : EnvS) {arr arrLen : Nat} (hf : cfg.fence ≤ 2 ^ 32) (ops : List COpA) :
    ∀ (g : GCollA) (k : Nat), (∀ op ∈ ops, op.Fits) → g.c.AllIntr → CInv arr arrLen g.c g.live →
      BlocksOk (g.run cfg e k ops).1.c.arena.used → ∀ j,
      (g.run cfg e k ops).1.c.AllIntr ∧
      g.c.measure g.live j ≤ (g.run cfg e k ops).1.c.measure (g.run cfg e k ops).1.live j := by
  induction ops with
  | nil => intro g k _ hi _ _ j; exact ⟨hi, Nat.le_refl _⟩
  | cons op ops ih =>
    intro g k hfit hi hI hb j
    have hb' := hb.suffix (GCollA.run_ext cfg e ops _ _).used
    have hstep := GCollA.step_inv cfg e g k op (hfit op (by simp)) hI hf hb'
    obtain ⟨s1, s2⟩ := GCollA.step_measure cfg e g k op hi hI hf hb' j
    obtain ⟨r1, r2⟩ := ih _ _ (fun o ho => hfit o (by simp [ho])) s1 hstep hb j
    exact ⟨r1, Nat.le_trans s2 r2⟩

end MemVerif.Model
