import MemVerif.Lemmas.C01Coll
/-!
C04 for `memory_pool_collection` over the intrusive free lists, node operations: **no bucket ever loses a cell**.
For every bucket `j` the number of free cells of the bucket plus the number of live nodes served by it never decreases
along a history (`GColl.run_measure`); it stays equal on a request served from the list and on every release.

These are structural facts of the model functions (no invariant needed beyond "every bucket is an intrusive list").
-/
namespace MemVerif.Model
open MemVerif.Gen

/-- an intrusive list (`node_pool`, `array_pool`) -/
def AnyList.Intr (l : AnyList) : Prop := ∀ P, l.obj ≠ .small P

theorem AnyList.insert_len (cfg : Cfg) {l l' : AnyList} (hi : l.Intr) {m s : Nat} (h : l.insert cfg m s = .ok l') :
    l'.cells.length = l.cells.length + s / l.nodeSize ∧ l'.Intr := by
  cases l with
  | small sl => exact absurd rfl (hi sl.P)
  | free fl =>
    by_cases hk : s / fl.ns = 0
    · simp [AnyList.insert, FreeList.insert, FreeList.insertImpl, hk] at h
    · simp only [AnyList.insert, FreeList.insert, FreeList.insertImpl] at h
      rw [if_neg hk] at h
      simp only [ListRes.ok.injEq] at h
      subst h
      refine ⟨?_, fun P => by simp [AnyList.obj]⟩
      simp [AnyList.cells, AnyList.nodeSize, blockNodes_length]; omega
  | ord ol =>
    simp only [AnyList.insert, OrdList.insert] at h
    split at h
    · rename_i x hx
      split at hx
      · rename_i l1 pa h1
        simp only [ListRes.ok.injEq] at hx h
        subst hx; subst h
        unfold OrdList.insertImpl at h1
        simp only at h1
        split at h1
        · cases h1
        · split at h1
          · cases h1
          · split at h1
            · split at h1
              · cases h1
              · simp only [ListRes.ok.injEq, Prod.mk.injEq] at h1
                obtain ⟨rfl, _⟩ := h1
                refine ⟨?_, fun P => by simp [AnyList.obj]⟩
                simp only [AnyList.cells, AnyList.nodeSize]
                rw [(spliceAt_perm ol _ _).length_eq]
                simp [blockNodes_length]; omega
            · cases h1
            · cases h1
            · cases h1
      · cases hx
      · cases hx
    · cases h
    · cases h

theorem AnyList.allocate_len {l l2 : AnyList} (hi : l.Intr) {a : Nat} (h : l.allocate = some (l2, a)) :
    l2.cells.length + 1 = l.cells.length ∧ l2.Intr := by
  cases l with
  | small sl => exact absurd rfl (hi sl.P)
  | free fl =>
    simp only [AnyList.allocate, Option.map_eq_some_iff] at h
    obtain ⟨⟨l1, p⟩, h1, h2⟩ := h
    simp only [Prod.mk.injEq] at h2
    obtain ⟨rfl, rfl⟩ := h2
    unfold FreeList.allocate at h1
    split at h1
    · cases h1
    · rename_i x xs hn
      simp only [Option.some.injEq, Prod.mk.injEq] at h1
      obtain ⟨rfl, _⟩ := h1
      exact ⟨by simp [AnyList.cells, hn], fun P => by simp [AnyList.obj]⟩
  | ord ol =>
    simp only [AnyList.allocate, Option.map_eq_some_iff] at h
    obtain ⟨⟨l1, p⟩, h1, h2⟩ := h
    simp only [Prod.mk.injEq] at h2
    obtain ⟨rfl, rfl⟩ := h2
    unfold OrdList.allocate at h1
    split at h1
    · cases h1
    · rename_i x xs hn
      simp only [Option.some.injEq, Prod.mk.injEq] at h1
      obtain ⟨rfl, _⟩ := h1
      refine ⟨?_, fun P => by simp [AnyList.obj]⟩
      simp only [AnyList.cells, hn, List.length_cons]
      split
      · rfl
      · split <;> rfl

theorem AnyList.deallocate_len (cfg : Cfg) {l l' : AnyList} (hi : l.Intr) {a : Nat} (h : l.deallocate cfg a = .ok l') :
    l'.cells.length = l.cells.length + 1 ∧ l'.Intr := by
  cases l with
  | small sl => exact absurd rfl (hi sl.P)
  | free fl =>
    simp only [AnyList.deallocate, ListRes.ok.injEq] at h
    subst h
    exact ⟨by simp [AnyList.cells, FreeList.deallocate], fun P => by simp [AnyList.obj]⟩
  | ord ol =>
    simp only [AnyList.deallocate] at h
    split at h
    · rename_i l1 h1
      simp only [ListRes.ok.injEq] at h
      subst h
      unfold OrdList.deallocate at h1
      split at h1
      · cases h1
      · split at h1
        · split at h1
          · cases h1
          · simp only [ListRes.ok.injEq] at h1
            subst h1
            refine ⟨?_, fun P => by simp [AnyList.obj]⟩
            simp only [AnyList.cells]
            rw [(spliceAt_perm ol _ _).length_eq]
            simp
        · cases h1
        · cases h1
        · cases h1
    · cases h
    · cases h

/-! ### buckets -/

/-- every bucket is an intrusive list -/
def Coll.AllIntr (c : Coll) : Prop := ∀ l ∈ c.lists, l.Intr

/-- number of free cells of bucket `j` -/
def Coll.cellsAt (c : Coll) (j : Nat) : Nat := ((c.lists[j]?).map fun l => l.cells.length).getD 0

/-- `c1` has the bucket key of `c`, intrusive buckets if `c` has, and no bucket has fewer free cells -/
structure Grow (c c1 : Coll) : Prop where
  ext : CExt c c1
  intr : c.AllIntr → c1.AllIntr
  cells : c.AllIntr → ∀ j, c.cellsAt j ≤ c1.cellsAt j

theorem Grow.refl (c : Coll) : Grow c c := ⟨CExt.refl c, id, fun _ _ => Nat.le_refl _⟩

theorem Grow.trans {a b c : Coll} (h1 : Grow a b) (h2 : Grow b c) : Grow a c :=
  ⟨h1.ext.trans h2.ext, fun h => h2.intr (h1.intr h), fun h j => Nat.le_trans (h1.cells h j) (h2.cells (h1.intr h) j)⟩

/-- the lists are the same -/
theorem Grow.of_lists {c c1 : Coll} (hx : CExt c c1) (hl : c1.lists = c.lists) : Grow c c1 :=
  ⟨hx, fun h => by unfold Coll.AllIntr; rw [hl]; exact h, fun _ j => by unfold Coll.cellsAt; rw [hl]; exact Nat.le_refl _⟩

theorem Coll.cellsAt_setList (c : Coll) {i : Nat} {l : AnyList} (hl : c.lists[i]? = some l) (l' : AnyList) (j : Nat) :
    (c.setList i l').cellsAt j = if j = i then l'.cells.length else c.cellsAt j := by
  have hlt : i < c.lists.length := by
    rcases Nat.lt_or_ge i c.lists.length with h' | h'
    · exact h'
    · rw [List.getElem?_eq_none h'] at hl; cases hl
  unfold Coll.cellsAt Coll.setList
  simp only [List.getElem?_set]
  by_cases hj : j = i
  · subst hj; simp [hlt]
  · have : ¬ i = j := fun h => hj h.symm
    simp [hj, this]

theorem Coll.cellsAt_eq (c : Coll) {i : Nat} {l : AnyList} (hl : c.lists[i]? = some l) : c.cellsAt i = l.cells.length := by
  unfold Coll.cellsAt; rw [hl]; rfl

theorem Coll.allIntr_setList {c : Coll} (h : c.AllIntr) (i : Nat) {l' : AnyList} (hi : l'.Intr) : (c.setList i l').AllIntr := by
  intro m hm
  unfold Coll.setList at hm
  rcases List.mem_or_eq_of_mem_set hm with h1 | h1
  · exact h m h1
  · rw [h1]; exact hi

/-- replacing bucket `i` by a list with at least as many cells -/
theorem Grow.setList {c : Coll} {i : Nat} {l l' : AnyList} (hl : c.lists[i]? = some l)
    (h : l.Intr → l.cells.length ≤ l'.cells.length ∧ l'.Intr) : Grow c (c.setList i l') := by
  refine ⟨CExt.setList _ _ _, fun ha => Coll.allIntr_setList ha i (h (ha l (List.mem_of_getElem? hl))).2, fun ha j => ?_⟩
  rw [Coll.cellsAt_setList c hl]
  split
  · rename_i hj; subst hj
    rw [Coll.cellsAt_eq c hl]
    exact (h (ha l (List.mem_of_getElem? hl))).1
  · exact Nat.le_refl _

theorem Grow.withCur {c c1 : Coll} (h : Grow c c1) (x : Nat) : Grow c { c1 with cur := x } :=
  h.trans (Grow.of_lists (CExt.cur _ _) rfl)

theorem Coll.insertRest_grow (cfg : Cfg) (c : Coll) (i : Nat) {c1 : Coll} (h : c.insertRest cfg i = some c1) : Grow c c1 := by
  unfold Coll.insertRest at h
  split at h
  · rename_i e l hbe hl
    simp only at h
    split at h
    · cases h; exact Grow.refl _
    · split at h
      · split at h
        · rename_i l' hins
          cases h
          exact (Grow.setList hl (fun hi => by have := AnyList.insert_len cfg hi hins; exact ⟨by rw [this.1]; exact Nat.le_add_right _ _, this.2⟩)).withCur _
        · cases h
      · cases h; exact Grow.refl _
  · cases h

theorem Coll.tryReserve_grow (cfg : Cfg) (c : Coll) (i cap : Nat) {c1 : Coll} (h : c.tryReserve cfg i cap = some c1) :
    Grow c c1 := by
  unfold Coll.tryReserve at h
  split at h
  · rename_i e l hbe hl
    split at h
    · exact Coll.insertRest_grow cfg c i h
    · split at h
      · rename_i l' hins
        cases h
        exact (Grow.setList hl (fun hi => by have := AnyList.insert_len cfg hi hins; exact ⟨by rw [this.1]; exact Nat.le_add_right _ _, this.2⟩)).withCur _
      · cases h
  · cases h

theorem Coll.reserve_grow (cfg : Cfg) (c : Coll) (i cap : Nat) (env : List (Option Nat)) :
    Grow c (c.reserve cfg i cap env).1.st := by
  unfold Coll.reserve
  split
  · exact Grow.refl _
  · split
    · exact Grow.of_lists (CExt.cur _ _) rfl
    · split
      · exact Grow.refl _
      · rename_i c1 hr
        have h1 := Coll.insertRest_grow cfg c i hr
        cases ha : c1.arena.allocateBlock env with
        | envMissing => exact h1
        | fail a ex ev _ =>
          simp only
          have hx := Coll.reserve_ext cfg c i cap env
          refine h1.trans (Grow.of_lists ⟨rfl, rfl, ?_⟩ rfl)
          rw [show a.used = c1.arena.used from Arena.allocateBlock_fail ha]
          exact List.suffix_refl _
        | ok a b ev _ =>
          obtain ⟨blk, hu, _⟩ := Arena.allocateBlock_ok ha
          simp only
          have hs : c1.arena.used <:+ a.used := by rw [hu]; exact List.suffix_cons _ _
          split <;> exact h1.trans (Grow.of_lists ⟨rfl, rfl, hs⟩ rfl)

theorem Coll.refill_grow (cfg : Cfg) (c : Coll) (i dc : Nat) (env : List (Option Nat)) : Grow c (c.refill cfg i dc env).st := by
  have h := Coll.reserve_grow cfg c i dc env
  unfold Coll.refill
  split
  · rename_i r mem hres
    rw [hres] at h
    split
    · rename_i l1 hl1
      split
      · rename_i l2 hins
        exact h.trans (Grow.setList hl1 (fun hi => by have := AnyList.insert_len cfg hi hins; exact ⟨by rw [this.1]; exact Nat.le_add_right _ _, this.2⟩))
      · exact h
      · exact h
    · exact h
  · rename_i r hres
    rw [hres] at h
    exact h

/-! ### the measure -/

/-- live nodes served by bucket `j` -/
def Coll.liveAt (c : Coll) (live : List (Nat × Nat)) (j : Nat) : Nat := (live.filter fun as => c.listIndex as.2 == j).length

/-- free cells of bucket `j` plus live nodes served by it -/
def Coll.measure (c : Coll) (live : List (Nat × Nat)) (j : Nat) : Nat := c.cellsAt j + c.liveAt live j

theorem Coll.liveAt_ext {c c1 : Coll} (hx : CExt c c1) (live : List (Nat × Nat)) (j : Nat) : c1.liveAt live j = c.liveAt live j := by
  unfold Coll.liveAt
  congr 1
  apply List.filter_congr
  intro as _
  rw [hx.listIndex]

/-- growing keeps or raises the measure of every bucket -/
theorem Grow.measure {c c1 : Coll} (h : Grow c c1) (hi : c.AllIntr) (live : List (Nat × Nat)) (j : Nat) :
    c.measure live j ≤ c1.measure live j := by
  unfold Coll.measure
  rw [Coll.liveAt_ext h.ext]
  have := h.cells hi j
  omega

/-- `pool.allocate()` on the bucket of `size`: the measure of every bucket is unchanged -/
theorem Coll.takeNode_measure {c0 c : Coll} (hx : CExt c0 c) (hi : c.AllIntr) (live : List (Nat × Nat)) (size : Nat)
    (ev : List UpEv) (j : Nat) :
    (c.takeNode (c0.listIndex size) ev).st.AllIntr ∧
    (c.takeNode (c0.listIndex size) ev).st.measure (ledgerAfter live size (c.takeNode (c0.listIndex size) ev).out) j
      = c.measure live j := by
  rw [← hx.listIndex size]
  unfold Coll.takeNode
  cases hl : c.lists[c.listIndex size]? with
  | none => exact ⟨hi, rfl⟩
  | some l1 =>
    simp only
    cases hal : l1.allocate with
    | none => exact ⟨hi, rfl⟩
    | some r =>
      obtain ⟨l2, a⟩ := r
      simp only [ledgerAfter]
      obtain ⟨h1, h2⟩ := AnyList.allocate_len (hi l1 (List.mem_of_getElem? hl)) hal
      refine ⟨Coll.allIntr_setList hi _ h2, ?_⟩
      unfold Coll.measure
      rw [Coll.cellsAt_setList c hl, Coll.liveAt_ext (CExt.setList c _ l2)]
      unfold Coll.liveAt
      simp only [List.filter_cons]
      by_cases hj : j = c.listIndex size
      · subst hj
        rw [Coll.cellsAt_eq c hl]
        simp
        omega
      · have : ¬ c.listIndex size = j := fun h => hj h.symm
        simp [hj, this]

/-- `deallocate_node` of the `k`-th live node, when it succeeds: the measure of every bucket is unchanged -/
theorem Coll.deallocateNode_measure (cfg : Cfg) {c : Coll} (hi : c.AllIntr) {live : List (Nat × Nat)} {k a s : Nat}
    (hk : live[k]? = some (a, s)) (j : Nat) :
    (c.deallocateNode cfg a s).st.AllIntr ∧
    ((c.deallocateNode cfg a s).out = .done →
      (c.deallocateNode cfg a s).st.measure (live.eraseIdx k) j = c.measure live j) ∧
    ((c.deallocateNode cfg a s).out ≠ .done → (c.deallocateNode cfg a s).st = c) := by
  unfold Coll.deallocateNode
  simp only
  cases hl : c.lists[c.listIndex s]? with
  | none => refine ⟨hi, fun h => ?_, fun _ => rfl⟩; simp at h
  | some l =>
    simp only
    cases hd : l.deallocate cfg a with
    | handler x => refine ⟨hi, fun h => ?_, fun _ => rfl⟩; simp at h
    | crash => refine ⟨hi, fun h => ?_, fun _ => rfl⟩; simp at h
    | ok l' =>
      simp only
      obtain ⟨h1, h2⟩ := AnyList.deallocate_len cfg (hi l (List.mem_of_getElem? hl)) hd
      refine ⟨Coll.allIntr_setList hi _ h2, fun _ => ?_, fun h => absurd rfl h⟩
      unfold Coll.measure
      rw [Coll.cellsAt_setList c hl, Coll.liveAt_ext (CExt.setList c _ l')]
      unfold Coll.liveAt
      have hp := (perm_eraseIdx hk).filter (fun as : Nat × Nat => c.listIndex as.2 == j)
      have hlen := hp.length_eq
      simp only [List.filter_cons] at hlen
      by_cases hj : j = c.listIndex s
      · subst hj
        rw [Coll.cellsAt_eq c hl]
        simp at hlen ⊢
        omega
      · have : ¬ c.listIndex s = j := fun h => hj h.symm
        simp [hj, this] at hlen ⊢
        omega

theorem Coll.allocateNode_measure (cfg : Cfg) (c : Coll) (hi : c.AllIntr) (live : List (Nat × Nat)) (size : Nat)
    (env : List (Option Nat)) (j : Nat) :
    (c.allocateNode cfg size env).st.AllIntr ∧
    c.measure live j ≤ (c.allocateNode cfg size env).st.measure (ledgerAfter live size (c.allocateNode cfg size env).out) j := by
  unfold Coll.allocateNode
  split
  · exact ⟨hi, Nat.le_refl _⟩
  · cases hl : c.lists[c.listIndex size]? with
    | none => simp only [hl]; exact ⟨hi, Nat.le_refl _⟩
    | some l =>
    cases hdc0 : c.defCapacity with
    | none => simp only [hl, hdc0]; exact ⟨hi, Nat.le_refl _⟩
    | some dc0 =>
      simp only [hl, hdc0]
      by_cases hemp : l.empty
      · simp only [hemp, if_true]
        have hg := Coll.refill_grow cfg c (c.listIndex size) (growCapacity l 64 dc0) env
        cases hout : (c.refill cfg (c.listIndex size) (growCapacity l 64 dc0) env).out with
        | done =>
          simp only [hout]
          obtain ⟨t1, t2⟩ := Coll.takeNode_measure hg.ext (hg.intr hi) live size
            (c.refill cfg (c.listIndex size) (growCapacity l 64 dc0) env).ev j
          exact ⟨t1, by rw [t2]; exact hg.measure hi live j⟩
        | ok a => exact absurd hout (Coll.refill_ne_ok cfg c _ _ env a)
        | _ => simp only [hout, ledgerAfter]; exact ⟨hg.intr hi, hg.measure hi live j⟩
      · simp only [hemp, Bool.false_eq_true, if_false]
        obtain ⟨t1, t2⟩ := Coll.takeNode_measure (CExt.refl c) hi live size [] j
        exact ⟨t1, Nat.le_of_eq t2.symm⟩

theorem Coll.tryAllocateNode_measure (cfg : Cfg) (c : Coll) (hi : c.AllIntr) (live : List (Nat × Nat)) (size : Nat) (j : Nat) :
    (c.tryAllocateNode cfg size).st.AllIntr ∧
    c.measure live j ≤ (c.tryAllocateNode cfg size).st.measure (ledgerAfter live size (c.tryAllocateNode cfg size).out) j := by
  unfold Coll.tryAllocateNode
  split
  · exact ⟨hi, Nat.le_refl _⟩
  · cases hl : c.lists[c.listIndex size]? with
    | none => simp only [hl]; exact ⟨hi, Nat.le_refl _⟩
    | some l =>
    cases hdc0 : c.defCapacity with
    | none => simp only [hl, hdc0]; exact ⟨hi, Nat.le_refl _⟩
    | some dc0 =>
      simp only [hl, hdc0]
      have key : ∀ c1, Grow c c1 →
          (match c1.lists[c.listIndex size]? with
              | some l1 => if l1.empty then (⟨c1, .null, []⟩ : PRes Coll)
                  else (match l1.allocate with
                    | some (l2, a) => ⟨c1.setList (c.listIndex size) l2, .ok a, []⟩
                    | none => ⟨c1, .crash, []⟩)
              | none => ⟨c1, .crash, []⟩).st.AllIntr ∧
          c.measure live j ≤
            (match c1.lists[c.listIndex size]? with
              | some l1 => if l1.empty then (⟨c1, .null, []⟩ : PRes Coll)
                  else (match l1.allocate with
                    | some (l2, a) => ⟨c1.setList (c.listIndex size) l2, .ok a, []⟩
                    | none => ⟨c1, .crash, []⟩)
              | none => ⟨c1, .crash, []⟩).st.measure
            (ledgerAfter live size
              (match c1.lists[c.listIndex size]? with
              | some l1 => if l1.empty then (⟨c1, .null, []⟩ : PRes Coll)
                  else (match l1.allocate with
                    | some (l2, a) => ⟨c1.setList (c.listIndex size) l2, .ok a, []⟩
                    | none => ⟨c1, .crash, []⟩)
              | none => ⟨c1, .crash, []⟩).out) j := by
        intro c1 hg
        have hm := hg.measure hi live j
        have hi1 := hg.intr hi
        obtain ⟨t1, t2⟩ := Coll.takeNode_measure hg.ext hi1 live size [] j
        unfold Coll.takeNode at t1 t2
        cases hl1 : c1.lists[c.listIndex size]? with
        | none => exact ⟨hi1, hm⟩
        | some l1 =>
          simp only [hl1] at t1 t2 ⊢
          split
          · exact ⟨hi1, hm⟩
          · exact ⟨t1, Nat.le_trans hm (Nat.le_of_eq t2.symm)⟩
      by_cases hemp : l.empty
      · simp only [hemp, if_true]
        cases htr : c.tryReserve cfg (c.listIndex size) (growCapacity l 64 dc0) with
        | none => exact ⟨hi, Nat.le_refl _⟩
        | some c1 => exact key c1 (Coll.tryReserve_grow cfg c _ _ htr)
      · simp only [hemp, Bool.false_eq_true, if_false]
        exact key c (Grow.refl c)

/-! ### histories -/

theorem GColl.step_measure (cfg : Cfg) (e : EnvS) {arr arrLen : Nat} (g : GColl) (k : Nat) (op : COpn) (hi : g.c.AllIntr)
    (hI : CInv arr arrLen g.c g.live) (j : Nat) :
    (g.step cfg e k op).1.c.AllIntr ∧ g.c.measure g.live j ≤ (g.step cfg e k op).1.c.measure (g.step cfg e k op).1.live j := by
  unfold GColl.step GColl.exec
  cases op with
  | allocNode s =>
    simp only [GColl.ledger]
    have := Coll.allocateNode_measure cfg g.c hi g.live s [e k] j
    cases hout : (g.c.allocateNode cfg s [e k]).out <;> (rw [hout] at this; exact this)
  | tryAllocNode s =>
    simp only [GColl.ledger]
    have := Coll.tryAllocateNode_measure cfg g.c hi g.live s j
    cases hout : (g.c.tryAllocateNode cfg s).out <;> (rw [hout] at this; exact this)
  | dealloc i =>
    simp only [GColl.ledger]
    cases hk : g.live[i]? with
    | none =>
      simp only
      rw [List.eraseIdx_of_length_le (by simpa using hk)]
      exact ⟨hi, Nat.le_refl _⟩
    | some as =>
      obtain ⟨a, s⟩ := as
      simp only
      obtain ⟨d1, d2, _⟩ := Coll.deallocateNode_measure cfg hi hk j
      exact ⟨d1, by rw [d2 (Coll.deallocateNode_inv cfg hI hk).1]; exact Nat.le_refl _⟩

/-- **no bucket loses a cell over a history**: free cells + live nodes of every bucket never decrease -/
theorem GColl.run_measure (cfg : Cfg) (e : EnvS) {arr arrLen : Nat} (hf : cfg.fence ≤ 2 ^ 32) (ops : List COpn) :
    ∀ (g : GColl) (k : Nat), g.c.AllIntr → CInv arr arrLen g.c g.live → BlocksOk (g.run cfg e k ops).1.c.arena.used → ∀ j,
      (g.run cfg e k ops).1.c.AllIntr ∧
      g.c.measure g.live j ≤ (g.run cfg e k ops).1.c.measure (g.run cfg e k ops).1.live j := by
  induction ops with
  | nil => intro g k hi _ _ j; exact ⟨hi, Nat.le_refl _⟩
  | cons op ops ih =>
    intro g k hi hI hb j
    have hstep := GColl.step_inv cfg e g k op hI hf (hb.suffix (GColl.run_ext cfg e ops _ _).used)
    obtain ⟨s1, s2⟩ := GColl.step_measure cfg e g k op hi hI j
    obtain ⟨r1, r2⟩ := ih _ _ s1 hstep hb j
    exact ⟨r1, Nat.le_trans s2 r2⟩

end MemVerif.Model
