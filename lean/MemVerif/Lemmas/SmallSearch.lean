import MemVerif.Lemmas.C04Lists
/-!
Completeness of the small list's chunk search (`find_chunk_impl(node)`): for a ring of chunks sorted by address with
disjoint extents and valid cursors, a pointer inside the node area of a chunk is found — whatever the cursors are.
(Soundness — an answer always contains the pointer — and termination are in `Lemmas/C04Lists.lean`.)
-/
namespace MemVerif.Model

/-- extent of a chunk: header and node area -/
def Chunk.endOf (c : Chunk) (ns : Nat) : Nat := c.base + chunkOff + c.noNodes * ns

/-- ring invariant needed by the search: chunks in ascending address order with disjoint extents, both cursors point at
the proxy or at a chunk, and the proxy word (inside the list object) lies in no chunk -/
structure SmallRing (l : SmallList) : Prop where
  sorted : ∀ (i j : Nat) (ci cj : Chunk), l.chunks[i]? = some ci → l.chunks[j]? = some cj → i < j → ci.endOf l.ns ≤ cj.base
  cursorD : ∃ d, l.posOf l.deallocChunk = some d
  cursorA : ∃ a, l.posOf l.allocChunk = some a
  proxyOut : ∀ c ∈ l.chunks, l.P < c.base ∨ c.endOf l.ns ≤ l.P

theorem smallPosOf_le (l : SmallList) (a d : Nat) (h : l.posOf a = some d) : d ≤ l.chunks.length := by
  unfold SmallList.posOf at h
  split at h
  · simp only [Option.some.injEq] at h; omega
  · simp only [Option.map_eq_some_iff] at h
    obtain ⟨i, hi, rfl⟩ := h
    have := (List.findIdx?_eq_some_iff_getElem.1 hi).1
    omega

theorem smallPosOf_addr (l : SmallList) (a d : Nat) (h : l.posOf a = some d) : l.addrAt d = a := by
  unfold SmallList.posOf at h
  split at h
  · rename_i hP; simp only [Option.some.injEq] at h; subst h; simp [SmallList.addrAt, hP]
  · simp only [Option.map_eq_some_iff] at h
    obtain ⟨i, hi, rfl⟩ := h
    obtain ⟨hlt, hp, _⟩ := List.findIdx?_eq_some_iff_getElem.1 hi
    simp only [SmallList.addrAt, Nat.add_one_ne_zero, ↓reduceIte, Nat.add_sub_cancel, List.getElem?_eq_getElem hlt, Option.map_some,
      Option.getD_some]
    simpa using hp

theorem fromAt_iff (l : SmallList) (j p : Nat) :
    l.fromAt j p = true ↔ ∃ c, 0 < j ∧ l.chunks[j - 1]? = some c ∧ c.base + chunkOff ≤ p ∧ p < c.endOf l.ns := by
  unfold SmallList.fromAt Chunk.endOf
  by_cases hj : j = 0
  · simp [hj]
  · simp only [hj, ↓reduceIte]
    cases hc : l.chunks[j - 1]? with
    | none => simp
    | some c =>
      simp only [decide_eq_true_eq]
      constructor
      · intro h; exact ⟨c, by omega, rfl, h.1, h.2⟩
      · rintro ⟨c', _, hc', h1, h2⟩
        simp only [Option.some.injEq] at hc'
        subst hc'; exact ⟨h1, h2⟩

/-- areas of different chunks are disjoint: a pointer lies in at most one -/
theorem fromAt_unique (l : SmallList) (hR : SmallRing l) (j k p : Nat) (hj : l.fromAt j p = true) (hk : l.fromAt k p = true) : j = k := by
  obtain ⟨cj, hj0, hcj, hj1, hj2⟩ := (fromAt_iff l j p).1 hj
  obtain ⟨ck, hk0, hck, hk1, hk2⟩ := (fromAt_iff l k p).1 hk
  rcases Nat.lt_trichotomy j k with h | h | h
  · have := hR.sorted (j - 1) (k - 1) cj ck hcj hck (by omega)
    have : ck.base + chunkOff ≤ p := hk1
    omega
  · exact h
  · have := hR.sorted (k - 1) (j - 1) ck cj hck hcj (by omega)
    omega

theorem chunkOff_pos : 0 < chunkOff := by decide

theorem addrAt_succ (l : SmallList) (i : Nat) (c : Chunk) (h : l.chunks[i]? = some c) : l.addrAt (i + 1) = c.base := by
  simp [SmallList.addrAt, h]

/-- addresses of ring positions `1..L` are ascending -/
theorem addrAt_mono (l : SmallList) (hR : SmallRing l) (x y : Nat) (hx : 1 ≤ x) (hxy : x ≤ y) (hy : y ≤ l.chunks.length) :
    l.addrAt x ≤ l.addrAt y := by
  rcases Nat.eq_or_lt_of_le hxy with h | h
  · subst h; exact Nat.le_refl _
  · have hxl : x - 1 < l.chunks.length := by omega
    have hyl : y - 1 < l.chunks.length := by omega
    have e1 := addrAt_succ l (x - 1) _ (List.getElem?_eq_getElem hxl)
    have e2 := addrAt_succ l (y - 1) _ (List.getElem?_eq_getElem hyl)
    rw [show x - 1 + 1 = x by omega] at e1
    rw [show y - 1 + 1 = y by omega] at e2
    rw [e1, e2]
    have := hR.sorted (x - 1) (y - 1) _ _ (List.getElem?_eq_getElem hxl) (List.getElem?_eq_getElem hyl) (by omega)
    unfold Chunk.endOf at this
    omega

/-- the two-cursor walk finds the chunk if it lies between the cursors -/
theorem go_complete (l : SmallList) (hR : SmallRing l) (p j : Nat) (hj : l.fromAt j p = true) :
    ∀ (fuel f b : Nat), 1 ≤ f → f ≤ j → j ≤ b → b ≤ l.chunks.length → b - f < fuel →
      SmallList.findChunkRange.go l p (l.chunks.length + 1) fuel f b = .found j := by
  intro fuel
  induction fuel with
  | zero => intro f b _ _ _ _ h; omega
  | succ fuel ih =>
    intro f b hf1 hfj hjb hbL hfuel
    unfold SmallList.findChunkRange.go
    by_cases h1 : l.fromAt f p = true
    · rw [if_pos h1]; rw [fromAt_unique l hR f j p h1 hj]
    · rw [if_neg h1]
      by_cases h2 : l.fromAt b p = true
      · rw [if_pos h2]; rw [fromAt_unique l hR b j p h2 hj]
      · rw [if_neg h2]
        have hfj' : f < j := by
          rcases Nat.eq_or_lt_of_le hfj with h | h
          · subst h; exact absurd hj h1
          · exact h
        have hjb' : j < b := by
          rcases Nat.eq_or_lt_of_le hjb with h | h
          · subst h; exact absurd hj h2
          · exact h
        have e1 : (f + 1) % (l.chunks.length + 1) = f + 1 := Nat.mod_eq_of_lt (by omega)
        have e2 : (b + (l.chunks.length + 1) - 1) % (l.chunks.length + 1) = b - 1 := by
          rw [show b + (l.chunks.length + 1) - 1 = (b - 1) + (l.chunks.length + 1) by omega, Nat.add_mod_right]
          exact Nat.mod_eq_of_lt (by omega)
        simp only [e1, e2]
        have hmono := addrAt_mono l hR (f + 1) (b - 1) (by omega) (by omega) (by omega)
        have hcond : (decide (l.addrAt (f + 1) > l.addrAt (b - 1)) || (f + 1 == 0) || (b - 1 == 0)) = false := by
          have : ¬ l.addrAt (f + 1) > l.addrAt (b - 1) := by omega
          have hb0 : b - 1 ≠ 0 := by omega
          simp [this, hb0]
        rw [hcond]
        simp only [Bool.false_eq_true, ↓reduceIte]
        exact ih (f + 1) (b - 1) (by omega) (by omega) (by omega) (by omega) (by omega)

/-- **Completeness of `find_chunk_impl(node)`**: a pointer inside the node area of the chunk at ring position `j` is found,
for every position of the two cursors (proxy or any chunk). -/
theorem findChunk_complete (l : SmallList) (hR : SmallRing l) (p j : Nat) (hj : l.fromAt j p = true) :
    l.findChunk p = .found j := by
  obtain ⟨cj, hj0, hcj, hj1, hj2⟩ := (fromAt_iff l j p).1 hj
  have hjL : j ≤ l.chunks.length := by
    have : j - 1 < l.chunks.length := by
      rcases Nat.lt_or_ge (j - 1) l.chunks.length with h | h
      · exact h
      · rw [List.getElem?_eq_none h] at hcj; cases hcj
    omega
  obtain ⟨d, hd⟩ := hR.cursorD
  obtain ⟨a, ha⟩ := hR.cursorA
  have hdL := smallPosOf_le l _ d hd
  have hco := chunkOff_pos
  unfold SmallList.findChunk
  simp only [hd, ha]
  by_cases h1 : l.fromAt d p = true
  · rw [if_pos h1, fromAt_unique l hR d j p h1 hj]
  · rw [if_neg h1]
    by_cases h2 : l.fromAt a p = true
    · rw [if_pos h2, fromAt_unique l hR a j p h2 hj]
    · rw [if_neg h2]
      have hL : 0 < l.chunks.length := by omega
      have hm1 : (0 + (l.chunks.length + 1) - 1) % (l.chunks.length + 1) = l.chunks.length := by
        rw [show 0 + (l.chunks.length + 1) - 1 = l.chunks.length by omega]; exact Nat.mod_eq_of_lt (by omega)
      have hm1' : (l.chunks.length + 1 - 1) % (l.chunks.length + 1) = l.chunks.length := by
        rw [Nat.add_sub_cancel]; exact Nat.mod_eq_of_lt (by omega)
      have h1m : 1 % (l.chunks.length + 1) = 1 := Nat.mod_eq_of_lt (by omega)
      -- where does the cursor `d` lie relative to the chunk `j`?
      by_cases hd0 : d = 0
      · -- the proxy: both branches search the whole ring
        subst hd0
        have hP : l.addrAt 0 = l.P := by simp [SmallList.addrAt]
        have hPne : l.P ≠ p := by
          intro h
          have := hR.proxyOut cj (List.mem_of_getElem? hcj)
          unfold Chunk.endOf at this hj2
          have : cj.base ≤ p := by omega
          omega
        rw [hP]
        by_cases hlt : l.P < p
        · rw [if_pos hlt]
          unfold SmallList.findChunkRange
          simp only [Nat.zero_add, h1m, hm1, hm1']
          exact go_complete l hR p j hj (l.chunks.length + 1 + 2) 1 l.chunks.length (Nat.le_refl _) (by omega) hjL (Nat.le_refl _) (by omega)
        · rw [if_neg hlt, if_pos (by omega)]
          unfold SmallList.findChunkRange
          simp only [Nat.zero_add, h1m, hm1, hm1']
          exact go_complete l hR p j hj (l.chunks.length + 1 + 2) 1 l.chunks.length (Nat.le_refl _) (by omega) hjL (Nat.le_refl _) (by omega)
      · -- a chunk
        have hdpos : 1 ≤ d := by omega
        have hdl : d - 1 < l.chunks.length := by omega
        have hcd := List.getElem?_eq_getElem hdl
        have haddr : l.addrAt d = (l.chunks[d - 1]).base := by
          have := addrAt_succ l (d - 1) _ hcd
          rwa [show d - 1 + 1 = d by omega] at this
        have hdj : d ≠ j := fun h => h1 (h ▸ hj)
        rcases Nat.lt_or_gt_of_ne hdj with hlt | hgt
        · -- the cursor is below the chunk: its address is smaller than the pointer
          have hs := hR.sorted (d - 1) (j - 1) _ cj hcd hcj (by omega)
          unfold Chunk.endOf at hs
          rw [haddr, if_pos (by omega)]
          unfold SmallList.findChunkRange
          have e : (d + 1) % (l.chunks.length + 1) = d + 1 := Nat.mod_eq_of_lt (by omega)
          simp only [Nat.zero_add, e, hm1, hm1']
          exact go_complete l hR p j hj (l.chunks.length + 1 + 2) (d + 1) l.chunks.length (by omega) (by omega) hjL (Nat.le_refl _) (by omega)
        · -- the cursor is above the chunk
          have hs := hR.sorted (j - 1) (d - 1) cj _ hcj hcd (by omega)
          rw [haddr, if_neg (by omega), if_pos (by omega)]
          unfold SmallList.findChunkRange
          have e : (d + (l.chunks.length + 1) - 1) % (l.chunks.length + 1) = d - 1 := by
            rw [show d + (l.chunks.length + 1) - 1 = (d - 1) + (l.chunks.length + 1) by omega, Nat.add_mod_right]
            exact Nat.mod_eq_of_lt (by omega)
          simp only [h1m, e]
          exact go_complete l hR p j hj (l.chunks.length + 1 + 2) 1 (d - 1) (Nat.le_refl _) (by omega) (by omega) (by omega) (by omega)

end MemVerif.Model
