import MemVerif.Model.CollRun
import MemVerif.Lemmas.C01PoolG
/-!
C01 for `memory_pool_collection` over the intrusive free lists (node operations): the invariant `CInv` and its
preservation by `deallocate_node`, `try_allocate_node` and `allocate_node` (bucket empty: carve the default capacity
from the bump stack over the current block, or give the block's remainder to the bucket and grow).

The collection keeps an array of free lists at the start of its first block and a bump pointer `cur` over the current
block; every bucket's cells are carved from that stack. The invariant is about *byte ranges*: the list array, every
free cell of every bucket (with that bucket's node size) and every live node are pairwise disjoint, inside a used
block, and — in the current block — below `cur`. Each bucket's own list invariant (`AnyList.SInv`) rides along.
-/
namespace MemVerif.Model
open MemVerif.Gen

/-! ### ranges -/

/-- byte ranges `(address, length)` do not overlap -/
def RDisj2 (r s : Nat × Nat) : Prop := r.1 + r.2 ≤ s.1 ∨ s.1 + s.2 ≤ r.1

theorem RDisj2.symm {r s : Nat × Nat} (h : RDisj2 r s) : RDisj2 s r := Or.symm h

/-- the ranges are pairwise disjoint, inside used blocks, and those in the top block end at or below `cur` -/
structure RInv (used : List Blk) (cur : Nat) (R : List (Nat × Nat)) : Prop where
  disj : R.Pairwise RDisj2
  inside : ∀ r ∈ R, ∃ b ∈ used, InBlk b r.1 r.2
  below : ∀ b0 rest, used = b0 :: rest → ∀ r ∈ R, InBlk b0 r.1 r.2 → r.1 + r.2 ≤ cur

theorem RInv.perm {used : List Blk} {cur : Nat} {R R' : List (Nat × Nat)} (h : RInv used cur R) (hp : R'.Perm R) :
    RInv used cur R' :=
  ⟨(List.Perm.pairwise_iff RDisj2.symm hp).mpr h.disj, fun r hr => h.inside r (hp.subset hr),
    fun b0 rest hu r hr => h.below b0 rest hu r (hp.subset hr)⟩

theorem perm_eraseIdx {α} {l : List α} {j : Nat} {x : α} (h : l[j]? = some x) : l.Perm (x :: l.eraseIdx j) := by
  induction l generalizing j with
  | nil => simp at h
  | cons y ys ih =>
    cases j with
    | zero => simp at h; subst h; simp
    | succ j =>
      simp only [List.getElem?_cons_succ] at h
      simp only [List.eraseIdx_cons_succ]
      exact (List.Perm.cons y (ih h)).trans (List.Perm.swap x y _)

/-! ### the collection's ranges -/

/-- node size of the bucket that serves requests of `size` bytes -/
def Coll.nsOf (c : Coll) (size : Nat) : Nat := ((c.lists[c.listIndex size]?).map AnyList.nodeSize).getD 0

def listRanges (l : AnyList) : List (Nat × Nat) := l.cells.map fun x => (x, l.nodeSize)
def cellRanges (lists : List AnyList) : List (Nat × Nat) := lists.flatMap listRanges
def liveRanges (c : Coll) (live : List (Nat × Nat)) : List (Nat × Nat) := live.map fun as => (as.1, c.nsOf as.2)

/-- the list array, every free cell, every live node -/
def collRanges (arr arrLen : Nat) (c : Coll) (live : List (Nat × Nat)) : List (Nat × Nat) :=
  (arr, arrLen) :: (cellRanges c.lists ++ liveRanges c live)

/-- **The invariant of a collection over intrusive lists** with the list array at `[arr, arr + arrLen)` -/
structure CInv (arr arrLen : Nat) (c : Coll) (live : List (Nat × Nat)) : Prop where
  blocks : BlocksOk c.arena.used
  top : ∃ b0 rest, c.arena.used = b0 :: rest ∧ b0.usable.base ≤ c.cur ∧ c.cur ≤ b0.base + b0.size
  lists : ∀ (i : Nat) (l : AnyList), c.lists[i]? = some l → (∀ P, l.obj ≠ .small P) ∧ l.SInv c.arena.used [] ∧ 0 < l.nodeSize
  proxies : ∀ (i : Nat) (l : AnyList), c.lists[i]? = some l → ∀ B, l.obj = .ordered B → arr ≤ B ∧ B + 16 ≤ arr + arrLen
  rinv : RInv c.arena.used c.cur (collRanges arr arrLen c live)
  liveOk : ∀ as ∈ live, ∃ l, c.lists[c.listIndex as.2]? = some l

/-- for the intrusive lists the list invariant does not mention the ledger -/
theorem SInv_irrel {l : AnyList} {used : List Blk} (L1 L2 : List (Nat × Nat)) (hint : ∀ P, l.obj ≠ .small P)
    (h : l.SInv used L1) : l.SInv used L2 := by
  cases l with
  | free fl => exact h
  | ord ol => exact h
  | small sl => exact absurd rfl (hint sl.P)

theorem Coll.setList_listIndex (c : Coll) (i : Nat) (l : AnyList) (s : Nat) : (c.setList i l).listIndex s = c.listIndex s := rfl

theorem Coll.setList_nsOf (c : Coll) (i : Nat) (l l' : AnyList) (hl : c.lists[i]? = some l) (hns : l'.nodeSize = l.nodeSize)
    (s : Nat) : (c.setList i l').nsOf s = c.nsOf s := by
  unfold Coll.nsOf
  rw [Coll.setList_listIndex]
  unfold Coll.setList
  simp only [List.getElem?_set]
  by_cases hk : i = c.listIndex s
  · subst hk
    have hlt : c.listIndex s < c.lists.length := by
      rcases Nat.lt_or_ge (c.listIndex s) c.lists.length with h | h
      · exact h
      · rw [List.getElem?_eq_none h] at hl; cases hl
    have e : c.lists[c.listIndex s] = l := by
      have := List.getElem?_eq_getElem hlt; rw [hl] at this; exact (Option.some.inj this).symm
    simp [hlt, hns, e]
  · simp [hk]

theorem liveRanges_setList (c : Coll) (i : Nat) (l l' : AnyList) (hl : c.lists[i]? = some l) (hns : l'.nodeSize = l.nodeSize)
    (live : List (Nat × Nat)) : liveRanges (c.setList i l') live = liveRanges c live := by
  unfold liveRanges
  apply List.map_congr_left
  intro as _
  rw [Coll.setList_nsOf c i l l' hl hns]

/-- cell ranges when list `i` is replaced -/
theorem cellRanges_set (lists : List AnyList) (i : Nat) (l l' : AnyList) (hl : lists[i]? = some l) :
    cellRanges lists = cellRanges (lists.take i) ++ listRanges l ++ cellRanges (lists.drop (i + 1)) ∧
    cellRanges (lists.set i l') = cellRanges (lists.take i) ++ listRanges l' ++ cellRanges (lists.drop (i + 1)) :=
  flatMap_set listRanges lists i l l' hl

/-- what every intrusive-list operation keeps of the collection's shape -/
theorem CInv.setList_shape {arr arrLen : Nat} {c : Coll} {live : List (Nat × Nat)} (h : CInv arr arrLen c live) {i : Nat}
    {l l' : AnyList} (hl : c.lists[i]? = some l) (hsame : AnyList.Same l l') (hS : l'.SInv c.arena.used []) :
    (∀ (k : Nat) (m : AnyList), (c.setList i l').lists[k]? = some m → (∀ P, m.obj ≠ .small P) ∧ m.SInv c.arena.used [] ∧ 0 < m.nodeSize) ∧
    (∀ (k : Nat) (m : AnyList), (c.setList i l').lists[k]? = some m → ∀ B, m.obj = .ordered B → arr ≤ B ∧ B + 16 ≤ arr + arrLen) ∧
    (∀ s, (∃ m, c.lists[c.listIndex s]? = some m) → ∃ m, (c.setList i l').lists[(c.setList i l').listIndex s]? = some m) := by
  have hlt : i < c.lists.length := by
    rcases Nat.lt_or_ge i c.lists.length with h' | h'
    · exact h'
    · rw [List.getElem?_eq_none h'] at hl; cases hl
  obtain ⟨h1, _, h3⟩ := h.lists i l hl
  refine ⟨?_, ?_, ?_⟩
  · intro k m hm
    unfold Coll.setList at hm
    simp only [List.getElem?_set] at hm
    by_cases hk : i = k
    · subst hk
      simp only [hlt, if_true, Option.some.injEq] at hm
      subst hm
      refine ⟨?_, hS, by rw [hsame.ns]; exact h3⟩
      intro P; rw [hsame.obj]; exact h1 P
    · simp only [hk, if_false] at hm
      exact h.lists k m hm
  · intro k m hm B hB
    unfold Coll.setList at hm
    simp only [List.getElem?_set] at hm
    by_cases hk : i = k
    · subst hk
      simp only [hlt, if_true, Option.some.injEq] at hm
      subst hm
      rw [hsame.obj] at hB
      exact h.proxies i l hl B hB
    · simp only [hk, if_false] at hm
      exact h.proxies k m hm B hB
  · intro s ⟨m, hm⟩
    rw [Coll.setList_listIndex]
    unfold Coll.setList
    simp only [List.getElem?_set]
    by_cases hk : i = c.listIndex s
    · subst hk; exact ⟨l', by simp [hlt]⟩
    · exact ⟨m, by simp [hk, hm]⟩

/-! ### release of a live node -/

/-- facts about a live node needed by its bucket's release function -/
theorem CInv.liveFacts {arr arrLen : Nat} {c : Coll} {live : List (Nat × Nat)} (h : CInv arr arrLen c live) {j a s : Nat}
    (hj : live[j]? = some (a, s)) {l : AnyList} (hl : c.lists[c.listIndex s]? = some l) :
    l.CellsApart a 1 ∧ AnyList.OutObj l.obj a l.nodeSize ∧ 0 < a := by
  have hmem : (a, s) ∈ live := List.mem_of_getElem? hj
  have hns : c.nsOf s = l.nodeSize := by unfold Coll.nsOf; rw [hl]; rfl
  have hlive : (a, l.nodeSize) ∈ collRanges arr arrLen c live := by
    unfold collRanges liveRanges
    refine List.mem_cons_of_mem _ (List.mem_append_right _ (List.mem_map.mpr ⟨(a, s), hmem, ?_⟩))
    simp only [hns]
  have hd := h.rinv.disj
  unfold collRanges at hd
  rw [List.pairwise_cons, List.pairwise_append] at hd
  have hmemLive : (a, l.nodeSize) ∈ liveRanges c live := by
    unfold liveRanges; exact List.mem_map.mpr ⟨(a, s), hmem, by simp only [hns]⟩
  refine ⟨?_, ?_, ?_⟩
  · intro y hy
    have hyR : (y, l.nodeSize) ∈ cellRanges c.lists := by
      unfold cellRanges
      exact List.mem_flatMap.mpr ⟨l, List.mem_of_getElem? hl, List.mem_map.mpr ⟨y, hy, rfl⟩⟩
    have := hd.2.2.2 _ hyR _ hmemLive
    unfold RDisj2 at this
    simp only at this
    omega
  · cases hobj : l.obj with
    | unordered => trivial
    | small P => exact absurd hobj ((h.lists _ l hl).1 P)
    | ordered B =>
      obtain ⟨p1, p2⟩ := h.proxies _ l hl B hobj
      have := hd.1 _ (List.mem_append_right _ hmemLive)
      unfold RDisj2 at this
      simp only at this
      unfold AnyList.OutObj AnyList.ListObj.addr
      simp only
      omega
  · obtain ⟨b, hb, hin⟩ := h.rinv.inside _ hlive
    have hw := h.blocks.1 b hb
    unfold Blk.Wf at hw
    unfold InBlk at hin
    simp only at hin
    omega

/-- `deallocate_node(ptr, size)` of the `j`-th live node: succeeds in every configuration, keeps the invariant -/
theorem Coll.deallocateNode_inv (cfg : Cfg) {arr arrLen : Nat} {c : Coll} {live : List (Nat × Nat)}
    (h : CInv arr arrLen c live) {j a s : Nat} (hj : live[j]? = some (a, s)) :
    (c.deallocateNode cfg a s).out = .done ∧ (c.deallocateNode cfg a s).ev = [] ∧
      CInv arr arrLen (c.deallocateNode cfg a s).st (live.eraseIdx j) := by
  have hmem : (a, s) ∈ live := List.mem_of_getElem? hj
  obtain ⟨l, hl⟩ := h.liveOk (a, s) hmem
  simp only at hl
  obtain ⟨hint, hS, hpos⟩ := h.lists _ l hl
  obtain ⟨hap, hout, ha0⟩ := h.liveFacts hj hl
  obtain ⟨l', hd, hperm, hsame, hS'⟩ := AnyList.deallocate_spec cfg (live := [(a, s)]) (i := 0) (b := s)
    (SInv_irrel [] [(a, s)] hint hS) rfl hap hout ha0
  have hS'' : l'.SInv c.arena.used [] := by simpa using hS'
  have hns : c.nsOf s = l.nodeSize := by unfold Coll.nsOf; rw [hl]; rfl
  unfold Coll.deallocateNode
  simp only [hl, hd]
  refine ⟨trivial, trivial, ?_⟩
  obtain ⟨s1, s2, s3⟩ := h.setList_shape hl hsame hS''
  refine ⟨h.blocks, h.top, s1, s2, ?_, ?_⟩
  · -- the ranges are a permutation of the old ones
    show RInv c.arena.used c.cur (collRanges arr arrLen (c.setList (c.listIndex s) l') (live.eraseIdx j))
    apply h.rinv.perm
    unfold collRanges
    refine List.Perm.cons _ ?_
    rw [liveRanges_setList c _ l l' hl hsame.ns]
    obtain ⟨e1, e2⟩ := cellRanges_set c.lists (c.listIndex s) l l' hl
    show (cellRanges (c.lists.set (c.listIndex s) l') ++ liveRanges c (live.eraseIdx j)).Perm _
    rw [e1, e2]
    -- the released node moves from the live part to list `i`
    have hlr : (listRanges l').Perm ((a, l.nodeSize) :: listRanges l) := by
      unfold listRanges
      rw [hsame.ns]
      exact (hperm.map _)
    have hlive : (liveRanges c live).Perm ((a, l.nodeSize) :: liveRanges c (live.eraseIdx j)) := by
      unfold liveRanges
      have := (perm_eraseIdx hj).map (fun as : Nat × Nat => (as.1, c.nsOf as.2))
      simpa [hns] using this
    generalize cellRanges (List.take (c.listIndex s) c.lists) = X at *
    generalize cellRanges (List.drop (c.listIndex s + 1) c.lists) = Y at *
    generalize liveRanges c (live.eraseIdx j) = L' at *
    have t1 : (X ++ listRanges l' ++ Y ++ L').Perm (X ++ ((a, l.nodeSize) :: listRanges l) ++ Y ++ L') :=
      List.Perm.append_right _ (List.Perm.append_right _ (List.Perm.append_left _ hlr))
    have t2 : (X ++ listRanges l ++ Y ++ liveRanges c live).Perm (X ++ listRanges l ++ Y ++ ((a, l.nodeSize) :: L')) :=
      List.Perm.append_left _ hlive
    have t3 : (X ++ ((a, l.nodeSize) :: listRanges l) ++ Y ++ L').Perm (X ++ listRanges l ++ Y ++ ((a, l.nodeSize) :: L')) := by
      simp only [List.append_assoc, List.cons_append]
      refine List.Perm.append_left _ ?_
      have := List.perm_middle (a := (a, l.nodeSize)) (l₁ := listRanges l ++ Y) (l₂ := L')
      simpa using this.symm
    exact t1.trans (t3.trans t2.symm)
  · intro as has
    exact s3 as.2 (h.liveOk as ((List.eraseIdx_sublist live j).subset has))

/-! ### giving a fresh region of the current block to a bucket -/

/-- `insert(mem, size)` into an intrusive list, for any region that is apart from the list's cells and proxy words -/
theorem AnyList.insert_region (cfg : Cfg) {l l' : AnyList} {used : List Blk} (hint : ∀ P, l.obj ≠ .small P)
    (hS : l.SInv used []) (hpos : 0 < l.nodeSize) {mem size : Nat}
    (hap : l.CellsApart mem (size / l.nodeSize)) (hout : AnyList.OutObj l.obj mem size) (hm0 : 0 < mem)
    (h : l.insert cfg mem size = .ok l') :
    l'.cells.Perm (blockNodes mem l.nodeSize (size / l.nodeSize) ++ l.cells) ∧ AnyList.Same l l' ∧ l'.SInv used [] := by
  cases l with
  | small sl => exact absurd rfl (hint sl.P)
  | free fl =>
    simp only [AnyList.nodeSize] at hpos ⊢
    by_cases hk : size / fl.ns = 0
    · simp [AnyList.insert, FreeList.insert, FreeList.insertImpl, hk] at h
    · simp only [AnyList.insert, FreeList.insert, FreeList.insertImpl] at h
      rw [if_neg hk] at h
      simp only [ListRes.ok.injEq] at h
      subst h
      refine ⟨List.Perm.refl _, ⟨rfl, rfl, fun _ => rfl⟩, ?_⟩
      simp only [AnyList.SInv] at hS ⊢
      simp [hS]; omega
  | ord ol =>
    simp only [AnyList.SInv] at hS
    simp only [AnyList.nodeSize] at hpos hap ⊢
    by_cases hk : size / ol.ns = 0
    · simp [AnyList.insert, OrdList.insert, OrdList.insertImpl, hk] at h
    · have hdiv := Nat.div_mul_le_self size ol.ns
      have hout' : RunOut ol mem (size / ol.ns) := by
        apply AnyList.OutObj.ord hS
        simp only [AnyList.obj, AnyList.OutObj, AnyList.ListObj.addr] at hout ⊢
        omega
      obtain ⟨l1, h1, h2, h3, h4, _, h6⟩ := OrdList.insert_run cfg ol hS mem size (Nat.pos_of_ne_zero hk) hap hout' hm0
      simp only [AnyList.insert, h1, ListRes.ok.injEq] at h
      subst h
      exact ⟨h6, ⟨h3, by simp [AnyList.obj, h4], fun b => by simp [AnyList.blockCells, h3]⟩, h2⟩

/-- everything the collection tracks ends below `cur` in the current block or lies in another block: a region of the
current block at or above `cur` is apart from all of it -/
theorem RInv.fresh {used : List Blk} {cur : Nat} {R : List (Nat × Nat)} (h : RInv used cur R) (hb : BlocksOk used)
    {b0 : Blk} {rest : List Blk} (hu : used = b0 :: rest) {p len : Nat} (hp : cur ≤ p) (hlo : b0.base ≤ p)
    (hhi : p + len ≤ b0.base + b0.size) : ∀ r ∈ R, r.1 + r.2 ≤ p ∨ p + len ≤ r.1 := by
  intro r hr
  obtain ⟨b, hbm, hin⟩ := h.inside r hr
  unfold InBlk at hin
  by_cases hbe : b = b0
  · subst hbe
    have := h.below b rest hu r hr (by unfold InBlk; exact hin)
    omega
  · rw [hu] at hbm hb
    have hbr : b ∈ rest := by
      rcases List.mem_cons.mp hbm with h1 | h1
      · exact absurd h1 hbe
      · exact h1
    have hd := (List.pairwise_cons.mp hb.2).1 b hbr
    unfold Blk.Disj at hd
    omega

/-- adding the cells of a region of the current block that nothing tracked overlaps -/
theorem RInv.addFree {used : List Blk} {cur : Nat} {R : List (Nat × Nat)} (h : RInv used cur R)
    {b0 : Blk} {rest : List Blk} (hu : used = b0 :: rest) {p ns k : Nat}
    (hfresh : ∀ r ∈ R, r.1 + r.2 ≤ p ∨ p + k * ns ≤ r.1)
    (hlo : b0.base + implOff ≤ p) (hhi : p + k * ns ≤ cur) (hc : cur ≤ b0.base + b0.size) :
    RInv used cur ((blockNodes p ns k).map (fun x => (x, ns)) ++ R) := by
  have hin : ∀ x ∈ blockNodes p ns k, p ≤ x ∧ x + ns ≤ p + k * ns := by
    intro x hx
    obtain ⟨j, hj, rfl⟩ := mem_blockNodes.mp hx
    have : (j + 1) * ns ≤ k * ns := Nat.mul_le_mul_right _ hj
    rw [Nat.add_mul] at this
    omega
  refine ⟨?_, ?_, ?_⟩
  · rw [List.pairwise_append]
    refine ⟨?_, h.disj, ?_⟩
    · rw [List.pairwise_map]
      exact (blockNodes_pairwise p ns k).imp (fun {a b} hab => by unfold Apart at hab; unfold RDisj2; simpa using hab)
    · intro r hr s hs
      obtain ⟨x, hx, rfl⟩ := List.mem_map.mp hr
      have h1 := hin x hx
      have h2 := hfresh s hs
      unfold RDisj2
      simp only
      omega
  · intro r hr
    rcases List.mem_append.mp hr with hr | hr
    · obtain ⟨x, hx, rfl⟩ := List.mem_map.mp hr
      have h1 := hin x hx
      refine ⟨b0, by rw [hu]; simp, ?_⟩
      unfold InBlk
      simp only
      omega
    · exact h.inside r hr
  · intro b0' rest' hu' r hr hib
    rcases List.mem_append.mp hr with hr | hr
    · obtain ⟨x, hx, rfl⟩ := List.mem_map.mp hr
      have h1 := hin x hx
      simp only
      omega
    · exact h.below b0' rest' hu' r hr hib

/-- a byte region of the current block that nothing tracked overlaps and that ends at or below `cur`:
what `reserve_memory` hands to `insert` -/
structure RegionFree (arr arrLen : Nat) (c : Coll) (live : List (Nat × Nat)) (p size : Nat) : Prop where
  apart : ∀ r ∈ collRanges arr arrLen c live, r.1 + r.2 ≤ p ∨ p + size ≤ r.1
  inTop : ∀ b0 rest, c.arena.used = b0 :: rest → b0.base + implOff ≤ p ∧ p + size ≤ c.cur

/-- `cur` moves up inside the block: the invariant is kept, and what was skipped is free -/
theorem CInv.bump {arr arrLen : Nat} {c : Coll} {live : List (Nat × Nat)} (h : CInv arr arrLen c live) {p size cur' : Nat}
    (hp : c.cur ≤ p) (hhi : p + size ≤ cur') (h2 : ∀ b0 rest, c.arena.used = b0 :: rest → cur' ≤ b0.base + b0.size) :
    CInv arr arrLen { c with cur := cur' } live ∧ RegionFree arr arrLen { c with cur := cur' } live p size := by
  obtain ⟨b0, rest, hu, t1, t2⟩ := h.top
  have h1 : c.cur ≤ cur' := by omega
  have hc' := h2 b0 rest hu
  have t1' : b0.base + implOff ≤ c.cur := by unfold Blk.usable at t1; exact t1
  refine ⟨⟨h.blocks, ⟨b0, rest, hu, Nat.le_trans t1 h1, hc'⟩, h.lists, h.proxies, ?_, h.liveOk⟩, ?_, ?_⟩
  · exact ⟨h.rinv.disj, h.rinv.inside, fun b0 rest hu r hr hi => Nat.le_trans (h.rinv.below b0 rest hu r hr hi) h1⟩
  · exact h.rinv.fresh h.blocks hu (p := p) (len := size) hp (by omega) (by omega)
  · intro b0' rest' hu'
    have hu2 : c.arena.used = b0' :: rest' := hu'
    rw [hu] at hu2
    obtain ⟨rfl, rfl⟩ := List.cons.inj hu2
    exact ⟨by omega, hhi⟩

/-- **a free region `[p, p + size)` is inserted into bucket `i`**: the invariant is kept -/
theorem CInv.insertFree (cfg : Cfg) {arr arrLen : Nat} {c : Coll} {live : List (Nat × Nat)} (h : CInv arr arrLen c live)
    {i : Nat} {l l' : AnyList} (hl : c.lists[i]? = some l) {p size : Nat} (hfree : RegionFree arr arrLen c live p size)
    (hins : l.insert cfg p size = .ok l') :
    CInv arr arrLen (c.setList i l') live := by
  obtain ⟨b0, rest, hu, t1, t2⟩ := h.top
  obtain ⟨f1, f2⟩ := hfree.inTop b0 rest hu
  obtain ⟨hint, hS, hpos⟩ := h.lists i l hl
  have hw := h.blocks.1 b0 (by rw [hu]; simp)
  unfold Blk.Wf at hw
  have hdiv := Nat.div_mul_le_self size l.nodeSize
  have hfresh := hfree.apart
  have hap : l.CellsApart p (size / l.nodeSize) := by
    intro y hy
    have hyR : (y, l.nodeSize) ∈ collRanges arr arrLen c live := by
      unfold collRanges cellRanges
      exact List.mem_cons_of_mem _ (List.mem_append_left _
        (List.mem_flatMap.mpr ⟨l, List.mem_of_getElem? hl, List.mem_map.mpr ⟨y, hy, rfl⟩⟩))
    have := hfresh _ hyR
    simp only at this
    omega
  have hout : AnyList.OutObj l.obj p size := by
    cases hobj : l.obj with
    | unordered => trivial
    | small P => exact absurd hobj (hint P)
    | ordered B =>
      obtain ⟨p1, p2⟩ := h.proxies i l hl B hobj
      have := hfresh (arr, arrLen) (by unfold collRanges; simp)
      unfold AnyList.OutObj AnyList.ListObj.addr
      simp only at this ⊢
      omega
  obtain ⟨hperm, hsame, hS'⟩ := AnyList.insert_region cfg hint hS hpos hap hout (by omega) hins
  obtain ⟨s1, s2, s3⟩ := h.setList_shape hl hsame hS'
  refine ⟨h.blocks, ⟨b0, rest, hu, t1, t2⟩, s1, s2, ?_, fun as has => s3 as.2 (h.liveOk as has)⟩
  show RInv c.arena.used c.cur (collRanges arr arrLen (c.setList i l') live)
  have hadd := h.rinv.addFree hu (p := p) (ns := l.nodeSize) (k := size / l.nodeSize)
    (fun r hr => by have := hfresh r hr; omega) f1 (by omega) t2
  apply hadd.perm
  unfold collRanges
  rw [liveRanges_setList c _ l l' hl hsame.ns]
  obtain ⟨e1, e2⟩ := cellRanges_set c.lists i l l' hl
  show ((arr, arrLen) :: (cellRanges (c.lists.set i l') ++ liveRanges c live)).Perm _
  rw [e1, e2]
  have hlr : (listRanges l').Perm ((blockNodes p l.nodeSize (size / l.nodeSize)).map (fun x => (x, l.nodeSize)) ++ listRanges l) := by
    unfold listRanges
    rw [hsame.ns, ← List.map_append]
    exact hperm.map _
  generalize cellRanges (List.take i c.lists) = X at *
  generalize cellRanges (List.drop (i + 1) c.lists) = Y at *
  generalize (blockNodes p l.nodeSize (size / l.nodeSize)).map (fun x => (x, l.nodeSize)) = N at *
  generalize liveRanges c live = L at *
  have t1 : ((arr, arrLen) :: (X ++ listRanges l' ++ Y ++ L)).Perm ((arr, arrLen) :: (X ++ (N ++ listRanges l) ++ Y ++ L)) :=
    List.Perm.cons _ (List.Perm.append_right _ (List.Perm.append_right _ (List.Perm.append_left _ hlr)))
  refine t1.trans ?_
  have t2 : (X ++ (N ++ listRanges l) ++ Y ++ L).Perm (N ++ (X ++ listRanges l ++ Y ++ L)) := by
    simp only [List.append_assoc]
    exact List.perm_append_comm_assoc X N _
  exact (List.Perm.cons _ t2).trans (List.perm_middle (l₁ := N) (a := (arr, arrLen))).symm

/-- bump + insert in one go (`try_reserve_memory`, `insert_rest`) -/
theorem CInv.insertRegion (cfg : Cfg) {arr arrLen : Nat} {c : Coll} {live : List (Nat × Nat)} (h : CInv arr arrLen c live)
    {i : Nat} {l l' : AnyList} (hl : c.lists[i]? = some l) {p size cur' : Nat} (hp : c.cur ≤ p) (hhi : p + size ≤ cur')
    (hc : ∀ b0 rest, c.arena.used = b0 :: rest → cur' ≤ b0.base + b0.size)
    (hins : l.insert cfg p size = .ok l') :
    CInv arr arrLen { (c.setList i l') with cur := cur' } live := by
  obtain ⟨hb, hf⟩ := h.bump hp hhi hc
  exact hb.insertFree cfg (c := { c with cur := cur' }) hl hf hins

/-! ### taking a node from a non-empty bucket -/

theorem CInv.pop {arr arrLen : Nat} {c : Coll} {live : List (Nat × Nat)} (h : CInv arr arrLen c live) {s a : Nat}
    {l l2 : AnyList} (hl : c.lists[c.listIndex s]? = some l) (hal : l.allocate = some (l2, a)) :
    CInv arr arrLen (c.setList (c.listIndex s) l2) ((a, s) :: live) := by
  obtain ⟨hint, hS, hpos⟩ := h.lists _ l hl
  obtain ⟨A, B, hc1, hc2, hsame, hS'⟩ := AnyList.allocate_spec (bytes := 0) hS (Nat.zero_le _) hal
  have hS'' : l2.SInv c.arena.used [] := SInv_irrel _ [] (by intro P; rw [hsame.obj]; exact hint P) hS'
  obtain ⟨s1, s2, s3⟩ := h.setList_shape hl hsame hS''
  have hns : c.nsOf s = l.nodeSize := by unfold Coll.nsOf; rw [hl]; rfl
  refine ⟨h.blocks, h.top, s1, s2, ?_, ?_⟩
  · show RInv c.arena.used c.cur (collRanges arr arrLen (c.setList (c.listIndex s) l2) ((a, s) :: live))
    apply h.rinv.perm
    unfold collRanges
    refine List.Perm.cons _ ?_
    rw [liveRanges_setList c _ l l2 hl hsame.ns]
    obtain ⟨e1, e2⟩ := cellRanges_set c.lists (c.listIndex s) l l2 hl
    show (cellRanges (c.lists.set (c.listIndex s) l2) ++ liveRanges c ((a, s) :: live)).Perm _
    rw [e1, e2]
    have h1 : listRanges l = A.map (fun x => (x, l.nodeSize)) ++ (a, l.nodeSize) :: B.map (fun x => (x, l.nodeSize)) := by
      unfold listRanges; rw [hc1]; simp
    have h2 : listRanges l2 = A.map (fun x => (x, l.nodeSize)) ++ B.map (fun x => (x, l.nodeSize)) := by
      unfold listRanges; rw [hc2, hsame.ns]; simp
    have h3 : liveRanges c ((a, s) :: live) = (a, l.nodeSize) :: liveRanges c live := by
      unfold liveRanges; simp [hns]
    rw [h1, h2, h3]
    generalize cellRanges (List.take (c.listIndex s) c.lists) = X
    generalize cellRanges (List.drop (c.listIndex s + 1) c.lists) = Y
    generalize liveRanges c live = L
    generalize A.map (fun x => (x, l.nodeSize)) = A'
    generalize B.map (fun x => (x, l.nodeSize)) = B'
    simp only [List.append_assoc, List.cons_append]
    refine List.Perm.append_left _ (List.Perm.append_left _ ?_)
    have := List.perm_middle (a := (a, l.nodeSize)) (l₁ := B' ++ Y) (l₂ := L)
    simpa using this
  · intro as has
    rcases List.mem_cons.mp has with rfl | has
    · exact s3 s ⟨l, hl⟩
    · exact s3 as.2 (h.liveOk as has)

/-! ### what no operation changes: the bucket key, and the used blocks only grow -/

structure CExt (c c1 : Coll) : Prop where
  policy : c1.policy = c.policy
  minElem : c1.minElem = c.minElem
  used : c.arena.used <:+ c1.arena.used

theorem CExt.refl (c : Coll) : CExt c c := ⟨rfl, rfl, List.suffix_refl _⟩
theorem CExt.trans {a b c : Coll} (h1 : CExt a b) (h2 : CExt b c) : CExt a c :=
  ⟨h2.policy.trans h1.policy, h2.minElem.trans h1.minElem, h1.used.trans h2.used⟩
theorem CExt.listIndex {c c1 : Coll} (h : CExt c c1) (s : Nat) : c1.listIndex s = c.listIndex s := by
  unfold Coll.listIndex; rw [h.policy, h.minElem]
theorem CExt.setList (c : Coll) (i : Nat) (l : AnyList) : CExt c (c.setList i l) := ⟨rfl, rfl, List.suffix_refl _⟩
theorem CExt.setListCur (c : Coll) (i : Nat) (l : AnyList) (x : Nat) : CExt c { (c.setList i l) with cur := x } :=
  ⟨rfl, rfl, List.suffix_refl _⟩
theorem CExt.cur (c : Coll) (x : Nat) : CExt c { c with cur := x } := ⟨rfl, rfl, List.suffix_refl _⟩

theorem Coll.insertRest_ext (cfg : Cfg) (c : Coll) (i : Nat) {c1 : Coll} (h : c.insertRest cfg i = some c1) :
    CExt c c1 ∧ c1.arena = c.arena := by
  unfold Coll.insertRest at h
  split at h
  · simp only at h
    split at h
    · cases h; exact ⟨CExt.refl _, rfl⟩
    · split at h
      · split at h
        · cases h; exact ⟨CExt.setListCur _ _ _ _, rfl⟩
        · cases h
      · cases h; exact ⟨CExt.refl _, rfl⟩
  · cases h

theorem Coll.tryReserve_ext (cfg : Cfg) (c : Coll) (i cap : Nat) {c1 : Coll} (h : c.tryReserve cfg i cap = some c1) :
    CExt c c1 ∧ c1.arena = c.arena := by
  unfold Coll.tryReserve at h
  split at h
  · split at h
    · exact Coll.insertRest_ext cfg c i h
    · split at h
      · cases h; exact ⟨CExt.setListCur _ _ _ _, rfl⟩
      · cases h
  · cases h

theorem Coll.reserve_ext (cfg : Cfg) (c : Coll) (i cap : Nat) (env : List (Option Nat)) :
    CExt c (c.reserve cfg i cap env).1.st := by
  unfold Coll.reserve
  split
  · exact CExt.refl _
  · split
    · exact CExt.cur _ _
    · split
      · exact CExt.refl _
      · rename_i c1 hr
        obtain ⟨h1, h2⟩ := Coll.insertRest_ext cfg c i hr
        cases ha : c1.arena.allocateBlock env with
        | envMissing => exact h1
        | fail a ex ev _ =>
          simp only
          exact ⟨h1.policy, h1.minElem, by rw [show a.used = c1.arena.used from Arena.allocateBlock_fail ha]; exact h1.used⟩
        | ok a b ev _ =>
          obtain ⟨blk, hu, _⟩ := Arena.allocateBlock_ok ha
          have hs : c.arena.used <:+ a.used := by rw [hu]; exact h1.used.trans (List.suffix_cons _ _)
          simp only
          split <;> exact ⟨h1.policy, h1.minElem, hs⟩

/-! ### `insert_rest`, `try_reserve_memory`, `reserve_memory` -/

theorem maxAlign_eq : maxAlign = 2 ^ 4 := by decide

theorem collRanges_congr (arr arrLen : Nat) {c c' : Coll} (live : List (Nat × Nat)) (h3 : c'.lists = c.lists)
    (h4 : c'.policy = c.policy) (h5 : c'.minElem = c.minElem) : collRanges arr arrLen c' live = collRanges arr arrLen c live := by
  unfold collRanges liveRanges Coll.nsOf Coll.listIndex
  rw [h3, h4, h5]

/-- the invariant only reads the used blocks, `cur`, the lists and the bucket key -/
theorem CInv.congr {arr arrLen : Nat} {c c' : Coll} {live : List (Nat × Nat)} (h : CInv arr arrLen c live)
    (h1 : c'.arena.used = c.arena.used) (h2 : c'.cur = c.cur) (h3 : c'.lists = c.lists)
    (h4 : c'.policy = c.policy) (h5 : c'.minElem = c.minElem) : CInv arr arrLen c' live := by
  have hli : ∀ s, c'.listIndex s = c.listIndex s := by intro s; unfold Coll.listIndex; rw [h4, h5]
  refine ⟨by rw [h1]; exact h.blocks, by rw [h1, h2]; exact h.top, by rw [h1, h3]; exact h.lists, by rw [h3]; exact h.proxies,
    by rw [h1, h2, collRanges_congr arr arrLen live h3 h4 h5]; exact h.rinv, ?_⟩
  intro as has
  rw [h3, hli]
  exact h.liveOk as has

theorem CInv.topFacts {arr arrLen : Nat} {c : Coll} {live : List (Nat × Nat)} (h : CInv arr arrLen c live) :
    ∃ b0 rest, c.arena.used = b0 :: rest ∧ c.blockEnd = some (b0.base + b0.size) ∧ b0.base + implOff ≤ c.cur ∧
      c.cur ≤ b0.base + b0.size ∧ b0.base + b0.size ≤ 2 ^ 62 ∧ 0 < b0.base := by
  obtain ⟨b0, rest, hu, t1, t2⟩ := h.top
  have hw := h.blocks.1 b0 (by rw [hu]; simp)
  unfold Blk.Wf at hw
  refine ⟨b0, rest, hu, ?_, by unfold Blk.usable at t1; exact t1, t2, hw.2.2, hw.1⟩
  unfold Coll.blockEnd Arena.currentBlock
  rw [hu]
  simp only [List.head?_cons, Option.map_some, Blk.usable, Option.some.injEq]
  omega

theorem top_unique {used : List Blk} {b0 : Blk} {rest : List Blk} (hu : used = b0 :: rest) {x : Nat}
    (hx : x ≤ b0.base + b0.size) : ∀ b0' rest', used = b0' :: rest' → x ≤ b0'.base + b0'.size := by
  intro b0' rest' hu'
  rw [hu] at hu'
  obtain ⟨rfl, rfl⟩ := List.cons.inj hu'
  exact hx

/-- `insert_rest(pool)`: whatever it does, the invariant is kept -/
theorem CInv.insertRest_spec (cfg : Cfg) {arr arrLen : Nat} {c : Coll} {live : List (Nat × Nat)} (h : CInv arr arrLen c live)
    {i : Nat} {c1 : Coll} (hr : c.insertRest cfg i = some c1) : CInv arr arrLen c1 live := by
  obtain ⟨b0, rest, hu, hbe, t1, t2, t3, t4⟩ := h.topFacts
  unfold Coll.insertRest at hr
  rw [hbe] at hr
  cases hl : c.lists[i]? with
  | none => simp [hl] at hr
  | some l =>
    simp only [hl] at hr
    rw [sub64_eq t2 (by omega)] at hr
    split at hr
    · cases hr; exact h
    · split at hr
      · rename_i hne hcond
        simp only [Bool.and_eq_true, decide_eq_true_eq] at hcond
        split at hr
        · rename_i l' hins
          cases hr
          exact h.insertRegion cfg hl (by omega) (by omega) (top_unique hu (by omega)) hins
        · cases hr
      · cases hr; exact h

/-- `try_reserve_memory(pool, capacity)` -/
theorem CInv.tryReserve_spec (cfg : Cfg) {arr arrLen : Nat} {c : Coll} {live : List (Nat × Nat)} (h : CInv arr arrLen c live)
    (hf : cfg.fence ≤ 2 ^ 32) {i cap : Nat} (hcap : cap < 2 ^ 64) {c1 : Coll} (hr : c.tryReserve cfg i cap = some c1) :
    CInv arr arrLen c1 live := by
  obtain ⟨b0, rest, hu, hbe, t1, t2, t3, t4⟩ := h.topFacts
  unfold Coll.tryReserve at hr
  rw [hbe] at hr
  cases hl : c.lists[i]? with
  | none => simp [hl] at hr
  | some l =>
    simp only [hl] at hr
    cases hfa : fixedAllocate c.cur (b0.base + b0.size) cap maxAlign cfg.fence with
    | none => rw [hfa] at hr; exact h.insertRest_spec cfg hr
    | some pc =>
      obtain ⟨p, cur'⟩ := pc
      rw [hfa] at hr
      simp only at hr
      rw [maxAlign_eq] at hfa
      obtain ⟨_, f2, _, f4, f5⟩ := fixedAllocate_spec (k := 4) (by omega) t2 (by omega) hcap (by omega) hfa
      split at hr
      · rename_i l' hins
        cases hr
        exact h.insertRegion cfg hl (by omega) (by omega) (top_unique hu f5) hins
      · cases hr

/-- a new block on top: everything tracked lies in older blocks -/
theorem CInv.newBlock {arr arrLen : Nat} {c : Coll} {live : List (Nat × Nat)} (h : CInv arr arrLen c live) {a : Arena}
    {blk : Blk} (hu : a.used = blk :: c.arena.used) (hb : BlocksOk a.used) :
    CInv arr arrLen { c with arena := a, cur := blk.usable.base } live := by
  have hw := hb.1 blk (by rw [hu]; simp)
  unfold Blk.Wf at hw
  rw [hu] at hb
  refine ⟨by show BlocksOk a.used; rw [hu]; exact hb, ⟨blk, c.arena.used, hu, Nat.le_refl _, by unfold Blk.usable; simp only; omega⟩,
    ?_, h.proxies, ?_, h.liveOk⟩
  · intro i l hl
    obtain ⟨x1, x2, x3⟩ := h.lists i l hl
    exact ⟨x1, x2.mono (fun b hbm => by show b ∈ a.used; rw [hu]; exact List.mem_cons_of_mem _ hbm), x3⟩
  · show RInv a.used blk.usable.base (collRanges arr arrLen c live)
    rw [hu]
    refine ⟨h.rinv.disj, fun r hr => ?_, ?_⟩
    · obtain ⟨b, hbm, hin⟩ := h.rinv.inside r hr
      exact ⟨b, List.mem_cons_of_mem _ hbm, hin⟩
    · intro b0' rest' hu' r hr hib
      obtain ⟨rfl, rfl⟩ := List.cons.inj hu'
      obtain ⟨b, hbm, hin⟩ := h.rinv.inside r hr
      have hd := (List.pairwise_cons.mp hb.2).1 b hbm
      have hwb := hb.1 b (List.mem_cons_of_mem _ hbm)
      unfold Blk.Wf at hwb
      unfold Blk.Disj at hd
      unfold InBlk at hin hib
      rw [implOff_eq] at hin hib
      omega

/-- `reserve_memory(pool, capacity)`: the invariant is kept in every outcome; a returned region is free -/
theorem CInv.reserve_spec (cfg : Cfg) {arr arrLen : Nat} {c : Coll} {live : List (Nat × Nat)} (h : CInv arr arrLen c live)
    (hf : cfg.fence ≤ 2 ^ 32) (i : Nat) {cap : Nat} (hcap : cap < 2 ^ 64) (env : List (Option Nat))
    (hb : BlocksOk (c.reserve cfg i cap env).1.st.arena.used) :
    CInv arr arrLen (c.reserve cfg i cap env).1.st live ∧
      ∀ mem, (c.reserve cfg i cap env).2 = some mem → RegionFree arr arrLen (c.reserve cfg i cap env).1.st live mem cap := by
  obtain ⟨b0, rest, hu, hbe, t1, t2, t3, t4⟩ := h.topFacts
  unfold Coll.reserve at hb ⊢
  rw [hbe] at hb ⊢
  simp only at hb ⊢
  cases hfa : fixedAllocate c.cur (b0.base + b0.size) cap maxAlign cfg.fence with
  | some pc =>
    obtain ⟨p, cur'⟩ := pc
    simp only
    have hfa' := hfa
    rw [maxAlign_eq] at hfa'
    obtain ⟨_, f2, _, f4, f5⟩ := fixedAllocate_spec (k := 4) (by omega) t2 (by omega) hcap (by omega) hfa'
    obtain ⟨x1, x2⟩ := h.bump (p := p) (size := cap) (cur' := cur') (by omega) (by omega) (top_unique hu f5)
    exact ⟨x1, fun mem hm => by cases hm; exact x2⟩
  | none =>
    simp only [hfa] at hb ⊢
    cases hir : c.insertRest cfg i with
    | none => exact ⟨h, fun mem hm => by cases hm⟩
    | some c1 =>
      simp only [hir] at hb ⊢
      have h1 := h.insertRest_spec cfg hir
      cases ha : c1.arena.allocateBlock env with
      | envMissing => exact ⟨h1, fun mem hm => by cases hm⟩
      | fail a ex ev _ =>
        simp only
        exact ⟨h1.congr (Arena.allocateBlock_fail ha) rfl rfl rfl rfl, fun mem hm => by cases hm⟩
      | ok a b ev _ =>
        obtain ⟨blk, hua, rfl⟩ := Arena.allocateBlock_ok ha
        simp only [ha] at hb ⊢
        have hba : BlocksOk a.used := by
          cases hfa2 : fixedAllocate blk.usable.base (blk.usable.base + blk.usable.size) cap maxAlign cfg.fence <;>
            simp only [hfa2] at hb <;> exact hb
        have h2 := h1.newBlock hua hba
        have hw := hba.1 blk (by rw [hua]; simp)
        unfold Blk.Wf at hw
        have he : blk.usable.base + blk.usable.size = blk.base + blk.size := by unfold Blk.usable; simp only; omega
        have hbase : blk.usable.base = blk.base + implOff := rfl
        cases hfa2 : fixedAllocate blk.usable.base (blk.usable.base + blk.usable.size) cap maxAlign cfg.fence with
        | none => exact ⟨h2, fun mem hm => by cases hm⟩
        | some pc =>
          obtain ⟨p, cur'⟩ := pc
          simp only
          have hfa' := hfa2
          rw [maxAlign_eq, he] at hfa'
          have hio := implOff_eq
          obtain ⟨_, f2, _, f4, f5⟩ := fixedAllocate_spec (k := 4) (by omega) (by omega) (by omega) hcap (by omega) hfa'
          obtain ⟨x1, x2⟩ := h2.bump (p := p) (size := cap) (cur' := cur') (by show blk.usable.base ≤ p; omega) (by omega)
            (top_unique (b0 := blk) (rest := c1.arena.used) hua f5)
          exact ⟨x1, fun mem hm => by cases hm; exact x2⟩

/-! ### `allocate_node`, `try_allocate_node` -/

/-- the caller's ledger after a request of `size` bytes -/
def ledgerAfter (live : List (Nat × Nat)) (size : Nat) : Out → List (Nat × Nat)
  | .ok a => (a, size) :: live
  | _ => live

theorem growCapacity_lt (l : AnyList) (fuel cap : Nat) (hc : cap < 2 ^ 64) : growCapacity l fuel cap < 2 ^ 64 := by
  induction fuel generalizing cap with
  | zero => exact hc
  | succ f ih =>
    unfold growCapacity
    split
    · exact ih _ (by unfold add64; exact BitVec.isLt _)
    · exact hc

theorem Coll.takeNode_arena (c : Coll) (i : Nat) (ev : List UpEv) : (c.takeNode i ev).st.arena = c.arena := by
  unfold Coll.takeNode
  split
  · split <;> rfl
  · rfl

theorem Coll.refill_arena (cfg : Cfg) (c : Coll) (i dc : Nat) (env : List (Option Nat)) :
    (c.refill cfg i dc env).st.arena = (c.reserve cfg i dc env).1.st.arena := by
  unfold Coll.refill
  split
  · rename_i r mem hres
    rw [hres]
    split
    · split <;> rfl
    · rfl
  · rename_i r hres
    rw [hres]

theorem Coll.refill_ext (cfg : Cfg) (c : Coll) (i dc : Nat) (env : List (Option Nat)) : CExt c (c.refill cfg i dc env).st := by
  have h := Coll.reserve_ext cfg c i dc env
  unfold Coll.refill
  split
  · rename_i r mem hres
    rw [hres] at h
    split
    · split
      · exact h.trans (CExt.setList _ _ _)
      · exact h
      · exact h
    · exact h
  · rename_i r hres
    rw [hres] at h
    exact h

theorem Coll.reserve_ne_ok (cfg : Cfg) (c : Coll) (i dc : Nat) (env : List (Option Nat)) (a : Nat) :
    (c.reserve cfg i dc env).1.out ≠ .ok a := by
  unfold Coll.reserve
  split
  · simp
  · split
    · simp
    · split
      · simp
      · split
        · simp
        · simp
        · simp only; split <;> simp

theorem Coll.refill_ne_ok (cfg : Cfg) (c : Coll) (i dc : Nat) (env : List (Option Nat)) (a : Nat) :
    (c.refill cfg i dc env).out ≠ .ok a := by
  have h := Coll.reserve_ne_ok cfg c i dc env a
  unfold Coll.refill
  split
  · rename_i r mem hres
    rw [hres] at h
    split
    · split
      · exact h
      · simp
      · simp
    · simp
  · rename_i r hres
    rw [hres] at h
    exact h

/-- `pool.allocate()` on the bucket of `size` -/
theorem CInv.takeNode {arr arrLen : Nat} {c0 c : Coll} {live : List (Nat × Nat)} (h : CInv arr arrLen c live)
    (hx : CExt c0 c) (size : Nat) (ev : List UpEv) :
    CInv arr arrLen (c.takeNode (c0.listIndex size) ev).st (ledgerAfter live size (c.takeNode (c0.listIndex size) ev).out) := by
  rw [← hx.listIndex size]
  unfold Coll.takeNode
  cases hl : c.lists[c.listIndex size]? with
  | none => exact h
  | some l1 =>
    simp only
    cases hal : l1.allocate with
    | none => exact h
    | some r =>
      obtain ⟨l2, a⟩ := r
      exact h.pop hl hal

/-- refilling an empty bucket keeps the invariant, whatever the outcome -/
theorem CInv.refill (cfg : Cfg) {arr arrLen : Nat} {c : Coll} {live : List (Nat × Nat)} (h : CInv arr arrLen c live)
    (hf : cfg.fence ≤ 2 ^ 32) (i : Nat) {dc : Nat} (hdc : dc < 2 ^ 64) (env : List (Option Nat))
    (hb : BlocksOk (c.refill cfg i dc env).st.arena.used) : CInv arr arrLen (c.refill cfg i dc env).st live := by
  rw [Coll.refill_arena] at hb
  obtain ⟨h1, h2⟩ := h.reserve_spec cfg hf i hdc env hb
  unfold Coll.refill
  split
  · rename_i r mem hres
    rw [hres] at h1 h2
    simp only at h1 h2
    split
    · rename_i l1 hl1
      split
      · rename_i l2 hins
        exact h1.insertFree cfg hl1 (h2 mem rfl) hins
      · exact h1
      · exact h1
    · exact h1
  · rename_i r hres
    rw [hres] at h1
    exact h1

/-- **`allocate_node(size)`** -/
theorem Coll.allocateNode_inv (cfg : Cfg) {arr arrLen : Nat} {c : Coll} {live : List (Nat × Nat)} (h : CInv arr arrLen c live)
    (hf : cfg.fence ≤ 2 ^ 32) (size : Nat) (env : List (Option Nat))
    (hb : BlocksOk (c.allocateNode cfg size env).st.arena.used) :
    CInv arr arrLen (c.allocateNode cfg size env).st (ledgerAfter live size (c.allocateNode cfg size env).out) := by
  obtain ⟨b0, rest, hu, hbe, t1, t2, t3, t4⟩ := h.topFacts
  unfold Coll.allocateNode at hb ⊢
  split
  · exact h
  · rename_i hsz
    simp only [hsz, if_false] at hb
    cases hl : c.lists[c.listIndex size]? with
    | none => simp only [hl]; exact h
    | some l =>
    cases hdc0 : c.defCapacity with
    | none => simp only [hl, hdc0]; exact h
    | some dc0 =>
      simp only [hl, hdc0] at hb ⊢
      have hdc : growCapacity l 64 dc0 < 2 ^ 64 := by
        apply growCapacity_lt
        unfold Coll.defCapacity Arena.currentBlock at hdc0
        rw [hu] at hdc0
        simp only [List.head?_cons, Option.map_some] at hdc0
        split at hdc0
        · cases hdc0
        · cases hdc0
          have : (b0.usable.size / c.lists.length) ≤ b0.usable.size := Nat.div_le_self _ _
          unfold Blk.usable at this ⊢
          simp only at this ⊢
          omega
      by_cases hemp : l.empty
      · simp only [hemp, if_true] at hb ⊢
        have hx := Coll.refill_ext cfg c (c.listIndex size) (growCapacity l 64 dc0) env
        cases hout : (c.refill cfg (c.listIndex size) (growCapacity l 64 dc0) env).out with
        | done =>
          simp only [hout] at hb ⊢
          rw [Coll.takeNode_arena] at hb
          exact (h.refill cfg hf _ hdc env hb).takeNode hx size _
        | ok a => exact absurd hout (Coll.refill_ne_ok cfg c _ _ env a)
        | _ =>
          simp only [hout] at hb ⊢
          exact h.refill cfg hf _ hdc env hb
      · simp only [hemp] at hb ⊢
        exact h.takeNode (CExt.refl c) size []

/-- **`try_allocate_node(size)`** -/
theorem Coll.tryAllocateNode_inv (cfg : Cfg) {arr arrLen : Nat} {c : Coll} {live : List (Nat × Nat)} (h : CInv arr arrLen c live)
    (hf : cfg.fence ≤ 2 ^ 32) (size : Nat) :
    CInv arr arrLen (c.tryAllocateNode cfg size).st (ledgerAfter live size (c.tryAllocateNode cfg size).out) := by
  obtain ⟨b0, rest, hu, hbe, t1, t2, t3, t4⟩ := h.topFacts
  unfold Coll.tryAllocateNode
  split
  · exact h
  · cases hl : c.lists[c.listIndex size]? with
    | none => simp only [hl]; exact h
    | some l =>
    cases hdc0 : c.defCapacity with
    | none => simp only [hl, hdc0]; exact h
    | some dc0 =>
      simp only [hl, hdc0]
      have hdc : growCapacity l 64 dc0 < 2 ^ 64 := by
        apply growCapacity_lt
        unfold Coll.defCapacity Arena.currentBlock at hdc0
        rw [hu] at hdc0
        simp only [List.head?_cons, Option.map_some] at hdc0
        split at hdc0
        · cases hdc0
        · cases hdc0
          have : (b0.usable.size / c.lists.length) ≤ b0.usable.size := Nat.div_le_self _ _
          unfold Blk.usable at this ⊢
          simp only at this ⊢
          omega
      have key : ∀ c1, CInv arr arrLen c1 live → CExt c c1 →
          CInv arr arrLen
            (match c1.lists[c.listIndex size]? with
              | some l1 => if l1.empty then (⟨c1, .null, []⟩ : PRes Coll)
                  else (match l1.allocate with
                    | some (l2, a) => ⟨c1.setList (c.listIndex size) l2, .ok a, []⟩
                    | none => ⟨c1, .crash, []⟩)
              | none => ⟨c1, .crash, []⟩).st
            (ledgerAfter live size
              (match c1.lists[c.listIndex size]? with
              | some l1 => if l1.empty then (⟨c1, .null, []⟩ : PRes Coll)
                  else (match l1.allocate with
                    | some (l2, a) => ⟨c1.setList (c.listIndex size) l2, .ok a, []⟩
                    | none => ⟨c1, .crash, []⟩)
              | none => ⟨c1, .crash, []⟩).out) := by
        intro c1 h1 hx
        rw [← hx.listIndex size]
        cases hl1 : c1.lists[c1.listIndex size]? with
        | none => exact h1
        | some l1 =>
          simp only
          split
          · exact h1
          · cases hal : l1.allocate with
            | none => exact h1
            | some r => obtain ⟨l2, a⟩ := r; exact h1.pop hl1 hal
      by_cases hemp : l.empty
      · simp only [hemp, if_true]
        cases htr : c.tryReserve cfg (c.listIndex size) (growCapacity l 64 dc0) with
        | none => exact h
        | some c1 =>
          exact key c1 (h.tryReserve_spec cfg hf hdc htr) (Coll.tryReserve_ext cfg c _ _ htr).1
      · simp only [hemp]
        exact key c h (CExt.refl c)

/-! ### one step, a whole history -/

theorem Coll.takeNode_ext (c : Coll) (i : Nat) (ev : List UpEv) : CExt c (c.takeNode i ev).st := by
  unfold Coll.takeNode
  split
  · split
    · exact CExt.setList _ _ _
    · exact CExt.refl _
  · exact CExt.refl _

theorem Coll.allocateNode_ext (cfg : Cfg) (c : Coll) (size : Nat) (env : List (Option Nat)) :
    CExt c (c.allocateNode cfg size env).st := by
  unfold Coll.allocateNode
  split
  · exact CExt.refl _
  · cases hl : c.lists[c.listIndex size]? with
    | none => simp only [hl]; exact CExt.refl _
    | some l =>
    cases hdc0 : c.defCapacity with
    | none => simp only [hl, hdc0]; exact CExt.refl _
    | some dc0 =>
      simp only [hl, hdc0]
      by_cases hemp : l.empty
      · simp only [hemp, if_true]
        have hx := Coll.refill_ext cfg c (c.listIndex size) (growCapacity l 64 dc0) env
        split
        · exact hx.trans (Coll.takeNode_ext _ _ _)
        · exact hx
      · simp only [hemp]
        exact Coll.takeNode_ext _ _ _

theorem Coll.tryAllocateNode_ext (cfg : Cfg) (c : Coll) (size : Nat) : CExt c (c.tryAllocateNode cfg size).st := by
  unfold Coll.tryAllocateNode
  split
  · exact CExt.refl _
  · cases hl : c.lists[c.listIndex size]? with
    | none => simp only [hl]; exact CExt.refl _
    | some l =>
    cases hdc0 : c.defCapacity with
    | none => simp only [hl, hdc0]; exact CExt.refl _
    | some dc0 =>
      simp only [hl, hdc0]
      have key : ∀ c1, CExt c c1 → CExt c
            (match c1.lists[c.listIndex size]? with
              | some l1 => if l1.empty then (⟨c1, .null, []⟩ : PRes Coll)
                  else (match l1.allocate with
                    | some (l2, a) => ⟨c1.setList (c.listIndex size) l2, .ok a, []⟩
                    | none => ⟨c1, .crash, []⟩)
              | none => ⟨c1, .crash, []⟩).st := by
        intro c1 hx
        split
        · split
          · exact hx
          · split
            · exact hx.trans (CExt.setList _ _ _)
            · exact hx
        · exact hx
      by_cases hemp : l.empty
      · simp only [hemp, if_true]
        cases htr : c.tryReserve cfg (c.listIndex size) (growCapacity l 64 dc0) with
        | none => exact CExt.refl _
        | some c1 => exact key c1 (Coll.tryReserve_ext cfg c _ _ htr).1
      · simp only [hemp]
        exact key c (CExt.refl c)

theorem Coll.deallocateNode_ext (cfg : Cfg) (c : Coll) (a size : Nat) : CExt c (c.deallocateNode cfg a size).st := by
  unfold Coll.deallocateNode
  simp only
  split
  · exact CExt.refl _
  · split
    · exact CExt.setList _ _ _
    · exact CExt.refl _
    · exact CExt.refl _

theorem GColl.step_ext (cfg : Cfg) (e : EnvS) (g : GColl) (k : Nat) (op : COpn) : CExt g.c (g.step cfg e k op).1.c := by
  unfold GColl.step GColl.exec
  cases op with
  | allocNode s => exact Coll.allocateNode_ext cfg g.c s _
  | tryAllocNode s => exact Coll.tryAllocateNode_ext cfg g.c s
  | dealloc i =>
    simp only
    split
    · exact CExt.refl _
    · exact Coll.deallocateNode_ext cfg g.c _ _

/-- an uncached collection arena never releases a block before its destruction -/
theorem GColl.run_ext (cfg : Cfg) (e : EnvS) (ops : List COpn) : ∀ (g : GColl) (k : Nat), CExt g.c (g.run cfg e k ops).1.c := by
  induction ops with
  | nil => intro g k; exact CExt.refl _
  | cons op ops ih => intro g k; exact (GColl.step_ext cfg e g k op).trans (ih _ _)

theorem GColl.step_inv (cfg : Cfg) (e : EnvS) {arr arrLen : Nat} (g : GColl) (k : Nat) (op : COpn)
    (h : CInv arr arrLen g.c g.live) (hf : cfg.fence ≤ 2 ^ 32) (hb : BlocksOk (g.step cfg e k op).1.c.arena.used) :
    CInv arr arrLen (g.step cfg e k op).1.c (g.step cfg e k op).1.live := by
  unfold GColl.step GColl.exec at hb ⊢
  cases op with
  | allocNode s =>
    simp only [GColl.ledger] at hb ⊢
    have := Coll.allocateNode_inv cfg h hf s [e k] hb
    cases hout : (g.c.allocateNode cfg s [e k]).out <;> (rw [hout] at this; exact this)
  | tryAllocNode s =>
    simp only [GColl.ledger] at hb ⊢
    have := Coll.tryAllocateNode_inv cfg h hf s
    cases hout : (g.c.tryAllocateNode cfg s).out <;> (rw [hout] at this; exact this)
  | dealloc i =>
    simp only [GColl.ledger] at hb ⊢
    cases hi : g.live[i]? with
    | none =>
      simp only
      rw [List.eraseIdx_of_length_le (by simpa using hi)]
      exact h
    | some as =>
      obtain ⟨a, s⟩ := as
      simp only
      exact (Coll.deallocateNode_inv cfg h hi).2.2

/-- **Preservation over a history** of node operations on a collection over intrusive lists. The environment's part
is the hypothesis on the *final* used-block list, which contains every block the collection ever held. -/
theorem GColl.run_inv (cfg : Cfg) (e : EnvS) {arr arrLen : Nat} (hf : cfg.fence ≤ 2 ^ 32) (ops : List COpn) :
    ∀ (g : GColl) (k : Nat), CInv arr arrLen g.c g.live → BlocksOk (g.run cfg e k ops).1.c.arena.used →
      CInv arr arrLen (g.run cfg e k ops).1.c (g.run cfg e k ops).1.live := by
  induction ops with
  | nil => intro g k h _; exact h
  | cons op ops ih =>
    intro g k h hb
    have hstep := GColl.step_inv cfg e g k op h hf (hb.suffix (GColl.run_ext cfg e ops _ _).used)
    exact ih _ _ hstep hb

/-- every release of a live node succeeds, whatever happened before -/
theorem GColl.release_succeeds (cfg : Cfg) {arr arrLen : Nat} {g : GColl} (h : CInv arr arrLen g.c g.live) {i a s : Nat}
    (hi : g.live[i]? = some (a, s)) : (g.c.deallocateNode cfg a s).out = .done ∧ (g.c.deallocateNode cfg a s).ev = [] :=
  ⟨(Coll.deallocateNode_inv cfg h hi).1, (Coll.deallocateNode_inv cfg h hi).2.1⟩

/-! ### construction -/

theorem cellRanges_nil_of {lists : List AnyList} (h : ∀ l ∈ lists, l.cells = []) : cellRanges lists = [] := by
  unfold cellRanges
  rw [List.flatMap_eq_nil_iff]
  intro l hl
  unfold listRanges
  rw [h l hl]; rfl

/-- **A freshly constructed collection over either intrusive list satisfies the invariant**, with the list array at
the address the constructor carved from the first block. `kind` is `"free"` (`node_pool`) or `"ord"` (`array_pool`). -/
theorem Coll.create_inv (cfg : Cfg) (src : Src) (kind : String) (hk : kind = "free" ∨ kind = "ord") (pol : Policy)
    (arrays : Bool) (maxNode : Nat) (env : List (Option Nat)) (hf : cfg.fence ≤ 2 ^ 32)
    (hn : (noElements pol (BitVec.ofNat 64 (minElemOf kind)) (BitVec.ofNat 64 maxNode)).toNat * sizeofList kind < 2 ^ 64)
    {c : Coll} {out : Out} {ev : List UpEv} (h : Coll.create cfg src kind pol arrays maxNode env = (some c, out, ev))
    (hb : BlocksOk c.arena.used) :
    ∃ arr arrLen, CInv arr arrLen c [] := by
  unfold Coll.create at h
  simp only at h
  cases ha : Arena.allocateBlock { src := src, isCached := false } env with
  | envMissing => simp [ha] at h
  | fail a ex ev' env' => simp [ha] at h
  | ok a' b ev' env' =>
    obtain ⟨blk, hua, rfl⟩ := Arena.allocateBlock_ok ha
    simp only [ha] at h
    generalize hnn : (noElements pol (BitVec.ofNat 64 (minElemOf kind)) (BitVec.ofNat 64 maxNode)).toNat = n at h hn
    have hal : alignofList kind = 2 ^ 3 := by
      rcases hk with rfl | rfl <;> decide
    have hsz : sizeofList kind = 24 ∨ sizeofList kind = 48 := by
      rcases hk with rfl | rfl
      · left; decide
      · right; decide
    rw [mul64_eq_of_lt hn] at h
    cases hfa : fixedAllocate blk.usable.base (blk.usable.base + blk.usable.size) (n * sizeofList kind) (alignofList kind) cfg.fence with
    | none => simp [hfa] at h
    | some pc =>
      obtain ⟨arr, cur'⟩ := pc
      simp only [hfa] at h
      -- both remaining outcomes carry the same collection
      have hc : c = ⟨a', cur', pol, minElemOf kind, (List.range n).map (Coll.mkList kind pol arr), arrays, 0⟩ := by
        split at h
        · simp only [Prod.mk.injEq, Option.some.injEq] at h; exact h.1.symm
        · split at h
          · simp at h
          · simp only [Prod.mk.injEq, Option.some.injEq] at h; exact h.1.symm
      have hused : c.arena.used = [blk] := by rw [hc]; simpa using hua
      rw [hused] at hb
      have hw := hb.1 blk (by simp)
      unfold Blk.Wf at hw
      have he : blk.usable.base + blk.usable.size = blk.base + blk.size := by unfold Blk.usable; simp only; omega
      have hbase : blk.usable.base = blk.base + implOff := rfl
      have hio := implOff_eq
      rw [hal, he] at hfa
      obtain ⟨_, f2, _, f4, f5⟩ := fixedAllocate_spec (k := 3) (by omega) (by omega) (by omega) hn (by omega) hfa
      have hlists : ∀ (i : Nat) (l : AnyList), c.lists[i]? = some l → i < n ∧ l = Coll.mkList kind pol arr i := by
        intro i l hl
        rw [hc] at hl
        simp only [List.getElem?_map, Option.map_eq_some_iff] at hl
        obtain ⟨j, hj, hl⟩ := hl
        have hij : i < n ∧ j = i := by
          by_cases hlt : i < n
          · rw [List.getElem?_range hlt] at hj; exact ⟨hlt, (Option.some.inj hj).symm⟩
          · rw [List.getElem?_eq_none (by simpa using hlt)] at hj; cases hj
        obtain ⟨hlt, rfl⟩ := hij
        exact ⟨hlt, hl.symm⟩
      have hmk : ∀ i, (kind = "free" ∧ ∃ ns, Coll.mkList kind pol arr i = .free (FreeList.new ns)) ∨
          (kind = "ord" ∧ ∃ ns, Coll.mkList kind pol arr i = .ord (OrdList.new ns (arr + i * sizeofList kind) (arr + i * sizeofList kind + 8))) := by
        intro i
        rcases hk with rfl | rfl
        · left
          refine ⟨rfl, (pol.sizeFromIndex (BitVec.ofNat 64 i + minSizeIndex pol (BitVec.ofNat 64 (minElemOf "free")))).toNat, ?_⟩
          simp only [Coll.mkList, if_true]
        · right
          refine ⟨rfl, (pol.sizeFromIndex (BitVec.ofNat 64 i + minSizeIndex pol (BitVec.ofNat 64 (minElemOf "ord")))).toNat, ?_⟩
          have hne : ¬ ("ord" = "free") := by decide
          simp only [Coll.mkList, hne, if_false, if_true]
      have hcells : ∀ l ∈ c.lists, l.cells = [] := by
        intro l hl
        obtain ⟨i, hi⟩ := List.getElem?_of_mem hl
        rw [(hlists i l hi).2]
        rcases hmk i with ⟨_, ns, e⟩ | ⟨_, ns, e⟩ <;> (rw [e]; rfl)
      refine ⟨arr, n * sizeofList kind, ?_⟩
      refine ⟨by rw [hused]; exact hb, ⟨blk, [], hused, ?_, ?_⟩, ?_, ?_, ?_, by intro as has; cases has⟩
      · rw [hc]; show blk.usable.base ≤ cur'; omega
      · rw [hc]; show cur' ≤ blk.base + blk.size; omega
      · intro i l hl
        obtain ⟨hlt, rfl⟩ := hlists i l hl
        rcases hmk i with ⟨_, ns, e⟩ | ⟨_, ns, e⟩ <;> rw [e]
        · refine ⟨by intro P; simp [AnyList.obj], by simp [AnyList.SInv, FreeList.new], ?_⟩
          have := (intrusiveNodeSize_ge ns).2
          show 0 < intrusiveNodeSize ns
          omega
        · refine ⟨by intro P; simp [AnyList.obj], ?_, ?_⟩
          · exact OrdList.new_inv _ _ (by omega)
          · have := (intrusiveNodeSize_ge ns).2
            show 0 < intrusiveNodeSize ns
            omega
      · intro i l hl B hB
        obtain ⟨hlt, rfl⟩ := hlists i l hl
        rcases hmk i with ⟨_, ns, e⟩ | ⟨hko, ns, e⟩ <;> rw [e] at hB
        · simp [AnyList.obj] at hB
        · simp only [AnyList.obj, OrdList.new, AnyList.ListObj.ordered.injEq] at hB
          subst hB
          have : sizeofList kind = 48 := by rw [hko]; decide
          have h2 : (i + 1) * sizeofList kind ≤ n * sizeofList kind := Nat.mul_le_mul_right _ hlt
          rw [Nat.add_mul] at h2
          omega
      · unfold collRanges
        rw [cellRanges_nil_of hcells]
        simp only [liveRanges, List.map_nil, List.append_nil]
        rw [hused]
        refine ⟨by simp, ?_, ?_⟩
        · intro r hr
          simp only [List.mem_singleton] at hr
          subst hr
          exact ⟨blk, by simp, by unfold InBlk; simp only; omega⟩
        · intro b0 rest hu' r hr _
          simp only [List.mem_singleton] at hr
          subst hr
          rw [hc]
          show arr + n * sizeofList kind ≤ cur'
          omega

/-- shape of a constructed collection: the bucket key and the lists the constructor builds -/
theorem Coll.create_shape (cfg : Cfg) (src : Src) (kind : String) (pol : Policy) (arrays : Bool) (maxNode : Nat)
    (env : List (Option Nat)) {c : Coll} {out : Out} {ev : List UpEv}
    (h : Coll.create cfg src kind pol arrays maxNode env = (some c, out, ev)) :
    c.policy = pol ∧ c.minElem = minElemOf kind ∧ ∃ arr n, c.lists = (List.range n).map (Coll.mkList kind pol arr) := by
  unfold Coll.create at h
  simp only at h
  split at h
  · simp at h
  · simp at h
  · split at h
    · simp at h
    · split at h
      · simp only [Prod.mk.injEq, Option.some.injEq] at h
        rw [← h.1]; exact ⟨rfl, rfl, _, _, rfl⟩
      · split at h
        · simp at h
        · simp only [Prod.mk.injEq, Option.some.injEq] at h
          rw [← h.1]; exact ⟨rfl, rfl, _, _, rfl⟩

end MemVerif.Model
